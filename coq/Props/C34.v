(* C34 — placeholder while the proofs are being written (replaced below). *)
From Coq Require Import List NArith Bool.
From HV Require Import Model.Balance.
Theorem C34_placeholder : parse_balance (format_balance 8200000000%N) = POk 8200000000%N.
Proof. reflexivity. Qed.
Print Assumptions C34_placeholder.
