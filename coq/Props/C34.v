(* C34 — Balance formatting and parsing round-trip. Property theorems only.
   Text = list of character codes ('0' = 48, '.' = 46); dval s = decimal value of a digit string;
   two64 = 2^64; POk / PSyntax / PRange = value / strconv.ErrSyntax / strconv.ErrRange. *)
From Coq Require Import List NArith Bool.
Import ListNotations.
From HV Require Import Model.Balance Proofs.Balance_proofs.
Local Open Scope N_scope.

(* the amount in base units denoted by  w "." f  (w, f digit strings, 9 decimals) *)
Definition value_of (w f : text) : N := dval w * 10 ^ 9 + dval f * 10 ^ (9 - N.of_nat (length f)).

(* Every 64-bit balance formats to a string that parses back to the same balance. *)
Theorem C34_roundtrip : forall b, b < 2 ^ 64 -> parse_balance (format_balance b) = POk b.
Proof. exact format_parse. Qed.
Print Assumptions C34_roundtrip.

(* The exact result of parsing  w "." f  for ALL digit strings w and f (any length, leading zeros,
   empty parts): syntax error if both parts are empty; range error if the whole part alone does
   not fit 64 bits; syntax error for more than 9 fractional digits; otherwise exactly
   w*10^9 + f*10^(9-|f|), or a range error if that does not fit 64 bits. *)
Theorem C34_parse_exact : forall w f, all_digits w -> all_digits f ->
  parse_balance (w ++ 46 :: f) =
    match w, f with
    | [], [] => PSyntax
    | _, _ => if 2 ^ 64 <=? dval w then PRange
              else if Nat.ltb 9 (length f) then PSyntax
              else if value_of w f <? 2 ^ 64 then POk (value_of w f) else PRange
    end.
Proof.
  intros w f Hw Hf. rewrite (parse_balance_dot_exact w f Hw Hf).
  unfold parts_result, value_of. rewrite amount_pow. reflexivity.
Qed.
Print Assumptions C34_parse_exact.

(* The same without a '.' : a plain digit string is a whole number of tokens. *)
Theorem C34_parse_int_exact : forall w, all_digits w ->
  parse_balance w =
    match w with
    | [] => PSyntax
    | _ => if 2 ^ 64 <=? dval w then PRange
           else if dval w * 10 ^ 9 <? 2 ^ 64 then POk (dval w * 10 ^ 9) else PRange
    end.
Proof.
  intros w Hw. rewrite (parse_balance_int_exact w Hw). unfold parts_result.
  destruct w as [|c r]; [reflexivity|].
  rewrite amount_pow. change (dval []) with 0. rewrite N.mul_0_l, N.add_0_r. reflexivity.
Qed.
Print Assumptions C34_parse_int_exact.

(* Nothing else is accepted: an accepted string is a digit string, optionally followed by '.' and
   at most 9 digits (not both parts empty), and the result is exactly the denoted amount. So
   signs, spaces, exponents, a second '.', any non-digit, > 9 fractional digits are all rejected. *)
Theorem C34_parse_sound : forall s v, parse_balance s = POk v ->
  exists w f, (s = w /\ f = [] \/ s = w ++ 46 :: f) /\
              all_digits w /\ all_digits f /\ (w <> [] \/ f <> []) /\ (length f <= 9)%nat /\
              v = value_of w f /\ v < 2 ^ 64.
Proof.
  intros s v H. destruct (parse_balance_sound s v H) as (w & f & H1 & H2 & H3 & H4 & H5 & H6 & H7).
  exists w, f. unfold value_of. rewrite <- amount_pow. tauto.
Qed.
Print Assumptions C34_parse_sound.

(* ---- non-vacuity ------------------------------------------------------------------------- *)

Example C34_roundtrip_2_53_1 : parse_balance (format_balance 9007199254740993) = POk 9007199254740993.
Proof. vm_compute. reflexivity. Qed.
Example C34_roundtrip_max : parse_balance (format_balance 18446744073709551615) = POk 18446744073709551615.
Proof. vm_compute. reflexivity. Qed.
Example C34_format_example : format_balance 8200000000 = [56; 46; 50; 48; 48; 48; 48; 48; 48; 48; 48].
Proof. vm_compute. reflexivity. Qed.
(* "8.2" is exactly 8200000000 (the float64 code returned 8199999999) *)
Example C34_parse_8_2 : parse_balance [56; 46; 50] = POk 8200000000.
Proof. vm_compute. reflexivity. Qed.
Example C34_digits_example : all_digits [56] /\ all_digits [50].
Proof. split; repeat constructor; discriminate. Qed.
(* 18446744073.709551616 overflows by one; ...615 is the maximum *)
Example C34_overflow_by_one :
  parse_balance [49;56;52;52;54;55;52;52;48;55;51;46;55;48;57;53;53;49;54;49;54] = PRange /\
  parse_balance [49;56;52;52;54;55;52;52;48;55;51;46;55;48;57;53;53;49;54;49;53] = POk 18446744073709551615.
Proof. vm_compute. split; reflexivity. Qed.
Example C34_rejects : parse_balance [] = PSyntax /\ parse_balance [46] = PSyntax /\
  parse_balance [43; 49] = PSyntax /\ parse_balance [49; 46; 50; 46; 51] = PSyntax /\
  parse_balance [48; 46; 49; 50; 51; 52; 53; 54; 55; 56; 57; 48] = PSyntax.
Proof. vm_compute. repeat split. Qed.
Example C34_sound_example : parse_balance [46; 53] = POk 500000000.
Proof. vm_compute. reflexivity. Qed.
