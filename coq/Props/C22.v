(* C22 - property theorems (being filled in). *)
From Coq Require Import List NArith ZArith Bool.
From HV Require Import Model.ValidityWindow Model.Backfill.
