(* C22 - validity-window backfill trusts only the hash-linked ancestry of the sync target.
   Property theorems only.

   Objects (Model/Backfill.v, Model/ValidityWindow.v): the FetchBlocks loop [client] of
   BlockFetcherClient and [syncer] (Syncer.Start: populate from the local chain index, then
   SaveHistorical + AcceptHistorical for every block the client emits), run against a FAULT SEQUENCE
   [resps]: one entry per request, either an error ([r_blocks = None]) or a list of raw byte strings
   of any content (unparsable, forged, stale, reordered, truncated, empty), together with the value
   of the shared minTimestamp when the call returns.  [parse] is the block parser.

   Hash oracle (hypothesis of every theorem): [tree] maps an id to THE block with that id, and every
   parseable byte string parses to a block stored under its own id
       forall r b, parse r = Some b -> tree (b_id b) = Some b
   (a block id is the hash of the block bytes).  [ancestors tree n b] = the first n blocks of the
   parent-hash chain of b through [tree], nearest first; [chain_from tree b l] says the same
   relationally; [below_last min l] = the last block of l has ts < min and no other has.

   The emap behind TimeValidityWindow never stores an item with expiry 0 (emap.add returns early,
   see C09's known finding F-23), hence the "e <> 0" in the tracked sets below. *)
From Coq Require Import List NArith ZArith Bool Lia.
Import ListNotations.
From HV Require Import Model.ValidityWindow Model.Backfill Proofs.ValidityWindow_proofs Proofs.Backfill_proofs.
Local Open Scope Z_scope.

(* Whatever the peers answer, with any (even changing) minimum: the blocks the client emits are, in
   order, the first k hash-linked ancestors of the block it started from, for some k; each of them
   was parsed from bytes some peer sent and is the block the tree holds for its id.  So nothing
   unparsable, unlinked, out of order or forged is ever emitted. *)
Theorem C22_prefix : forall (R : Type) (parse : R -> option block) (tree : index),
  (forall r b, parse r = Some b -> tree (b_id b) = Some b) ->
  forall (start : block) (resps : list (resp R)) (min : Z),
  let out := fst (fst (client parse resps min start [] [])) in
  out = ancestors tree (length out) start /\
  (forall b, In b out -> from_resps R parse resps b /\ tree (b_id b) = Some b).
Proof. exact client_prefix. Qed.
Print Assumptions C22_prefix.

(* Syncer.Start on any local index that is part of the tree, any pre-existing window, any fault
   sequence: the locally found blocks followed by the saved blocks are the hash-linked ancestors of
   the TARGET, nearest first (no gap, nothing else saved); and an item id is tracked afterwards
   (IsRepeat / emap.Contains) iff it was tracked after the local populate or it is a
   non-zero-expiry item of a saved block. *)
Theorem C22_saved_tracked : forall (R : Type) (parse : R -> option block) (tree : index),
  (forall r b, parse r = Some b -> tree (b_id b) = Some b) ->
  forall (idx : index) (w : win) (W : Z) (target : block) (resps : list (resp R)),
  sub idx tree ->
  let p := populate idx w W target in
  let s := syncer parse idx w W target resps in
  let saved := snd (fst (fst s)) in
  exists local,
    snd (fst p) = rev local ++ [target] /\
    local ++ saved = ancestors tree (length (local ++ saved)) target /\
    (forall b, In b saved -> from_resps R parse resps b /\ tree (b_id b) = Some b) /\
    (forall x, em_has (seen (fst (fst (fst s)))) x = true <->
               em_has (seen (fst (fst p))) x = true \/
               exists b e, In b saved /\ In (x, e) (b_items b) /\ e <> 0).
Proof.
  intros R parse tree ORACLE idx w W target resps Hsub.
  destruct (syncer_spec R parse tree ORACLE idx w W target resps Hsub) as [local [H1 [H2 [H3 [H4 _]]]]].
  exists local. repeat split; try assumption; try (apply H4).
  - apply chain_from_ancestors. exact H2.
  - apply H3; assumption.
  - apply H3; assumption.
Qed.
Print Assumptions C22_saved_tracked.

(* Exactness on completion (constant minimum = Syncer without UpdateSyncTarget; timestamps and
   window non-negative so that min <= target.ts): the syncer reports completion iff local ++ saved
   is the target's ancestry down to and INCLUDING the first ancestor with ts < min (such a list is
   unique, C22_exact_unique); while it has not completed no saved block is below min.  With
   C22_saved_tracked: on completion the tracked set is exactly what the local blocks gave plus the
   non-zero-expiry items of exactly these ancestors.  If populate already saw the whole window
   locally nothing is fetched or saved.  The guard that separates this from the F-22 finding is
   inside the iff: completion needs SOME ancestor with ts < min. *)
Theorem C22_exact : forall (R : Type) (parse : R -> option block) (tree : index),
  (forall r b, parse r = Some b -> tree (b_id b) = Some b) ->
  forall (idx : index) (w : win) (W : Z) (target : block) (resps : list (resp R)),
  sub idx tree -> 0 <= W -> 0 <= b_ts target ->
  let min := oldest_allowed W (b_ts target) in
  (forall r, In r resps -> r_min r = min) ->
  let p := populate idx w W target in
  let s := syncer parse idx w W target resps in
  let saved := snd (fst (fst s)) in
  let complete := snd (fst s) in
  exists local,
    snd (fst p) = rev local ++ [target] /\
    chain_from tree target (local ++ saved) /\
    (snd p = true -> saved = [] /\ complete = true) /\
    (snd p = false ->
       (complete = true <-> below_last min (local ++ saved)) /\
       (complete = false -> forall b, In b (local ++ saved) -> min <= b_ts b)).
Proof.
  intros R parse tree ORACLE idx w W target resps Hsub HW Hts min Hm.
  destruct (syncer_spec R parse tree ORACLE idx w W target resps Hsub) as [local [H1 [H2 [_ [_ [H5 H6]]]]]].
  exists local. split; [exact H1|]. split; [exact H2|]. split; [exact H5|].
  intros Hp. assert (min <= b_ts target) as Hmin by (unfold min, oldest_allowed; lia).
  destruct (H6 Hp Hm Hmin) as [Hl [Hiff Hopen]]. split; [exact Hiff|].
  intros Hc b Hin. apply in_app_or in Hin. destruct Hin as [Hin|Hin]; [apply Hl | apply Hopen]; assumption.
Qed.
Print Assumptions C22_exact.

Theorem C22_exact_unique : forall (tree : index) (min : Z) (start : block) (l1 l2 : list block),
  chain_from tree start l1 -> chain_from tree start l2 ->
  below_last min l1 -> below_last min l2 -> l1 = l2.
Proof. exact below_last_unique. Qed.
Print Assumptions C22_exact_unique.

(* Progress: after ANY fault sequence [pre] that has not completed the backfill, a response whose
   first raw parses to the block the client is asking for (the real next ancestor: its id is the
   parent id of the last block received) makes the emitted sequence strictly longer, whatever
   follows in that response. *)
Theorem C22_progress : forall (R : Type) (parse : R -> option block) (tree : index),
  (forall r b, parse r = Some b -> tree (b_id b) = Some b) ->
  forall (start : block) (min : Z) (pre : list (resp R)) (r : resp R),
  (forall r', In r' (pre ++ [r]) -> r_min r' = min) -> min <= b_ts start ->
  snd (fst (client parse pre min start [] [])) = false ->
  serves R parse r (next_expected R parse start min pre) ->
  exists b tail, b_id b = next_expected R parse start min pre /\
    fst (fst (client parse (pre ++ [r]) min start [] [])) =
    fst (fst (client parse pre min start [] [])) ++ b :: tail.
Proof. exact client_step_progress. Qed.
Print Assumptions C22_progress.

(* Completion: if the start block has an ancestor below the minimum ([full] = its ancestry down to
   the first such block; this guard excludes exactly the F-22 situation), then every fault sequence
   that contains at least |full| responses serving the request they answer, interleaved with
   arbitrary faults ([serving_run]), closes the channel, and the emitted blocks are exactly [full]. *)
Theorem C22_completes : forall (R : Type) (parse : R -> option block) (tree : index),
  (forall r b, parse r = Some b -> tree (b_id b) = Some b) ->
  forall (start : block) (min : Z) (full : list block) (resps : list (resp R)) (n : nat),
  chain_from tree start full -> below_last min full -> min <= b_ts start ->
  (forall r, In r resps -> r_min r = min) ->
  serving_run R parse start min [] resps n -> (length full <= n)%nat ->
  client parse resps min start [] [] = (full, true, snd (client parse resps min start [] [])).
Proof. exact client_liveness. Qed.
Print Assumptions C22_completes.

(* KNOWN FINDING F-22 (client-never-completes-after-reaching-genesis): the property says the
   backfill goes "back past the validity window (or to genesis)".  In this configuration (chain
   younger than the window: genesis.ts = 5 >= min = 2) the first response serves genesis, the whole
   ancestry has then been received, yet for EVERY continuation of the fault sequence the channel is
   never closed and the client keeps requesting height 2^64-1. *)
Theorem C22_genesis_refuted :
  exists (parse : unit -> option block) (tree : index) (start genesis : block) (min : Z) (r0 : resp unit),
  (forall r b, parse r = Some b -> tree (b_id b) = Some b) /\
  tree (b_parent start) = Some genesis /\ b_height genesis = 0%N /\ tree (b_parent genesis) = None /\
  forall resps : list (resp unit), (forall r, In r resps -> r_min r = min) ->
    client parse (r0 :: resps) min start [] [] =
      ([genesis], false, 0%N :: repeat (two64 - 1)%N (length resps)).
Proof.
  exists f22_parse, f22_tree, f22_start, f22_genesis, 2, f22_serve.
  split; [exact f22_oracle|]. repeat split. exact f22_never_completes.
Qed.
Print Assumptions C22_genesis_refuted.

(* ---- non-vacuity: a concrete chain 10 <- 11 <- 12 <- 13, ts 0..3, W = 1 (min = 2) ---- *)
Definition ex_chain : list block :=
  [ mkB 10 99 0 0 []; mkB 11 10 1 1 [(7%N, 5); (6%N, 0)]; mkB 12 11 2 2 [(8%N, 5)]; mkB 13 12 3 3 [] ].
Definition ex_tree : index := tree_of ex_chain.
Definition ex_target : block := mkB 13 12 3 3 [].
Definition ex_parse (r : option block) : option block :=
  match r with Some b => if existsb (fun c => N.eqb (b_id c) (b_id b)) ex_chain then ex_tree (b_id b) else None | None => None end.
Definition ex_idx : index := idx_of ex_tree 3.     (* only the target is local *)
(* error, garbage, a forged block, then block 12 followed by junk, an empty answer, then block 11 *)
Definition ex_resps : list (resp (option block)) :=
  [ mkResp 2 None; mkResp 2 (Some [None]); mkResp 2 (Some [Some (mkB 77 12 2 2 [])]);
    mkResp 2 (Some [Some (mkB 12 11 2 2 [(8%N, 5)]); None]); mkResp 2 (Some []);
    mkResp 2 (Some [Some (mkB 11 10 1 1 [(7%N, 5); (6%N, 0)])]) ].

Lemma ex_oracle : forall r b, ex_parse r = Some b -> ex_tree (b_id b) = Some b.
Proof.
  intros [c|] b H; [|discriminate]. unfold ex_parse in H.
  destruct (existsb (fun c0 => N.eqb (b_id c0) (b_id c)) ex_chain); [|discriminate].
  unfold ex_tree, tree_of in *. pose proof (find_some _ _ H) as [_ Hid]. apply N.eqb_eq in Hid.
  rewrite Hid. exact H.
Qed.

(* the hypotheses of C22_exact / C22_saved_tracked hold and the run completes, saving 12 and 11;
   7 and 8 are tracked, the expiry-0 item 6 is not *)
Example C22_exact_nonvacuous :
  sub ex_idx ex_tree /\ (forall r, In r ex_resps -> r_min r = oldest_allowed 1 (b_ts ex_target)) /\
  snd (populate ex_idx win0 1 ex_target) = false /\
  let s := syncer ex_parse ex_idx win0 1 ex_target ex_resps in
  map b_id (snd (fst (fst s))) = [12; 11]%N /\ snd (fst s) = true /\
  map (em_has (seen (fst (fst (fst s))))) [7; 8; 6]%N = [true; true; false].
Proof.
  split; [apply idx_of_sub|]. split; [|vm_compute; repeat split].
  intros r Hin. cbn in Hin. repeat (destruct Hin as [<-|Hin]; [reflexivity|]). destruct Hin.
Qed.

(* C22_progress / C22_completes: the same fault sequence is a serving run with 2 = |full| serving
   responses *)
Definition ex_full : list block := [mkB 12 11 2 2 [(8%N, 5)]; mkB 11 10 1 1 [(7%N, 5); (6%N, 0)]].
Example C22_completes_nonvacuous :
  chain_from ex_tree ex_target ex_full /\ below_last 2 ex_full /\ 2 <= b_ts ex_target /\
  serving_run _ ex_parse ex_target 2 [] ex_resps 2 /\ (length ex_full <= 2)%nat.
Proof.
  split; [repeat (econstructor; [reflexivity|]); constructor|].
  split.
  { exists [mkB 12 11 2 2 [(8%N, 5)]], (mkB 11 10 1 1 [(7%N, 5); (6%N, 0)]).
    split; [reflexivity|]. split; [cbn; lia|]. intros b [<-|[]]. cbn. lia. }
  split; [cbn; lia|]. split; [|cbn; lia].
  unfold ex_resps.
  apply sr_fault. apply sr_fault. apply sr_fault.
  apply sr_good. { eexists _, _, _. split; [reflexivity|]. split; reflexivity. }
  apply sr_fault.
  apply sr_good. { eexists _, _, _. split; [reflexivity|]. split; reflexivity. }
  apply sr_nil.
Qed.
Example C22_progress_nonvacuous :
  let pre := firstn 3 ex_resps in let r := nth 3 ex_resps (mkResp 0 None) in
  (forall r', In r' (pre ++ [r]) -> r_min r' = 2) /\ 2 <= b_ts ex_target /\
  snd (fst (client ex_parse pre 2 ex_target [] [])) = false /\
  serves _ ex_parse r (next_expected _ ex_parse ex_target 2 pre).
Proof.
  cbn zeta. split; [|split; [cbn; lia|split; [reflexivity|]]].
  - intros r' Hin. cbn in Hin. repeat (destruct Hin as [<-|Hin]; [reflexivity|]). destruct Hin.
  - eexists _, _, _. split; [reflexivity|]. split; reflexivity.
Qed.
