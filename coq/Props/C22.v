(* C22 - validity-window backfill trusts only the hash-linked ancestry of the sync target.
   Property theorems only.

   Objects (Model/Backfill.v, Model/ValidityWindow.v): the FetchBlocks loop [client] of
   BlockFetcherClient and [syncer] (Syncer.Start: populate from the local chain index, then
   SaveHistorical + AcceptHistorical for every block the client emits), run against a FAULT SEQUENCE
   [resps]: one entry per request, either an error ([r_blocks = None]) or a list of raw byte strings
   of any content (unparsable, forged, stale, reordered, truncated, empty), together with the value
   of the shared minTimestamp when the call returns.  [parse] is the block parser.

   Hash oracle (hypothesis of every theorem): [tree] maps an id to THE block with that id, and every
   parseable byte string parses to a block stored under its own id
       forall r b, parse r = Some b -> tree (b_id b) = Some b
   (a block id is the hash of the block bytes).  [ancestors tree n b] = the first n blocks of the
   parent-hash chain of b through [tree], nearest first; [chain_from tree b l] says the same
   relationally.  [fin min b] = the client's completion test: ts b < min, or b is genesis (height 0);
   [below_last min l] = the last block of l passes the completion test and no other block of l does
   ([fin_true] / [fin_false] in Proofs/Backfill_proofs.v give the arithmetic reading).

   F-22 (the client never completed once it had received genesis while genesis.ts >= min) is
   REPAIRED in /repo (fix commit "validity-window backfill must complete when it reaches genesis");
   model and theorems describe the repaired code: see C22_genesis_completes.

   The emap behind TimeValidityWindow never stores an item with expiry 0 (emap.add returns early,
   see C09's known finding F-23), hence the "e <> 0" in the tracked sets below. *)
From Coq Require Import List NArith ZArith Bool Lia.
Import ListNotations.
From HV Require Import Model.ValidityWindow Model.Backfill Proofs.ValidityWindow_proofs Proofs.Backfill_proofs.
Local Open Scope Z_scope.

(* Whatever the peers answer, with any (even changing) minimum: the blocks the client emits are, in
   order, the first k hash-linked ancestors of the block it started from, for some k; each of them
   was parsed from bytes some peer sent and is the block the tree holds for its id.  So nothing
   unparsable, unlinked, out of order or forged is ever emitted. *)
Theorem C22_prefix : forall (R : Type) (parse : R -> option block) (tree : index),
  (forall r b, parse r = Some b -> tree (b_id b) = Some b) ->
  forall (start : block) (resps : list (resp R)) (min : Z),
  let out := fst (fst (client parse resps min start [] [])) in
  out = ancestors tree (length out) start /\
  (forall b, In b out -> from_resps R parse resps b /\ tree (b_id b) = Some b).
Proof. exact client_prefix. Qed.
Print Assumptions C22_prefix.

(* Syncer.Start on any local index that is part of the tree, any pre-existing window, any fault
   sequence: the locally found blocks followed by the saved blocks are the hash-linked ancestors of
   the TARGET, nearest first (no gap, nothing else saved); and an item id is tracked afterwards
   (IsRepeat / emap.Contains) iff it was tracked after the local populate or it is a
   non-zero-expiry item of a saved block. *)
Theorem C22_saved_tracked : forall (R : Type) (parse : R -> option block) (tree : index),
  (forall r b, parse r = Some b -> tree (b_id b) = Some b) ->
  forall (idx : index) (w : win) (W : Z) (target : block) (resps : list (resp R)),
  sub idx tree ->
  let p := populate idx w W target in
  let s := syncer parse idx w W target resps in
  let saved := snd (fst (fst s)) in
  exists local,
    snd (fst p) = rev local ++ [target] /\
    local ++ saved = ancestors tree (length (local ++ saved)) target /\
    (forall b, In b saved -> from_resps R parse resps b /\ tree (b_id b) = Some b) /\
    (forall x, em_has (seen (fst (fst (fst s)))) x = true <->
               em_has (seen (fst (fst p))) x = true \/
               exists b e, In b saved /\ In (x, e) (b_items b) /\ e <> 0).
Proof.
  intros R parse tree ORACLE idx w W target resps Hsub.
  destruct (syncer_spec R parse tree ORACLE idx w W target resps Hsub) as [local [H1 [H2 [H3 [H4 _]]]]].
  exists local. repeat split; try assumption; try (apply H4).
  - apply chain_from_ancestors. exact H2.
  - apply H3; assumption.
  - apply H3; assumption.
Qed.
Print Assumptions C22_saved_tracked.

(* Exactness on completion (constant minimum = Syncer without UpdateSyncTarget).  [oldest] is the
   oldest locally found block (the block the fetch starts from).  If populate already saw the whole
   window locally, or [oldest] itself passes the completion test, nothing is fetched or saved and
   the syncer completes.  Otherwise the syncer reports completion iff the saved blocks are the
   ancestors of [oldest] down to and INCLUDING the first one with ts < min or height 0 (genesis);
   such a list is unique (C22_exact_unique); while it has not completed no saved block passes the
   test.  With C22_saved_tracked: on completion the tracked set is exactly what the local blocks
   gave plus the non-zero-expiry items of exactly these ancestors. *)
Theorem C22_exact : forall (R : Type) (parse : R -> option block) (tree : index),
  (forall r b, parse r = Some b -> tree (b_id b) = Some b) ->
  forall (idx : index) (w : win) (W : Z) (target : block) (resps : list (resp R)),
  sub idx tree ->
  let min := oldest_allowed W (b_ts target) in
  (forall r, In r resps -> r_min r = min) ->
  let p := populate idx w W target in
  let s := syncer parse idx w W target resps in
  let saved := snd (fst (fst s)) in
  let complete := snd (fst s) in
  exists local,
    snd (fst p) = rev local ++ [target] /\
    chain_from tree target (local ++ saved) /\
    (snd p = true -> saved = [] /\ complete = true) /\
    (snd p = false ->
       let oldest := last local target in
       (forall b, In b local -> min <= b_ts b) /\
       (fin min oldest = true -> saved = [] /\ complete = true) /\
       (fin min oldest = false ->
          (complete = true <-> below_last min saved) /\
          (complete = false -> forall b, In b saved -> fin min b = false))).
Proof.
  intros R parse tree ORACLE idx w W target resps Hsub min Hm.
  destruct (syncer_spec R parse tree ORACLE idx w W target resps Hsub) as [local [H1 [H2 [_ [_ [H5 H6]]]]]].
  exists local. split; [exact H1|]. split; [exact H2|]. split; [exact H5|].
  intros Hp. exact (H6 Hp Hm).
Qed.
Print Assumptions C22_exact.

Theorem C22_exact_unique : forall (tree : index) (min : Z) (start : block) (l1 l2 : list block),
  chain_from tree start l1 -> chain_from tree start l2 ->
  below_last min l1 -> below_last min l2 -> l1 = l2.
Proof. exact below_last_unique. Qed.
Print Assumptions C22_exact_unique.

(* Progress: after ANY fault sequence [pre] that has not completed the backfill, a response whose
   first raw parses to the block the client is asking for (the real next ancestor: its id is the
   parent id of the last block received) makes the emitted sequence strictly longer, whatever
   follows in that response. *)
Theorem C22_progress : forall (R : Type) (parse : R -> option block) (tree : index),
  (forall r b, parse r = Some b -> tree (b_id b) = Some b) ->
  forall (start : block) (min : Z) (pre : list (resp R)) (r : resp R),
  (forall r', In r' (pre ++ [r]) -> r_min r' = min) -> fin min start = false ->
  snd (fst (client parse pre min start [] [])) = false ->
  serves R parse r (next_expected R parse start min pre) ->
  exists b tail, b_id b = next_expected R parse start min pre /\
    fst (fst (client parse (pre ++ [r]) min start [] [])) =
    fst (fst (client parse pre min start [] [])) ++ b :: tail.
Proof. exact client_step_progress. Qed.
Print Assumptions C22_progress.

(* Completion: let [full] be the ancestry of the start block down to its first ancestor with
   ts < min OR height 0 (genesis) - it exists for every start block of a chain that goes back to
   genesis.  Then every fault sequence that contains at least |full| responses serving the request
   they answer, interleaved with arbitrary faults ([serving_run]), closes the channel, and the
   emitted blocks are exactly [full]. *)
Theorem C22_completes : forall (R : Type) (parse : R -> option block) (tree : index),
  (forall r b, parse r = Some b -> tree (b_id b) = Some b) ->
  forall (start : block) (min : Z) (full : list block) (resps : list (resp R)) (n : nat),
  chain_from tree start full -> below_last min full -> fin min start = false ->
  (forall r, In r resps -> r_min r = min) ->
  serving_run R parse start min [] resps n -> (length full <= n)%nat ->
  client parse resps min start [] [] = (full, true, snd (client parse resps min start [] [])).
Proof. exact client_liveness. Qed.
Print Assumptions C22_completes.

(* Reaching genesis completes the backfill (the repaired F-22): for every fault sequence with a
   constant minimum, as soon as a block of height 0 (or one below the minimum) has been emitted the
   channel is closed - also when genesis.ts >= min (chain younger than the validity window). *)
Theorem C22_genesis_completes : forall (R : Type) (parse : R -> option block)
  (start : block) (min : Z) (resps : list (resp R)),
  (forall r, In r resps -> r_min r = min) -> fin min start = false ->
  forall b, In b (fst (fst (client parse resps min start [] []))) ->
  (b_ts b < min \/ b_height b = 0%N) -> snd (fst (client parse resps min start [] [])) = true.
Proof.
  intros R parse start min resps Hm Hs b Hin Hb.
  destruct (snd (fst (client parse resps min start [] []))) eqn:Hc; [reflexivity|]. exfalso.
  pose proof (proj2 (client_closed_iff R parse start min resps Hm Hs) Hc b Hin) as Hf.
  apply fin_true in Hb. congruence.
Qed.
Print Assumptions C22_genesis_completes.

(* the configuration that never completed before the fix: genesis.ts = 5 >= min = 2; one response
   serving genesis now closes the channel, whatever follows *)
Example C22_f22_repaired : forall resps : list (resp unit),
  client f22_parse (f22_serve :: resps) 2 f22_start [] [] = ([f22_genesis], true, [0%N]).
Proof. exact f22_completes. Qed.

(* ---- non-vacuity: a concrete chain 10 <- 11 <- 12 <- 13, ts 0..3, W = 1 (min = 2) ---- *)
Definition ex_chain : list block :=
  [ mkB 10 99 0 0 []; mkB 11 10 1 1 [(7%N, 5); (6%N, 0)]; mkB 12 11 2 2 [(8%N, 5)]; mkB 13 12 3 3 [] ].
Definition ex_tree : index := tree_of ex_chain.
Definition ex_target : block := mkB 13 12 3 3 [].
Definition ex_parse (r : option block) : option block :=
  match r with Some b => if existsb (fun c => N.eqb (b_id c) (b_id b)) ex_chain then ex_tree (b_id b) else None | None => None end.
Definition ex_idx : index := idx_of ex_tree 3.     (* only the target is local *)
(* error, garbage, a forged block, then block 12 followed by junk, an empty answer, then block 11 *)
Definition ex_resps : list (resp (option block)) :=
  [ mkResp 2 None; mkResp 2 (Some [None]); mkResp 2 (Some [Some (mkB 77 12 2 2 [])]);
    mkResp 2 (Some [Some (mkB 12 11 2 2 [(8%N, 5)]); None]); mkResp 2 (Some []);
    mkResp 2 (Some [Some (mkB 11 10 1 1 [(7%N, 5); (6%N, 0)])]) ].

Lemma ex_oracle : forall r b, ex_parse r = Some b -> ex_tree (b_id b) = Some b.
Proof.
  intros [c|] b H; [|discriminate]. unfold ex_parse in H.
  destruct (existsb (fun c0 => N.eqb (b_id c0) (b_id c)) ex_chain); [|discriminate].
  unfold ex_tree, tree_of in *. pose proof (find_some _ _ H) as [_ Hid]. apply N.eqb_eq in Hid.
  rewrite Hid. exact H.
Qed.

(* the hypotheses of C22_exact / C22_saved_tracked hold and the run completes, saving 12 and 11;
   7 and 8 are tracked, the expiry-0 item 6 is not *)
Example C22_exact_nonvacuous :
  sub ex_idx ex_tree /\ (forall r, In r ex_resps -> r_min r = oldest_allowed 1 (b_ts ex_target)) /\
  snd (populate ex_idx win0 1 ex_target) = false /\
  let s := syncer ex_parse ex_idx win0 1 ex_target ex_resps in
  map b_id (snd (fst (fst s))) = [12; 11]%N /\ snd (fst s) = true /\
  map (em_has (seen (fst (fst (fst s))))) [7; 8; 6]%N = [true; true; false].
Proof.
  split; [apply idx_of_sub|]. split; [|vm_compute; repeat split].
  intros r Hin. cbn in Hin. repeat (destruct Hin as [<-|Hin]; [reflexivity|]). destruct Hin.
Qed.

(* C22_progress / C22_completes: the same fault sequence is a serving run with 2 = |full| serving
   responses *)
Definition ex_full : list block := [mkB 12 11 2 2 [(8%N, 5)]; mkB 11 10 1 1 [(7%N, 5); (6%N, 0)]].
Example C22_completes_nonvacuous :
  chain_from ex_tree ex_target ex_full /\ below_last 2 ex_full /\ fin 2 ex_target = false /\
  serving_run _ ex_parse ex_target 2 [] ex_resps 2 /\ (length ex_full <= 2)%nat.
Proof.
  split; [repeat (econstructor; [reflexivity|]); constructor|].
  split.
  { exists [mkB 12 11 2 2 [(8%N, 5)]], (mkB 11 10 1 1 [(7%N, 5); (6%N, 0)]).
    split; [reflexivity|]. split; [reflexivity|]. intros b [<-|[]]. reflexivity. }
  split; [reflexivity|]. split; [|cbn; lia].
  unfold ex_resps.
  apply sr_fault. apply sr_fault. apply sr_fault.
  apply sr_good. { eexists _, _, _. split; [reflexivity|]. split; reflexivity. }
  apply sr_fault.
  apply sr_good. { eexists _, _, _. split; [reflexivity|]. split; reflexivity. }
  apply sr_nil.
Qed.
Example C22_progress_nonvacuous :
  let pre := firstn 3 ex_resps in let r := nth 3 ex_resps (mkResp 0 None) in
  (forall r', In r' (pre ++ [r]) -> r_min r' = 2) /\ fin 2 ex_target = false /\
  snd (fst (client ex_parse pre 2 ex_target [] [])) = false /\
  serves _ ex_parse r (next_expected _ ex_parse ex_target 2 pre).
Proof.
  cbn zeta. split; [|split; [reflexivity|split; [reflexivity|]]].
  - intros r' Hin. cbn in Hin. repeat (destruct Hin as [<-|Hin]; [reflexivity|]). destruct Hin.
  - eexists _, _, _. split; [reflexivity|]. split; reflexivity.
Qed.

(* a chain younger than the validity window (W = 4: min = 0, no block is below it): the backfill
   goes back to genesis (block 10, height 0) and completes there; [full] ends in the genesis block *)
Definition ex_young_resps : list (resp (option block)) :=
  [ mkResp 0 (Some [Some (mkB 12 11 2 2 [(8%N, 5)])]); mkResp 0 None;
    mkResp 0 (Some [Some (mkB 11 10 1 1 [(7%N, 5); (6%N, 0)]); None]); mkResp 0 (Some [Some (mkB 10 99 0 0 [])]) ].
Definition ex_young_full : list block := ex_full ++ [mkB 10 99 0 0 []].
Example C22_completes_at_genesis :
  chain_from ex_tree ex_target ex_young_full /\ below_last 0 ex_young_full /\ fin 0 ex_target = false /\
  serving_run _ ex_parse ex_target 0 [] ex_young_resps 3 /\
  let s := syncer ex_parse ex_idx win0 4 ex_target ex_young_resps in
  oldest_allowed 4 (b_ts ex_target) = 0 /\ map b_id (snd (fst (fst s))) = [12; 11; 10]%N /\ snd (fst s) = true.
Proof.
  split; [repeat (econstructor; [reflexivity|]); constructor|].
  split.
  { exists ex_full, (mkB 10 99 0 0 []). split; [reflexivity|]. split; [reflexivity|].
    intros b [<-|[<-|[]]]; reflexivity. }
  split; [reflexivity|]. split; [|vm_compute; repeat split].
  unfold ex_young_resps.
  apply sr_good. { eexists _, _, _. split; [reflexivity|]. split; reflexivity. }
  apply sr_fault.
  apply sr_good. { eexists _, _, _. split; [reflexivity|]. split; reflexivity. }
  apply sr_good. { eexists _, _, _. split; [reflexivity|]. split; reflexivity. }
  apply sr_nil.
Qed.
