(* C08 — the parallel executor never runs conflicting tasks concurrently or out of order.

   All theorems are about the labelled transition system Model/Executor.v (labels = lock-delimited regions
   of internal/executor/executor.go) and quantify over ALL traces [steps c init tr s]: any interleaving of
   the labels, any number of workers, tasks and keys (the label LRot lets a worker receive any queued task, not
   only the oldest: the deferred function sends ready tasks in Go map order).  The event log [log s] is newest-first:
   [log s = l1 ++ e :: l2] means that the events of l2 happened before e and those of l1 after e.

   [cfg_ok c] is the constructor's contract as far as the model needs it:
     - length (c_ts c) <= c_maxd c   (a task depends only on earlier tasks, so this implies the documented
                                      "no task has maxDependencies or more dependencies"; the two call
                                      sites pass maxDependencies = 100000000),
     - the keys of one task are pairwise distinct (state.Keys is a Go map).
   C08_contract_needed shows that the first condition cannot be dropped. *)
From Coq Require Import List NArith ZArith Bool Arith.
Import ListNotations.
From HV Require Import Model.Executor Proofs.Executor_proofs Model.ExecutorAccept Proofs.ExecutorAccept_proofs.

(* No double enqueue and no write to the blocked map of an executed task, ever. *)
Theorem C08_no_broken : forall c tr s, cfg_ok c -> steps c init tr s -> broken s = false.
Proof. exact exec_no_broken. Qed.
Print Assumptions C08_no_broken.

(* f of a task begins at most once. *)
Theorem C08_once : forall c tr s, cfg_ok c -> steps c init tr s ->
  forall t l1 l2, log s = l1 ++ EvBegin t :: l2 -> ~ In (EvBegin t) l1 /\ ~ In (EvBegin t) l2.
Proof. exact exec_once. Qed.
Print Assumptions C08_once.

(* the property's notion of conflict (shared key, one side more than read) is contained in the code's
   (shared key, one side not exactly Read) *)
Theorem C08_conflict_spec_sub : forall a b, conflict_spec a b = true -> conflict a b = true.
Proof. exact conflict_spec_conflict. Qed.
Print Assumptions C08_conflict_spec_sub.

(* Main theorem: if tasks i < j (queue order) conflict and f of j began, then before that f of i
   ended successfully, and before that f of i began: the two executions do not overlap and respect the
   queue order; in particular j starts only after every earlier conflicting task finished. *)
Theorem C08_order : forall c tr s, cfg_ok c -> steps c init tr s ->
  forall i j ti tj, i < j ->
    nth_error (c_ts c) i = Some ti -> nth_error (c_ts c) j = Some tj ->
    conflict_spec ti tj = true ->
  forall l1 l2, log s = l1 ++ EvBegin j :: l2 ->
    In (EvEnd i true) l2 /\ exists l3 l4, l2 = l3 ++ EvEnd i true :: l4 /\ In (EvBegin i) l4.
Proof. intros c tr s. apply exec_order_gen. exact more_than_read_not_read. Qed.
Print Assumptions C08_order.

(* the same for the code's (larger) conflict relation *)
Theorem C08_order_code : forall c tr s, cfg_ok c -> steps c init tr s ->
  forall i j ti tj, i < j ->
    nth_error (c_ts c) i = Some ti -> nth_error (c_ts c) j = Some tj ->
    conflict ti tj = true ->
  forall l1 l2, log s = l1 ++ EvBegin j :: l2 ->
    In (EvEnd i true) l2 /\ exists l3 l4, l2 = l3 ++ EvEnd i true :: l4 /\ In (EvBegin i) l4.
Proof.
  intros c tr s. apply exec_order_gen. intros p H. apply negb_true_iff in H. exact H.
Qed.
Print Assumptions C08_order_code.

(* No deadlock, progress form: in every reachable state some label is enabled unless every queued task
   went through its deferred function (which is when Wait returns). *)
Theorem C08_progress : forall c tr s, cfg_ok c -> 1 <= c_nw c -> steps c init tr s ->
  all_done c s \/ exists l s', l <> LStop /\ step c s l = Some s'.
Proof. exact exec_progress. Qed.
Print Assumptions C08_progress.

(* conversely, in a final state nothing but Stop (which is always possible) can happen *)
Theorem C08_done_stuck : forall c tr s, cfg_ok c -> steps c init tr s -> all_done c s ->
  forall l, l <> LStop -> step c s l = None.
Proof. exact exec_done_stuck. Qed.
Print Assumptions C08_done_stuck.

(* A state in which no label other than Stop is enabled is a final state (all tasks registered and done); if the trace contains
   no Stop and no failing f, the error is nil and every task ran (began and ended successfully; exactly
   once by C08_once). *)
Theorem C08_all_run : forall c tr s, cfg_ok c -> 1 <= c_nw c -> steps c init tr s ->
  (forall l, l <> LStop -> step c s l = None) ->
  all_done c s /\
  (~ In LStop tr -> (forall t, ~ In (LFEnd t false) tr) ->
   err s = None /\ forall j, j < length (c_ts c) -> In (EvBegin j) (log s) /\ In (EvEnd j true) (log s)).
Proof. exact exec_all_run. Qed.
Print Assumptions C08_all_run.

(* The sticky error (what Wait returns) is the first recorded error (first CompareAndSwap winner); after
   an error was recorded no f begins any more (tasks whose check comes later are skipped); a recorded
   task error comes from a failing f, ErrStopped from a Stop call. *)
Theorem C08_first_error : forall c tr s, cfg_ok c -> steps c init tr s ->
  err s = first_err (log s) /\
  (forall l1 e l2, log s = l1 ++ EvErr e :: l2 -> forall t, ~ In (EvBegin t) l1) /\
  (forall t, In (EvErr (ETask t)) (log s) -> In (EvEnd t false) (log s) /\ In (LFEnd t false) tr) /\
  (In (EvErr EStop) (log s) -> In LStop tr).
Proof. exact exec_first_error. Qed.
Print Assumptions C08_first_error.

(* The channel never holds more entries than there are tasks: with capacity items >= #tasks (constructor
   contract) a send never blocks, which is why the model may use an unbounded FIFO. *)
Theorem C08_queue_bound : forall c tr s, cfg_ok c -> steps c init tr s ->
  length (queue s) <= length (c_ts c).
Proof. exact exec_queue_bound. Qed.
Print Assumptions C08_queue_bound.

(* ---- non-vacuity ---------------------------------------------------------------------------------- *)

(* [{k:R},{k:R},{k:W}] with 2 workers; the writer registers while task 0 runs and is notified by task 0
   during its registration (the maxDependencies offset is in use). *)
Definition ex_c : cfg := mkC [[(0%N,1%N)]; [(0%N,1%N)]; [(0%N,5%N)]] 100 2.
Definition ex_tr : list label :=
  [LRunBegin; LRunKey 0%N; LRunEnd; LRunBegin; LRunKey 0%N; LRunEnd; LTake; LCheck 0;
   LRunBegin; LRunKey 0%N; LFEnd 0 true; LSetErr 0; LNotify 0; LRunEnd;
   LTake; LCheck 1; LFEnd 1 true; LSetErr 1; LUnread 1 0; LNotify 1;
   LTake; LCheck 2; LFEnd 2 true; LSetErr 2; LNotify 2].

Example C08_ex_cfg_ok : cfg_ok ex_c.
Proof. apply cfg_ok_b. vm_compute. reflexivity. Qed.

Example C08_ex_conflict : conflict_spec (nth 1 (c_ts ex_c) []) (nth 2 (c_ts ex_c) []) = true /\
                          conflict_spec (nth 0 (c_ts ex_c) []) (nth 1 (c_ts ex_c) []) = false.
Proof. vm_compute. split; reflexivity. Qed.

Example C08_ex_run : exists s, steps ex_c init ex_tr s /\ all_done ex_c s /\
  (forall l, l <> LStop -> step ex_c s l = None) /\
  ~ In LStop ex_tr /\ (forall t, ~ In (LFEnd t false) ex_tr) /\
  log s = [EvEnd 2 true; EvBegin 2; EvEnd 1 true; EvBegin 1; EvEnd 0 true; EvBegin 0] /\ err s = None.
Proof.
  destruct (run_labels_witness ex_c ex_tr
              (fun s => all_doneb ex_c s = true /\
                 log s = [EvEnd 2 true; EvBegin 2; EvEnd 1 true; EvBegin 1; EvEnd 0 true; EvBegin 0] /\
                 err s = None)) as (s & Hst & Hd & Hl & He).
  { vm_compute. repeat split; reflexivity. }
  exists s. apply all_doneb_ok in Hd. split; [exact Hst|]. split; [exact Hd|].
  split; [exact (C08_done_stuck ex_c ex_tr s C08_ex_cfg_ok Hst Hd)|].
  split; [|split; [|split; [exact Hl|exact He]]].
  - intros H. cbn in H. repeat (destruct H as [H|H]; [discriminate|]). exact H.
  - intros t H. cbn in H. repeat (destruct H as [H|H]; [discriminate|]). exact H.
Qed.

(* two readers overlap between two writers: [{k:W},{k:R},{k:R},{k:W}] *)
Definition ex2_c : cfg := mkC [[(0%N,5%N)]; [(0%N,1%N)]; [(0%N,1%N)]; [(0%N,5%N)]] 100 2.
Definition ex2_tr : list label :=
  [LRunBegin; LRunKey 0%N; LRunEnd; LRunBegin; LRunKey 0%N; LRunEnd; LRunBegin; LRunKey 0%N; LRunEnd;
   LRunBegin; LRunKey 0%N; LRunEnd;
   LTake; LCheck 0; LFEnd 0 true; LSetErr 0; LNotify 0;
   LTake; LTake; LCheck 1; LCheck 2; LFEnd 2 true; LFEnd 1 true; LSetErr 1; LSetErr 2;
   LUnread 1 0; LNotify 1; LUnread 2 0; LNotify 2;
   LTake; LCheck 3; LFEnd 3 true; LSetErr 3; LNotify 3].
Example C08_ex2_run : cfg_ok ex2_c /\
  match run_labels ex2_c init ex2_tr with
  | Some s => all_doneb ex2_c s = true /\
              log s = [EvEnd 3 true; EvBegin 3; EvEnd 1 true; EvEnd 2 true; EvBegin 2; EvBegin 1;
                       EvEnd 0 true; EvBegin 0]
  | None => False
  end.
Proof. split; [apply cfg_ok_b; vm_compute; reflexivity|vm_compute; split; reflexivity]. Qed.

(* a failing task and a Stop: the first error wins, later tasks are skipped, Wait still returns *)
Definition ex_tr_fail : list label :=
  [LRunBegin; LRunKey 0%N; LRunEnd; LRunBegin; LRunKey 0%N; LRunEnd; LTake; LCheck 0;
   LRunBegin; LRunKey 0%N; LFEnd 0 false; LSetErr 0; LStop; LNotify 0; LRunEnd;
   LTake; LCheck 1; LUnread 1 0; LNotify 1; LTake; LCheck 2; LNotify 2].
Example C08_ex_fail :
  match run_labels ex_c init ex_tr_fail with
  | Some s => all_doneb ex_c s = true /\ err s = Some (ETask 0) /\
              log s = [EvErr EStop; EvErr (ETask 0); EvEnd 0 false; EvBegin 0]
  | None => False
  end.
Proof. vm_compute. repeat split; reflexivity. Qed.

(* The contract is needed: with maxDependencies = 1 < #tasks the model reaches a double enqueue and
   task 1 runs twice. *)
Definition bad_c : cfg := mkC [[(0%N,5%N)]; [(0%N,5%N)]] 1 1.
Definition bad_tr : list label :=
  [LRunBegin; LRunKey 0%N; LRunEnd; LRunBegin; LRunKey 0%N; LTake; LCheck 0; LFEnd 0 true; LSetErr 0;
   LNotify 0; LRunEnd; LTake; LCheck 1; LFEnd 1 true; LSetErr 1; LNotify 1; LTake; LCheck 1].
Example C08_contract_needed : exists s, steps bad_c init bad_tr s /\ broken s = true /\
  log s = [EvBegin 1; EvEnd 1 true; EvBegin 1; EvEnd 0 true; EvBegin 0].
Proof. apply run_labels_witness. vm_compute. split; reflexivity. Qed.

(* ---- the tie to the Go code: trace inclusion ------------------------------------------------------ *)
(* Check/C08_check.v accepts an event trace observed from the real executor only if [accepts]
   (Model/ExecutorAccept.v) returns true for it.  Soundness of that acceptor: an accepted trace [evs] is the
   visible part ([obs_of]) of a run [its] of the instrumented LTS (labels of Model/Executor.v interleaved with the
   driver's stamps, each stamp guarded by the LTS state it can be taken in), and the label part of that run is a
   run [steps] of the LTS all the theorems above quantify over. *)
Theorem C08_trace_inclusion_sound : forall c evs, accepts c evs = true ->
  exists its o, orun c oinit its = Some o /\ obs_of its = evs /\ steps c init (labels_of its) (o_s o).
Proof. exact accepts_sound. Qed.
Print Assumptions C08_trace_inclusion_sound.

(* ... and in such a run every observed event is stamped in an LTS state (itself reached by a run of the LTS) whose
   event log -- the log the theorems above speak about -- already contains what it reports: f's begin/end stamps
   follow the task's EvBegin, an observed sticky error is the first error of the log, and when Wait returns x every
   registered task went through its deferred function and x is the first error of the log. *)
Theorem C08_trace_inclusion_backed : forall c its o, cfg_ok c -> orun c oinit its = Some o ->
  forall its1 e its2, its = its1 ++ IO e :: its2 ->
  exists o1, orun c oinit its1 = Some o1 /\ steps c init (labels_of its1) (o_s o1) /\ backed o1 e.
Proof. exact obs_backed. Qed.
Print Assumptions C08_trace_inclusion_backed.

(* non-vacuity: two writers of one key, serialised, are accepted; overlapped they are not; one worker may start
   the two readers that a writer's deferred function released in either order (Go map order, label LRot) *)
Definition ti_c : cfg := mkC [[(0%N,5%N)]; [(0%N,5%N)]] 100000000 2.
Example C08_trace_inclusion_ex :
  accepts ti_c [ORun 0; OBeg 0; ORun 1; OEnd 0 true; OBeg 1; OEnd 1 true; OSeen 0; OWaitCall; OWaitRet 0] = true.
Proof. vm_compute. reflexivity. Qed.
Example C08_trace_inclusion_ex_rejected :
  accepts ti_c [ORun 0; OBeg 0; ORun 1; OBeg 1; OEnd 0 true; OEnd 1 true; OSeen 0; OWaitCall; OWaitRet 0] = false.
Proof. vm_compute. reflexivity. Qed.
Example C08_trace_inclusion_ex_map_order :
  accepts (mkC [[(0%N,5%N)]; [(0%N,1%N)]; [(0%N,1%N)]] 100000000 1)
          [ORun 0; ORun 1; ORun 2; OBeg 0; OEnd 0 true; OBeg 2; OEnd 2 true; OBeg 1; OEnd 1 true;
           OWaitCall; OWaitRet 0] = true.
Proof. vm_compute. reflexivity. Qed.
Definition ti_obs : list oev :=
  [ORun 0; OBeg 0; ORun 1; OEnd 0 false; OSeen 2; OWaitCall; OWaitRet 2].
Definition ti_its : list item := match plan ti_c ti_obs with Some x => x | None => [] end.
Example C08_trace_inclusion_backed_ex :
  cfg_ok ti_c /\
  match orun ti_c oinit ti_its with
  | Some o => obs_of ti_its = ti_obs /\ first_err (log (o_s o)) = Some (ETask 0) /\ ~ In (EvBegin 1) (log (o_s o))
  | None => False
  end.
Proof.
  split; [apply cfg_ok_b; vm_compute; reflexivity|]. vm_compute. split; [reflexivity|]. split; [reflexivity|].
  intros H. repeat (destruct H as [H|H]; [discriminate H|]). exact H.
Qed.
