(* C32 — Pubsub message batching delivers in order within the size limit. Property theorems only.
   run cap max init ops = (tr, sf): tr lists (state before, op, output) for every op of an arbitrary
   sequence of Send m / timer callback / Close / consumer receive on a buffer with queue capacity cap
   and size limit max; sf is the final state.
     accepted tr  : the messages of the Sends that returned nil, in order
     flushes tr   : the batches handed to clearPending, in order, each with enq = it was enqueued
                    (false = dropped because the queue was full)
     received tr  : the items the consumer took from the queue, in order. *)
From Coq Require Import List NArith Bool.
Import ListNotations.
From HV Require Import Lib.Bytes Lib.Varint Model.MsgBuffer Proofs.MsgBuffer_proofs.
Local Open Scope N_scope.

(* Every accepted message is in exactly one flushed batch or still pending, in order; once the
   buffer is closed nothing is pending. *)
Theorem C32_once_in_order : forall cap max ops tr sf,
  run cap max init ops = (tr, sf) ->
  concat (map fst (flushes tr)) ++ pending sf = accepted tr /\
  (closed sf = true -> concat (map fst (flushes tr)) = accepted tr).
Proof. exact once_in_order. Qed.
Print Assumptions C32_once_in_order.

(* The timer callback on an open buffer, and a successful Close, flush everything pending. *)
Theorem C32_timer_flushes : forall cap max s s1 ou,
  step cap max s OTimer = (s1, ou) -> closed s = false -> pending s1 = [].
Proof. exact step_timer. Qed.
Print Assumptions C32_timer_flushes.

Theorem C32_close_flushes : forall cap max s s1 ou,
  step cap max s OClose = (s1, ou) ->
  closed s1 = true /\ pending s1 = [] \/ (closed s = true /\ s1 = s /\ o_code ou = c_closed).
Proof. exact step_close. Qed.
Print Assumptions C32_close_flushes.

(* What the consumer received followed by what is still queued is exactly the encodings of the
   batches that were enqueued, each once, in order. *)
Theorem C32_delivery : forall cap max ops tr sf,
  run cap max init ops = (tr, sf) ->
  received tr ++ queue sf = map encode_batch (enqueued (flushes tr)).
Proof. exact delivery. Qed.
Print Assumptions C32_delivery.

(* A batch is dropped only when the queue is full at its flush, and a flush always carries the
   whole pending list. *)
Theorem C32_drop_only_when_full : forall cap max ops tr sf,
  run cap max init ops = (tr, sf) ->
  forall s o ou b enq, In (s, o, ou) tr -> o_flush ou = Some (b, enq) ->
  (enq = false <-> qlen s = cap) /\ b = pending s.
Proof. exact drop_only_when_full. Qed.
Print Assumptions C32_drop_only_when_full.

(* Every flushed batch encodes to at most max bytes. *)
Theorem C32_batch_bounded : forall cap max ops tr sf,
  run cap max init ops = (tr, sf) ->
  forall b enq, In (b, enq) (flushes tr) -> N.of_nat (length (encode_batch b)) <= max.
Proof. exact batch_bounded. Qed.
Print Assumptions C32_batch_bounded.

(* Every item that ever sits in the queue is the encoding of an enqueued batch of at most max bytes. *)
Theorem C32_queue_items_bounded : forall cap max ops tr sf,
  run cap max init ops = (tr, sf) ->
  forall x, In x (received tr ++ queue sf) ->
  exists b, x = encode_batch b /\ N.of_nat (length x) <= max /\ In (b, true) (flushes tr).
Proof. exact queue_items_bounded. Qed.
Print Assumptions C32_queue_items_bounded.

(* Decoding an encoded batch returns the original messages (all batches, any number and size of
   messages below 2^64 bytes). *)
Theorem C32_decode : forall ms, small_msgs ms -> parse_batch (encode_batch ms) = Some ms.
Proof. exact parse_encode. Qed.
Print Assumptions C32_decode.

(* The encoded size is the accounted size: 1 tag byte + length varint + payload per message. *)
Theorem C32_encoded_size : forall ms, N.of_nat (length (encode_batch ms)) = batch_size ms.
Proof. exact encode_batch_length. Qed.
Print Assumptions C32_encoded_size.

(* A Send is accepted iff the buffer is open and the message alone fits the limit. *)
Theorem C32_accept : forall cap max s m s1 ou,
  step cap max s (OSend m) = (s1, ou) ->
  (o_code ou = c_ok <-> closed s = false /\ entry_size m <= max).
Proof. exact step_send_code. Qed.
Print Assumptions C32_accept.

(* OBSERVATION (a liveness defect of Close, outside the text of C32 — every accepted message has already been
   flushed or dropped on a full queue when it happens): the atomic-operation theorems above do not cover one schedule.
   Close() holds the buffer mutex while pendingTimer.Stop() waits for the timer's dispatcher
   goroutine; if the timer fires after Close took the mutex and before Stop, the dispatcher is
   blocked in the callback on that mutex and Close never returns (the mutex stays held: every later
   Send on this buffer blocks forever). Lock-level model: there is a reachable state in which Close
   has not returned and no action is enabled. *)
Theorem C32_close_timer_deadlock_observed :
  exists acts s, lrun linit acts = Some s /\ l_closer s <> CDone /\ forall a, lstep s a = None.
Proof. exact close_timer_deadlock. Qed.
Print Assumptions C32_close_timer_deadlock_observed.

Example C32_close_returns_without_race :
  exists s, lrun linit [ACloseLock; ACloseStop; ADispExit; ACloseReturn] = Some s /\ l_closer s = CDone.
Proof. exact close_without_race. Qed.

(* ---- non-vacuity ------------------------------------------------------------------------- *)

Definition ex_ops : list op :=
  [OSend [1;1;1;1;1]; OSend [2;2;2;2;2]; OSend [3;3;3;3;3]; OTimer; ORecv; OSend [4]; OClose; OSend [5]].

(* capacity 1, max 10: the second batch is dropped (queue full), the others are delivered *)
Example C32_run_example :
  let '(tr, sf) := run 1 10 init ex_ops in
  accepted tr = [[1;1;1;1;1]; [2;2;2;2;2]; [3;3;3;3;3]; [4]] /\
  flushes tr = [([[1;1;1;1;1]], true); ([[2;2;2;2;2]], false); ([[3;3;3;3;3]], false); ([[4]], true)] /\
  received tr = [[10;5;1;1;1;1;1]] /\ queue sf = [[10;1;4]] /\ closed sf = true.
Proof. vm_compute. repeat split. Qed.

Example C32_small_msgs_example : small_msgs [[1;2;3]; []; repeat 7 200].
Proof. repeat constructor. Qed.

Example C32_decode_example :
  parse_batch (encode_batch [[1;2;3]; []; repeat 7 200]) = Some [[1;2;3]; []; repeat 7 200].
Proof. vm_compute. reflexivity. Qed.

(* malformed batches are rejected: truncated, padded length varint, trailing unknown field *)
Example C32_parse_rejects :
  parse_batch [10; 2; 1] = None /\ parse_batch [10; 129; 0; 7] = None /\ parse_batch [10; 0; 18; 0] = None.
Proof. vm_compute. repeat split. Qed.

(* two 5-byte messages at max 10 are emitted separately (7 bytes each); at max 14 together *)
Example C32_limit_example :
  flushes (fst (run 2 10 init [OSend [1;1;1;1;1]; OSend [2;2;2;2;2]; OClose])) =
    [([[1;1;1;1;1]], true); ([[2;2;2;2;2]], true)] /\
  flushes (fst (run 2 14 init [OSend [1;1;1;1;1]; OSend [2;2;2;2;2]; OClose])) =
    [([[1;1;1;1;1]; [2;2;2;2;2]], true)].
Proof. vm_compute. split; reflexivity. Qed.
