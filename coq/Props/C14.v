(* C14 — Generated transactions budget enough fee for their actual units.
   Property theorems only; model in Model/Estimate.v, proofs in Proofs/Estimate_proofs.v. *)
From Coq Require Import List ZArith NArith Bool Permutation.
Import ListNotations.
From HV Require Import Lib.Bytes Lib.U64 Lib.Varint Model.TxStatic Model.Estimate Proofs.Estimate_proofs.
Local Open Scope N_scope.

(* For every rule set, every list of actions (any number, any byte lengths, any compute units, any
   declared keys), every auth (actual encoded size auth_len <= the factory's MaxUnits bandwidth, actual
   compute units <= MaxUnits compute), every int64 expiry, chain id and max fee:
   if EstimateUnits succeeds with [est], then Units of the signed transaction succeeds and is
   dimension-wise <= est.  Hypotheses:
     H1 ([same_action]): EstimateUnits and Units see the same action, and the multiset of chunk sizes of
        the keys an action declares does not depend on the action id / actor given to StateKeys;
     H2 ([sponsor_covered]): the rule's SponsorStateKeysMaxChunks covers the balance handler's sponsor keys. *)
Theorem C14_estimate_ge :
  forall (r : erules) (ea : list est_action) (ta : list tx_action)
         (auth_bw auth_cu_max auth_len auth_cu : N) (ts : Z) (chain_nz : bool) (max_fee : N)
         (sponsor_keys : list bytes) (est : list N),
  er_base_cu r <= MaxU64 ->
  Forall2 same_action ea ta ->
  sponsor_covered r sponsor_keys ->
  auth_len <= auth_bw -> auth_cu <= auth_cu_max -> in_i64 ts ->
  estimate_units r ea auth_bw auth_cu_max = Some est ->
  exists u,
    tx_units r (signed_tx_size ts chain_nz max_fee ta auth_len) ta auth_cu sponsor_keys = Some u /\
    Forall2 N.le u est.
Proof. exact estimate_ge_units. Qed.
Print Assumptions C14_estimate_ge.

(* Hence the maximum fee GenerateTransaction computes (MulSum prices estimate) is at least the fee of the
   signed transaction at the same prices (and the latter does not overflow). *)
Theorem C14_fee_ge :
  forall (prices u est : list N) (F : N),
  Forall2 N.le u est -> mul_sum prices est = Some F ->
  exists f, mul_sum prices u = Some f /\ f <= F.
Proof. exact mul_sum_mono. Qed.
Print Assumptions C14_fee_ge.

(* The formula before fix b2302ba (no tag / length prefix per action and for the auth) is refuted:
   16 actions of 146 bytes signed with ed25519 (97 bytes) encode to 2535 bytes, the old estimate is 2524. *)
Definition pinned_actions : list est_action := repeat (mkEA 146 1 []) 16.
Definition pinned_tx_actions : list tx_action := repeat (mkTA 146 1 []) 16.
Theorem C14_pinned_refuted :
  exists (ea : list est_action) (ta : list tx_action) (auth : N) (ts : Z),
    map ea_len ea = map ta_len ta /\ in_i64 ts /\
    estimate_bandwidth_pinned ea auth < signed_tx_size ts true 1 ta auth.
Proof.
  exists pinned_actions, pinned_tx_actions, 97, 1700000060000%Z.
  split; [reflexivity|]. split; [unfold in_i64, MinI64, MaxI64; split; discriminate|].
  vm_compute. reflexivity.
Qed.
Print Assumptions C14_pinned_refuted.

(* the current formula on the same witness *)
Example C14_pinned_witness_now_ok :
  signed_tx_size 1700000060000%Z true 1 pinned_tx_actions 97 <= estimate_bandwidth pinned_actions 97.
Proof. vm_compute. discriminate. Qed.

(* Non-vacuity: the hypotheses instantiated for MorpheusVM — a Transfer declares the balance keys of the
   actor and of the recipient whatever the action id (H1 by reflexivity), the balance handler's sponsor key
   is one balance key of 1 chunk and the default rules declare SponsorStateKeysMaxChunks = [1] (H2). *)
Definition mv_rules : erules := mkER 1 5 2 20 5 10 3 [1].
Definition bal (a : N) : bytes := [0; a; 0; 1].   (* balancePrefix | address | chunks = 1 (address shortened) *)
Definition mv_est : list est_action := [mkEA 46 1 [bal 7; bal 8]; mkEA 146 1 [bal 7; bal 9]].
Definition mv_tx : list tx_action := [mkTA 46 1 [bal 7; bal 8]; mkTA 146 1 [bal 7; bal 9]].

Example C14_morpheus_same_action : Forall2 same_action mv_est mv_tx.
Proof.
  repeat constructor; cbn; try reflexivity; intros ce H; exists ce; (split; [exact H | apply Permutation_refl]).
Qed.
Example C14_morpheus_sponsor_covered : sponsor_covered mv_rules [bal 7].
Proof. exists [1], []. split; [reflexivity | apply Permutation_refl]. Qed.
Example C14_morpheus_estimate :
  estimate_units mv_rules mv_est 97 5 = Some [387; 8; 35; 125; 65] /\
  tx_units mv_rules (signed_tx_size 1700000060000%Z true 1 mv_tx 97) mv_tx 5 [bal 7] = Some [348; 8; 21; 75; 39].
Proof. split; vm_compute; reflexivity. Qed.
