(* C26 — parallel verification jobs run every task and report the first failure.

   Theorems over ALL traces of the labelled transition system Model/Workers.v (every interleaving of the
   clients, the queue goroutine, the workers and Stop; any worker count, queue capacity, number of jobs and
   tasks, any set of failing tasks [c_fail]); clients obey the API contracts A1-A3 encoded in the model's
   [client_ok] / label guards.  [c_fixed c = true] is the code in /repo now (after fix commit 0eb992d).
   The event log [log s] is newest first.  Proofs: Proofs/Workers_proofs.v. *)
From Coq Require Import List NArith Bool Arith.
Import ListNotations.
From HV Require Import Model.Workers Proofs.Workers_proofs.

(* a concrete run used for the non-vacuity examples: 2 workers, job 0 = tasks 0,1 (task 1 fails),
   job 1 = task 2, then Stop *)
Definition ex_c : cfg := mkC 2 4 (fun t => Nat.eqb t 1) true.
Definition ex_tr : list label :=
  [LNewJob; LGo 0; LGo 0; LDone 0; LNewJob; LGo 1; LDone 1;
   LDRecv; LDCheck; LDTake; LHandoff 0; LDTake; LHandoff 1; LWCheck 0; LWCheck 1;
   LWEnd 1 false; LWFinish 1; LWEnd 0 true; LWFinish 0; LDTake; LDComplete;
   LDRecv; LDCheck; LDTake; LHandoff 1; LWCheck 1; LWEnd 1 true; LWFinish 1; LDTake; LDComplete;
   LStopBegin; LStopClose; LDRecv; LDFin; LStopAck; LWStop 0; LWStop 1; LStopRet].
Definition ex_s : state := match run_labels ex_c init ex_tr with Some s => s | None => init end.

Example ex_accepted : option_map log (run_labels ex_c init ex_tr) =
  Some [EvStopRet; EvStop; EvResult 1 RNil; EvEnd 2 true; EvBegin 2; EvResult 0 (RErr 1);
        EvEnd 0 true; EvEnd 1 false; EvBegin 1; EvBegin 0; EvGo 1 2; EvNewJob 1; EvGo 0 1; EvGo 0 0; EvNewJob 0].
Proof. vm_compute. reflexivity. Qed.

Lemma ex_steps : steps ex_c init ex_tr ex_s.
Proof.
  apply run_labels_steps. unfold ex_s.
  destruct (run_labels ex_c init ex_tr) eqn:E; [reflexivity|]. vm_compute in E. discriminate.
Qed.

(* ---- each task runs at most once ------------------------------------------------------------------ *)
Theorem C26_task_at_most_once : forall c tr s t, c_fixed c = true -> steps c init tr s ->
  nbegin t (log s) <= 1 /\
  (forall l1 l2, log s = l1 ++ EvBegin t :: l2 -> ~ In (EvBegin t) l1 /\ ~ In (EvBegin t) l2) /\
  (In (EvBegin t) (log s) -> exists j, In (EvGo j t) (log s)).
Proof.
  intros c tr s t Hf H. split; [eapply at_most_once; eauto|]. split.
  - intros l1 l2. eapply at_most_once_split; eauto.
  - eapply begin_after_go; eauto.
Qed.
Print Assumptions C26_task_at_most_once.

Example C26_task_at_most_once_ex : nbegin 1 (log ex_s) = 1.
Proof. vm_compute. reflexivity. Qed.

(* ---- all tasks run if none fails ------------------------------------------------------------------ *)
Theorem C26_all_run_if_none_fails : forall c tr s j r, c_fixed c = true -> steps c init tr s ->
  In (EvResult j r) (log s) ->
  (* a nil result: every task given to the job began, ended, and did not fail *)
  (r = RNil -> forall t, In (EvGo j t) (log s) ->
      In (EvBegin t) (log s) /\ In (EvEnd t true) (log s) /\ c_fail c t = false) /\
  (* a completed job none of whose tasks fails reports nil and ran them all *)
  (r <> RShutdown -> (forall t, In (EvGo j t) (log s) -> c_fail c t = false) ->
      r = RNil /\ forall t, In (EvGo j t) (log s) -> In (EvBegin t) (log s) /\ In (EvEnd t true) (log s)).
Proof.
  intros c tr s j r Hf H Hr. split.
  - intros ->. eapply all_run_if_nil; eauto.
  - intros Hns Hnf. eapply all_run_if_none_fails; eauto.
Qed.
Print Assumptions C26_all_run_if_none_fails.

Example C26_all_run_if_none_fails_ex :
  In (EvResult 1 RNil) (log ex_s) /\ In (EvGo 1 2) (log ex_s) /\ In (EvBegin 2) (log ex_s).
Proof. vm_compute. tauto. Qed.

(* ---- error iff an executed task failed ------------------------------------------------------------ *)
Theorem C26_error_iff : forall c tr s j r, c_fixed c = true -> steps c init tr s ->
  In (EvResult j r) (log s) -> r <> RShutdown ->
  ((exists t0, r = RErr t0) <->
   (exists t, In (EvGo j t) (log s) /\ In (EvBegin t) (log s) /\ In (EvEnd t false) (log s))) /\
  (forall t0, r = RErr t0 ->
     In (EvGo j t0) (log s) /\ In (EvBegin t0) (log s) /\ In (EvEnd t0 false) (log s) /\ c_fail c t0 = true).
Proof. exact error_iff. Qed.
Print Assumptions C26_error_iff.

Example C26_error_iff_ex :
  In (EvResult 0 (RErr 1)) (log ex_s) /\ In (EvEnd 1 false) (log ex_s) /\ steps ex_c init ex_tr ex_s.
Proof. split; [|split]; [vm_compute; tauto|vm_compute; tauto|exact ex_steps]. Qed.
