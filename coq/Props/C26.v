(* C26 — property theorems (being filled in). *)
From HV Require Import Model.Workers.
