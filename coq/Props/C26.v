(* C26 — parallel verification jobs run every task and report the first failure.

   Theorems over ALL traces of the labelled transition system Model/Workers.v (every interleaving of the
   clients, the queue goroutine, the workers and Stop; any worker count, queue capacity, number of jobs and
   tasks, any set of failing tasks [c_fail]); clients obey the API contracts A1-A3 encoded in the model's
   [client_ok] / label guards.  [c_fixed c = true] is the code in /repo now (after fix commit 0eb992d).
   The event log [log s] is newest first.  Proofs: Proofs/Workers_proofs.v. *)
From Coq Require Import List NArith Bool Arith.
Import ListNotations.
From HV Require Import Model.Workers Proofs.Workers_proofs Model.WorkersAccept Proofs.WorkersAccept_proofs.

(* a concrete run used for the non-vacuity examples: 2 workers, job 0 = tasks 0,1 (task 1 fails),
   job 1 = task 2, then Stop *)
Definition ex_c : cfg := mkC 2 4 (fun t => Nat.eqb t 1) true.
Definition ex_tr : list label :=
  [LNewJob; LGo 0; LGo 0; LDone 0; LNewJob; LGo 1; LDone 1;
   LDRecv; LDCheck; LDTake; LHandoff 0; LDTake; LHandoff 1; LWCheck 0; LWCheck 1;
   LWEnd 1 false; LWFinish 1; LWEnd 0 true; LWFinish 0; LDTake; LDComplete;
   LDRecv; LDCheck; LDTake; LHandoff 1; LWCheck 1; LWEnd 1 true; LWFinish 1; LDTake; LDComplete;
   LStopBegin; LStopClose; LDRecv; LDFin; LStopAck; LWStop 0; LWStop 1; LStopRet].
Definition ex_s : state := match run_labels ex_c init ex_tr with Some s => s | None => init end.

Example ex_accepted : option_map log (run_labels ex_c init ex_tr) =
  Some [EvStopRet; EvStop; EvResult 1 RNil; EvEnd 2 true; EvBegin 2; EvResult 0 (RErr 1);
        EvEnd 0 true; EvEnd 1 false; EvBegin 1; EvBegin 0; EvGo 1 2; EvNewJob 1; EvGo 0 1; EvGo 0 0; EvNewJob 0].
Proof. vm_compute. reflexivity. Qed.

Lemma ex_steps : steps ex_c init ex_tr ex_s.
Proof.
  apply run_labels_steps. unfold ex_s.
  destruct (run_labels ex_c init ex_tr) eqn:E; [reflexivity|]. vm_compute in E. discriminate.
Qed.

(* ---- each task runs at most once ------------------------------------------------------------------ *)
Theorem C26_task_at_most_once : forall c tr s t, c_fixed c = true -> steps c init tr s ->
  nbegin t (log s) <= 1 /\
  (forall l1 l2, log s = l1 ++ EvBegin t :: l2 -> ~ In (EvBegin t) l1 /\ ~ In (EvBegin t) l2) /\
  (In (EvBegin t) (log s) -> exists j, In (EvGo j t) (log s)).
Proof.
  intros c tr s t Hf H. split; [eapply at_most_once; eauto|]. split.
  - intros l1 l2. eapply at_most_once_split; eauto.
  - eapply begin_after_go; eauto.
Qed.
Print Assumptions C26_task_at_most_once.

Example C26_task_at_most_once_ex : nbegin 1 (log ex_s) = 1.
Proof. vm_compute. reflexivity. Qed.

(* ---- all tasks run if none fails ------------------------------------------------------------------ *)
Theorem C26_all_run_if_none_fails : forall c tr s j r, c_fixed c = true -> steps c init tr s ->
  In (EvResult j r) (log s) ->
  (* a nil result: every task given to the job began, ended, and did not fail *)
  (r = RNil -> forall t, In (EvGo j t) (log s) ->
      In (EvBegin t) (log s) /\ In (EvEnd t true) (log s) /\ c_fail c t = false) /\
  (* a completed job none of whose tasks fails reports nil and ran them all *)
  (r <> RShutdown -> (forall t, In (EvGo j t) (log s) -> c_fail c t = false) ->
      r = RNil /\ forall t, In (EvGo j t) (log s) -> In (EvBegin t) (log s) /\ In (EvEnd t true) (log s)).
Proof.
  intros c tr s j r Hf H Hr. split.
  - intros ->. eapply all_run_if_nil; eauto.
  - intros Hns Hnf. eapply all_run_if_none_fails; eauto.
Qed.
Print Assumptions C26_all_run_if_none_fails.

Example C26_all_run_if_none_fails_ex :
  In (EvResult 1 RNil) (log ex_s) /\ In (EvGo 1 2) (log ex_s) /\ In (EvBegin 2) (log ex_s).
Proof. vm_compute. tauto. Qed.

(* ---- error iff an executed task failed ------------------------------------------------------------ *)
Theorem C26_error_iff : forall c tr s j r, c_fixed c = true -> steps c init tr s ->
  In (EvResult j r) (log s) -> r <> RShutdown ->
  ((exists t0, r = RErr t0) <->
   (exists t, In (EvGo j t) (log s) /\ In (EvBegin t) (log s) /\ In (EvEnd t false) (log s))) /\
  (forall t0, r = RErr t0 ->
     In (EvGo j t0) (log s) /\ In (EvBegin t0) (log s) /\ In (EvEnd t0 false) (log s) /\ c_fail c t0 = true).
Proof. exact error_iff. Qed.
Print Assumptions C26_error_iff.

Example C26_error_iff_ex :
  In (EvResult 0 (RErr 1)) (log ex_s) /\ In (EvEnd 1 false) (log ex_s) /\ steps ex_c init ex_tr ex_s.
Proof. split; [|split]; [vm_compute; tauto|vm_compute; tauto|exact ex_steps]. Qed.

(* The reported error is the one recorded first: when a failing task's LWFinish region finds w.err = nil
   (state s1), then in every later state the only result its job can have is the error of that task, and
   until the result is reported w.err stays that error. *)
Theorem C26_first_error_reported : forall c tr1 s1 w t s1' tr2 s2, c_fixed c = true ->
  steps c init tr1 s1 -> wst s1 w = WRan t false -> err s1 = None ->
  step c s1 (LWFinish w) = Some s1' -> steps c s1' tr2 s2 ->
  (forall r, In (EvResult (owner s1 t) r) (log s2) -> r = RErr t) /\
  (err s2 = Some t \/ In (EvResult (owner s1 t) (RErr t)) (log s2)).
Proof. exact first_error_reported. Qed.
Print Assumptions C26_first_error_reported.

Definition ex_s1 : state :=
  match run_labels ex_c init (firstn 16 ex_tr) with Some s => s | None => init end.
Example C26_first_error_reported_ex :
  steps ex_c init (firstn 16 ex_tr) ex_s1 /\ wst ex_s1 1 = WRan 1 false /\ err ex_s1 = None /\
  step ex_c ex_s1 (LWFinish 1) <> None.
Proof.
  split; [|split; [vm_compute; reflexivity|split; [vm_compute; reflexivity|vm_compute; discriminate]]].
  apply run_labels_steps. unfold ex_s1.
  destruct (run_labels ex_c init (firstn 16 ex_tr)) eqn:E; [reflexivity|]. vm_compute in E. discriminate.
Qed.

(* A task whose LWCheck region comes after the error was recorded is skipped: it never begins, and the
   worker goes back to its select loop (it does not exit — the pre-0eb992d code did). *)
Theorem C26_skipped_after_error : forall c tr1 s1 w t t0 s1' tr2 s2, c_fixed c = true ->
  steps c init tr1 s1 -> wst s1 w = WGot t -> err s1 = Some t0 ->
  step c s1 (LWCheck w) = Some s1' -> steps c s1' tr2 s2 ->
  ~ In (EvBegin t) (log s2) /\ wst s1' w = WIdle.
Proof. exact skipped_never_begins. Qed.
Print Assumptions C26_skipped_after_error.

Definition ex2_c : cfg := mkC 1 4 (fun t => Nat.eqb t 0) true.
Definition ex2_tr : list label :=
  [LNewJob; LGo 0; LGo 0; LDone 0; LDRecv; LDCheck; LDTake; LHandoff 0; LWCheck 0; LWEnd 0 false; LWFinish 0;
   LDTake; LHandoff 0].
Definition ex2_s : state := match run_labels ex2_c init ex2_tr with Some s => s | None => init end.
Example C26_skipped_after_error_ex :
  steps ex2_c init ex2_tr ex2_s /\ wst ex2_s 0 = WGot 1 /\ err ex2_s = Some 0 /\
  step ex2_c ex2_s (LWCheck 0) <> None.
Proof.
  split; [|split; [vm_compute; reflexivity|split; [vm_compute; reflexivity|vm_compute; discriminate]]].
  apply run_labels_steps. unfold ex2_s.
  destruct (run_labels ex2_c init ex2_tr) eqn:E; [reflexivity|]. vm_compute in E. discriminate.
Qed.

(* ---- jobs are processed one at a time, in submission order ---------------------------------------- *)
(* (the log is newest first: in [l1 ++ e :: l2], l2 is what happened before e and l1 what happened after) *)
Theorem C26_jobs_sequential : forall c tr s, c_fixed c = true -> steps c init tr s ->
  (* results are reported in submission order *)
  (forall l1 j r l2, log s = l1 ++ EvResult j r :: l2 ->
     forall j', j' < j -> exists r', In (EvResult j' r') l2) /\
  (* a task of job j begins only after its Go and after every earlier job reported its result *)
  (forall l1 t l2 j, log s = l1 ++ EvBegin t :: l2 -> In (EvGo j t) (log s) ->
     In (EvGo j t) l2 /\ forall j', j' < j -> exists r', In (EvResult j' r') l2) /\
  (* once a job's result is reported none of its tasks begins or ends *)
  (forall l1 j r l2 t, log s = l1 ++ EvResult j r :: l2 -> In (EvGo j t) (log s) ->
     ~ In (EvBegin t) l1 /\ forall ok, ~ In (EvEnd t ok) l1).
Proof.
  intros c tr s Hf H. split; [|split].
  - intros l1 j r l2. eapply results_in_order; eauto.
  - intros l1 t l2 j. eapply begin_after_earlier_results; eauto.
  - intros l1 j r l2 t. eapply no_activity_after_result; eauto.
Qed.
Print Assumptions C26_jobs_sequential.

Example C26_jobs_sequential_ex : exists l1 l2,
  log ex_s = l1 ++ EvBegin 2 :: l2 /\ In (EvGo 1 2) (log ex_s) /\ In (EvResult 0 (RErr 1)) l2.
Proof.
  exists [EvStopRet; EvStop; EvResult 1 RNil; EvEnd 2 true].
  eexists. split; [vm_compute; reflexivity|]. split; vm_compute; tauto.
Qed.

(* ---- Stop ------------------------------------------------------------------------------------------ *)
Theorem C26_stop : forall c tr s, c_fixed c = true -> steps c init tr s ->
  (* pending jobs: a job still in the queue (or just received, not yet checked) when shouldShutdown is set
     can only report shutdown, and none of its tasks ever begins *)
  (forall j tr2 s2, In EvStop (log s) -> (In j (queue s) \/ disp s = DGot j) -> steps c s tr2 s2 ->
     (forall r, In (EvResult j r) (log s2) -> r = RShutdown) /\
     (forall t, In (EvGo j t) (log s2) -> ~ In (EvBegin t) (log s2))) /\
  (* future jobs: NewJob is refused once Stop has begun; no job is ever accepted after the Stop event *)
  (forall s', In EvStop (log s) -> step c s LNewJob = Some s' ->
     log s' = EvRefused :: log s /\ njobs s' = njobs s /\ queue s' = queue s) /\
  (forall l1 j l2, log s = l1 ++ EvNewJob j :: l2 -> ~ In EvStop l2) /\
  (* Stop returns only when every worker has exited (and the queue goroutine is done and every accepted
     job has a result); the return label is enabled only then *)
  (In EvStopRet (log s) ->
     (forall w, w < c_nw c -> wst s w = WExited) /\ disp s = DDone /\
     (forall j, j < njobs s -> exists r, In (EvResult j r) (log s))) /\
  (forall s', step c s LStopRet = Some s' -> forall w, w < c_nw c -> wst s w = WExited).
Proof.
  intros c tr s Hf H. split; [|split; [|split; [|split]]].
  - intros j tr2 s2 Hst Hq H2. eapply stop_pending_jobs; eauto.
  - intros s'. eapply newjob_refused_after_stop; eauto.
  - intros l1 j l2. eapply no_accept_after_stop; eauto.
  - apply (stop_returns_after_workers_exit c tr s Hf H).
  - apply (stop_returns_after_workers_exit c tr s Hf H).
Qed.
Print Assumptions C26_stop.

Definition ex3_tr : list label := [LNewJob; LNewJob; LGo 1; LStopBegin].
Definition ex3_s : state := match run_labels ex_c init ex3_tr with Some s => s | None => init end.
Example C26_stop_ex :
  steps ex_c init ex3_tr ex3_s /\ In EvStop (log ex3_s) /\ In 1 (queue ex3_s) /\
  step ex_c ex3_s LNewJob <> None /\ In EvStopRet (log ex_s).
Proof.
  split; [|split; [vm_compute; tauto|split; [vm_compute; tauto|split; [vm_compute; discriminate|vm_compute; tauto]]]].
  apply run_labels_steps. unfold ex3_s.
  destruct (run_labels ex_c init ex3_tr) eqn:E; [reflexivity|]. vm_compute in E. discriminate.
Qed.

(* ---- progress -------------------------------------------------------------------------------------- *)
(* [can_move c s]: some label of the pool itself (queue goroutine, a worker, or the running Stop call:
   everything but the client calls NewJob / Go / Done / Stop-begin) is enabled.

   In every reachable state of the current code with at least one worker, either the pool can move, or the
   dispatcher waits for the client to send more tasks to / close the job it is processing (API contract:
   every job is closed with Done), or every accepted job has reported its result and Stop, if it was
   called, has returned.

   Remark: the shorter statement "either every closed job has a result or the pool can move" is FALSE for
   the model and for the Go code (by design): a closed job queued behind a job the client has not closed
   yet waits for that Done; see C26_no_deadlock_needs_done below.  The second theorem gives the exact
   guard: all predecessors closed. *)
Theorem C26_no_deadlock : forall c tr s, c_fixed c = true -> c_nw c >= 1 -> steps c init tr s ->
  can_move c s \/
  (exists j, disp s = DLoop j /\ j < njobs s /\ jclosed (jobs s j) = false /\ jtasks (jobs s j) = []) \/
  ((forall j, j < njobs s -> exists r, In (EvResult j r) (log s)) /\ (stop s = SNone \/ stop s = SRet)).
Proof. exact no_deadlock. Qed.
Print Assumptions C26_no_deadlock.

Theorem C26_no_deadlock_quiescent : forall c tr s, c_fixed c = true -> c_nw c >= 1 -> steps c init tr s ->
  ~ can_move c s ->
  (forall j, j < njobs s -> (forall j', j' <= j -> jclosed (jobs s j') = true) ->
             exists r, In (EvResult j r) (log s)) /\
  ((forall j, j < njobs s -> jclosed (jobs s j) = true) -> In EvStop (log s) -> In EvStopRet (log s)).
Proof. exact quiescent_complete. Qed.
Print Assumptions C26_no_deadlock_quiescent.

Example C26_no_deadlock_ex : ~ can_move ex_c ex_s /\ njobs ex_s = 2.
Proof.
  split; [|vm_compute; reflexivity]. intros (l & s' & Hi & Hs).
  assert (Hn : step ex_c ex_s l = None).
  { clear Hs. destruct l; try discriminate Hi; try (vm_compute; reflexivity).
    all: destruct w as [|[|w]]; vm_compute; reflexivity. }
  congruence.
Qed.

(* why the guard "all predecessors closed" is needed: job 0 accepted and left open, job 1 closed *)
Definition ex4_tr : list label := [LNewJob; LNewJob; LDone 1; LDRecv; LDCheck].
Definition ex4_s : state := match run_labels ex_c init ex4_tr with Some s => s | None => init end.
Theorem C26_no_deadlock_needs_done : exists c tr s,
  c_fixed c = true /\ c_nw c >= 1 /\ steps c init tr s /\
  jclosed (jobs s 1) = true /\ jresult (jobs s 1) = None /\ jclosed (jobs s 0) = false /\
  forall l, internal l = true -> step c s l = None.
Proof.
  exists ex_c, ex4_tr, ex4_s. split; [reflexivity|]. split; [cbn; auto|]. split.
  - apply run_labels_steps. unfold ex4_s.
    destruct (run_labels ex_c init ex4_tr) eqn:E; [reflexivity|]. vm_compute in E. discriminate.
  - split; [vm_compute; reflexivity|]. split; [vm_compute; reflexivity|]. split; [vm_compute; reflexivity|].
    intros l Hi. destruct l; try discriminate Hi; try (vm_compute; reflexivity).
    all: destruct w as [|[|w]]; vm_compute; reflexivity.
Qed.
Print Assumptions C26_no_deadlock_needs_done.

(* ---- at most [c_nw] tasks run at the same time ------------------------------------------------------ *)
(* at every moment of every trace (l2 = any suffix of the newest-first log = the log at an earlier moment)
   the number of tasks begun and not yet ended is between 0 and the number of workers *)
Theorem C26_open_tasks_bounded : forall c tr s l1 l2, c_fixed c = true -> steps c init tr s ->
  log s = l1 ++ l2 ->
  length (filter is_end_ev l2) <= length (filter is_beg_ev l2) <= length (filter is_end_ev l2) + c_nw c.
Proof. exact open_tasks_bounded. Qed.
Print Assumptions C26_open_tasks_bounded.

Example C26_open_tasks_bounded_ex : exists l1 l2,
  log ex_s = l1 ++ l2 /\ length (filter is_beg_ev l2) = length (filter is_end_ev l2) + c_nw ex_c.
Proof.
  exists [EvStopRet; EvStop; EvResult 1 RNil; EvEnd 2 true; EvBegin 2; EvResult 0 (RErr 1); EvEnd 0 true; EvEnd 1 false].
  eexists. split; vm_compute; reflexivity.
Qed.

(* ---- the code before fix commit 0eb992d (c_fixed = false) deadlocks --------------------------------- *)
(* one worker, job 0 = two tasks, the first fails: the worker sees the error at the second task and exits;
   job 0 still completes, but job 1 (submitted and closed) never gets a worker: its task is held by the
   dispatcher, no label of the pool is enabled, and no result is ever reported. *)
Theorem C26_pinned_refuted : exists c tr s j,
  c_fixed c = false /\ c_nw c >= 1 /\ steps c init tr s /\
  (forall j', j' < njobs s -> jclosed (jobs s j') = true) /\
  j < njobs s /\ jresult (jobs s j) = None /\ (forall r, ~ In (EvResult j r) (log s)) /\
  forall l, internal l = true -> step c s l = None.
Proof. exact pinned_deadlock. Qed.
Print Assumptions C26_pinned_refuted.

(* ---- the serial pool (serial_workers.go) ------------------------------------------------------------ *)
(* [serial_job fails None 0 = (ran, r)]: [fails] = per task whether it fails, [ran] = the tasks executed,
   [r] = the reported error (index of the task).  Tasks run in order; the job stops at the first failure and
   reports it; it reports an error iff an executed task failed; all run if none fails. *)
Theorem C26_serial_spec : forall fails ran r, serial_job fails None 0 = (ran, r) ->
  (forall k, r = Some k ->
     ran = seq 0 (S k) /\ k < length fails /\ nth k fails false = true /\
     forall i, i < k -> nth i fails false = false) /\
  (r = None -> ran = seq 0 (length fails) /\ forall i, nth i fails false = false) /\
  (r <> None <-> exists i, In i ran /\ nth i fails false = true).
Proof. exact serial_spec. Qed.
Print Assumptions C26_serial_spec.

Example C26_serial_spec_ex : serial_job [false; true; false; true] None 0 = ([0; 1], Some 1).
Proof. reflexivity. Qed.

(* ---- the tie to the Go code: trace inclusion ------------------------------------------------------ *)
(* Check/C26_check.v accepts an event trace observed from the real pool only if [accepts] (Model/WorkersAccept.v)
   returns true for it.  Soundness of that acceptor: an accepted trace [evs] is the visible part ([obs_of]) of a
   run [its] of the instrumented LTS (labels of Model/Workers.v interleaved with the driver's stamps, each stamp
   guarded by the LTS state it can be taken in), and the label part of that run is a run [steps] of the LTS all
   the theorems above quantify over. *)
Theorem C26_trace_inclusion_sound : forall c evs, accepts c evs = true ->
  exists its o, orun c oinit its = Some o /\ obs_of its = evs /\ steps c init (labels_of its) (o_s o).
Proof. exact accepts_sound. Qed.
Print Assumptions C26_trace_inclusion_sound.

(* ... and in such a run every observed event is stamped in an LTS state (itself reached by a run of the LTS) whose
   event log -- the log all theorems above speak about -- already contains the model events it reports: a task's
   begin/end stamp follows its EvBegin, the value Wait returned (and the Done callback) follows the job's EvResult
   with that very result, Stop's return follows EvStopRet, a shutdown flag seen set follows EvStop. *)
Theorem C26_trace_inclusion_backed : forall c its o, c_fixed c = true -> orun c oinit its = Some o ->
  forall its1 e its2, its = its1 ++ IO e :: its2 ->
  exists o1, orun c oinit its1 = Some o1 /\ steps c init (labels_of its1) (o_s o1) /\ backed c o1 e.
Proof. exact obs_backed. Qed.
Print Assumptions C26_trace_inclusion_backed.

(* non-vacuity: the observed counterpart of [ex_tr] is accepted; a trace in which the second job's task begins
   before the first job's failing task ended is not *)
Definition ex_obs : list oev :=
  [ONewCall 0; ONew 0 true; OGo 0 0; OGo 0 1; ODoneCall 0; ONewCall 1; ONew 1 true; OGo 1 0; ODoneCall 1;
   OBeg 0 0; OBeg 0 1; OEnd 0 1 false; OEnd 0 0 true; OBeg 1 0; OWait 0 3; OEnd 1 0 true; OWait 1 0;
   OStopCall; OSeenShut; OStopRet].
Example C26_trace_inclusion_ex : accepts ex_c ex_obs = true.
Proof. vm_compute. reflexivity. Qed.
Example C26_trace_inclusion_ex_rejected :
  accepts ex_c [ONewCall 0; ONew 0 true; OGo 0 0; OGo 0 1; ODoneCall 0; ONewCall 1; ONew 1 true; OGo 1 0; ODoneCall 1;
                OBeg 0 0; OBeg 0 1; OEnd 0 0 true; OBeg 1 0; OEnd 0 1 false; OWait 0 3; OEnd 1 0 true; OWait 1 0] = false.
Proof. vm_compute. reflexivity. Qed.
Definition ex_its : list item := match plan ex_c ex_obs with Some x => x | None => [] end.
Example C26_trace_inclusion_backed_ex :
  match orun ex_c oinit ex_its with
  | Some o => obs_of ex_its = ex_obs /\ In (EvResult 0 (RErr 1)) (log (o_s o))
  | None => False
  end.
Proof. vm_compute. split; [reflexivity|]. repeat (first [left; reflexivity | right]). Qed.
