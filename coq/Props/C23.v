(* C23 — The mempool keeps its bounds and ordering under any operation sequence.  Property theorems only.
   Model: Model/Mempool.v (+ EHeap.v, Heap.v).  [run (mp_new max maxsp) ops] executes an arbitrary list of
   Add / Remove / PopNext / SetMinTimestamp / Top / StartStreaming / PrepareStream / Stream / FinishStreaming
   steps (every public method holds m.mu, so a concurrent history is such a list).
   Hypothesis [wf_op spf szf]: an item's sponsor and size are functions of its id (ids are hashes of the
   item; Remove adjusts the counters with the argument item). *)
From Coq Require Import List NArith ZArith Bool Permutation.
Import ListNotations.
From HV Require Import Model.Heap Model.EHeap Model.Mempool Proofs.Mempool_proofs.

(* After ANY operation sequence: no two held items share an id, the item limit and every sponsor's limit
   hold, Size() is the sum of the held sizes, Len() is the number of held items and Has answers membership. *)
Theorem C23_invariant : forall spf szf maxsz maxsp ops,
  Forall (wf_op spf szf) ops ->
  let m := fst (run (mp_new maxsz maxsp) ops) in
  NoDup (qids (mp_queue m)) /\
  length (mp_queue m) <= maxsz /\
  (forall s, count_sp (mp_queue m) s <= maxsp) /\
  mp_pending m = sum_size (mp_queue m) /\
  eh_len (mp_eh m) = length (mp_queue m) /\
  (forall id, eh_has (mp_eh m) id = true <-> In id (qids (mp_queue m))).
Proof. exact c23_invariant. Qed.
Print Assumptions C23_invariant.

(* In any reachable state SetMinTimestamp t keeps exactly the items with expiry >= t (in order) and returns
   exactly the items with expiry < t. *)
Theorem C23_expiry_exact : forall spf szf maxsz maxsp m t,
  reachable spf szf maxsz maxsp m ->
  mp_queue (fst (set_min_ts m t)) = filter (fun y => (t <=? it_exp y)%Z) (mp_queue m) /\
  Permutation (snd (set_min_ts m t)) (filter (fun y => (it_exp y <? t)%Z) (mp_queue m)).
Proof. exact c23_set_min. Qed.
Print Assumptions C23_expiry_exact.

(* Hand-out order = arrival order, restored items first: PopNext/PeekNext/Stream/PrepareStream/Top take a
   prefix of the queue; Add appends the accepted items in argument order; a restore (FinishStreaming, Top)
   puts the accepted items in front of everything else. *)
Theorem C23_order : forall spf szf maxsz maxsp m,
  reachable spf szf maxsz maxsp m ->
  (snd (pop_next m) = hd_error (mp_queue m) /\ mp_queue (fst (pop_next m)) = tl (mp_queue m) /\
   peek_next m = hd_error (mp_queue m)) /\
  (forall xs, exists acc, sub acc xs /\ mp_queue (add false m xs) = mp_queue m ++ acc) /\
  (forall xs, exists acc, sub acc xs /\ mp_queue (add true m xs) = rev acc ++ mp_queue m) /\
  (forall c, mp_queue m = snd (stream_items c m) ++ mp_queue (fst (stream_items c m)) /\
             length (snd (stream_items c m)) <= c /\
             (length (snd (stream_items c m)) = c \/ mp_queue (fst (stream_items c m)) = [])) /\
  (forall script, exists k acc, snd (top m script) = firstn k (mp_queue m) /\ sub acc (snd (top m script)) /\
             mp_queue (fst (top m script)) = rev acc ++ skipn k (mp_queue m)).
Proof. exact c23_order. Qed.
Print Assumptions C23_order.

(* Remove(items) deletes exactly the held items whose id occurs in the argument, keeping the order. *)
Theorem C23_remove : forall spf szf maxsz maxsp m xs,
  reachable spf szf maxsz maxsp m -> Forall (wf_item spf szf) xs ->
  mp_queue (remove m xs) = filter (fun y => negb (mem_id (it_id y) (qids xs))) (mp_queue m).
Proof. exact c23_remove. Qed.
Print Assumptions C23_remove.

(* Streaming.  [ghost_run] collects the ids taken out of the pool by Stream/PrepareStream since the last
   StartStreaming/FinishStreaming.  After ANY operation sequence: no id occurs twice in it (nothing is handed
   out twice within one stream), none of these ids is held, and Add (back or front) refuses every one of them
   — until FinishStreaming empties the collection. *)
Theorem C23_stream : forall spf szf maxsz maxsp ops,
  Forall (wf_op spf szf) ops ->
  let m := fst (run (mp_new maxsz maxsp) ops) in
  let g := ghost_run [] (mp_new maxsz maxsp) ops in
  NoDup g /\
  (forall id, In id g -> ~ In id (qids (mp_queue m))) /\
  (forall front x, In (it_id x) g -> add1 front m x = m).
Proof. exact c23_stream. Qed.
Print Assumptions C23_stream.

(* ---------- non-vacuity ---------- *)
Local Open Scope N_scope.
Definition ex_sp (id : N) : N := id mod 2.
Definition ex_sz (id : N) : Z := 1%Z.
Definition ex_it (id : N) (e : Z) : item := mkI id (ex_sp id) 1%Z e.
Definition ex_ops : list op :=
  [OAdd [ex_it 1 30; ex_it 2 10; ex_it 3 20; ex_it 1 40]; OStart; OStream 1%nat; OAdd [ex_it 1 30; ex_it 4 10];
   OSetMin 15%Z; OPrepare 1%nat].
Example C23_hypothesis_satisfiable : Forall (wf_op ex_sp ex_sz) ex_ops.
Proof. repeat constructor. Qed.
(* item 1 streamed (and refused afterwards), items 2 and 4 expired, item 3 prefetched: ghost = [1; 3] *)
Example C23_example_run :
  let m := fst (run (mp_new 3 2) ex_ops) in
  qids (mp_queue m) = [] /\ ghost_run [] (mp_new 3 2) ex_ops = [1; 3] /\ mp_streamed m = Some [3; 1].
Proof. vm_compute. auto. Qed.
Example C23_reachable_example : reachable ex_sp ex_sz 3 2 (fst (run (mp_new 3 2) ex_ops)).
Proof. exists ex_ops. split; [exact C23_hypothesis_satisfiable|reflexivity]. Qed.
Example C23_limit_refuses : qids (mp_queue (fst (run (mp_new 2 1) [OAdd [ex_it 1 30; ex_it 3 10; ex_it 2 20; ex_it 4 5]]))) = [1; 2].
Proof. vm_compute. reflexivity. Qed.
