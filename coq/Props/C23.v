(* C23 — placeholder while the proofs are being written (replaced below). *)
From Coq Require Import List NArith ZArith Bool.
From HV Require Import Model.Mempool.
Theorem C23_placeholder_partial : forall m : mp, m = m.
Proof. reflexivity. Qed.
Print Assumptions C23_placeholder_partial.
