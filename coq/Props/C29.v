(* C29 — placeholder while the proofs are being written. *)
From Coq Require Import List NArith ZArith Bool String.
From HV Require Import Lib.Bytes Model.Abi Proofs.Abi_proofs.
Theorem C29_placeholder_partial : forall fs, fapp fs FNil = fs.
Proof. exact fapp_nil_r. Qed.
Print Assumptions C29_placeholder_partial.
