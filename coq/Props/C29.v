(* C29 — ABI-driven dynamic encoding agrees with the native action codec.  Property theorems only.

   Model: coq/Model/Abi.v (abi.NewABI / describeStruct = [describe]; dynamic.getReflectType = [reflect];
   avalanchego linear codec = [enc]/[dec]; dynamic.Marshal / UnmarshalAction|Output = [dyn_marshal]/[dyn_unmarshal]).

   Universe of the theorems ([sup]) = exactly what getReflectType supports: uint8..uint64, int8..int64, string,
   codec.Address, slices, arrays, structs with tagged / untagged / non-serialized / embedded-struct fields.
   NOT in it: bool and named scalar types (getReflectType has no case for them: Example C29_bool_unsupported
   shows the model returning the error), pointers, maps, interfaces.  The registered types of the reference VM
   (MorpheusVM Transfer, TransferResult) are in the universe.
   Hypothesis [consistent t]: struct names identify struct types (NewABI and FindTypeByName key types by name).
   JSON <-> value is Go's encoding/json: an oracle, not modelled.  Its role in the statements: the JSON document of a
   value v of Go type t, read into the type rebuilt from the ABI, is [canon_val t v] (v with the values of untagged
   embedded structs spliced into the parent, as encoding/json prints them); the driver checks this on every run.
   The Go name cases.Title(json name) of a rebuilt field is not modelled (no influence on codec or JSON);
   packer size limits are not modelled. *)
From Coq Require Import List NArith ZArith Bool String.
Import ListNotations.
From HV Require Import Lib.Bytes Model.Abi Proofs.Abi_proofs.

(* The type getReflectType rebuilds from NewABI's description of a struct type t is t "up to field naming":
   exactly [canon t] = t with embedded structs flattened into the parent, non-serialized fields dropped and every
   field named by its effective JSON name and tagged serialize:"true" json:"<name>".  Any fuel above the nesting
   depth (the Go recursion is unbounded). *)
Theorem C29_describe_reflect : forall t,
  is_struct t -> sup t = true -> consistent t ->
  forall fuel, (height t < fuel)%nat -> reflect fuel (describe t) (tyname t) = Some (canon t).
Proof. exact describe_reflect. Qed.
Print Assumptions C29_describe_reflect.

(* The same for any ABI (e.g. a VM registry with many actions and outputs) in which every struct reachable from t
   is found under its name with its own description. *)
Theorem C29_reflect_any_abi : forall t a fuel,
  (height t < fuel)%nat -> sup t = true -> abi_has a (reach t) -> reflect fuel a (tyname t) = Some (canon t).
Proof. intros t a fuel. apply (proj1 reflect_mut). Qed.
Print Assumptions C29_reflect_any_abi.

(* Same bytes: for every value v of t the linear codec gives the same result (bytes or rejection) through the
   rebuilt type as through the native type. *)
Theorem C29_bytes : forall t v, wt t v = true -> enc (canon t) (canon_val t v) = enc t v.
Proof. exact canon_bytes. Qed.
Print Assumptions C29_bytes.

(* ... hence dynamic.Marshal (type id byte, then the codec on the rebuilt type) equals the type's own encoding *)
Theorem C29_marshal_eq_native : forall t id outs v fuel,
  is_struct t -> sup t = true -> consistent t -> (height t < fuel)%nat -> wt t v = true ->
  dyn_marshal fuel (ABI [(id, tyname t)] outs (describe t)) (tyname t) (canon_val t v)
  = option_map (cons id) (enc t v).
Proof. exact dyn_marshal_native. Qed.
Print Assumptions C29_marshal_eq_native.

(* Round trip of the codec: decoding the encoding of a value returns the value and consumes exactly its bytes
   (any continuation [rest] is left untouched). *)
Theorem C29_dec_enc : forall t v bs rest,
  wt t v = true -> enc t v = Some bs -> dec t (bs ++ rest) = Some (v, rest).
Proof. exact dec_enc. Qed.
Print Assumptions C29_dec_enc.

(* ... hence dynamic.UnmarshalAction/Output on the native bytes hands encoding/json the value itself *)
Theorem C29_unmarshal_native : forall t id acts outs v fuel bs rest,
  is_struct t -> sup t = true -> consistent t -> (height t < fuel)%nat -> wt t v = true ->
  enc t v = Some bs ->
  dyn_unmarshal fuel (ABI acts outs (describe t)) [(id, tyname t)] (id :: bs ++ rest) = Some (canon_val t v).
Proof. exact dyn_unmarshal_native. Qed.
Print Assumptions C29_unmarshal_native.

(* ---- non-vacuity *)
Local Open Scope string_scope.
Definition transfer : ty :=
  TStruct "Transfer" (FCons (FI "To" (Some "to") true false) TAddress
                     (FCons (FI "Value" (Some "value") true false) (TPrim U64)
                     (FCons (FI "Memo" (Some "memo") true false) (TSlice (TPrim U8)) FNil))).
Definition transfer_val : value :=
  VList [VList (repeat (VNum 7) 33); VNum 18446744073709551615; VList [VNum 104; VNum 105]].

Example C29_transfer_hyps : is_struct transfer /\ sup transfer = true /\ consistent transfer /\ wt transfer transfer_val = true.
Proof.
  split; [exists "Transfer"; eexists; reflexivity|]. split; [reflexivity|]. split; [|reflexivity].
  intros n f1 f2 H1 H2. cbn in H1, H2. destruct H1 as [H1|[]]. destruct H2 as [H2|[]]. congruence.
Qed.
Example C29_transfer_encodes :
  enc transfer transfer_val = Some (List.app (repeat 7%N 33) [255;255;255;255;255;255;255;255; 0;0;0;2; 104;105]%N).
Proof. vm_compute. reflexivity. Qed.

(* a struct with an embedded struct and a nested slice of structs: all hypotheses hold, the rebuilt type differs
   from the native one (flattening) and the bytes agree *)
Definition emb : ty := TStruct "Emb" (FCons (FI "E1" (Some "e1") true false) (TPrim U32) FNil).
Definition inner : ty := TStruct "Inner" (FCons (FI "F" None true false) (TPrim I16) FNil).
Definition outer : ty :=
  TStruct "Outer" (FCons (FI "Emb" None true true) emb
                  (FCons (FI "Skip" None false false) (TPrim PBool)
                  (FCons (FI "L" (Some "l") true false) (TArray 2 (TSlice inner)) FNil))).
Example C29_outer_hyps : is_struct outer /\ sup outer = true /\ consistent outer /\ canon outer <> outer.
Proof.
  split; [exists "Outer"; eexists; reflexivity|]. split; [reflexivity|]. split; [|discriminate].
  intros n f1 f2 H1 H2. cbn in H1, H2.
  destruct H1 as [H1|[H1|[]]]; destruct H2 as [H2|[H2|[]]]; congruence.
Qed.
Example C29_outer_reflect : reflect 5 (describe outer) "Outer" = Some (canon outer).
Proof. vm_compute. reflexivity. Qed.

(* bool is outside what getReflectType supports: the model of the code as it is returns the error *)
Definition with_bool : ty := TStruct "Bools" (FCons (FI "Bool1" (Some "bool1") true false) (TPrim PBool) FNil).
Example C29_bool_unsupported : forall fuel, reflect fuel (describe with_bool) "Bools" = None.
Proof. intros [|[|f]]; reflexivity. Qed.
