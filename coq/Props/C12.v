(* C12 — Block resource use is metered from declared keys and capped per block.  Property theorems only.
   Models: Model/Units.v (chain/transaction.go Units + StateKeys, keys/keys.go, internal/math/uint64.go),
   Model/Fees.v (internal/fees/manager.go Consume); proofs: Proofs/Units_proofs.v, Proofs/Fees_proofs.v. *)
From Coq Require Import List NArith ZArith Bool Lia Permutation.
Import ListNotations.
From HV Require Import Lib.Bytes Lib.U64 Model.Fees Model.Units Proofs.Fees_proofs Proofs.Units_proofs.
Local Open Scope N_scope.

(* Units are the exact sums or an error, never a wrapped value.  For all sizes, rule costs, compute units and
   declared key lists:
   - if every declared key is well formed (StateKeys succeeds with the merged key set [keys]):
       the result is (nil, [size; base + sum action units + auth units;
                           sum_keys (keyRead + chunks*valueRead); ... allocate ...; ... write ...])
       exactly when all four sums are <= 2^64-1, and (overflow, zero) otherwise;
   - if some declared key is malformed: ErrInvalidKeyValue (or overflow if the compute sum already overflowed).
   [chunks] is the big-endian uint16 suffix of the key; the sums are taken in N (no wrap). *)
Theorem C12_units : forall (size : N) (r : unit_rules) (action_cu : list N) (auth_cu : N)
                           (action_keys : list (list skey)) (sponsor_keys : list skey),
  match state_keys action_keys sponsor_keys with
  | Some keys =>
      let u := exact_units size r action_cu auth_cu keys in
      (all_u64 u -> tx_units size r action_cu auth_cu action_keys sponsor_keys = (ERR_NONE, u)) /\
      (~ all_u64 u -> tx_units size r action_cu auth_cu action_keys sponsor_keys = (ERR_OVERFLOW, dzero))
  | None =>
      (ur_base r + sumN action_cu + auth_cu <= MaxU64 ->
         tx_units size r action_cu auth_cu action_keys sponsor_keys = (ERR_INVALID_KEY, dzero)) /\
      (MaxU64 < ur_base r + sumN action_cu + auth_cu ->
         tx_units size r action_cu auth_cu action_keys sponsor_keys = (ERR_OVERFLOW, dzero))
  end.
Proof. exact tx_units_exact. Qed.
Print Assumptions C12_units.

(* the merged key set: StateKeys fails iff some declared key is shorter than its 2-byte chunk suffix; otherwise
   every declared key (of any action or of the sponsor) occurs exactly once, so it is charged once *)
Theorem C12_keys : forall (action_keys : list (list skey)) (sponsor_keys : list skey),
  (state_keys action_keys sponsor_keys = None <->
     exists kp, In kp (concat action_keys ++ sponsor_keys) /\ key_valid (fst kp) = false) /\
  (forall keys, state_keys action_keys sponsor_keys = Some keys ->
     NoDup (map fst keys) /\
     forall k, In k (map fst keys) <-> In k (map fst (concat action_keys ++ sponsor_keys))).
Proof.
  intros akeys skeys. split; [apply state_keys_from_None|].
  intros keys H. destruct (state_keys_from_names akeys skeys [] keys (NoDup_nil _) H) as [H1 H2].
  split; [exact H1|]. intros k. rewrite (H2 k). cbn [key_names map In]. tauto.
Qed.
Print Assumptions C12_keys.

(* the units do not depend on the order in which the merged keys are visited (Go ranges over a map) *)
Theorem C12_units_order_independent : forall size r action_cu auth_cu (keys keys' : list skey),
  Permutation keys keys' -> exact_units size r action_cu auth_cu keys = exact_units size r action_cu auth_cu keys'.
Proof. exact exact_units_perm. Qed.
Print Assumptions C12_units_order_independent.

(* Consume is all-or-nothing: either every dimension fits (no overflow, within the limit) and all five are
   added while prices, windows and timestamp stay as they were, or the state is returned unchanged together
   with the first dimension that does not fit. *)
Theorem C12_consume_atomic : forall (m : manager) (d l : dims),
  length (m_dims m) = 5%nat ->
  ((forall k, (k < 5)%nat -> fits m d l k) /\
   exists m', consume m d l = (true, O, m') /\ same_market m m' /\
     forall k, last_consumed m' k = if Nat.ltb k 5 then last_consumed m k + dget d k else last_consumed m k)
  \/
  (exists k, consume m d l = (false, k, m) /\ (k < 5)%nat /\ ~ fits m d l k /\
     forall j, (j < k)%nat -> fits m d l j).
Proof. exact consume_atomic. Qed.
Print Assumptions C12_consume_atomic.

(* A block as any sequence of Consume calls against one limit (builder: a transaction that does not fit is
   skipped; processor: the block is rejected at the first one): the recorded consumption is the initial
   consumption plus the exact sum of the units of the included transactions, and stays within the per-dimension
   maximum (and below 2^64) if it started there — in particular from the zero consumption ComputeNext leaves. *)
Theorem C12_block_sum : forall (us : list dims) (m : manager) (l : dims) (m' : manager) (flags : list bool),
  length (m_dims m) = 5%nat ->
  consume_all m l us = (m', flags) ->
  length flags = length us /\ same_market m m' /\
  forall k, (k < 5)%nat ->
    last_consumed m' k = last_consumed m k + dsum k (included us flags) /\
    (last_consumed m k <= N.min MaxU64 (dget l k) -> last_consumed m' k <= N.min MaxU64 (dget l k)).
Proof. exact consume_all_sum. Qed.
Print Assumptions C12_block_sum.

(* the fee of a unit vector is the exact dot product with the prices, or an error *)
Theorem C12_fee_exact : forall (m : manager) (d : dims) (r : N),
  fee m d = Some r <-> r = fee_sum m d idx5 /\ fee_sum m d idx5 <= MaxU64.
Proof. exact fee_exact. Qed.
Print Assumptions C12_fee_exact.

(* ---------------- non-vacuity ---------------- *)
Definition ex_rules : unit_rules := mkUR 1 5 2 20 5 10 3.
(* key "ab" with 3 chunks declared by an action (read) and by the sponsor (write): charged once *)
Example C12_ex_units :
  tx_units 100 ex_rules [7] 5 [[([97;98;0;3], 1)]] [([97;98;0;3], 5)] = (0, [100; 13; 11; 35; 19]) /\
  state_keys [[([97;98;0;3], 1)]] [([97;98;0;3], 5)] = Some [([97;98;0;3], 5)].
Proof. split; reflexivity. Qed.
(* 65535 chunks * 2^49 overflows: error, not a wrapped value *)
Example C12_ex_overflow :
  tx_units 100 (mkUR 1 5 (2 ^ 49) 20 5 10 3) [7] 5 [[([97;255;255], 1)]] [] = (1, [0;0;0;0;0]).
Proof. vm_compute. reflexivity. Qed.
Example C12_ex_invalid_key : tx_units 100 ex_rules [7] 5 [[([97], 1)]] [] = (2, [0;0;0;0;0]).
Proof. reflexivity. Qed.
Example C12_ex_consume_ok :
  let m := zero_mgr in
  fst (consume m [1;2;3;4;5] [10;10;10;10;10]) = (true, O) /\
  units_consumed (snd (consume m [1;2;3;4;5] [10;10;10;10;10])) = [1;2;3;4;5].
Proof. split; reflexivity. Qed.
Example C12_ex_consume_fail :
  consume (set_last_consumed zero_mgr 2 8) [1;2;3;4;5] [10;10;10;10;10] = (false, 2%nat, set_last_consumed zero_mgr 2 8).
Proof. reflexivity. Qed.
Example C12_ex_block :
  let '(m', flags) := consume_all zero_mgr [10;10;10;10;10] [[6;0;0;0;0]; [6;0;0;0;0]; [4;1;0;0;0]] in
  flags = [true; false; true] /\ units_consumed m' = [10;1;0;0;0].
Proof. split; reflexivity. Qed.
