(* C20 — the consensus wrapper drives the chain through a valid block lifecycle.
   Property theorems only; model in Model/Snow.v, proofs in Proofs/Snow_proofs.v.

   Vocabulary (Model/Snow.v):
     step / init_state   the model of snow.VM (snow/block.go, vm.go, chain_index.go, fifo.go)
     erun c Q st es ops  runs the model on the engine calls [ops]; it is [Some] exactly when every
                         call obeys the snowman call-sequence contract [eguard] (and the async
                         accepter lags at most Q blocks); [es] is the engine's own bookkeeping:
                         e_acc / e_rej = its accept / reject decisions in order, e_ver = its
                         successful Verify calls, e_proc = the blocks it holds as processing
     tr                  every Chain callback and subscriber notification, in order
     accepts / naccepted / nrejected / nverified   projections of the trace. *)
From Coq Require Import List NArith Bool.
Import ListNotations.
From HV Require Import Model.Snow Proofs.Snow_proofs.
Local Open Scope N_scope.

(* For ALL engine call sequences obeying the contract, of any length, over any forking block tree,
   any accepted-cache size W >= 1, any parsed-cache size, any accepter lag:
   1. Chain.VerifyBlock / BuildBlock are only ever called on the output of a block the chain itself
      verified, built or was initialised with, and the verified block is a child of that parent
      (verify_parents_ok, unfolded by C20_verify_parent below);
   2. the Chain.AcceptBlock calls are a prefix of the engine's accept decisions in the same order
      (all of them once the queue is drained: the missing suffix has length e_pending); those
      decisions form a chain of consecutive heights starting at the initial block, contain no
      duplicates and no block the engine rejected;
   3. accepted notifications = the start-up notification of block 0 followed by one per
      AcceptBlock call in the same order; rejected notifications = the engine's reject decisions in
      order; verified notifications = the engine's successful Verify calls on blocks it did not
      build itself, in order. *)
Theorem C20_lifecycle : forall c Q ops st es tr,
  c_ready c = true -> 1 <= c_W c -> no_sync ops = true ->
  erun c Q (init_state c) (init_estate c) ops = Some (st, es, tr) ->
  let T := init_events c ++ tr in
  verify_parents_ok es [0] T = true /\
  (exists pending, e_acc es = accepts T ++ pending /\ lenN pending = e_pending es) /\
  chain_from es 0 (e_acc es) = true /\ NoDup (e_acc es) /\
  (forall b, In b (e_acc es) -> ~ In b (e_rej es)) /\
  naccepted T = 0 :: accepts T /\ nrejected T = e_rej es /\ nverified T = verified_parsed es.
Proof. exact lifecycle_props_all_runs. Qed.
Print Assumptions C20_lifecycle.

(* what verify_parents_ok says about each VerifyBlock call *)
Theorem C20_verify_parent : forall es tr outs, verify_parents_ok es outs tr = true ->
  forall before p b ok rest, tr = before ++ EVerify p b ok :: rest ->
  In p (outs_after outs before) /\ e_parent es b = p /\ ok = negb (e_invalid es b).
Proof. exact vp_sound. Qed.
Print Assumptions C20_verify_parent.

(* the same statement as the executable predicate that Check/C20_check.v evaluates on the
   implementation's trace *)
Theorem C20_lifecycle_exec : forall c Q ops st es tr,
  c_ready c = true -> 1 <= c_W c -> no_sync ops = true ->
  erun c Q (init_state c) (init_estate c) ops = Some (st, es, tr) ->
  lifecycle_b (init_events c ++ tr) es = true.
Proof. exact lifecycle_all_runs. Qed.
Print Assumptions C20_lifecycle_exec.

(* Lookups: after any such run, whatever was evicted from the caches, GetBlock on an accepted
   block returns that block (on a processing block: the very object the engine verified),
   GetBlockIDAtHeight / GetBlockByHeight at the height of an accepted block return it, and
   LastAccepted is the engine's last accept decision ([lookup_ok], Model/Snow.v). *)
Theorem C20_lookup : forall c Q ops st es tr o,
  c_ready c = true -> 1 <= c_W c -> no_sync ops = true ->
  erun c Q (init_state c) (init_estate c) ops = Some (st, es, tr) ->
  lookup_ok es o (snd (fst (step c st o))) = true.
Proof. exact lookup_all_runs. Qed.
Print Assumptions C20_lookup.

(* F-21: "verified notifications = ALL successful Verify calls" is false: a block returned by
   BuildBlock is never delivered to the verified subscribers (snow/block.go verifyWithContext,
   case b.verified). *)
Theorem C20_built_refuted : exists c Q ops st es tr,
  c_ready c = true /\ 1 <= c_W c /\ no_sync ops = true /\
  erun c Q (init_state c) (init_estate c) ops = Some (st, es, tr) /\
  built_clause_b (init_events c ++ tr) es = false.
Proof.
  exists (mkCfg 2 2 true), 1, [OBuild; OVerify 1; OAccept 1; OProcess].
  vm_compute. do 3 eexists. repeat split; try reflexivity. discriminate.
Qed.
Print Assumptions C20_built_refuted.

(* ---- non-vacuity: the hypotheses are satisfiable by long, forking runs *)
Example C20_engine_ok_example :
  engine_ok (mkCfg 2 1 true) 1
    [OParseNew 0 false; OVerify 1; OParseNew 0 true; OVerify 2; OParseNew 0 false; OVerify 3;
     OParseNew 1 false; OVerify 4; OBuild; OSetPref 4; OBuild; OVerify 6; OAccept 1; OReject 3;
     OProcess; OAccept 4; OProcess; OAccept 6; OProcess; OGetBlock 0; OGetIDAtHeight 1; OParse 1] = true.
Proof. vm_compute. reflexivity. Qed.

Example C20_lookup_after_eviction :
  let c := mkCfg 2 1 true in
  match erun c 1 (init_state c) (init_estate c)
          [OParseNew 0 false; OVerify 1; OAccept 1; OProcess; OParseNew 1 false; OVerify 2; OAccept 2; OProcess;
           OParseNew 2 false; OVerify 3; OAccept 3; OProcess] with
  | Some (st, es, _) => snd (fst (step c st (OGetBlock 0))) = RBlk (BE 0) 0 false false
                        /\ snd (fst (step c st (OGetIDAtHeight 1))) = RId 1
  | None => False
  end.
Proof. vm_compute. split; reflexivity. Qed.
