(* C20 — the consensus wrapper drives the chain through a valid block lifecycle (theorems below). *)
From Coq Require Import List NArith Bool.
Import ListNotations.
From HV Require Import Model.Snow.
Local Open Scope N_scope.

Example C20_engine_ok_example :
  engine_ok (mkCfg 2 2 true) 1 [OParseNew 0 false; OVerify 1; OAccept 1; OProcess] = true.
Proof. reflexivity. Qed.
