(* C20 — the consensus wrapper drives the chain through a valid block lifecycle.
   Property theorems only; model in Model/Snow.v, proofs in Proofs/Snow_proofs.v.

   Vocabulary (Model/Snow.v):
     step / init_state   the model of snow.VM (snow/block.go, vm.go, chain_index.go, fifo.go)
     erun c Q st es ops  runs the model on the engine calls [ops]; it is [Some] exactly when every
                         call obeys the snowman call-sequence contract [eguard] (and the async
                         accepter lags at most Q blocks); [es] is the engine's own bookkeeping:
                         e_acc / e_rej = its accept / reject decisions in order, e_ver = its
                         successful Verify calls, e_proc = the blocks it holds as processing
     tr                  every Chain callback and subscriber notification, in order
     accepts / naccepted / nrejected / nverified   projections of the trace. *)
From Coq Require Import List NArith Bool.
Import ListNotations.
From HV Require Import Model.Snow Proofs.Snow_proofs Proofs.SnowCtx_proofs.
Local Open Scope N_scope.

(* For ALL engine call sequences obeying the contract, of any length, over any forking block tree,
   any accepted-cache size W >= 1, any parsed-cache size, any accepter lag:
   1. Chain.VerifyBlock / BuildBlock are only ever called on the output of a block the chain itself
      verified, built or was initialised with, and the verified block is a child of that parent
      (verify_parents_ok, unfolded by C20_verify_parent below);
   2. the Chain.AcceptBlock calls are a prefix of the engine's accept decisions in the same order
      (all of them once the queue is drained: the missing suffix has length e_pending); those
      decisions form a chain of consecutive heights starting at the initial block, contain no
      duplicates and no block the engine rejected;
   3. accepted notifications = the start-up notification of block 0 followed by one per
      AcceptBlock call in the same order; rejected notifications = the engine's reject decisions in
      order; verified notifications = the engine's successful Verify calls on blocks it did not
      build itself, in order. *)
Theorem C20_lifecycle : forall c Q ops st es tr,
  c_ready c = true -> 1 <= c_W c -> no_sync ops = true ->
  erun c Q (init_state c) (init_estate c) ops = Some (st, es, tr) ->
  let T := init_events c ++ tr in
  verify_parents_ok es [0] T = true /\
  (exists pending, e_acc es = accepts T ++ pending /\ lenN pending = e_pending es) /\
  chain_from es 0 (e_acc es) = true /\ NoDup (e_acc es) /\
  (forall b, In b (e_acc es) -> ~ In b (e_rej es)) /\
  naccepted T = 0 :: accepts T /\ nrejected T = e_rej es /\ nverified T = verified_parsed es.
Proof. exact lifecycle_props_all_runs. Qed.
Print Assumptions C20_lifecycle.

(* what verify_parents_ok says about each VerifyBlock call *)
Theorem C20_verify_parent : forall es tr outs, verify_parents_ok es outs tr = true ->
  forall before p b ok rest, tr = before ++ EVerify p b ok :: rest ->
  In p (outs_after outs before) /\ e_parent es b = p /\ ok = negb (e_invalid es b).
Proof. exact vp_sound. Qed.
Print Assumptions C20_verify_parent.

(* the same statement as the executable predicate that Check/C20_check.v evaluates on the
   implementation's trace *)
Theorem C20_lifecycle_exec : forall c Q ops st es tr,
  c_ready c = true -> 1 <= c_W c -> no_sync ops = true ->
  erun c Q (init_state c) (init_estate c) ops = Some (st, es, tr) ->
  lifecycle_b (init_events c ++ tr) es = true.
Proof. exact lifecycle_all_runs. Qed.
Print Assumptions C20_lifecycle_exec.

(* Lookups: after any such run, whatever was evicted from the caches, GetBlock on an accepted
   block returns that block (on a processing block: the very object the engine verified),
   GetBlockIDAtHeight / GetBlockByHeight at the height of an accepted block return it, and
   LastAccepted is the engine's last accept decision ([lookup_ok], Model/Snow.v). *)
Theorem C20_lookup : forall c Q ops st es tr o,
  c_ready c = true -> 1 <= c_W c -> no_sync ops = true ->
  erun c Q (init_state c) (init_estate c) ops = Some (st, es, tr) ->
  lookup_ok es o (snd (fst (step c st o))) = true.
Proof. exact lookup_all_runs. Qed.
Print Assumptions C20_lookup.

(* F-21: "verified notifications = ALL successful Verify calls" is false: a block returned by
   BuildBlock is never delivered to the verified subscribers (snow/block.go verifyWithContext,
   case b.verified). *)
Theorem C20_built_refuted : exists c Q ops st es tr,
  c_ready c = true /\ 1 <= c_W c /\ no_sync ops = true /\
  erun c Q (init_state c) (init_estate c) ops = Some (st, es, tr) /\
  built_clause_b (init_events c ++ tr) es = false.
Proof.
  exists (mkCfg 2 2 true), 1, [OBuild; OVerify 1; OAccept 1; OProcess].
  vm_compute. do 3 eexists. repeat split; try reflexivity. discriminate.
Qed.
Print Assumptions C20_built_refuted.

(* ---- non-vacuity: the hypotheses are satisfiable by long, forking runs *)
Example C20_engine_ok_example :
  engine_ok (mkCfg 2 1 true) 1
    [OParseNew 0 false; OVerify 1; OParseNew 0 true; OVerify 2; OParseNew 0 false; OVerify 3;
     OParseNew 1 false; OVerify 4; OBuild; OSetPref 4; OBuild; OVerify 6; OAccept 1; OReject 3;
     OProcess; OAccept 4; OProcess; OAccept 6; OProcess; OGetBlock 0; OGetIDAtHeight 1; OParse 1] = true.
Proof. vm_compute. reflexivity. Qed.

Example C20_lookup_after_eviction :
  let c := mkCfg 2 1 true in
  match erun c 1 (init_state c) (init_estate c)
          [OParseNew 0 false; OVerify 1; OAccept 1; OProcess; OParseNew 1 false; OVerify 2; OAccept 2; OProcess;
           OParseNew 2 false; OVerify 3; OAccept 3; OProcess] with
  | Some (st, es, _) => snd (fst (step c st (OGetBlock 0))) = RBlk (BE 0) 0 false false
                        /\ snd (fst (step c st (OGetIDAtHeight 1))) = RId 1
  | None => False
  end.
Proof. vm_compute. split; reflexivity. Qed.

(* ================================================================== verification with a P-Chain block context
   (snow/block.go VerifyWithContext / verifyPChainCtx, snow/vm.go BuildBlockWithContext).

   Vocabulary (Model/Snow.v, last section; proofs in Proofs/SnowCtx_proofs.v):
     cop                 engine calls with contexts: CParseNew p inv ictx (bytes of a new block whose inner
                         context is ictx), CBuild bctx (BuildBlockWithContext), CVerify h vctx
                         (VerifyWithContext; None = nil), COp o (any call above; OVerify = Verify())
     base co             the context-free call it corresponds to; the engine contract and the engine's
                         bookkeeping are those of [base co] (the engine may pass any context)
     cstep / cerun       the model with contexts: state = (state of the context-free model, table of inner
                         contexts); [verify_ctx] follows verifyWithContext line by line
     project             the context-free call sequence of a run: verify calls refused for their context
                         are erased, every other call is mapped to its base. *)

(* Simulation: every context-aware run is a run of the context-free model on the projected calls, with
   the same final VM state, the same engine bookkeeping and the same callback/notification trace -
   a verify call refused for its context is a stutter step. *)
Theorem C20_ctx_simulation : forall c Q cops st tbl es cs' es' tr,
  cerun c Q (st, tbl) es cops = Some (cs', es', tr) ->
  erun c Q st es (project c (st, tbl) cops) = Some (fst cs', es', tr).
Proof. exact cerun_project. Qed.
Print Assumptions C20_ctx_simulation.

(* C20_lifecycle for call sequences with contexts, of any length, any contexts (matching, missing,
   superfluous, different heights), on parsed and on built blocks, with any retries. *)
Theorem C20_lifecycle_ctx : forall c Q cops cs es tr,
  c_ready c = true -> 1 <= c_W c -> no_sync (map base cops) = true ->
  cerun c Q (init_cstate c) (init_estate c) cops = Some (cs, es, tr) ->
  let T := init_events c ++ tr in
  verify_parents_ok es [0] T = true /\
  (exists pending, e_acc es = accepts T ++ pending /\ lenN pending = e_pending es) /\
  chain_from es 0 (e_acc es) = true /\ NoDup (e_acc es) /\
  (forall b, In b (e_acc es) -> ~ In b (e_rej es)) /\
  naccepted T = 0 :: accepts T /\ nrejected T = e_rej es /\ nverified T = verified_parsed es.
Proof. exact lifecycle_props_ctx. Qed.
Print Assumptions C20_lifecycle_ctx.

Theorem C20_lifecycle_ctx_exec : forall c Q cops cs es tr,
  c_ready c = true -> 1 <= c_W c -> no_sync (map base cops) = true ->
  cerun c Q (init_cstate c) (init_estate c) cops = Some (cs, es, tr) ->
  lifecycle_b (init_events c ++ tr) es = true.
Proof. exact lifecycle_ctx. Qed.
Print Assumptions C20_lifecycle_ctx_exec.

Theorem C20_lookup_ctx : forall c Q cops cs es tr co,
  c_ready c = true -> 1 <= c_W c -> no_sync (map base cops) = true ->
  cerun c Q (init_cstate c) (init_estate c) cops = Some (cs, es, tr) ->
  lookup_ok es (base co) (snd (fst (cstep c cs co))) = true.
Proof. exact lookup_ctx. Qed.
Print Assumptions C20_lookup_ctx.

(* Notifications match decisions call by call ([notif_ok], [notifs_ok]: the predicate Check/C20_check.v
   evaluates on the implementation's answers): during each engine call the verified (rejected)
   notifications are exactly the verify (reject) decisions the engine records for that call: one
   verified notification for a successful Verify of a block the node did not build, one rejected
   notification for a Reject, and none during any other call - in particular none during a call that
   returned an error, such as a Verify refused for its context. *)
Theorem C20_notifications_ctx : forall c Q cops cs es tr,
  c_ready c = true -> 1 <= c_W c -> no_sync (map base cops) = true ->
  cerun c Q (init_cstate c) (init_estate c) cops = Some (cs, es, tr) ->
  notifs_ok (init_estate c) (map base cops) (crun_obs c (init_cstate c) cops) = true.
Proof. exact notifs_ctx. Qed.
Print Assumptions C20_notifications_ctx.

(* the same for one more call after any run *)
Theorem C20_notification_step_ctx : forall c Q cops cs es tr co,
  c_ready c = true -> 1 <= c_W c -> no_sync (map base cops) = true ->
  cerun c Q (init_cstate c) (init_estate c) cops = Some (cs, es, tr) ->
  sync_op (base co) = false -> eguard Q es (base co) = true ->
  notif_ok es (base co) (snd (fst (cstep c cs co))) (snd (cstep c cs co)) = true.
Proof. exact notif_ctx. Qed.
Print Assumptions C20_notification_step_ctx.

(* The context check seen from the engine ([ctxs_ok], evaluated by Check/C20_check.v with the engine's own
   record of the inner contexts): in normal operation every verify call whose context differs from
   the inner context of the block is answered with an error and no chain callback or notification
   happens during the call; a call whose context matches is never refused for its context. *)
Theorem C20_ctx_check : forall c Q cops cs es tr,
  c_ready c = true -> 1 <= c_W c -> no_sync (map base cops) = true ->
  cerun c Q (init_cstate c) (init_estate c) cops = Some (cs, es, tr) ->
  ctxs_ok (init_estate c) [] cops (crun_obs c (init_cstate c) cops) = true.
Proof. exact ctxs_ctx. Qed.
Print Assumptions C20_ctx_check.

(* In ANY state of the VM (reachable or not, ready or not): a verify call that returns the
   context-mismatch error has made no callback and no notification and has changed nothing: the
   block object is still unverified and was not entered into the processing set. *)
Theorem C20_ctx_mismatch_silent : forall c cs co cs' evs,
  cstep c cs co = (cs', RErr eCtxMismatch, evs) -> vcall co <> None -> cs' = cs /\ evs = [].
Proof. exact mismatch_silent. Qed.
Print Assumptions C20_ctx_mismatch_silent.

(* In any ready state: a verify call whose context differs from the block's inner context (nil vs
   non-nil, or different heights; parsed or locally built block) fails, silently, leaving the state as
   it was. *)
Theorem C20_ctx_mismatch_rejected : forall c st tbl co h v ob,
  vcall co = Some (h, v) -> s_ready st = true -> nthN (s_objs st) h = Some ob ->
  ctx_eqb v (lookup (o_id ob) tbl) = false ->
  exists e, cstep c (st, tbl) co = ((st, tbl), RErr e, []).
Proof. exact mismatch_rejected. Qed.
Print Assumptions C20_ctx_mismatch_rejected.

(* With a matching context - and with any context while the VM is in dynamic state sync, where the
   Go code does not look at it - VerifyWithContext is exactly Verify() of the context-free model. *)
Theorem C20_ctx_match_is_verify : forall c st tbl co h v,
  vcall co = Some (h, v) ->
  (s_ready st = false \/ forall ob, nthN (s_objs st) h = Some ob -> ctx_eqb v (lookup (o_id ob) tbl) = true) ->
  cstep c (st, tbl) co = (let '(st', r, evs) := step c st (OVerify h) in ((st', tbl), r, evs)).
Proof. exact match_is_verify. Qed.
Print Assumptions C20_ctx_match_is_verify.

(* Retry: after a verify call refused for its context, any next call behaves as if the refused call
   had never been made; so (with C20_ctx_match_is_verify) a retry with the right context is a first
   verification: VerifyBlock runs once and the verified notification is sent once. *)
Theorem C20_ctx_retry : forall c cs co1 co2 cs1 evs1,
  vcall co1 <> None -> cstep c cs co1 = (cs1, RErr eCtxMismatch, evs1) ->
  cstep c cs1 co2 = cstep c cs co2.
Proof. exact retry_after_mismatch. Qed.
Print Assumptions C20_ctx_retry.

(* ---- non-vacuity: runs with contexts: parsed block with inner context 5 verified with Verify() (refused),
   with height 4 (refused), then with height 5 (verified, notified once); a block without context verified
   with a context (refused) while its sibling is verified and accepted; BuildBlockWithContext(2) verified
   with nil (refused) then with 2 *)
Example C20_ctx_engine_ok_example :
  let c := mkCfg 2 2 true in
  let cops := [CParseNew 0 false (Some 5); COp (OVerify 1); CVerify 1 (Some 4); CVerify 1 (Some 5);
               COp (OParseNew 0 false); CVerify 2 (Some 3); COp (OSetPref 1); CBuild (Some 2); CVerify 3 None;
               CVerify 3 (Some 2); COp (OAccept 1); COp OProcess; COp (OAccept 3); COp OProcess; COp (OGetBlock 2)] in
  cengine_ok c 1 cops = true /\ no_sync (map base cops) = true /\
  project c (init_cstate c) cops =
    [OParseNew 0 false; OVerify 1; OParseNew 0 false; OSetPref 1; OBuild; OVerify 3; OAccept 1; OProcess;
     OAccept 3; OProcess; OGetBlock 2] /\
  map fst (crun_obs c (init_cstate c) cops) =
    [RBlk (BH 1) 1 false false; RErr eCtxMismatch; RErr eCtxMismatch; RUnit;
     RBlk (BH 2) 2 false false; RErr eCtxMismatch; RUnit; RBlk (BH 3) 3 true false; RErr eCtxMismatch;
     RUnit; RUnit; RUnit; RUnit; RUnit; RErr eNotFound] /\
  nverified (concat (map snd (crun_obs c (init_cstate c) cops))) = [1].
Proof. vm_compute. repeat split; reflexivity. Qed.

Example C20_ctx_mismatch_example :
  let c := mkCfg 2 2 true in
  match cerun c 1 (init_cstate c) (init_estate c) [CParseNew 0 false (Some 5)] with
  | Some (cs, _, _) => cstep c cs (CVerify 1 (Some 4)) = (cs, RErr eCtxMismatch, [])
                       /\ cstep c cs (COp (OVerify 1)) = (cs, RErr eCtxMismatch, [])
                       /\ snd (cstep c cs (CVerify 1 (Some 5))) = [EVerify 0 1 true; NVerified 1]
  | None => False
  end.
Proof. vm_compute. repeat split; reflexivity. Qed.
