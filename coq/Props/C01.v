(* C01 — parallel block execution is deterministic and equals sequential execution.

   The checked model of Processor.Execute (Model/Chain.v [execute_block], compared with the real
   processor under several core / fetcher / worker configurations by Check/Chain_check.v) runs the
   block's tasks sequentially ([run_txs]).  Model/ParExec.v generalises the task loop to an arbitrary
   schedule [sigma] (order in which the tasks run and commit on the shared block-level TState);
   [run_txs] is the schedule "block order" (C01_sequential_is_identity_schedule).  The theorems
   below say that EVERY schedule that is a permutation of the block's positions and keeps each
   conflicting pair in block order produces the same block diff, the same per-position results,
   the same verdict, prices and units as the sequential model.

   Atoms of the schedule model: a whole task (fresh view, PreExecute, Execute, Commit).  That the Go
   executor only produces such schedules (conflicting tasks never overlap and keep block order) is
   property C08's theorem; atomicity of TStateView.Commit and of single reads is the lock discipline
   of state/tstate (assumption listed in props/C01.json). *)
From stdpp Require Import gmap.
From Coq Require Import NArith ZArith.
From HV Require Import Lib.Bytes Lib.U64 Model.Keys Model.Tstate Model.Fees Model.Chain Model.ParExec
                       Proofs.ParExec_proofs.
Local Open Scope N_scope.

(* ---- meaning of [conflict] ------------------------------------------------------------------- *)
Theorem C01_conflict_meaning : forall a b : gmap key perm,
  conflict a b = true <->
  exists k p q, a !! k = Some p /\ b !! k = Some q /\ (more_than_read p = true \/ more_than_read q = true).
Proof. exact conflict_spec. Qed.
Print Assumptions C01_conflict_meaning.

(* ---- the sequential model is the identity schedule ------------------------------------------- *)
Theorem C01_sequential_is_identity_schedule : forall r fm parent ts st (ptxs : list ptx),
  par_block r fm parent ts st ptxs (seq 0 (length ptxs)) = run_txs r fm parent ts st ptxs.
Proof. intros. apply par_block_identity. Qed.
Print Assumptions C01_sequential_is_identity_schedule.

(* ---- (a) footprint of one task ---------------------------------------------------------------
   A task's outcome and the changes it publishes depend on the shared block diff only through the
   values under its READ-declared keys, and it publishes changes only for WRITE-declared keys
   (the fee sponsor's balance key is always declared read|write by [tx_decls]; a task that fails
   publishes nothing: P = ∅, n = 0). *)
Theorem C01_task_footprint : forall r fm parent ts t sk u st1 st2,
  (forall k, keys_has sk k pRead = true -> under_of st1 (fetch parent sk) k = under_of st2 (fetch parent sk) k) ->
  exists P n o,
    run_tx r fm parent ts st1 t sk u = (mkTS (P ∪ ts_changed st1) (ts_ops st1 + n), o) /\
    run_tx r fm parent ts st2 t sk u = (mkTS (P ∪ ts_changed st2) (ts_ops st2 + n), o) /\
    (forall k, is_Some (P !! k) -> keys_has sk k pWrite = true).
Proof. exact run_tx_footprint. Qed.
Print Assumptions C01_task_footprint.

(* ---- (b) two adjacent non-conflicting tasks commute ------------------------------------------ *)
Theorem C01_adjacent_swap : forall r fm parent ts st tA skA uA tB skB uB,
  conflict skA skB = false ->
  forall stA oA stAB oB stB oB' stBA oA',
  run_tx r fm parent ts st tA skA uA = (stA, oA) -> run_tx r fm parent ts stA tB skB uB = (stAB, oB) ->
  run_tx r fm parent ts st tB skB uB = (stB, oB') -> run_tx r fm parent ts stB tA skA uA = (stBA, oA') ->
  stAB = stBA /\ oA = oA' /\ oB = oB'.
Proof. exact run_tx_commute_conflict. Qed.
Print Assumptions C01_adjacent_swap.

(* ---- commits of non-conflicting tasks are invisible to a task --------------------------------
   However many tasks that do not conflict with a task commit (before it starts or between two of its
   reads), every key it may read shows the same value under the block diff, and its outcome is the
   same: the point at which a task runs among its non-conflicting neighbours is unobservable.  (This
   is the step that lets the whole task be treated as one atom of the schedule.) *)
Theorem C01_nonconflicting_commits_invisible : forall r fm parent ts t sk u (l : list ptx) st,
  (forall p, p ∈ l -> conflict (ptx_keys p) sk = false) ->
  let st' := fst (fst (run_txs r fm parent ts st l)) in
  (forall k, keys_has sk k pRead = true ->
     under_of st' (fetch parent sk) k = under_of st (fetch parent sk) k) /\
  snd (run_tx r fm parent ts st' t sk u) = snd (run_tx r fm parent ts st t sk u).
Proof. exact nonconflicting_commits_invisible_run_tx. Qed.
Print Assumptions C01_nonconflicting_commits_invisible.

(* ---- finer grain: commits that fall BETWEEN two operations of a running task -----------------
   A view reads the shared block diff lazily at every operation, so other tasks may commit while a
   task is running.  For ANY history of view operations (reads, writes, deletes, rollbacks) cut at
   arbitrary points, each segment seeing the block diff current at that time: if those diffs show
   the same values as the original one under every read-declared key of the view (which is what
   commits of non-conflicting tasks guarantee, C01_nonconflicting_commits_invisible), the results of
   all operations, the final pending changes and the op count are those of the uninterrupted history
   on the original diff.  The atoms are then single view operations (each under the TState lock),
   not whole tasks; a task body (PreExecute, fee deduction, actions, rollback on failure) is such a
   history (ChainBridge_proofs: reach / run_actions_shape). *)
Theorem C01_interleaved_commits_snapshot_free : forall (s : view) (segs : list (tstate * list hop)),
  (forall ts' hs, (ts', hs) ∈ segs ->
     forall k, scope_has (v_scope s) k pRead = true -> under_of ts' (v_base s) k = under s k) ->
  let '(s1, r1) := run_segments s segs in
  let '(s2, r2) := run s (concat (map snd segs)) in
  r1 = r2 /\ pending s1 = pending s2 /\ op_index s1 = op_index s2.
Proof. exact run_segments_snapshot_free. Qed.
Print Assumptions C01_interleaved_commits_snapshot_free.

(* ---- (c) every conflict-respecting schedule equals sequential execution ----------------------
   On the task loop: same final block-level TState (changedKeys map and op counter, as equal
   records), same results in block order, same errors of failing tasks in block order. *)
Theorem C01_any_conflict_respecting_schedule : forall r fm parent ts st (ptxs : list ptx) (sigma : list nat),
  sigma ≡ₚ seq 0 (length ptxs) -> respects ptxs sigma ->
  par_block r fm parent ts st ptxs sigma = run_txs r fm parent ts st ptxs.
Proof. intros. apply par_block_respects; assumption. Qed.
Print Assumptions C01_any_conflict_respecting_schedule.

(* On Processor.Execute: verdict (error class / sub-class), results, block diff, metadata, unit
   prices and units consumed are those of the sequential model, for all rules, parents and blocks. *)
Theorem C01_block_any_conflict_respecting_schedule : forall r mk p b (sigma : list nat),
  sigma ≡ₚ seq 0 (length (b_txs b)) -> respects_block (b_txs b) sigma ->
  execute_block_sched r mk p b sigma = execute_block r mk p b.
Proof. exact execute_block_sched_eq. Qed.
Print Assumptions C01_block_any_conflict_respecting_schedule.

(* The executor's own conflict notion (anything that is not exactly Read is exclusive) is coarser:
   a schedule that keeps the executor's conflicting pairs in block order is covered. *)
Theorem C01_executor_schedules : forall r mk p b (sigma : list nat),
  sigma ≡ₚ seq 0 (length (b_txs b)) -> respects_block_with exec_conflict (b_txs b) sigma ->
  execute_block_sched r mk p b sigma = execute_block r mk p b.
Proof. intros r mk p b sigma Hp Hr. apply execute_block_sched_eq; [exact Hp | apply respects_block_exec, Hr]. Qed.
Print Assumptions C01_executor_schedules.

(* ---- determinism: any two conflict-respecting schedules agree with each other ---------------- *)
Theorem C01_deterministic : forall r mk p b (s1 s2 : list nat),
  s1 ≡ₚ seq 0 (length (b_txs b)) -> respects_block (b_txs b) s1 ->
  s2 ≡ₚ seq 0 (length (b_txs b)) -> respects_block (b_txs b) s2 ->
  execute_block_sched r mk p b s1 = execute_block_sched r mk p b s2.
Proof. exact execute_block_sched_deterministic. Qed.
Print Assumptions C01_deterministic.

(* ---- units and prices are schedule-free -------------------------------------------------------
   They are produced by the synchronous loop ([prepare]: StateKeys, Units, Consume in block order)
   before any task runs: for ANY two schedules (conflict-respecting or not) and any two parents with
   the same stored fee manager (whatever their key-value data), two successful executions of a block
   report the same fee manager, unit prices and units consumed, given in closed form by [prepare]. *)
Theorem C01_units_schedule_free : forall r mk p1 p2 b (s1 s2 : list nat) o1 o2,
  p_fee p1 = p_fee p2 ->
  execute_block_sched r mk p1 b s1 = inl o1 -> execute_block_sched r mk p2 b s2 = inl o2 ->
  o_fee o1 = o_fee o2 /\ o_prices o1 = o_prices o2 /\ o_consumed o1 = o_consumed o2.
Proof. exact units_schedule_free. Qed.
Print Assumptions C01_units_schedule_free.

Theorem C01_units_closed_form : forall r mk p b (sigma : list nat) o,
  execute_block_sched r mk p b sigma = inl o ->
  exists ptxs,
    prepare r (compute_next (p_fee p) (b_ts b) (r_target r) (r_denom r) (r_min_price r)) (b_txs b) = inl (ptxs, o_fee o)
    /\ o_prices o = unit_prices (o_fee o) /\ o_consumed o = units_consumed (o_fee o).
Proof. exact execute_block_sched_fees. Qed.
Print Assumptions C01_units_closed_form.

(* ---- non-vacuity ----------------------------------------------------------------------------- *)
Definition ex_rules : rules :=
  mkRules 100%Z 750%Z [1;1;1;1;1] [48;48;48;48;48] [20000000;1000;1000;1000;1000] [1800000;2000;2000;2000;2000]
          60000%Z 4 1 5 2 20 5 10 3.
Definition ex_fee : manager := mkFee 1058 [1;100;1;1;1] [] [1500;500;1500;0;0].
Definition kA : key := [209;0;1].
Definition kB : key := [210;0;1].
Definition sp0 : key := [1;0;1].  Definition sp1 : key := [2;0;1].  Definition sp2 : key := [3;0;1].
Definition ex_tx (sp : key) (decl : list (key * perm)) (ops : list sop) : tx :=
  mkTx 1067000%Z true 1000000 sp true 3 (-1)%Z (-1)%Z 100 false [mkAction 1 decl ops (-1)%Z (-1)%Z].
(* tx0 and tx2 both write kA (conflict); tx1 only touches kB and its own balance *)
Definition ex_txs : list tx :=
  [ ex_tx sp0 [(kA, pAll)] [OPut kA [3]];
    ex_tx sp1 [(kB, pAll)] [OPut kB [4]];
    ex_tx sp2 [(kA, pAll)] [OGet kA; OPut kA [5]] ].
Definition ex_parent (fee : manager) (extra : list (key * val)) : parent_state :=
  mkParent (list_to_map ([(sp0, be64 500000); (sp1, be64 500000); (sp2, be64 500000)] ++ extra)) (Some 47) 1059318 fee.
Definition ex_block : block := mkBlock 1059418%Z 48 true false false None ex_txs.
Definition ex_meta : meta_keys := mkMeta [0;0;1] [0;1;1] [0;2;1].

Example C01_ex_conflicts :
  tx_conflict_at conflict ex_txs 0 2 = true /\ tx_conflict_at conflict ex_txs 0 1 = false /\
  tx_conflict_at conflict ex_txs 1 2 = false.
Proof. vm_compute. auto. Qed.

(* sigma = [1;0;2] is a permutation that respects the conflicts *)
Example C01_ex_sigma_perm : [1; 0; 2]%nat ≡ₚ seq 0 (length (b_txs ex_block)).
Proof. cbn. apply perm_swap. Qed.
Example C01_ex_sigma_respects : respects_block (b_txs ex_block) [1; 0; 2]%nat.
Proof. apply respects_block_b_spec. vm_compute. reflexivity. Qed.
Example C01_ex_sigma_respects_exec : respects_block_with exec_conflict (b_txs ex_block) [1; 0; 2]%nat.
Proof. apply respects_block_b_spec. vm_compute. reflexivity. Qed.

(* ... the block succeeds, tx2 reads the value written by tx0, and the schedule gives the sequential outcome *)
Example C01_ex_outcome :
  match execute_block_sched ex_rules ex_meta (ex_parent ex_fee []) ex_block [1; 0; 2]%nat with
  | inl o => map res_outputs (o_results o) = [[[]]; [[]]; [[1; 1; 3]]] /\ o_diff o !! kA = Some (Some [5])
  | inr _ => False
  end.
Proof. vm_compute. auto. Qed.
Example C01_ex_equal :
  execute_block_sched ex_rules ex_meta (ex_parent ex_fee []) ex_block [1; 0; 2]%nat
  = execute_block ex_rules ex_meta (ex_parent ex_fee []) ex_block.
Proof. apply C01_block_any_conflict_respecting_schedule; [exact C01_ex_sigma_perm | exact C01_ex_sigma_respects]. Qed.

(* the hypothesis matters: the permutation [2;0;1] puts the conflicting pair (0,2) out of block order,
   is rejected by [respects_block], and produces a different outcome (tx2 reads "absent", kA ends as [3]) *)
Example C01_ex_bad_schedule :
  respects_block_b conflict ex_txs [2; 0; 1]%nat = false /\
  match execute_block_sched ex_rules ex_meta (ex_parent ex_fee []) ex_block [2; 0; 1]%nat with
  | inl o => map res_outputs (o_results o) = [[[]]; [[]]; [[0]]] /\ o_diff o !! kA = Some (Some [3])
  | inr _ => False
  end.
Proof. vm_compute. auto. Qed.

(* C01_adjacent_swap / C01_task_footprint: hypotheses satisfiable *)
Example C01_ex_swap_hyp : exists skA skB, state_keys (ex_tx sp0 [(kA, pAll)] [OPut kA [3]]) = Some skA /\
  state_keys (ex_tx sp1 [(kB, pAll)] [OPut kB [4]]) = Some skB /\ conflict skA skB = false.
Proof. eexists _, _. split; [reflexivity|]. split; [reflexivity|]. vm_compute. reflexivity. Qed.

(* C01_units_schedule_free: two parents with different data, two different schedules (one of them not
   even conflict-respecting), both succeed, and report the same fee manager / prices / units *)
Example C01_ex_units :
  match execute_block_sched ex_rules ex_meta (ex_parent ex_fee []) ex_block [1; 0; 2]%nat,
        execute_block_sched ex_rules ex_meta (ex_parent ex_fee [(kA, [9]); (kB, [7; 7])]) ex_block [2; 0; 1]%nat with
  | inl o1, inl o2 => o_results o1 <> o_results o2 /\ o_consumed o1 = o_consumed o2 /\ o_consumed o1 = [300; 15; 42; 150; 78]
  | _, _ => False
  end.
Proof. vm_compute. split; [discriminate | auto]. Qed.

(* C01_interleaved_commits_snapshot_free: a view on kA; between its operations another task commits
   a change of kB (not declared by the view) *)
Definition ex_view : view := new_view ts_new (ScopeKeys {[kA := pAll]}) ∅.
Definition ex_segs : list (tstate * list hop) :=
  [ (ts_new, [HGet kA; HIns kA [1]]); (mkTS {[kB := Some [9]]} 3, [HGet kA; HRem kA; HGet kA]) ].
Example C01_ex_segments_hyp : forall ts' hs, (ts', hs) ∈ ex_segs ->
  forall k, scope_has (v_scope ex_view) k pRead = true -> under_of ts' (v_base ex_view) k = under ex_view k.
Proof.
  intros ts' hs Hin k Hk. cbn [ex_view new_view v_scope scope_has] in Hk. unfold keys_has in Hk.
  destruct (decide (k = kA)) as [->|Hne].
  - unfold ex_segs in Hin. repeat (apply elem_of_cons in Hin; destruct Hin as [Hin|Hin]; [inversion Hin; subst; vm_compute; reflexivity|]).
    inversion Hin.
  - rewrite lookup_singleton_ne in Hk by congruence. vm_compute in Hk. discriminate Hk.
Qed.
Example C01_ex_segments_run :
  snd (run_segments ex_view ex_segs) = [RErr ENotFound; ROk; RVal [1]; ROk; RErr ENotFound].
Proof. vm_compute. reflexivity. Qed.

(* ==== composition with property C08: the executor only produces conflict-respecting schedules ====

   C01_executor_schedules above ASSUMES that the schedule keeps the executor's conflicting pairs in
   block order.  Props/C08.v PROVES, for every trace of the labelled transition system of
   internal/executor/executor.go (Model/Executor.v: any interleaving of the lock regions, any number of
   workers), that a task body begins only after the body of every earlier conflicting task ended.  The
   theorems below compose the two (proofs in Proofs/ExecCompose_proofs.v, which uses C08_once,
   C08_order_code, C08_all_run, C08_done_stuck as stated in Props/C08.v):

     [task_of enc sk]       the executor model's task for the Go map sk : state.Keys — the list of its
                            (key, permission) pairs, keys numbered by ANY injection enc : key -> N
                            (the executor model's keys are numbers, C01's keys are byte strings);
     [tasks_of enc ptxs]    one task per prepared transaction, in block order (chain/processor.go
                            executeTxs: `for li, ltx := range b.StatelessBlock.Txs`, line 249, calls
                            `e.Run(stateKeys, func() error {...})`, line 278, once per transaction with
                            the `stateKeys` returned by tx.StateKeys, line 253);
     [block_tasks enc txs]  the same from the block's transactions ([state_keys t]);
     [begin_order (log s)]  the task ids in the order in which their bodies began in the run that led
                            to the executor state s (Executor.log is newest-first; begin_order reverses).

   What is still assumed, outside these theorems (unchanged from C01's other theorems, but now only this):
   (1) a task body (the closure passed to e.Run: f.Get, NewView, PreExecute, Execute, Commit,
       processor.go 278-310) is [Chain.run_tx] on the block-level TState as it is when the body runs
       relative to the CONFLICTING tasks; that is legitimate because conflicting bodies never overlap
       (C08_order_code: EvEnd i precedes EvBegin j) and commits of non-conflicting, possibly
       overlapping bodies are invisible to it (C01_nonconflicting_commits_invisible for whole tasks,
       C01_interleaved_commits_snapshot_free for commits between two of its view operations, each
       view operation / Commit being atomic under the TState lock);
   (2) the processor uses the executor as [tasks_of]/[block_tasks] say (read off processor.go 243-316:
       executor.New(numTxs, cores, MaxKeyDependencies = 100000000, ...), one Run per transaction in
       block order, e.Wait() == nil is "all_done and err = None"); the differential check of C01
       exercises exactly this code under several core counts;
   (3) Model/Executor.v is a faithful LTS of executor.go (tied to the Go code by C08's trace
       validation). *)
From HV Require Model.Executor Proofs.Executor_proofs.
From HV Require Import Proofs.ExecCompose_proofs.

(* ---- the encoding satisfies the executor's contract ------------------------------------------
   Keys of one task pairwise distinct (state.Keys is a map; needs enc injective) and
   #tasks <= maxDependencies: [cfg_ok], the hypothesis of every C08 theorem. *)
Theorem C01_tasks_of_contract : forall (enc : key -> N), Inj (=) (=) enc ->
  forall (ptxs : list ptx) (maxd : Z) (nw : nat), (Z.of_nat (length ptxs) <= maxd)%Z ->
  Executor_proofs.cfg_ok (Executor.mkC (tasks_of enc ptxs) maxd nw).
Proof. intros enc Henc. exact (tasks_of_cfg_ok enc). Qed.
Print Assumptions C01_tasks_of_contract.

Theorem C01_block_tasks_contract : forall (enc : key -> N), Inj (=) (=) enc ->
  forall (txs : list tx) (maxd : Z) (nw : nat), (Z.of_nat (length txs) <= maxd)%Z ->
  Executor_proofs.cfg_ok (Executor.mkC (block_tasks enc txs) maxd nw).
Proof. intros enc Henc. exact (block_tasks_cfg_ok enc). Qed.
Print Assumptions C01_block_tasks_contract.

(* [prepare] hands the executor exactly the state keys of the block's transactions *)
Theorem C01_tasks_of_prepared : forall (enc : key -> N) r fm txs ptxs fm',
  prepare r fm txs = inl (ptxs, fm') -> tasks_of enc ptxs = block_tasks enc txs.
Proof. exact tasks_of_prepared. Qed.
Print Assumptions C01_tasks_of_prepared.

(* ---- the executor's conflict relation on the encoded tasks IS exec_conflict ------------------- *)
Theorem C01_conflict_encoding : forall (enc : key -> N), Inj (=) (=) enc ->
  forall a b : gmap key perm,
  Executor.conflict (task_of enc a) (task_of enc b) = exec_conflict a b.
Proof. intros enc Henc. exact (conflict_enc enc). Qed.
Print Assumptions C01_conflict_encoding.

(* ---- EVERY reachable executor state: the begin order respects the block's conflicts ----------
   No completeness / no-failure hypothesis: any prefix of any run, with failing bodies and Stop calls. *)
Theorem C01_executor_trace_respects : forall (enc : key -> N), Inj (=) (=) enc ->
  forall (ptxs : list ptx) c tr s,
  Executor.c_ts c = tasks_of enc ptxs -> Executor_proofs.cfg_ok c -> Executor.steps c Executor.init tr s ->
  respects_with exec_conflict ptxs (begin_order (Executor.log s)).
Proof. intros enc Henc. exact (trace_respects enc). Qed.
Print Assumptions C01_executor_trace_respects.

Theorem C01_executor_trace_respects_block : forall (enc : key -> N), Inj (=) (=) enc ->
  forall (txs : list tx) c tr s,
  Executor.c_ts c = block_tasks enc txs -> Executor_proofs.cfg_ok c -> Executor.steps c Executor.init tr s ->
  respects_block_with exec_conflict txs (begin_order (Executor.log s)).
Proof. intros enc Henc. exact (trace_respects_block enc). Qed.
Print Assumptions C01_executor_trace_respects_block.

(* ... and it is a duplicate-free list of block positions (every reachable state) *)
Theorem C01_executor_trace_schedule_wf : forall c tr s,
  Executor_proofs.cfg_ok c -> Executor.steps c Executor.init tr s ->
  NoDup (begin_order (Executor.log s)) /\
  forall i, i ∈ begin_order (Executor.log s) -> (i < length (Executor.c_ts c))%nat.
Proof.
  intros c tr s Hc Hst. split; [exact (trace_begins_nodup c tr s Hc Hst)|].
  intros i Hi. apply (trace_begun_lt c tr s Hc Hst), begin_order_in, Hi.
Qed.
Print Assumptions C01_executor_trace_schedule_wf.

(* ---- complete runs without error (e.Wait() returned nil): a permutation of the positions ------ *)
Theorem C01_executor_complete_run_permutation : forall (enc : key -> N),
  forall (ptxs : list ptx) c tr s,
  Executor.c_ts c = tasks_of enc ptxs -> Executor_proofs.cfg_ok c -> Executor.steps c Executor.init tr s ->
  Executor.all_done c s -> Executor.err s = None ->
  begin_order (Executor.log s) ≡ₚ seq 0 (length ptxs).
Proof. exact trace_perm. Qed.
Print Assumptions C01_executor_complete_run_permutation.

(* ---- THE COMPOSED THEOREM ----------------------------------------------------------------------
   For all rules, parents, blocks: take ANY run of the executor LTS over the block's tasks (any worker
   count, any interleaving of registration, workers and notifications) that is complete and recorded no
   error.  Executing the block's transactions in the order in which the executor started them gives
   exactly the verdict, results, block diff, metadata, prices and units of sequential execution. *)
Theorem C01_C08_composed : forall (enc : key -> N), Inj (=) (=) enc ->
  forall r mk p b c tr s,
  Executor.c_ts c = block_tasks enc (b_txs b) -> Executor_proofs.cfg_ok c ->
  Executor.steps c Executor.init tr s -> Executor.all_done c s -> Executor.err s = None ->
  execute_block_sched r mk p b (begin_order (Executor.log s)) = execute_block r mk p b.
Proof. intros enc Henc. exact (composed_block enc). Qed.
Print Assumptions C01_C08_composed.

(* the same with the executor configuration spelled out: only the documented constructor contract
   (#txs <= maxDependencies) remains as a hypothesis on the configuration *)
Theorem C01_C08_composed_any_workers : forall (enc : key -> N), Inj (=) (=) enc ->
  forall r mk p b (maxd : Z) (nw : nat) tr s,
  (Z.of_nat (length (b_txs b)) <= maxd)%Z ->
  Executor.steps (Executor.mkC (block_tasks enc (b_txs b)) maxd nw) Executor.init tr s ->
  Executor.all_done (Executor.mkC (block_tasks enc (b_txs b)) maxd nw) s -> Executor.err s = None ->
  execute_block_sched r mk p b (begin_order (Executor.log s)) = execute_block r mk p b.
Proof.
  intros enc Henc r mk p b maxd nw tr s Hm Hst Hd He.
  apply (composed_block enc) with (c := Executor.mkC (block_tasks enc (b_txs b)) maxd nw) (tr := tr);
    [reflexivity | apply (block_tasks_cfg_ok enc), Hm | exact Hst | exact Hd | exact He].
Qed.
Print Assumptions C01_C08_composed_any_workers.

(* stated on the trace instead of the final error register: no Stop call and no failing body *)
Theorem C01_C08_composed_clean_trace : forall (enc : key -> N), Inj (=) (=) enc ->
  forall r mk p b c tr s,
  Executor.c_ts c = block_tasks enc (b_txs b) -> Executor_proofs.cfg_ok c -> (1 <= Executor.c_nw c)%nat ->
  Executor.steps c Executor.init tr s -> Executor.all_done c s ->
  ~ In Executor.LStop tr -> (forall t, ~ In (Executor.LFEnd t false) tr) ->
  execute_block_sched r mk p b (begin_order (Executor.log s)) = execute_block r mk p b.
Proof.
  intros enc Henc r mk p b c tr s Hts Hc Hnw Hst Hd Hstop Hfail.
  apply (composed_block enc) with (c := c) (tr := tr); try assumption.
  exact (proj1 (clean_trace_all_begun c tr s Hc Hst Hnw Hd Hstop Hfail)).
Qed.
Print Assumptions C01_C08_composed_clean_trace.

(* the task loop alone (prepared transactions): final block-level TState, results and task errors *)
Theorem C01_C08_composed_task_loop : forall (enc : key -> N), Inj (=) (=) enc ->
  forall r fm parent ts st (ptxs : list ptx) c tr s,
  Executor.c_ts c = tasks_of enc ptxs -> Executor_proofs.cfg_ok c ->
  Executor.steps c Executor.init tr s -> Executor.all_done c s -> Executor.err s = None ->
  par_block r fm parent ts st ptxs (begin_order (Executor.log s)) = run_txs r fm parent ts st ptxs.
Proof. intros enc Henc. exact (composed_task_loop enc). Qed.
Print Assumptions C01_C08_composed_task_loop.

(* ---- incomplete and failing runs ----------------------------------------------------------------
   EVERY reachable executor state (any prefix of any run; failing bodies, Stop calls, tasks skipped
   after an error): the started tasks are closed under "earlier conflicting task" (C08_order_code), so
   the begin order extends to a conflict-respecting permutation by the not yet started positions;
   consequently every task whose body started has — run in the order in which the executor started
   the bodies — exactly the outcome (Result or error) it has in sequential execution (the identity
   schedule, C01_sequential_is_identity_schedule).  In particular an error that makes the real
   executor skip the remaining tasks is an error of the sequential execution of the block. *)
Theorem C01_C08_started_tasks_sequential : forall (enc : key -> N), Inj (=) (=) enc ->
  forall r fm parent ts st (ptxs : list ptx) c tr s,
  Executor.c_ts c = tasks_of enc ptxs -> Executor_proofs.cfg_ok c -> Executor.steps c Executor.init tr s ->
  forall i o, (i, o) ∈ snd (par_exec r fm parent ts st ptxs (begin_order (Executor.log s))) ->
              (i, o) ∈ snd (par_exec r fm parent ts st ptxs (seq 0 (length ptxs))).
Proof. intros enc Henc. exact (trace_started_sequential enc). Qed.
Print Assumptions C01_C08_started_tasks_sequential.

(* ---- non-vacuity of the composition -------------------------------------------------------------
   The 3-transaction block above (tx0 and tx2 write kA, tx1 touches kB; every tx also declares its
   sponsor's balance key).  Keys are numbered by stdpp's injective encoding of byte strings. *)
Definition enc_key (k : key) : N := Npos (countable.encode k).
Global Instance enc_key_inj : Inj (=) (=) enc_key.
Proof. intros x y H. unfold enc_key in H. inversion H as [H1]. apply (inj countable.encode) in H1. exact H1. Qed.

Definition ex_tasks : list Executor.task := block_tasks enc_key ex_txs.
Definition ex_cfg : Executor.cfg := Executor.mkC ex_tasks 100000000 2.

(* two workers; all three transactions are registered (Run: one LRunKey per declared key), task 2 waits
   for task 0 (both write kA); the workers take 0 and 1, the body of 1 starts BEFORE the body of 0 and
   the two overlap; 2 starts after 0 notified it *)
Definition ex_trace : list Executor.label :=
  (flat_map Executor.reg_labels ex_tasks ++
  [Executor.LTake; Executor.LTake; Executor.LCheck 1; Executor.LCheck 0;
   Executor.LFEnd 1 true; Executor.LFEnd 0 true; Executor.LSetErr 0; Executor.LSetErr 1;
   Executor.LNotify 0; Executor.LNotify 1;
   Executor.LTake; Executor.LCheck 2; Executor.LFEnd 2 true; Executor.LSetErr 2; Executor.LNotify 2])%nat.

(* the encoded tasks: same conflicts as computed on the key maps (C01_ex_conflicts) *)
Example C01_ex_tasks :
  map (map snd) ex_tasks = [[pWrite; pAll]; [pAll; pWrite]; [pWrite; pAll]] /\
  Executor.conflict (nth 0 ex_tasks []) (nth 2 ex_tasks []) = true /\
  Executor.conflict (nth 0 ex_tasks []) (nth 1 ex_tasks []) = false /\
  Executor.conflict (nth 1 ex_tasks []) (nth 2 ex_tasks []) = false /\
  tx_conflict_at exec_conflict ex_txs 0 2 = true /\ tx_conflict_at exec_conflict ex_txs 0 1 = false /\
  tx_conflict_at exec_conflict ex_txs 1 2 = false.
Proof. vm_compute. repeat split; reflexivity. Qed.

Example C01_ex_cfg_ok : Executor_proofs.cfg_ok ex_cfg.
Proof. apply (C01_block_tasks_contract enc_key _ ex_txs). vm_compute. intros H. discriminate H. Qed.

(* the trace is accepted by the executor LTS, ends in a final state without error, and the bodies began
   in the order 1, 0, 2 *)
Example C01_ex_run : exists s,
  Executor.steps ex_cfg Executor.init ex_trace s /\ Executor.all_done ex_cfg s /\ Executor.err s = None /\
  Executor.log s = [Executor.EvEnd 2 true; Executor.EvBegin 2; Executor.EvEnd 0 true; Executor.EvEnd 1 true;
                    Executor.EvBegin 0; Executor.EvBegin 1]%nat /\
  begin_order (Executor.log s) = [1; 0; 2]%nat.
Proof.
  destruct (Executor_proofs.run_labels_witness ex_cfg ex_trace
              (fun s => Executor_proofs.all_doneb ex_cfg s = true /\ Executor.err s = None /\
                 Executor.log s = [Executor.EvEnd 2 true; Executor.EvBegin 2; Executor.EvEnd 0 true;
                                   Executor.EvEnd 1 true; Executor.EvBegin 0; Executor.EvBegin 1]%nat /\
                 begin_order (Executor.log s) = [1; 0; 2]%nat)) as (s & Hst & Hd & He & Hl & Hb).
  { vm_compute. repeat split; reflexivity. }
  exists s. apply Executor_proofs.all_doneb_ok in Hd. auto.
Qed.

(* the instance of the composed theorem: the schedule produced by that executor run gives the
   sequential outcome (it is the schedule [1;0;2] of C01_ex_outcome) *)
Example C01_ex_composed : exists s,
  Executor.steps ex_cfg Executor.init ex_trace s /\ begin_order (Executor.log s) = [1; 0; 2]%nat /\
  execute_block_sched ex_rules ex_meta (ex_parent ex_fee []) ex_block (begin_order (Executor.log s))
  = execute_block ex_rules ex_meta (ex_parent ex_fee []) ex_block.
Proof.
  destruct C01_ex_run as (s & Hst & Hd & He & _ & Hb). exists s. split; [exact Hst|]. split; [exact Hb|].
  apply (C01_C08_composed enc_key _) with (c := ex_cfg) (tr := ex_trace);
    [reflexivity | exact C01_ex_cfg_ok | exact Hst | exact Hd | exact He].
Qed.

(* the every-reachable-state theorem on a run that is neither complete nor error-free: the body of
   task 0 fails, a Stop is called, task 2 never starts *)
Definition ex_trace_fail : list Executor.label :=
  (flat_map Executor.reg_labels ex_tasks ++
  [Executor.LTake; Executor.LTake; Executor.LCheck 1; Executor.LCheck 0;
   Executor.LFEnd 0 false; Executor.LSetErr 0; Executor.LStop; Executor.LNotify 0;
   Executor.LTake; Executor.LCheck 2])%nat.
Example C01_ex_failing_prefix : exists s,
  Executor.steps ex_cfg Executor.init ex_trace_fail s /\ Executor.err s = Some (Executor.ETask 0%nat) /\
  begin_order (Executor.log s) = [1; 0]%nat /\
  respects_block_with exec_conflict ex_txs (begin_order (Executor.log s)).
Proof.
  destruct (Executor_proofs.run_labels_witness ex_cfg ex_trace_fail
              (fun s => Executor.err s = Some (Executor.ETask 0%nat) /\
                        begin_order (Executor.log s) = [1; 0]%nat)) as (s & Hst & He & Hb).
  { vm_compute. split; reflexivity. }
  exists s. split; [exact Hst|]. split; [exact He|]. split; [exact Hb|].
  apply (C01_executor_trace_respects_block enc_key _) with (c := ex_cfg) (tr := ex_trace_fail);
    [reflexivity | exact C01_ex_cfg_ok | exact Hst].
Qed.

(* C01_C08_started_tasks_sequential on that failing run: the prepared transactions of the block are
   the executor's tasks, and the two started bodies (1 then 0) produce an outcome each *)
Example C01_ex_started :
  match prepare ex_rules (compute_next ex_fee (b_ts ex_block) (r_target ex_rules) (r_denom ex_rules) (r_min_price ex_rules)) ex_txs with
  | inl (ptxs, fm') =>
      tasks_of enc_key ptxs = ex_tasks /\
      map fst (snd (par_exec ex_rules fm' (p_data (ex_parent ex_fee [])) (b_ts ex_block) ts_new ptxs [1; 0]%nat)) = [1; 0]%nat
  | inr _ => False
  end.
Proof. vm_compute. split; reflexivity. Qed.
