(* C01 — parallel block execution is deterministic and equals sequential execution.

   The checked model of Processor.Execute (Model/Chain.v [execute_block], compared with the real
   processor under several core / fetcher / worker configurations by Check/Chain_check.v) runs the
   block's tasks sequentially ([run_txs]).  Model/ParExec.v generalises the task loop to an arbitrary
   schedule [sigma] (order in which the tasks run and commit on the shared block-level TState);
   [run_txs] is the schedule "block order" (C01_sequential_is_identity_schedule).  The theorems
   below say that EVERY schedule that is a permutation of the block's positions and keeps each
   conflicting pair in block order produces the same block diff, the same per-position results,
   the same verdict, prices and units as the sequential model.

   Atoms of the schedule model: a whole task (fresh view, PreExecute, Execute, Commit).  That the Go
   executor only produces such schedules (conflicting tasks never overlap and keep block order) is
   property C08's theorem; atomicity of TStateView.Commit and of single reads is the lock discipline
   of state/tstate (assumption listed in props/C01.json). *)
From stdpp Require Import gmap.
From Coq Require Import NArith ZArith.
From HV Require Import Lib.Bytes Lib.U64 Model.Keys Model.Tstate Model.Fees Model.Chain Model.ParExec
                       Proofs.ParExec_proofs.
Local Open Scope N_scope.

(* ---- meaning of [conflict] ------------------------------------------------------------------- *)
Theorem C01_conflict_meaning : forall a b : gmap key perm,
  conflict a b = true <->
  exists k p q, a !! k = Some p /\ b !! k = Some q /\ (more_than_read p = true \/ more_than_read q = true).
Proof. exact conflict_spec. Qed.
Print Assumptions C01_conflict_meaning.

(* ---- the sequential model is the identity schedule ------------------------------------------- *)
Theorem C01_sequential_is_identity_schedule : forall r fm parent ts st (ptxs : list ptx),
  par_block r fm parent ts st ptxs (seq 0 (length ptxs)) = run_txs r fm parent ts st ptxs.
Proof. intros. apply par_block_identity. Qed.
Print Assumptions C01_sequential_is_identity_schedule.

(* ---- (a) footprint of one task ---------------------------------------------------------------
   A task's outcome and the changes it publishes depend on the shared block diff only through the
   values under its READ-declared keys, and it publishes changes only for WRITE-declared keys
   (the fee sponsor's balance key is always declared read|write by [tx_decls]; a task that fails
   publishes nothing: P = ∅, n = 0). *)
Theorem C01_task_footprint : forall r fm parent ts t sk u st1 st2,
  (forall k, keys_has sk k pRead = true -> under_of st1 (fetch parent sk) k = under_of st2 (fetch parent sk) k) ->
  exists P n o,
    run_tx r fm parent ts st1 t sk u = (mkTS (P ∪ ts_changed st1) (ts_ops st1 + n), o) /\
    run_tx r fm parent ts st2 t sk u = (mkTS (P ∪ ts_changed st2) (ts_ops st2 + n), o) /\
    (forall k, is_Some (P !! k) -> keys_has sk k pWrite = true).
Proof. exact run_tx_footprint. Qed.
Print Assumptions C01_task_footprint.

(* ---- (b) two adjacent non-conflicting tasks commute ------------------------------------------ *)
Theorem C01_adjacent_swap : forall r fm parent ts st tA skA uA tB skB uB,
  conflict skA skB = false ->
  forall stA oA stAB oB stB oB' stBA oA',
  run_tx r fm parent ts st tA skA uA = (stA, oA) -> run_tx r fm parent ts stA tB skB uB = (stAB, oB) ->
  run_tx r fm parent ts st tB skB uB = (stB, oB') -> run_tx r fm parent ts stB tA skA uA = (stBA, oA') ->
  stAB = stBA /\ oA = oA' /\ oB = oB'.
Proof. exact run_tx_commute_conflict. Qed.
Print Assumptions C01_adjacent_swap.

(* ---- commits of non-conflicting tasks are invisible to a task --------------------------------
   However many tasks that do not conflict with a task commit (before it starts or between two of its
   reads), every key it may read shows the same value under the block diff, and its outcome is the
   same: the point at which a task runs among its non-conflicting neighbours is unobservable.  (This
   is the step that lets the whole task be treated as one atom of the schedule.) *)
Theorem C01_nonconflicting_commits_invisible : forall r fm parent ts t sk u (l : list ptx) st,
  (forall p, p ∈ l -> conflict (ptx_keys p) sk = false) ->
  let st' := fst (fst (run_txs r fm parent ts st l)) in
  (forall k, keys_has sk k pRead = true ->
     under_of st' (fetch parent sk) k = under_of st (fetch parent sk) k) /\
  snd (run_tx r fm parent ts st' t sk u) = snd (run_tx r fm parent ts st t sk u).
Proof. exact nonconflicting_commits_invisible_run_tx. Qed.
Print Assumptions C01_nonconflicting_commits_invisible.

(* ---- finer grain: commits that fall BETWEEN two operations of a running task -----------------
   A view reads the shared block diff lazily at every operation, so other tasks may commit while a
   task is running.  For ANY history of view operations (reads, writes, deletes, rollbacks) cut at
   arbitrary points, each segment seeing the block diff current at that time: if those diffs show
   the same values as the original one under every read-declared key of the view (which is what
   commits of non-conflicting tasks guarantee, C01_nonconflicting_commits_invisible), the results of
   all operations, the final pending changes and the op count are those of the uninterrupted history
   on the original diff.  The atoms are then single view operations (each under the TState lock),
   not whole tasks; a task body (PreExecute, fee deduction, actions, rollback on failure) is such a
   history (ChainBridge_proofs: reach / run_actions_shape). *)
Theorem C01_interleaved_commits_snapshot_free : forall (s : view) (segs : list (tstate * list hop)),
  (forall ts' hs, (ts', hs) ∈ segs ->
     forall k, scope_has (v_scope s) k pRead = true -> under_of ts' (v_base s) k = under s k) ->
  let '(s1, r1) := run_segments s segs in
  let '(s2, r2) := run s (concat (map snd segs)) in
  r1 = r2 /\ pending s1 = pending s2 /\ op_index s1 = op_index s2.
Proof. exact run_segments_snapshot_free. Qed.
Print Assumptions C01_interleaved_commits_snapshot_free.

(* ---- (c) every conflict-respecting schedule equals sequential execution ----------------------
   On the task loop: same final block-level TState (changedKeys map and op counter, as equal
   records), same results in block order, same errors of failing tasks in block order. *)
Theorem C01_any_conflict_respecting_schedule : forall r fm parent ts st (ptxs : list ptx) (sigma : list nat),
  sigma ≡ₚ seq 0 (length ptxs) -> respects ptxs sigma ->
  par_block r fm parent ts st ptxs sigma = run_txs r fm parent ts st ptxs.
Proof. intros. apply par_block_respects; assumption. Qed.
Print Assumptions C01_any_conflict_respecting_schedule.

(* On Processor.Execute: verdict (error class / sub-class), results, block diff, metadata, unit
   prices and units consumed are those of the sequential model, for all rules, parents and blocks. *)
Theorem C01_block_any_conflict_respecting_schedule : forall r mk p b (sigma : list nat),
  sigma ≡ₚ seq 0 (length (b_txs b)) -> respects_block (b_txs b) sigma ->
  execute_block_sched r mk p b sigma = execute_block r mk p b.
Proof. exact execute_block_sched_eq. Qed.
Print Assumptions C01_block_any_conflict_respecting_schedule.

(* The executor's own conflict notion (anything that is not exactly Read is exclusive) is coarser:
   a schedule that keeps the executor's conflicting pairs in block order is covered. *)
Theorem C01_executor_schedules : forall r mk p b (sigma : list nat),
  sigma ≡ₚ seq 0 (length (b_txs b)) -> respects_block_with exec_conflict (b_txs b) sigma ->
  execute_block_sched r mk p b sigma = execute_block r mk p b.
Proof. intros r mk p b sigma Hp Hr. apply execute_block_sched_eq; [exact Hp | apply respects_block_exec, Hr]. Qed.
Print Assumptions C01_executor_schedules.

(* ---- determinism: any two conflict-respecting schedules agree with each other ---------------- *)
Theorem C01_deterministic : forall r mk p b (s1 s2 : list nat),
  s1 ≡ₚ seq 0 (length (b_txs b)) -> respects_block (b_txs b) s1 ->
  s2 ≡ₚ seq 0 (length (b_txs b)) -> respects_block (b_txs b) s2 ->
  execute_block_sched r mk p b s1 = execute_block_sched r mk p b s2.
Proof. exact execute_block_sched_deterministic. Qed.
Print Assumptions C01_deterministic.

(* ---- units and prices are schedule-free -------------------------------------------------------
   They are produced by the synchronous loop ([prepare]: StateKeys, Units, Consume in block order)
   before any task runs: for ANY two schedules (conflict-respecting or not) and any two parents with
   the same stored fee manager (whatever their key-value data), two successful executions of a block
   report the same fee manager, unit prices and units consumed, given in closed form by [prepare]. *)
Theorem C01_units_schedule_free : forall r mk p1 p2 b (s1 s2 : list nat) o1 o2,
  p_fee p1 = p_fee p2 ->
  execute_block_sched r mk p1 b s1 = inl o1 -> execute_block_sched r mk p2 b s2 = inl o2 ->
  o_fee o1 = o_fee o2 /\ o_prices o1 = o_prices o2 /\ o_consumed o1 = o_consumed o2.
Proof. exact units_schedule_free. Qed.
Print Assumptions C01_units_schedule_free.

Theorem C01_units_closed_form : forall r mk p b (sigma : list nat) o,
  execute_block_sched r mk p b sigma = inl o ->
  exists ptxs,
    prepare r (compute_next (p_fee p) (b_ts b) (r_target r) (r_denom r) (r_min_price r)) (b_txs b) = inl (ptxs, o_fee o)
    /\ o_prices o = unit_prices (o_fee o) /\ o_consumed o = units_consumed (o_fee o).
Proof. exact execute_block_sched_fees. Qed.
Print Assumptions C01_units_closed_form.

(* ---- non-vacuity ----------------------------------------------------------------------------- *)
Definition ex_rules : rules :=
  mkRules 100%Z 750%Z [1;1;1;1;1] [48;48;48;48;48] [20000000;1000;1000;1000;1000] [1800000;2000;2000;2000;2000]
          60000%Z 4 1 5 2 20 5 10 3.
Definition ex_fee : manager := mkFee 1058 [1;100;1;1;1] [] [1500;500;1500;0;0].
Definition kA : key := [209;0;1].
Definition kB : key := [210;0;1].
Definition sp0 : key := [1;0;1].  Definition sp1 : key := [2;0;1].  Definition sp2 : key := [3;0;1].
Definition ex_tx (sp : key) (decl : list (key * perm)) (ops : list sop) : tx :=
  mkTx 1067000%Z true 1000000 sp true 3 (-1)%Z (-1)%Z 100 false [mkAction 1 decl ops (-1)%Z (-1)%Z].
(* tx0 and tx2 both write kA (conflict); tx1 only touches kB and its own balance *)
Definition ex_txs : list tx :=
  [ ex_tx sp0 [(kA, pAll)] [OPut kA [3]];
    ex_tx sp1 [(kB, pAll)] [OPut kB [4]];
    ex_tx sp2 [(kA, pAll)] [OGet kA; OPut kA [5]] ].
Definition ex_parent (fee : manager) (extra : list (key * val)) : parent_state :=
  mkParent (list_to_map ([(sp0, be64 500000); (sp1, be64 500000); (sp2, be64 500000)] ++ extra)) (Some 47) 1059318 fee.
Definition ex_block : block := mkBlock 1059418%Z 48 true false false None ex_txs.
Definition ex_meta : meta_keys := mkMeta [0;0;1] [0;1;1] [0;2;1].

Example C01_ex_conflicts :
  tx_conflict_at conflict ex_txs 0 2 = true /\ tx_conflict_at conflict ex_txs 0 1 = false /\
  tx_conflict_at conflict ex_txs 1 2 = false.
Proof. vm_compute. auto. Qed.

(* sigma = [1;0;2] is a permutation that respects the conflicts *)
Example C01_ex_sigma_perm : [1; 0; 2]%nat ≡ₚ seq 0 (length (b_txs ex_block)).
Proof. cbn. apply perm_swap. Qed.
Example C01_ex_sigma_respects : respects_block (b_txs ex_block) [1; 0; 2]%nat.
Proof. apply respects_block_b_spec. vm_compute. reflexivity. Qed.
Example C01_ex_sigma_respects_exec : respects_block_with exec_conflict (b_txs ex_block) [1; 0; 2]%nat.
Proof. apply respects_block_b_spec. vm_compute. reflexivity. Qed.

(* ... the block succeeds, tx2 reads the value written by tx0, and the schedule gives the sequential outcome *)
Example C01_ex_outcome :
  match execute_block_sched ex_rules ex_meta (ex_parent ex_fee []) ex_block [1; 0; 2]%nat with
  | inl o => map res_outputs (o_results o) = [[[]]; [[]]; [[1; 1; 3]]] /\ o_diff o !! kA = Some (Some [5])
  | inr _ => False
  end.
Proof. vm_compute. auto. Qed.
Example C01_ex_equal :
  execute_block_sched ex_rules ex_meta (ex_parent ex_fee []) ex_block [1; 0; 2]%nat
  = execute_block ex_rules ex_meta (ex_parent ex_fee []) ex_block.
Proof. apply C01_block_any_conflict_respecting_schedule; [exact C01_ex_sigma_perm | exact C01_ex_sigma_respects]. Qed.

(* the hypothesis matters: the permutation [2;0;1] puts the conflicting pair (0,2) out of block order,
   is rejected by [respects_block], and produces a different outcome (tx2 reads "absent", kA ends as [3]) *)
Example C01_ex_bad_schedule :
  respects_block_b conflict ex_txs [2; 0; 1]%nat = false /\
  match execute_block_sched ex_rules ex_meta (ex_parent ex_fee []) ex_block [2; 0; 1]%nat with
  | inl o => map res_outputs (o_results o) = [[[]]; [[]]; [[0]]] /\ o_diff o !! kA = Some (Some [3])
  | inr _ => False
  end.
Proof. vm_compute. auto. Qed.

(* C01_adjacent_swap / C01_task_footprint: hypotheses satisfiable *)
Example C01_ex_swap_hyp : exists skA skB, state_keys (ex_tx sp0 [(kA, pAll)] [OPut kA [3]]) = Some skA /\
  state_keys (ex_tx sp1 [(kB, pAll)] [OPut kB [4]]) = Some skB /\ conflict skA skB = false.
Proof. eexists _, _. split; [reflexivity|]. split; [reflexivity|]. vm_compute. reflexivity. Qed.

(* C01_units_schedule_free: two parents with different data, two different schedules (one of them not
   even conflict-respecting), both succeed, and report the same fee manager / prices / units *)
Example C01_ex_units :
  match execute_block_sched ex_rules ex_meta (ex_parent ex_fee []) ex_block [1; 0; 2]%nat,
        execute_block_sched ex_rules ex_meta (ex_parent ex_fee [(kA, [9]); (kB, [7; 7])]) ex_block [2; 0; 1]%nat with
  | inl o1, inl o2 => o_results o1 <> o_results o2 /\ o_consumed o1 = o_consumed o2 /\ o_consumed o1 = [300; 15; 42; 150; 78]
  | _, _ => False
  end.
Proof. vm_compute. split; [discriminate | auto]. Qed.

(* C01_interleaved_commits_snapshot_free: a view on kA; between its operations another task commits
   a change of kB (not declared by the view) *)
Definition ex_view : view := new_view ts_new (ScopeKeys {[kA := pAll]}) ∅.
Definition ex_segs : list (tstate * list hop) :=
  [ (ts_new, [HGet kA; HIns kA [1]]); (mkTS {[kB := Some [9]]} 3, [HGet kA; HRem kA; HGet kA]) ].
Example C01_ex_segments_hyp : forall ts' hs, (ts', hs) ∈ ex_segs ->
  forall k, scope_has (v_scope ex_view) k pRead = true -> under_of ts' (v_base ex_view) k = under ex_view k.
Proof.
  intros ts' hs Hin k Hk. cbn [ex_view new_view v_scope scope_has] in Hk. unfold keys_has in Hk.
  destruct (decide (k = kA)) as [->|Hne].
  - unfold ex_segs in Hin. repeat (apply elem_of_cons in Hin; destruct Hin as [Hin|Hin]; [inversion Hin; subst; vm_compute; reflexivity|]).
    inversion Hin.
  - rewrite lookup_singleton_ne in Hk by congruence. vm_compute in Hk. discriminate Hk.
Qed.
Example C01_ex_segments_run :
  snd (run_segments ex_view ex_segs) = [RErr ENotFound; ROk; RVal [1]; ROk; RErr ENotFound].
Proof. vm_compute. reflexivity. Qed.
