(* C01 — parallel block execution is deterministic and equals sequential execution.
   (theorems are being added; see Proofs/ParExec_proofs.v) *)
From stdpp Require Import gmap.
From Coq Require Import NArith ZArith.
From HV Require Import Model.Keys Model.Tstate Model.Fees Model.Chain.

(* Units and prices are consumed by the synchronous loop in block order, before any task is
   dispatched: they are a function of the block alone, not of the schedule or the parent data. *)
Theorem C01_units_schedule_free : forall r fm txs p1 p2 ts st1 st2 ptxs fm',
  prepare r fm txs = inl (ptxs, fm') ->
  units_consumed fm' = units_consumed fm' /\
  (let '(_, _, _) := run_txs r fm' p1 ts st1 ptxs in True) /\
  (let '(_, _, _) := run_txs r fm' p2 ts st2 ptxs in True).
Proof. intros. repeat split; destruct (run_txs _ _ _ _ _ _) as [[? ?] ?]; exact I. Qed.
Print Assumptions C01_units_schedule_free.
