(* C16 — Block verification accepts exactly the blocks whose signatures all verify. Property theorems only.

   [T] is one (unsigned tx bytes, auth) pair, [verify] is "Auth.Verify(digest) == nil" (any function),
   [batched t] says whether the auth engines hold a batch verifier for auth type [t] (any predicate),
   [cores] is job.Workers() (any number), a block is any list of (auth type id, signature).
   Trusted, not proved (oracle, exercised by the driver): a NON-EMPTY ed25519consensus batch verifies iff
   each of its entries verifies (ZIP-215 batch contract); an empty batch is false (read from the library). *)
From Coq Require Import List NArith Bool Permutation.
Import ListNotations.
From HV Require Import Model.AuthBatch Proofs.AuthBatch_proofs.
Local Open Scope N_scope.

(* The conjunction of all tasks handed to the worker job for a block equals one-by-one verification of
   the block's signatures: every mix of auth types, every core count (hence every batch size
   max(count/cores, 4)), every position of invalid signatures. *)
Theorem C16_iff : forall (T : Type) (verify : T -> bool) (batched : N -> bool) (cores : N)
    (blk : list (N * T)),
  forallb (run_job verify) (auth_batch_jobs batched cores blk) = forallb verify (map snd blk).
Proof. intros. apply auth_batch_jobs_verify. Qed.
Print Assumptions C16_iff.

(* ... in whatever order the per-type goroutines hand their tasks to the job (schedules). *)
Theorem C16_iff_any_order : forall (T : Type) (verify : T -> bool) (batched : N -> bool) (cores : N)
    (blk : list (N * T)) (tasks : list job),
  Permutation tasks (auth_batch_jobs batched cores blk) ->
  forallb (run_job verify) tasks = forallb verify (map snd blk).
Proof.
  intros T verify batched cores blk tasks HP.
  rewrite (forallb_perm _ _ _ HP). apply auth_batch_jobs_verify.
Qed.
Print Assumptions C16_iff_any_order.

(* Every signature of the block lands in at least one emitted task, every item of an emitted task is a
   signature of this block, and no emitted batch is empty (an empty ed25519 batch would be reported
   invalid). *)
Theorem C16_partition : forall (T : Type) (batched : N -> bool) (cores : N) (blk : list (N * T)),
  (forall x, In x (map snd blk) <->
             exists j, In j (auth_batch_jobs batched cores blk) /\ In x (job_items j)) /\
  (forall b, In (JBatch b) (auth_batch_jobs batched cores blk) -> b <> []).
Proof. intros T batched cores blk. exact (auth_batch_jobs_partition (fun _ => true) batched cores blk). Qed.
Print Assumptions C16_partition.

(* One ED25519Batch created with the true count, for EVERY batch size [bs] (0 included): the emitted
   batches concatenated in order are exactly the signatures in order, except that the last batch may be
   emitted a second time ... *)
Theorem C16_batch_shape : forall (T : Type) (bs : N) (l : list T),
  let jobs := ed_run (mk_ed bs (N.of_nat (length l)) 0 0 None) l in
  (forall j, In j jobs -> j <> []) /\
  (concat jobs = l \/ exists E0 b, jobs = E0 ++ [b] ++ [b] /\ concat (E0 ++ [b]) = l).
Proof. intros T bs l. exact (ed_run_shape (fun _ => true) bs l). Qed.
Print Assumptions C16_batch_shape.

(* ... which happens exactly when the count is a positive multiple of the batch size: Add returns the
   full last batch and, because totalCounter = total, keeps it as the current batch, so Done returns the
   same batch again (harmless: same verdict twice).  Otherwise the batches partition the signatures. *)
Theorem C16_exact_multiple : forall (T : Type) (bs : N) (l : list T),
  1 <= bs -> l <> [] ->
  let jobs := ed_run (mk_ed bs (N.of_nat (length l)) 0 0 None) l in
  (N.of_nat (length l) mod bs = 0 ->
     exists E0 b, jobs = E0 ++ [b] ++ [b] /\ concat (E0 ++ [b]) = l) /\
  (N.of_nat (length l) mod bs <> 0 -> concat jobs = l).
Proof. intros T bs l Hbs Hl. exact (ed_run_duplicate_iff (fun _ => true) bs l Hbs Hl). Qed.
Print Assumptions C16_exact_multiple.

(* Composition with the worker job.  Contract of the pool relied upon (parallel pool: property C26, proved
   elsewhere; stated here as a hypothesis): Wait reports an error iff some task handed to Go fails.
   Then the signature check of Execute fails iff some signature of the block does not verify. *)
Theorem C16_block_verdict : forall (T : Type) (verify : T -> bool) (batched : N -> bool) (cores : N)
    (blk : list (N * T)) (wait_err : list job -> bool) (tasks : list job),
  (forall js, wait_err js = true <-> exists j, In j js /\ run_job verify j = false) ->
  Permutation tasks (auth_batch_jobs batched cores blk) ->
  (wait_err tasks = true <-> exists x, In x (map snd blk) /\ verify x = false).
Proof.
  intros T verify batched cores blk wait_err tasks Hc HP.
  pose proof (C16_iff_any_order T verify batched cores blk tasks HP) as Hiff.
  rewrite Hc. split.
  - intros (j & Hj & Hf).
    destruct (forallb verify (map snd blk)) eqn:Hall.
    + rewrite forallb_forall in Hiff. rewrite (Hiff j Hj) in Hf. discriminate.
    + clear Hiff. induction (map snd blk) as [|x r IH]; [discriminate|].
      cbn in Hall. destruct (verify x) eqn:Hx.
      * destruct (IH Hall) as (y & Hy & Hvy). exists y. split; [right|]; assumption.
      * exists x. split; [left; reflexivity | assumption].
  - intros (x & Hx & Hf).
    destruct (forallb (run_job verify) tasks) eqn:Hall.
    + symmetry in Hiff. rewrite forallb_forall in Hiff. rewrite (Hiff x Hx) in Hf. discriminate.
    + clear Hiff HP. induction tasks as [|j r IH]; [discriminate|].
      cbn in Hall. destruct (run_job verify j) eqn:Hj.
      * destruct (IH Hall) as (y & Hy & Hvy). exists y. split; [right|]; assumption.
      * exists j. split; [left; reflexivity | assumption].
Qed.
Print Assumptions C16_block_verdict.

(* The contract is satisfiable: the serial job (internal/workers/serial_workers.go), which skips every task
   after the first failure, satisfies it. *)
Theorem C16_serial_job_contract : forall (T : Type) (verify : T -> bool) (js : list job),
  serial_wait verify js = true <-> exists j, In j js /\ run_job verify j = false.
Proof.
  intros T verify js. rewrite serial_wait_spec. induction js as [|j r IH]; cbn [forallb].
  - split; [discriminate | intros (j & [] & _)].
  - destruct (run_job verify j) eqn:Hj; cbn [andb negb].
    + rewrite IH. split.
      * intros (y & Hy & Hf). exists y. split; [right|]; assumption.
      * intros (y & [<- | Hy] & Hf); [congruence | exists y; auto].
    + split; [intros _; exists j; split; [left; reflexivity | assumption] | reflexivity].
Qed.
Print Assumptions C16_serial_job_contract.

(* ---- non-vacuity -------------------------------------------------------------------------------- *)
Definition vid (b : bool) : bool := b.
Definition ed_only (t : N) : bool := t =? 0.
(* 8 ed25519 signatures (type 0), 2 cores: batch size 4; the second batch is emitted by the 8th Add and
   again by Done; a secp256r1 (1) and a BLS (2) signature are single tasks *)
Example C16_jobs_example :
  auth_batch_jobs ed_only 2
    [(0,true);(1,true);(0,true);(0,true);(0,true);(2,true);(0,true);(0,true);(0,false);(0,true)]
  = [JSingle true; JSingle true; JBatch [true;true;true;true]; JBatch [true;true;false;true];
     JBatch [true;true;false;true]].
Proof. reflexivity. Qed.
Example C16_invalid_rejected :
  forallb (run_job vid) (auth_batch_jobs ed_only 2
    [(0,true);(1,true);(0,true);(0,true);(0,true);(2,true);(0,true);(0,true);(0,false);(0,true)]) = false.
Proof. reflexivity. Qed.
Example C16_valid_accepted :
  forallb (run_job vid) (auth_batch_jobs ed_only 3
    [(0,true);(1,true);(0,true);(0,true);(0,true);(2,true);(0,true)]) = true.
Proof. reflexivity. Qed.
(* count 9 = 2*4 + 1: a last partial batch *)
Example C16_partial_batch_example :
  ed_run (mk_ed 4 9 0 0 None) [1;2;3;4;5;6;7;8;9] = [[1;2;3;4];[5;6;7;8];[9]].
Proof. reflexivity. Qed.
(* a verifier that was told a too large count verifies an empty batch in Done, which is false: the
   hypothesis "total = number of signatures" of C16_batch_shape is necessary *)
Example C16_wrong_count_example :
  ed_run (mk_ed 4 9 0 0 None) [1;2;3;4] = [[1;2;3;4];[]] /\ batch_verify (fun _ : N => true) [] = false.
Proof. split; reflexivity. Qed.
Example C16_serial_contract_example : serial_wait vid [JSingle true; JBatch [true;false]; JSingle true] = true.
Proof. reflexivity. Qed.
