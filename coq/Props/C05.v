(* C05 — State access is confined to declared keys and permissions.
   Property theorems only; model: Model/Keys.v (state/keys.go), Model/Tstate.v (checkScope in every
   operation of tstate_view.go); proofs: Proofs/Keys_proofs.v, Proofs/Tstate_proofs.v.
   The union of declarations computed by chain.Transaction.StateKeys is [keys_add_all]. *)
From stdpp Require Import gmap.
From Coq Require Import NArith.
From HV Require Import Lib.Bytes Model.Keys Model.Tstate Proofs.Keys_proofs Proofs.Tstate_proofs.
Local Open Scope N_scope.

(* Permissions.Has is the subset order on bits (all bit positions, not only a byte) ... *)
Theorem C05_lattice : forall p req : perm,
  (perm_has p req = true <-> forall i, N.testbit req i = true -> N.testbit p i = true)
  /\ (perm_has p pAllocate = true -> perm_has p pRead = true)
  /\ (perm_has p pWrite = true -> perm_has p pRead = true)
  /\ perm_has p pNone = true
  /\ (forall q s, perm_has s (perm_union p q) = perm_has s p && perm_has s q).
Proof.
  intros p req. split; [apply perm_has_spec|]. split; [apply allocate_has_read|].
  split; [apply write_has_read|]. split; [apply perm_has_none|].
  intros q s. apply perm_has_union_lub.
Qed.
Print Assumptions C05_lattice.

(* ... and, as a finite table over all 256 x 256 (permission, requirement) bytes, it is the
   bit-subset test of the eight bits (finite domain, computed, lifted with forallb_forall). *)
Theorem C05_lattice_bytes : forall p req : N, p < 256 -> req < 256 ->
  perm_has p req = subset_bits p req.
Proof. exact lattice_bytes. Qed.
Print Assumptions C05_lattice_bytes.

(* Duplicate declarations of a key (several actions, the sponsor) combine by bitwise or; the fold
   fails exactly when some declared key is malformed. *)
Theorem C05_union : forall (decls : list (key * perm)),
  (forall m, keys_add_all ∅ decls = Some m ->
     forall k, default 0 (m !! k) = declared_perm 0 decls k)
  /\ (keys_add_all ∅ decls = None <-> Exists (fun kp => valid (fst kp) = false) decls).
Proof.
  intros decls. split.
  - intros m H k. destruct (keys_add_all_spec _ _ _ H) as (H1 & _). rewrite H1, lookup_empty. reflexivity.
  - apply keys_add_all_fail.
Qed.
Print Assumptions C05_union.

(* A read that is not denied was declared with Read. *)
Theorem C05_get_needs_read : forall (s : view) (k : key),
  get s k <> inr EPerm -> scope_has (v_scope s) k pRead = true.
Proof. exact get_needs_read. Qed.
Print Assumptions C05_get_needs_read.

(* A successful Insert / Remove was declared with Write. *)
Theorem C05_write_needs_write : forall (s s' : view) (k : key),
  (forall v, insert s k v = (s', None) -> scope_has (v_scope s) k pWrite = true)
  /\ (remove s k = (s', None) -> scope_has (v_scope s) k pWrite = true).
Proof.
  intros s s' k. split.
  - intros v H. exact (proj1 (insert_ok_conds _ _ _ _ H)).
  - exact (remove_ok_conds s k s').
Qed.
Print Assumptions C05_write_needs_write.

(* Creating a key (it is not visible before the Insert) also needs Allocate. *)
Theorem C05_create_needs_allocate : forall (s s' : view) (k : key) (v : val),
  insert s k v = (s', None) -> vis s k = None -> scope_has (v_scope s) k pAllocate = true.
Proof. intros s s' k v H. exact (proj2 (proj2 (insert_ok_conds _ _ _ _ H))). Qed.
Print Assumptions C05_create_needs_allocate.

(* An undeclared access fails with ErrInvalidKeyOrPermission and leaves the view (every field)
   untouched; any failing operation leaves the view untouched. *)
Theorem C05_denied_no_effect : forall (s : view) (k : key),
  (scope_has (v_scope s) k pRead = false -> get s k = inr EPerm)
  /\ (scope_has (v_scope s) k pWrite = false ->
        (forall v, insert s k v = (s, Some EPerm)) /\ remove s k = (s, Some EPerm))
  /\ (scope_has (v_scope s) k pAllocate = false -> vis s k = None ->
        forall v, exists e, insert s k v = (s, Some e))
  /\ (forall v s' e, insert s k v = (s', Some e) -> s' = s)
  /\ (forall s' e, remove s k = (s', Some e) -> s' = s).
Proof.
  intros s k. split; [apply get_denied|]. split.
  - intros H. split; [intros v; apply insert_denied; exact H | apply remove_denied; exact H].
  - split; [intros Ha Hv v; apply create_denied; assumption|]. split.
    + intros v s' e H. exact (insert_fail _ _ _ _ _ H).
    + intros s' e H. exact (proj1 (remove_fail _ _ _ _ H)).
Qed.
Print Assumptions C05_denied_no_effect.

(* Confinement, write side: no sequence of operations (rollbacks included) changes the visible value
   of a key that is not write-declared, and nothing is pending (hence nothing is committed) for it. *)
Theorem C05_confinement : forall ts sc base (h : list hop) (k : key),
  scope_has sc k pWrite = false ->
  let s := fst (run (new_view ts sc base) h) in
  vis s k = vis (new_view ts sc base) k /\ pending s !! k = None
  /\ ts_changed (commit s) !! k = ts_changed ts !! k.
Proof.
  intros ts sc base h k Hw s.
  destruct (write_confinement (new_view ts sc base) h k (view_ok_new ts sc base) Hw) as [H1 H2].
  split; [exact H1|]. split; [exact H2|].
  destruct (run_env h (new_view ts sc base)) as (E & _).
  subst s. rewrite commit_lookup, H2, E. reflexivity.
Qed.
Print Assumptions C05_confinement.

(* Confinement, read side (the footprint lemma): the results of every history and the changes it
   leaves pending depend only on the underlying values of the read-declared keys. *)
Theorem C05_read_footprint : forall ts1 ts2 sc base1 base2 (h : list hop),
  (forall k, scope_has sc k pRead = true -> under_of ts1 base1 k = under_of ts2 base2 k) ->
  snd (run (new_view ts1 sc base1) h) = snd (run (new_view ts2 sc base2) h)
  /\ pending (fst (run (new_view ts1 sc base1) h)) = pending (fst (run (new_view ts2 sc base2) h))
  /\ op_index (fst (run (new_view ts1 sc base1) h)) = op_index (fst (run (new_view ts2 sc base2) h)).
Proof.
  intros ts1 ts2 sc base1 base2 h H.
  destruct (agree_run h _ _ (agree_new ts1 ts2 sc base1 base2 H)) as [Hr (_ & Hp & Ho & _)].
  split; [exact Hr|]. split; [exact Hp|]. unfold op_index. rewrite Ho. reflexivity.
Qed.
Print Assumptions C05_read_footprint.

(* one-step form for programs whose next operation depends on earlier results *)
Theorem C05_read_footprint_step : forall (s1 s2 : view) (x : hop), agree s1 s2 ->
  snd (step s1 x) = snd (step s2 x) /\ agree (fst (step s1 x)) (fst (step s2 x)).
Proof. exact agree_step. Qed.
Print Assumptions C05_read_footprint_step.

(* ---- non-vacuity *)
Definition ex_k : key := [97; 0; 1].
Definition ex_q : key := [98; 0; 1].
Definition ex_r : key := [97; 0; 2].   (* differs from ex_k only in the size suffix *)

Example C05_union_example :
  exists m, keys_add_all ∅ [(ex_k, 1); (ex_q, 2); (ex_k, 4); (ex_q, 1)] = Some m
            /\ keys_has m ex_k pWrite = true /\ keys_has m ex_k pAllocate = false
            /\ keys_has m ex_q pAllocate = true /\ keys_has m ex_r pRead = false.
Proof. eexists. split; [reflexivity|]. vm_compute. repeat split; reflexivity. Qed.

Example C05_denied_example :
  let s := new_view ts_new (ScopeKeys {[ex_k := pWrite]}) {[ex_r := [5]]} in
  get s ex_r = inr EPerm /\ snd (insert s ex_k [1]) = Some EPerm /\ snd (remove s ex_k) = None.
Proof. vm_compute. auto. Qed.

Example C05_footprint_hypothesis_example :
  forall k, scope_has (ScopeKeys {[ex_k := pRead]}) k pRead = true ->
    under_of ts_new {[ex_k := [1]; ex_q := [2]]} k = under_of ts_new {[ex_k := [1]; ex_q := [3]]} k.
Proof.
  intros k H. destruct (decide (k = ex_k)) as [->|Hne]; [reflexivity|].
  exfalso. cbn [scope_has] in H. unfold keys_has in H. rewrite lookup_singleton_ne in H by congruence.
  cbn in H. discriminate H.
Qed.
