(* C39 — Metadata prefix conflict detection is exact. Property theorems only. *)
From Coq Require Import List NArith Bool.
Import ListNotations.
From HV Require Import Lib.Bytes Model.Prefixes Proofs.Prefixes_proofs.

(* The check reports a conflict iff two different positions of the list
   (three metadata prefixes followed by the VM prefixes) hold byte strings one of which is a
   prefix of the other; equal and empty prefixes are prefixes.  All lists, all lengths. *)
Theorem C39_exact : forall (height fee timestamp : bytes) (vm : list bytes),
  has_conflicting_prefixes height fee timestamp vm = true <->
  exists i j p q, i <> j /\
    nth_error ([height; fee; timestamp] ++ vm) i = Some p /\
    nth_error ([height; fee; timestamp] ++ vm) j = Some q /\
    (exists t, q = p ++ t).
Proof. exact has_conflicting_prefixes_exact. Qed.
Print Assumptions C39_exact.

(* Non-vacuity: both directions are inhabited. *)
Local Open Scope N_scope.
Example C39_conflict_example : has_conflicting_prefixes [0] [1] [2] [[3]; [1; 7]] = true.
Proof. reflexivity. Qed.
Example C39_no_conflict_example : has_conflicting_prefixes [0] [1] [2] [[3; 1]; [3; 2]] = false.
Proof. reflexivity. Qed.
Example C39_empty_prefix_conflicts : has_conflicting_prefixes [0] [1] [2] [[]] = true.
Proof. reflexivity. Qed.
