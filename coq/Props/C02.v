(* C02 -- every block the builder produces verifies identically.

   Property text (properties.jsonl): "A block built on a parent is accepted by block verification on that same
   parent, and verification reproduces exactly the builder's post-state root, per-transaction results, unit
   prices and units consumed.  A block is never built whose re-verification fails or diverges, whatever the
   mempool contents."

   Models: Model/Builder.v [build_block] (chain/builder.go BuildBlock: repeat / state-key / PreExecute skips,
   execution on the running diff, Consume AFTER execution with skip or errBlockFull, Execute errors aborting the
   build, both refusals, the metadata the builder writes) and Model/Chain.v [execute_block] (chain/processor.go
   Execute: Consume BEFORE execution for the whole block, any error rejects).  Both are made of the SAME
   definitions state_keys / units / pre_execute / execute_tx / consume / compute_next, and both are tied to the
   Go code on every run of bin/check C02 (Check/C02_check.v: the real Builder over a real mempool against
   build_block, the real Processor on the built bytes against execute_block).

   Quantification: all rules, parent states, parent headers, timestamps, and ALL candidate lists [cands]
   (transactions with the validity window's repeat verdict, in the order in which the builder's tasks take
   their decisions).  The wall clock, TargetBuildDuration, stream batching, the per-batch size cap, the
   prefetch, the number of cores and tasks in flight when the builder stops only select which list is
   processed (see the header of Model/Builder.v), so they are covered by "for all cands".

   [out_ok] carries the results, the diff of data keys against the parent, the three metadata values and the
   unit prices / units consumed.  Equal diffs and metadata on the same parent view give equal merkledb views,
   hence equal state roots: merkledb is the oracle (trusted base), the root is compared in the Go check. *)
From stdpp Require Import gmap.
From Coq Require Import NArith ZArith.
From HV Require Import Lib.Bytes Lib.U64 Model.Keys Model.Tstate Model.Fees Model.TxStatic Model.Chain Model.Builder.
From HV Require Import Proofs.Fees_proofs Proofs.Builder_proofs.
Local Open Scope N_scope.

(* Hypotheses of the first theorem, all about the PARENT the block is built on and the mempool:
   - the height in the parent's header is the height stored in the parent state;
   - the timestamp stored in the parent state is not later than the header's (equal for every block built or
     verified by this code; 0 <= header for the genesis block, DESIGN.md F-17);
   - ts_guard: the block timestamp differs (as uint64) from the parent header's, or state and header
     timestamps agree.  Implied by MinBlockGap > 0 (C02_ts_guard_from_positive_gap) and by a non-genesis
     parent; without it the statement is false (C02_ts_guard_needed_refuted below);
   - mempool admission verified the signatures (chain/pre_executor.go: PreExecute calls tx.VerifyAuth;
     BuildBlock itself never does). *)
Theorem C02_built_block_verifies :
  forall (r : rules) (mk : meta_keys) (p : parent_state) (hdr_h : N) (hdr_ts now : Z) (cands : list cand)
         (b : block) (o : out_ok) (vs : list verdict),
    build_block r p hdr_h hdr_ts now cands = BBuilt b o vs ->
    p_height p = Some hdr_h ->
    (Z.of_N (p_ts p) <= hdr_ts)%Z ->
    Forall (fun c => t_auth_ok (c_tx c) = true) cands ->
    ts_guard p hdr_ts now ->
    execute_block r mk p b = inl o.
Proof. intros r mk p hdr_h hdr_ts now cands b o vs Hb Hh Hts Ha Hg. eapply built_block_verifies; eassumption. Qed.
Print Assumptions C02_built_block_verifies.

(* the same without ts_guard: the verifier accepts and reproduces results, diff, height, fee manager, unit
   prices and units consumed; only the timestamp word left in the state may differ *)
Theorem C02_built_block_verifies_outputs :
  forall (r : rules) (mk : meta_keys) (p : parent_state) (hdr_h : N) (hdr_ts now : Z) (cands : list cand)
         (b : block) (o : out_ok) (vs : list verdict),
    build_block r p hdr_h hdr_ts now cands = BBuilt b o vs ->
    p_height p = Some hdr_h ->
    (Z.of_N (p_ts p) <= hdr_ts)%Z ->
    Forall (fun c => t_auth_ok (c_tx c) = true) cands ->
    exists o', execute_block r mk p b = inl o' /\
      o_results o' = o_results o /\ o_diff o' = o_diff o /\ o_height o' = o_height o /\ o_fee o' = o_fee o /\
      o_prices o' = o_prices o /\ o_consumed o' = o_consumed o /\ o_ts o' = ts_word now.
Proof.
  intros r mk p hdr_h hdr_ts now cands b o vs Hb Hh Hts Ha.
  eexists. split; [eapply built_block_verifies_upto_ts; eassumption|]. repeat split.
Qed.
Print Assumptions C02_built_block_verifies_outputs.

(* No hypothesis on the parent header or on signatures: the verifier never rejects a built block in its
   per-transaction stage -- state keys, units, the block unit limits (Consume), PreExecute, Execute --
   i.e. never with "failed to execute txs" (ErrInvalidUnitsConsumed included). *)
Theorem C02_never_builds_failing :
  forall (r : rules) (mk : meta_keys) (p : parent_state) (hdr_h : N) (hdr_ts now : Z) (cands : list cand)
         (b : block) (o : out_ok) (vs : list verdict) (e : N),
    build_block r p hdr_h hdr_ts now cands = BBuilt b o vs ->
    execute_block r mk p b <> inr (clsExecuteTxs, e).
Proof. intros r mk p hdr_h hdr_ts now cands b o vs e Hb. eapply never_builds_failing; eassumption. Qed.
Print Assumptions C02_never_builds_failing.

(* The two orders of Consume agree: the builder consumes after executing, one transaction at a time and only
   for the transactions it keeps; the verifier consumes for the whole block before executing anything.  From
   any manager/diff, the verifier's synchronous pass over the INCLUDED transactions ends in the builder's
   manager, and its tasks, run under any manager with the same prices, reproduce the builder's diff/results. *)
Theorem C02_loop_matches_verifier_passes :
  forall (r : rules) (parent : gmap key val) (ts : Z) (cands : list cand) (fm : manager) (st : tstate) (lo : loop_out),
    length (m_dims fm) = 5%nat ->
    build_loop r parent ts fm st cands = Some lo ->
    same_market fm (l_fm lo) /\
    exists ptxs, prepare r fm (l_txs lo) = inl (ptxs, l_fm lo) /\
      forall fmx, same_market fm fmx -> run_txs r fmx parent ts st ptxs = (l_st lo, l_results lo, []).
Proof. intros r parent ts cands fm st lo. apply build_loop_verifies. Qed.
Print Assumptions C02_loop_matches_verifier_passes.

(* a candidate that is not included (repeat, bad keys, PreExecute failure, unit limit) leaves the running
   block diff and the fee manager exactly as they were *)
Theorem C02_skipped_candidate_has_no_effect :
  forall (r : rules) (parent : gmap key val) (ts : Z) (fm : manager) (st : tstate) (c : cand)
         (v : verdict) (st' : tstate) (fm' : manager) (inc : option (tx * result)),
    length (m_dims fm) = 5%nat ->
    build_step r parent ts fm st c = SNext v st' fm' inc ->
    v <> VIncluded -> st' = st /\ fm' = fm /\ inc = None.
Proof. exact skipped_no_effect. Qed.
Print Assumptions C02_skipped_candidate_has_no_effect.

Theorem C02_ts_guard_from_positive_gap :
  forall (r : rules) (p : parent_state) (hdr_ts now : Z),
    (0 < r_min_gap r)%Z -> (now <? hdr_ts + r_min_gap r)%Z = false ->
    (- 2 ^ 63 <= hdr_ts < 2 ^ 63)%Z -> (- 2 ^ 63 <= now < 2 ^ 63)%Z ->
    ts_guard p hdr_ts now.
Proof. exact ts_guard_positive_gap. Qed.
Print Assumptions C02_ts_guard_from_positive_gap.

(* the sequential builder over one stream batch (stream order, per-batch size cap TargetTxsSize) is an instance *)
Theorem C02_stream_builder_verifies :
  forall (r : rules) (mk : meta_keys) (p : parent_state) (hdr_h : N) (hdr_ts now : Z) (target_size : N) (stream : list cand)
         (b : block) (o : out_ok) (vs : list verdict),
    build_block_stream r p hdr_h hdr_ts now target_size stream = BBuilt b o vs ->
    p_height p = Some hdr_h ->
    (Z.of_N (p_ts p) <= hdr_ts)%Z ->
    Forall (fun c => t_auth_ok (c_tx c) = true) stream ->
    ts_guard p hdr_ts now ->
    execute_block r mk p b = inl o.
Proof.
  intros r mk p hdr_h hdr_ts now target_size stream b o vs Hb Hh Hts Ha Hg. unfold build_block_stream in Hb.
  eapply built_block_verifies; try eassumption. apply size_cut_Forall, Ha.
Qed.
Print Assumptions C02_stream_builder_verifies.

(* ------------------------------------------------------------------ non-vacuity *)
Definition ex_rich : key := [115; 0; 1].
Definition ex_poor : key := [116; 0; 1].
Definition ex_k : key := [97; 0; 1].
Definition ex_q : key := [98; 0; 1].
Definition ex_rules : rules :=
  mkRules 100 750 [1;1;1;1;1] [48;48;48;48;48] [20000000;40;1000;1000;1000]
          [1800000;60;2000;2000;2000] 60000 16 1 5 2 20 5 10 3.
Definition ex_fm : manager := mkFee 1058 [1; 2; 1; 3; 1] [] [0;0;0;0;0].
Definition ex_tx (sp : key) (compute : N) (ops : list sop) : tx :=
  mkTx 1067000 true 100000 sp true 1 (-1) (-1) 100 false [mkAction compute [(ex_k, 7); (ex_q, 7)] ops (-1) (-1)].
Definition ex_parent : parent_state :=
  mkParent {[ex_rich := be64 1000000; ex_poor := be64 10; ex_q := [9]]} (Some 47) 1059318 ex_fm.
Definition ex_pool : list cand :=
  [ mkCand (ex_tx ex_rich 3 [OPut ex_k [5]; OGet ex_q]) false;      (* valid: included *)
    mkCand (ex_tx ex_rich 4 [OPut ex_k [6]]) true;                  (* the validity window reports a repeat *)
    mkCand (ex_tx ex_poor 3 [OPut ex_k [7]]) false;                 (* underfunded sponsor: PreExecute fails *)
    mkCand (ex_tx ex_rich 70 [OPut ex_k [8]]) false;                (* compute 72 > limit 60: skipped, packing goes on *)
    mkCand (ex_tx ex_rich 40 [ODel ex_q; OGet ex_k; OFail]) false;  (* fits; its action fails: included, fee charged, reverted *)
    mkCand (ex_tx ex_rich 30 [OPut ex_k [9]]) false;                (* 47 + 32 > 60 with 47 >= target 40: errBlockFull *)
    mkCand (ex_tx ex_rich 1 [OPut ex_k [1]]) false ].               (* never attempted *)
Definition ex_meta : meta_keys := mkMeta [0;0;1] [1;0;1] [2;0;8].
Definition ex_built := build_block ex_rules ex_parent 47 1059318 1060318 ex_pool.

Example C02_example_build :
  match ex_built with
  | BBuilt b o vs =>
      vs = [VIncluded; VRepeat; VPre subInsufficient; VUnits 1; VIncluded; VStop 1]
      /\ length (b_txs b) = 2%nat /\ map res_success (o_results o) = [true; false] /\ map res_fee (o_results o) = [315; 352]
      /\ map_to_list (o_diff o) = [(ex_k, Some [5]); (ex_rich, Some (be64 (1000000 - 315 - 352)))]
      /\ o_consumed o = [200; 47; 42; 150; 78] /\ o_prices o = [1; 1; 1; 2; 1] /\ o_height o = 48 /\ o_ts o = 1060318
      (* the hypotheses of C02_built_block_verifies hold ... *)
      /\ p_height ex_parent = Some 47 /\ (Z.of_N (p_ts ex_parent) <= 1059318)%Z
      /\ forallb (fun c => t_auth_ok (c_tx c)) ex_pool = true
      /\ ts_word 1060318 <> ts_word 1059318
      (* ... and so does its conclusion, here by evaluation *)
      /\ execute_block ex_rules ex_meta ex_parent b = inl o
  | _ => False
  end.
Proof. vm_compute. repeat split; try reflexivity; discriminate. Qed.

(* the other outcomes of the builder exist too *)
Example C02_example_refusals :
  build_block ex_rules ex_parent 47 1059318 1059400 ex_pool = BRefusedEarly
  /\ build_block ex_rules ex_parent 47 1059318 1059500 [mkCand (ex_tx ex_poor 3 []) false] = BRefusedEmpty
  /\ (* fee 0 and no balance entry: CanDeduct passes, Deduct fails -> the build is aborted *)
     build_block (mkRules 100 750 [0;0;0;0;0] [48;48;48;48;48] [20000000;40;1000;1000;1000] [1800000;60;2000;2000;2000]
                          60000 16 1 5 2 20 5 10 3)
                 (mkParent ∅ (Some 47) 1059318 (mkFee 1058 [0;0;0;0;0] [] [0;0;0;0;0])) 47 1059318 1060318
                 [mkCand (ex_tx ex_poor 3 []) false] = BError.
Proof. vm_compute. repeat split; reflexivity. Qed.

(* ts_guard is needed: a genesis-like parent (state timestamp 0, header timestamp 1059318), MinBlockGap = 0 and
   a block in the very millisecond of the parent header: the builder's metadata view sees "timestamp unchanged"
   and leaves the state timestamp 0 in place, the verifier writes the block's.  All other outputs agree. *)
Definition gx_rules : rules :=
  mkRules 0 0 [1;1;1;1;1] [48;48;48;48;48] [20000000;40;1000;1000;1000] [1800000;60;2000;2000;2000] 60000 16 1 5 2 20 5 10 3.
Definition gx_parent : parent_state := mkParent (p_data ex_parent) (Some 0) 0 ex_fm.
Definition gx_cands : list cand := [mkCand (ex_tx ex_rich 3 [OPut ex_k [5]]) false].
Definition gx_dummy_out : out_ok := mkOut [] ∅ 0 0 zero_mgr [] [].
Definition gx_built : block * out_ok * list verdict :=
  match build_block gx_rules gx_parent 0 1059318 1059318 gx_cands with
  | BBuilt b o vs => (b, o, vs)
  | _ => (mkBlock 0 0 true false false None [], gx_dummy_out, [])
  end.
Definition gx_verified : out_ok :=
  match execute_block gx_rules ex_meta gx_parent gx_built.1.1 with inl o' => o' | inr _ => gx_dummy_out end.

Theorem C02_ts_guard_needed_refuted :
  exists (r : rules) (mk : meta_keys) (p : parent_state) (hdr_h : N) (hdr_ts now : Z) (cands : list cand) b o vs o',
    build_block r p hdr_h hdr_ts now cands = BBuilt b o vs /\
    p_height p = Some hdr_h /\ (Z.of_N (p_ts p) <= hdr_ts)%Z /\ Forall (fun c => t_auth_ok (c_tx c) = true) cands /\
    execute_block r mk p b = inl o' /\ o_ts o' <> o_ts o /\
    (o_results o', o_diff o', o_height o', o_fee o', o_prices o', o_consumed o')
    = (o_results o, o_diff o, o_height o, o_fee o, o_prices o, o_consumed o).
Proof.
  exists gx_rules, ex_meta, gx_parent, 0, 1059318%Z, 1059318%Z, gx_cands,
         gx_built.1.1, gx_built.1.2, gx_built.2, gx_verified.
  split; [vm_compute; reflexivity|]. split; [reflexivity|]. split; [vm_compute; discriminate|].
  split; [repeat constructor|]. split; [vm_compute; reflexivity|]. split; [vm_compute; discriminate|].
  vm_compute. reflexivity.
Qed.
Print Assumptions C02_ts_guard_needed_refuted.
