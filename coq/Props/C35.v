(* C35 — Accepting a DSMR block yields its referenced chunks whether local or fetched.  Property theorems only.
   Model: Model/DsmrAccept.v (x/dsmr/node.go Accept, the typed GetChunk client of x/dsmr/p2p.go,
   ChunkStorage.GetChunkBytes / VerifyRemoteChunk / SetMin).  [stat] gives the local status of every chunk
   before Accept, [certs] the chunks referenced by the block's certificates in order, [script] the sequence
   of peer responses consumed by the fetch loops: any mix of failures (AppError, unusable bytes, invalid
   chunks), the requested chunk, or another valid chunk; after the script the peers serve the requested
   chunk.  [accept] returns Some chunks (ExecutedBlock.Chunks) or None (error), and the requests made. *)
From Coq Require Import List NArith Bool.
Import ListNotations.
From HV Require Import Model.DsmrAccept Proofs.DsmrAccept_proofs.
Local Open Scope N_scope.

(* Whenever Accept succeeds — whatever was local, whatever the peers answered, in whatever order, including
   valid chunks nobody asked for — the executed block contains exactly the referenced chunks, in certificate
   order, each once. *)
Theorem C35_success_returns_exactly_the_referenced_chunks :
  forall (stat : N -> lstat) (universe : list N) (valerr : bool) (certs : list N) (script : list resp)
         (chunks reqs : list N),
  accept stat universe valerr certs script = (Some chunks, reqs) -> chunks = certs /\ NoDup certs.
Proof. exact accept_success_exact. Qed.
Print Assumptions C35_success_returns_exactly_the_referenced_chunks.

(* Acceptance succeeds once a peer serves a valid chunk: for distinct certificates whose chunks are pending
   locally (with or without certificate) or missing, any script of failures and valid answers of any length —
   every missing chunk is eventually served validly — makes Accept return exactly map chunk_of certs. *)
Theorem C35_accept_succeeds_when_chunks_are_served :
  forall (stat : N -> lstat) (universe : list N) (certs : list N) (script : list resp),
  NoDup certs -> (forall c, In c certs -> fetchable (stat c)) -> no_wrong script ->
  exists reqs, accept stat universe false certs script = (Some certs, reqs).
Proof. exact accept_succeeds. Qed.
Print Assumptions C35_accept_succeeds_when_chunks_are_served.

(* A storage error other than not-found on a referenced chunk fails Accept (unless a peer had pushed that
   very chunk as an unrequested answer before, which makes it pending). *)
Theorem C35_storage_error_fails_accept :
  forall (stat : N -> lstat) (universe : list N) (valerr : bool) (certs : list N) (script : list resp) (c : N),
  In c certs -> stat c = LStoreErr -> ~ In (RWrong c) script ->
  fst (accept stat universe valerr certs script) = None.
Proof. exact accept_store_err. Qed.
Print Assumptions C35_storage_error_fails_accept.

(* ---- non-vacuity ------------------------------------------------------------------------- *)
Definition ex_stat : N -> lstat := fun c => if c =? 0 then LPendCert else if c =? 3 then LStoreErr else LMissing.
(* chunk 0 local, chunks 1 and 2 fetched: 1 after an AppError and a bad signature, 2 at once *)
Example C35_ex_success :
  accept ex_stat [0; 1; 2; 3] false [1; 0; 2] [RFail 0; RFail 3; RValid; RValid] = (Some [1; 0; 2], [1; 1; 1; 2]).
Proof. vm_compute. reflexivity. Qed.
Example C35_ex_hyps : NoDup [1; 0; 2] /\ (forall c, In c [1; 0; 2] -> fetchable (ex_stat c)) /\ no_wrong [RFail 0; RFail 3; RValid; RValid].
Proof.
  split; [repeat constructor; cbn; intuition discriminate|]. split.
  - intros c [<-|[<-|[<-|[]]]]; cbv; auto.
  - intros w H. cbn in H. intuition discriminate.
Qed.
(* a valid chunk nobody asked for makes Accept fail rather than return it *)
Example C35_ex_wrong_chunk_fails : fst (accept ex_stat [0; 1; 2; 3] false [1; 0] [RWrong 2]) = None.
Proof. vm_compute. reflexivity. Qed.
Example C35_ex_store_err : fst (accept ex_stat [0; 1; 2; 3] false [0; 3] []) = None.
Proof. vm_compute. reflexivity. Qed.
