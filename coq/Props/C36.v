(* C36 — DSMR chunk storage survives restarts unchanged.  Property theorems only.
   Model: Model/ChunkStorage.v (x/dsmr/storage.go).  [ci] maps a chunk id to producer / expiry / length;
   [run ci s_init ops] is the storage after the history [ops] of AddLocalChunkWithCert, VerifyRemoteChunk,
   SetChunkCert, SetMin t saves and Reopen (NewChunkStorage on the same database), in any order and number.
   Observations are the ones the public API offers: obs_pending (GetChunkBytes hits pendingChunkMap),
   obs_get (GetChunkBytes finds the chunk, pending or accepted), obs_weight (CheckRateLimit's
   pendingChunksSizes), obs_cert (GatherChunkCerts), the minimum.
   [run_dirty ci s_init false ops = false] says: no SetMin returned an error since the last Reopen in [ops]
   (SetMin with an unknown / repeated save id aborts after mutating memory and before writing its batch;
   the callers treat that error as fatal, and the next restart repairs the state — see C36_restart_rebuilds). *)
From Coq Require Import List NArith ZArith Bool.
Import ListNotations.
From HV Require Import Model.ChunkStorage Proofs.ChunkStorage_proofs.
Local Open Scope N_scope.

(* Restart preserves every observation: pending set, retrievable chunks (pending or accepted),
   per-producer pending weight, minimum (memory and persisted).  Certificates are held in memory only, by
   design (storage.go: "We do not require persistence of chunk certificates"): they are not part of the
   equality, but every chunk that had a certificate is still pending after the restart. *)
Theorem C36_reopen_preserves_observations : forall (ci : ctable) (ops : list op),
  run_dirty ci s_init false ops = false ->
  let s := run ci s_init ops in
  (forall c, obs_pending (reopen ci s) c = obs_pending s c) /\
  (forall c, obs_get (reopen ci s) c = obs_get s c) /\
  (forall p, obs_weight (reopen ci s) p = obs_weight s p) /\
  m_min (reopen ci s) = m_min s /\ d_min (reopen ci s) = d_min s /\
  (forall c k, obs_cert s c = Some k -> obs_pending (reopen ci s) c = true).
Proof. exact reopen_preserves_observations. Qed.
Print Assumptions C36_reopen_preserves_observations.

(* After ANY history (also one with failed SetMin calls) a restart leaves the database untouched and
   rebuilds memory exactly from it: pending set = pending keys, weight = sum of the lengths of the pending
   chunks per producer, minimum = persisted min slot (0 if none), no certificates. *)
Theorem C36_restart_rebuilds : forall (ci : ctable) (ops : list op),
  let s := run ci s_init ops in
  let s' := reopen ci s in
  d_pend s' = d_pend s /\ d_acc s' = d_acc s /\ d_min s' = d_min s /\
  m_min s' = dflt (d_min s) /\
  (forall c, obs_pending s' c = memN c (d_pend s)) /\
  (forall c, obs_get s' c = memN c (d_pend s) || memN c (d_acc s)) /\
  (forall p, obs_weight s' p = wsum ci p (d_pend s)) /\
  (forall c, obs_cert s' c = None).
Proof. exact reopen_always_rebuilds. Qed.
Print Assumptions C36_restart_rebuilds.

(* Between restarts memory and database agree at every point of a history without failed SetMin: a crash
   at any point loses nothing but certificates. *)
Theorem C36_memory_agrees_with_database : forall (ci : ctable) (ops : list op),
  run_dirty ci s_init false ops = false ->
  let s := run ci s_init ops in
  (forall c, obs_pending s c = memN c (d_pend s)) /\
  (forall p, obs_weight s p = wsum ci p (d_pend s)) /\
  m_min s = dflt (d_min s).
Proof. exact clean_state_coherent. Qed.
Print Assumptions C36_memory_agrees_with_database.

(* ---- non-vacuity ------------------------------------------------------------------------- *)
Definition ex_ci : ctable := fun c => mkCI (c mod 2) (if c =? 0 then 5%Z else 20%Z) (100 + c).
(* chunk 0 saved as accepted while unexpired, chunk 2 expired?, chunk 1 pending with a certificate; restarts in between *)
Definition ex_ops := [OAddLocal 0 (Some 7); OAddRemote 1 true; OAddLocal 2 None; OSetCert 1 3 true;
                      OSetMin 3%Z [0]; OReopen; OAddLocal 0 None; OSetMin 6%Z []].
Example C36_ex_clean : run_dirty ex_ci s_init false ex_ops = false.
Proof. vm_compute. reflexivity. Qed.
Example C36_ex_state :
  let s := run ex_ci s_init ex_ops in
  (obs_pending s 0, obs_get s 0, obs_pending s 1, obs_pending s 2, obs_weight s 0, obs_weight s 1, d_min s)
  = (false, true, true, true, 102, 101, Some 6%Z).
Proof. vm_compute. reflexivity. Qed.
(* a failing SetMin really makes memory and database disagree (why the hypothesis is needed) *)
Example C36_ex_failed_setmin_dirty :
  let s := run ex_ci s_init [OAddLocal 0 None; OAddLocal 1 None; OSetMin 1%Z [0; 3]] in
  run_dirty ex_ci s_init false [OAddLocal 0 None; OAddLocal 1 None; OSetMin 1%Z [0; 3]] = true /\
  obs_pending s 0 = false /\ obs_pending (reopen ex_ci s) 0 = true.
Proof. vm_compute. repeat split. Qed.
