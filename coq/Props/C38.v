(* C38 — Fee bonds are released exactly once per bonded transaction.  Property theorems only.
   Model: Model/Bond.v (Bonder.SetMaxBalance/Bond/Unbond of internal/chain/bond.go, fdsmr.Node.BuildChunk/
   Accept of x/fdsmr/node.go).  [info] maps a tx id to its sponsor, size and expiry; [run info n_init ops]
   is the state after the history [ops]; all statements hold for every [info] and every history. *)
From Coq Require Import List NArith ZArith Bool.
Import ListNotations.
From HV Require Import Model.Bond Proofs.Bond_proofs.
Local Open Scope N_scope.

(* After ANY history (SetMaxBalance, direct Bond/Unbond, node BuildChunk/Accept with duplicates, failing
   Mutable / inner DSMR, any fee rates and maxima, in any order) the pending balance of every sponsor is
   the sum of the recorded fees of its bonded transactions; every tx is recorded at most once; the
   uint64 arithmetic never wrapped. *)
Theorem C38_pending_is_sum_of_recorded_fees : forall (info : table) (ops : list op) (a : N),
  let b := n_b (run info n_init ops) in
  b_pend b a = sum_for info a (b_recs b) /\ NoDup (keys (b_recs b)) /\ b_pend b a < U64.
Proof. exact pending_is_sum. Qed.
Print Assumptions C38_pending_is_sum_of_recorded_fees.

(* Admitting a not yet bonded tx records fee = size * rate, adds exactly that fee and leaves the
   sponsor's pending balance at or below its maximum (any state, any history before it). *)
Theorem C38_bond_admits_within_max : forall (info : table) (s : bst) (t rate : N) (ge : bool),
  lookup t (b_recs s) = None -> snd (bond info s t rate ge) = BOk ->
  let s' := fst (bond info s t rate ge) in
  let a := tx_sponsor (info t) in
  lookup t (b_recs s') = Some (tx_size (info t) * rate) /\
  b_pend s' a = b_pend s a + tx_size (info t) * rate /\
  b_pend s' a <= b_max s' a.
Proof. exact bond_admits_within_max. Qed.
Print Assumptions C38_bond_admits_within_max.

(* pending(a) <= max(a) after every history in which SetMaxBalance never lowers a maximum below the
   sponsor's current pending balance ([hist_ok]; lowering it below is allowed by the code and then the
   balance legitimately exceeds the new maximum until txs settle, cf. TestSetMaxBalanceDuringBond). *)
Theorem C38_pending_le_max : forall (info : table) (ops : list op) (a : N),
  hist_ok info n_init ops ->
  let b := n_b (run info n_init ops) in b_pend b a <= b_max b a.
Proof. exact pending_le_max. Qed.
Print Assumptions C38_pending_le_max.

(* Duplicate Bond is idempotent: bonding a recorded tx returns true and changes nothing, whatever the
   rate or the state of the Mutable; in particular bonding twice equals bonding once. *)
Theorem C38_duplicate_bond_idempotent : forall (info : table) (s : bst) (t rate rate' : N) (ge ge' : bool),
  snd (bond info s t rate ge) = BOk ->
  bond info (fst (bond info s t rate ge)) t rate' ge' = (fst (bond info s t rate ge), BOk).
Proof. intros info s t rate rate' ge ge'. apply bond_twice. Qed.
Print Assumptions C38_duplicate_bond_idempotent.

(* A Bond that returns false or an error changes nothing. *)
Theorem C38_failed_bond_changes_nothing : forall (info : table) (s : bst) (t rate : N) (ge : bool),
  snd (bond info s t rate ge) <> BOk -> fst (bond info s t rate ge) = s.
Proof. exact bond_failed_same. Qed.
Print Assumptions C38_failed_bond_changes_nothing.

(* Unbond releases exactly the recorded fee, once: in any reachable state, unbonding a recorded tx
   lowers its sponsor's pending balance by exactly the recorded fee (no wrap), touches nothing else,
   deletes the record, and a second Unbond is a no-op. *)
Theorem C38_unbond_releases_exactly_once : forall (info : table) (ops : list op) (t fee : N),
  let b := n_b (run info n_init ops) in
  lookup t (b_recs b) = Some fee ->
  let a := tx_sponsor (info t) in
  let b' := unbond info b t in
  fee <= b_pend b a /\
  b_pend b' a = b_pend b a - fee /\
  (forall a', a' <> a -> b_pend b' a' = b_pend b a') /\
  lookup t (b_recs b') = None /\
  (forall k, k <> t -> lookup k (b_recs b') = lookup k (b_recs b)) /\
  unbond info b' t = b'.
Proof. exact unbond_exactly_once. Qed.
Print Assumptions C38_unbond_releases_exactly_once.

(* Node level (histories of SetMaxBalance / direct Unbond / BuildChunk / Accept): after a successful
   Accept at timestamp ts every still recorded tx is in the expiry heap, is not expired (expiry >= ts)
   and was not in the accepted chunks; hence if every bonded tx is expired or accepted, nothing is
   recorded and every pending balance is zero. *)
Theorem C38_settled_returns_to_zero : forall (info : table) (ops : list op) (ts : Z) (chunks : list (list N)),
  Forall no_direct_bond ops ->
  let s := run info n_init ops in
  let s' := fst (accept info s ts chunks false) in
  (forall t, In t (keys (b_recs (n_b s'))) ->
     In t (n_heap s) /\ (tx_expiry (info t) >= ts)%Z /\ ~ In t (concat chunks)) /\
  ((forall t, In t (n_heap s) -> (tx_expiry (info t) < ts)%Z \/ In t (concat chunks)) ->
   b_recs (n_b s') = [] /\ forall a, b_pend (n_b s') a = 0).
Proof. exact accept_settles. Qed.
Print Assumptions C38_settled_returns_to_zero.

(* ---- non-vacuity ------------------------------------------------------------------------- *)
Definition ex_info : table := fun t => mkTx 0 10 (if t =? 0 then 5%Z else 9%Z).
Definition ex_ops := [OSetMax 0 100; OBuild [0; 0; 1] 2 false false; OBuild [0] 3 false false].

(* the same tx bonded three times within and across chunks is charged once *)
Example C38_ex_duplicate_charged_once :
  b_pend (n_b (run ex_info n_init ex_ops)) 0 = 40 /\ b_recs (n_b (run ex_info n_init ex_ops)) = [(1, 20); (0, 20)].
Proof. vm_compute. split; reflexivity. Qed.
Example C38_ex_hist_ok : hist_ok ex_info n_init ex_ops.
Proof. vm_compute. intuition discriminate. Qed.
Example C38_ex_no_direct_bond : Forall no_direct_bond ex_ops.
Proof. repeat constructor. Qed.
(* accepting tx 1 at a timestamp after tx 0's expiry settles everything *)
Example C38_ex_settled :
  b_pend (n_b (fst (accept ex_info (run ex_info n_init ex_ops) 6%Z [[1]] false))) 0 = 0.
Proof. vm_compute. reflexivity. Qed.
Example C38_ex_settle_hyp : forall t, In t (n_heap (run ex_info n_init ex_ops)) ->
  (tx_expiry (ex_info t) < 6)%Z \/ In t (concat [[1]]).
Proof. vm_compute. intros t [<-|[<-|[]]]; [right; left; reflexivity | left; reflexivity]. Qed.
Example C38_ex_bond_ok : snd (bond ex_info b_init 0 0 false) = BOk /\ snd (bond ex_info b_init 0 1 false) = BNo
  /\ snd (bond ex_info b_init 0 1 true) = BErr.
Proof. vm_compute. repeat split. Qed.
Example C38_ex_recorded : lookup 0 (b_recs (n_b (run ex_info n_init ex_ops))) = Some 20.
Proof. vm_compute. reflexivity. Qed.
