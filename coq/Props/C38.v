(* C38 — placeholder while the proofs are being written *)
From Coq Require Import List NArith Bool.
From HV Require Import Model.Bond.
Theorem C38_failed_bond_changes_nothing_tmp : forall info s t rate ge, snd (bond info s t rate ge) <> BOk -> fst (bond info s t rate ge) = s.
Proof. intros info s t rate ge. unfold bond. destruct (lookup t (b_recs s)); cbn; [congruence|].
 destruct ge; cbn; [reflexivity|]. repeat (match goal with |- context [if ?c then _ else _] => destruct c end; cbn; try reflexivity). congruence. Qed.
Print Assumptions C38_failed_bond_changes_nothing_tmp.
