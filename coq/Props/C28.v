(* C28 — Address text encoding round-trips and rejects malformed input. Property theorems only.
   Text = list of character codes, bytes = list N with every element < 256 (wf_bytes).
   [checksum] stands for hashing.Checksum(_, 4) (sha256 based): any function with 4-byte output. *)
From Coq Require Import List NArith Bool.
Import ListNotations.
From HV Require Import Lib.Bytes Model.Address Proofs.Address_proofs.
Local Open Scope N_scope.

Definition checksum_ok (checksum : bytes -> bytes) : Prop :=
  (forall b, length (checksum b) = 4%nat) /\ (forall b, wf_bytes (checksum b)).

(* Every 33-byte address formats to a string that parses back to the same address. *)
Theorem C28_roundtrip : forall checksum, checksum_ok checksum ->
  forall a, length a = 33%nat -> wf_bytes a ->
  parse_address checksum (format_address checksum a) = Some a.
Proof. intros ck [H1 H2]. exact (parse_format ck H1 H2). Qed.
Print Assumptions C28_roundtrip.

(* A string parses to a iff a has exactly 33 bytes and the string, after removing one optional
   leading "0x" and ignoring the case of hex digits, is exactly hex (a ++ checksum a). *)
Theorem C28_exact : forall checksum, checksum_ok checksum ->
  forall s a,
  parse_address checksum s = Some a <->
  length a = 33%nat /\ wf_bytes a /\ map lower (strip0x s) = hex_enc (a ++ checksum a).
Proof. intros ck [H1 H2]. exact (parse_address_exact ck H1 H2). Qed.
Print Assumptions C28_exact.

(* A payload of any other length is rejected even when its checksum is valid. *)
Theorem C28_rejects_wrong_length : forall checksum, checksum_ok checksum ->
  forall s p, wf_bytes p -> length p <> 33%nat ->
  map lower (strip0x s) = hex_enc (p ++ checksum p) ->
  parse_address checksum s = None.
Proof. intros ck [H1 H2]. exact (rejects_wrong_length ck H1 H2). Qed.
Print Assumptions C28_rejects_wrong_length.

(* Any 4-byte suffix other than the checksum of the bytes before it is rejected. *)
Theorem C28_rejects_bad_checksum : forall checksum, checksum_ok checksum ->
  forall s p c, wf_bytes (p ++ c) -> length c = 4%nat -> c <> checksum p ->
  map lower (strip0x s) = hex_enc (p ++ c) ->
  parse_address checksum s = None.
Proof. intros ck [H1 H2]. exact (rejects_bad_checksum ck H1 H2). Qed.
Print Assumptions C28_rejects_bad_checksum.

(* Odd length or any character outside 0-9a-fA-F (after the optional "0x") is rejected. *)
Theorem C28_rejects_malformed_hex : forall checksum s,
  Nat.even (length (strip0x s)) = false \/ Exists (fun ch => from_hex_char ch = None) (strip0x s) ->
  parse_address checksum s = None.
Proof. exact rejects_malformed_hex. Qed.
Print Assumptions C28_rejects_malformed_hex.

(* Hex: decoding inverts encoding for all byte strings, and decoding succeeds exactly on the
   (case-insensitive) encodings; ToHex/LoadHex of codec/hex.go. *)
Theorem C28_hex_roundtrip : forall b, wf_bytes b -> hex_dec (hex_enc b) = Some b.
Proof. exact hex_dec_enc. Qed.
Print Assumptions C28_hex_roundtrip.

Theorem C28_hex_exact : forall t b,
  hex_dec t = Some b <-> map lower t = hex_enc b /\ wf_bytes b.
Proof. exact hex_dec_iff. Qed.
Print Assumptions C28_hex_exact.

Theorem C28_load_hex_exact : forall s e b,
  load_hex s e = Some b <->
  map lower (strip0x s) = hex_enc b /\ wf_bytes b /\
  match e with Some n => N.of_nat (length b) = n | None => True end.
Proof. exact load_hex_exact. Qed.
Print Assumptions C28_load_hex_exact.

Theorem C28_load_hex_roundtrip : forall b, wf_bytes b -> load_hex (to_hex b) None = Some b.
Proof. exact load_hex_to_hex. Qed.
Print Assumptions C28_load_hex_roundtrip.

(* ---- non-vacuity ------------------------------------------------------------------------- *)

(* a checksum function satisfying the hypotheses: 4 bytes derived from the byte sum *)
Definition toy_ck (b : bytes) : bytes :=
  let s := fold_right N.add 0 b in [s mod 256; (s / 256) mod 256; 7; N.of_nat (length b) mod 256].

Example toy_ck_ok : checksum_ok toy_ck.
Proof.
  split; intros b; [reflexivity|].
  unfold toy_ck, wf_bytes. repeat constructor; try (apply N.mod_lt; discriminate).
Qed.

Definition addr1 : bytes := 1 :: repeat 171 32.

Example C28_roundtrip_example :
  parse_address toy_ck (format_address toy_ck addr1) = Some addr1.
Proof. vm_compute. reflexivity. Qed.

(* upper-case digits and no prefix are accepted (right-hand side of C28_exact is inhabited) *)
Example C28_case_example :
  parse_address toy_ck (map (fun c => if (97 <=? c) && (c <=? 102) then c - 32 else c)
                            (hex_enc (addr1 ++ toy_ck addr1))) = Some addr1.
Proof. vm_compute. reflexivity. Qed.

(* the pre-fix behaviour: a 3-byte payload with its valid checksum is rejected *)
Example C28_short_payload_example :
  parse_address toy_ck ([48; 120] ++ hex_enc ([1; 2; 3] ++ toy_ck [1; 2; 3])) = None.
Proof. vm_compute. reflexivity. Qed.

Example C28_long_payload_example :
  parse_address toy_ck (hex_enc (repeat 5 40 ++ toy_ck (repeat 5 40))) = None.
Proof. vm_compute. reflexivity. Qed.

Example C28_bad_checksum_example :
  parse_address toy_ck ([48; 120] ++ hex_enc (addr1 ++ [0; 0; 0; 0])) = None.
Proof. vm_compute. reflexivity. Qed.

Example C28_malformed_example :
  parse_address toy_ck [48; 120; 48; 103] = None /\ parse_address toy_ck [48; 120; 48] = None /\
  parse_address toy_ck ([48; 88] ++ hex_enc (addr1 ++ toy_ck addr1)) = None.
Proof. vm_compute. repeat split. Qed.
