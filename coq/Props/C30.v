(* C30 — read-only action APIs agree with on-chain execution.

   Model: Model/ActionApi.v (tied to api/jsonrpc/server.go ExecuteActions / SimulateActions, state/keys.go,
   state/tstate/tstate_view.go and chain/transaction.go StateKeys + Execute by Check/C30_check.v).
   Actions are arbitrary programs [prog] over the key-value interface of a view; [base] is any state,
   [fee] any set of changes the transaction's view already holds when its first action starts (the fee
   deduction), so [vis base fee] is "the same state" the two handlers are asked on; [extra] are the sponsor's
   keys Transaction.StateKeys adds to the union of the actions' declarations. *)
From Coq Require Import List NArith Bool.
Import ListNotations.
From HV Require Import Lib.Bytes Model.ActionApi Proofs.ActionApi_proofs.
Local Open Scope N_scope.

(* ExecuteActions: for every list of (declaration, program) that can form a transaction (all declared keys
   valid), on every state: if ExecuteActions succeeds for all actions, the transaction succeeds with exactly
   the same outputs; in every case the outputs ExecuteActions returned (those of the actions before its first
   failure) are a prefix of the transaction's outputs.  (The transaction's scope is the union of the
   declarations, so it can permit an access the per-action scope of ExecuteActions refuses: then the
   handler reports an error after a prefix of the outputs.) *)
Theorem C30_execute_eq_tx :
  forall (extra : checks) (base : key -> option val) (fee : diff) (acts : list (checks * prog)),
    decl_valid (tx_scope extra (map fst acts)) = true ->
    let api := run_exec (vis base fee) [] acts in
    let tx := tx_run extra base fee acts in
    (snd api = true -> tx = api) /\ (exists more, fst tx = fst api ++ more).
Proof. exact execute_eq_tx. Qed.
Print Assumptions C30_execute_eq_tx.

(* SimulateActions: whenever the transaction (any declarations) succeeds, SimulateActions on the same state
   succeeds and returns the same outputs (the recording scope refuses only keys no transaction scope can grant). *)
Theorem C30_simulate_eq_tx :
  forall (extra : checks) (base : key -> option val) (fee : diff) (acts : list (checks * prog)) (os : list bytes),
    tx_run extra base fee acts = (os, true) ->
    exists rs, run_sim (vis base fee) [] (map snd acts) = Some rs /\ map fst rs = os.
Proof. exact simulate_eq_tx. Qed.
Print Assumptions C30_simulate_eq_tx.

(* Sufficiency of the simulated key sets (the property's second sentence): whenever SimulateActions succeeds,
   the transaction whose actions declare exactly the reported key sets (plus any valid sponsor keys) succeeds
   with the simulated outputs: every check the recording scope answered was recorded, and it records valid keys
   only.
   History: before /repo 1b6be2f ("fix: SimulatedKeys must refuse a key that no transaction can declare", finding
   F-24) SimulatedKeys.Has answered true for a key shorter than two bytes without recording it, so this statement
   was false for actions reading or removing such a key (simulation ok, every transaction fails); the model then
   had [check MRecord] = Some rec for an invalid key and the theorem carried a guard.  With the fix the recording
   scope refuses such a key exactly as every transaction scope does and the statement holds without a guard. *)
Theorem C30_simulate_sufficient :
  forall (extra : checks) (base : key -> option val) (fee : diff) (ps : list prog) (rs : list (bytes * checks)),
    run_sim (vis base fee) [] ps = Some rs ->
    decl_valid extra = true ->
    tx_run extra base fee (combine (map snd rs) ps) = (map fst rs, true).
Proof. exact simulate_sufficient. Qed.
Print Assumptions C30_simulate_sufficient.

(* The simulated key sets are also sufficient action by action: ExecuteActions (per-action scopes) on the same
   actions, each declaring exactly its own simulated key set, succeeds with the simulated outputs. *)
Theorem C30_simulate_sufficient_execute :
  forall (base : key -> option val) (fee : diff) (ps : list prog) (rs : list (bytes * checks)),
    run_sim (vis base fee) [] ps = Some rs ->
    run_exec (vis base fee) [] (combine (map snd rs) ps) = (map fst rs, true).
Proof. exact simulate_sufficient_execute. Qed.
Print Assumptions C30_simulate_sufficient_execute.

(* Enlarging a scope never changes the outcome of a successful run: of one action on a view, and of a whole
   transaction (this is why the union scope of a transaction agrees with the per-action scopes of
   ExecuteActions, and why declaring more than the simulated keys is harmless). *)
Theorem C30_scope_monotone :
  forall (s1 s2 : key -> perm) (base : key -> option val),
    (forall k r, has (s1 k) r = true -> has (s2 k) r = true) ->
    (forall p pend rec r, run (MScope s1) base p pend rec = Some r -> run (MScope s2) base p pend rec = Some r)
    /\ (forall ps pend os, run_tx s1 base pend ps = (os, true) -> run_tx s2 base pend ps = (os, true)).
Proof.
  intros s1 s2 base Hle. split.
  - intros p pend rec r. apply run_mono. exact Hle.
  - apply run_tx_mono. exact Hle.
Qed.
Print Assumptions C30_scope_monotone.

(* ---- non-vacuity: concrete scripts (the programs the driver's test action executes) *)
Definition ex_k1 : key := [208; 0; 1].
Definition ex_k2 : key := [210; 0; 0].
Definition ex_state : store := [(ex_k2, [])].
(* action 1 creates k1 and deletes k2; action 2 reads both (sees action 1's changes) and overwrites k1 *)
Definition ex_acts : list (checks * prog) :=
  [([(ex_k1, 7); (ex_k2, P_WRITE)], script_prog [SPutIfMissing ex_k1 [9]; SDel ex_k2] [80]);
   ([(ex_k1, P_WRITE); (ex_k2, P_READ)], script_prog [SGet ex_k1; SGet ex_k2; SPut ex_k1 [4; 4]] [80])].

Example ex_execute_hyp :
  decl_valid (tx_scope [] (map fst ex_acts)) = true
  /\ run_exec (vis (s_get ex_state) []) [] ex_acts = ([[80; 0]; [80; 1; 1; 9; 0]], true).
Proof. vm_compute. split; reflexivity. Qed.

Example ex_tx_hyp : tx_run [] (s_get ex_state) [] ex_acts = ([[80; 0]; [80; 1; 1; 9; 0]], true).
Proof. vm_compute. reflexivity. Qed.

(* a declaration that only the union satisfies: action 2 relies on action 1's declaration of k2 —
   ExecuteActions stops after the first output, the transaction goes on (strict prefix) *)
Definition ex_acts_borrow : list (checks * prog) :=
  [([(ex_k1, 7); (ex_k2, P_WRITE)], script_prog [SPutIfMissing ex_k1 [9]; SDel ex_k2] [80]);
   ([(ex_k1, P_WRITE)], script_prog [SGet ex_k1; SGet ex_k2; SPut ex_k1 [4; 4]] [80])].
Example ex_execute_prefix :
  run_exec (vis (s_get ex_state) []) [] ex_acts_borrow = ([[80; 0]], false)
  /\ tx_run [] (s_get ex_state) [] ex_acts_borrow = ([[80; 0]; [80; 1; 1; 9; 0]], true).
Proof. vm_compute. split; reflexivity. Qed.

Example ex_sufficient_hyp :
  run_sim (vis (s_get ex_state) []) [] (map snd ex_acts)
    = Some [([80; 0], [(ex_k2, P_WRITE); (ex_k1, P_ALLOCATE); (ex_k1, P_WRITE); (ex_k1, P_READ)]);
            ([80; 1; 1; 9; 0], [(ex_k1, P_WRITE); (ex_k2, P_READ); (ex_k1, P_READ)])].
Proof. vm_compute. reflexivity. Qed.

(* the repaired defect (F-24): an action that reads a one-byte key is refused by the simulation, as it is by
   every transaction — before the fix the simulation returned Some [([1; 1; 7], [([208; 0; 1], P_READ)])] *)
Definition cx_prog : prog := Get [65] (fun _ => Get [208; 0; 1] (fun x => Ret (echo x))).
Example ex_invalid_key_refused :
  run_sim (vis (s_get [([208; 0; 1], [7])]) []) [] [cx_prog] = None
  /\ tx_run [] (s_get [([208; 0; 1], [7])]) [] [([([208; 0; 1], P_READ)], cx_prog)] = ([], false).
Proof. vm_compute. split; reflexivity. Qed.

Example ex_monotone_hyp :
  forall a b k r, has (perm_of a k) r = true -> has (perm_of (a ++ b) k) r = true.
Proof. intros a b. exact (scope_le_app_l a b). Qed.
