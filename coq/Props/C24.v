(* C24 — theorems being added *)
From stdpp Require Import gmap.
From HV Require Import Model.Keys Model.Tstate Model.Fees Model.Chain.
Theorem C24_too_late_reads_nothing : forall r mk p b, b_too_late b = true -> block_reads r mk p b = ([], true).
Proof. intros r mk p b H. unfold block_reads. rewrite H. reflexivity. Qed.
Print Assumptions C24_too_late_reads_nothing.
