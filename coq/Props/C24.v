(* C24 — block execution reads exactly the declared keys from parent state.

   Objects (Model/Chain.v, the definitions Check/C24_check.v evaluates against the real Processor run
   over a recording / failing parent view): [block_reads] = the keys requested from the parent view
   (with the flag "this list is exact / schedule-independent"), [fetch] = the storage handed to a
   task's view, [run_txs] / [execute_block] = the execution, [is_fail] / [fail_hits] = the injected
   read fault.  In the model the three metadata keys are the separate fields p_height / p_ts / p_fee
   of the parent; [p_data] is every other key. *)
From stdpp Require Import gmap.
From Coq Require Import NArith ZArith.
From HV Require Import Lib.Bytes Lib.U64 Model.Keys Model.Tstate Model.Fees Model.Chain Model.ParExec
                       Proofs.Reads_proofs.
Local Open Scope N_scope.

(* ---- which keys are requested ---------------------------------------------------------------- *)

(* For EVERY block (accepted or rejected at any stage, with or without a read fault): the requested
   keys are a prefix of [height; timestamp; fee] followed by a duplicate-free list of keys each of
   which is declared (StateKeys: action declarations or the sponsor's balance key) by a transaction
   of the block.  Nothing else is ever read from the parent. *)
Theorem C24_reads_only_declared : forall r mk p b,
  exists ms dk, fst (block_reads r mk p b) = ms ++ dk /\ ms `prefix_of` metas mk /\ NoDup dk /\
                forall k, k ∈ dk -> declared_by_block b k.
Proof. exact block_reads_only_declared. Qed.
Print Assumptions C24_reads_only_declared.

(* For every block that executes successfully: the requested keys are EXACTLY the three metadata
   keys plus the union of the declared keys of all the block's transactions, every declared key
   requested once however many transactions declare it, and the list is marked exact. *)
Theorem C24_reads_exactly_declared : forall r mk p b o, execute_block r mk p b = inl o ->
  exists dk, block_reads r mk p b = (metas mk ++ dk, true) /\ NoDup dk /\
             forall k, k ∈ dk <-> declared_by_block b k.
Proof. exact block_reads_exact. Qed.
Print Assumptions C24_reads_exactly_declared.

(* The storage a task's view reads through to holds exactly the parent's entries of the task's
   declared keys (value, or absence), and nothing for any other key. *)
Theorem C24_fetch_exactly_declared : forall (parent : gmap key val) (sk : gmap key perm) (k : key),
  fetch parent sk !! k = if decide (is_Some (sk !! k)) then parent !! k else None.
Proof. exact fetch_lookup. Qed.
Print Assumptions C24_fetch_exactly_declared.

(* ---- what each transaction observes ---------------------------------------------------------- *)

(* In run_txs the i-th task runs (run_tx) on the block diff st_i left by the tasks before it.  For
   every key k it declares: its view shows the last change made earlier in the block if there is
   one, else exactly the parent's value or absence (and GetValue returns that value / ErrNotFound
   when k is read-declared); and if no earlier task has Write permission on k then k was not changed
   earlier (so, starting from the empty diff, the task observes the parent's value). *)
Theorem C24_tx_sees_parent_value : forall r fm parent ts st0 (ptxs : list ptx) i t sk u,
  ptxs !! i = Some (t, sk, u) ->
  let st_i := fst (fst (run_txs r fm parent ts st0 (take i ptxs))) in
  run_txs r fm parent ts st0 ptxs =
    (let '(st1, rs1, f1) := run_txs r fm parent ts st0 (take i ptxs) in
     let '(st2, rs2, f2) := run_txs r fm parent ts st1 ((t, sk, u) :: drop (S i) ptxs) in
     (st2, rs1 ++ rs2, f1 ++ f2))
  /\ forall k, is_Some (sk !! k) ->
     let s := new_view st_i (ScopeKeys sk) (fetch parent sk) in
     vis s k = match ts_changed st_i !! k with Some ov => ov | None => parent !! k end
     /\ (ts_changed st_i !! k = None -> keys_has sk k pRead = true ->
         get s k = match parent !! k with Some v => inl v | None => inr ENotFound end)
     /\ ((forall j tj skj uj, (j < i)%nat -> ptxs !! j = Some (tj, skj, uj) -> keys_has skj k pWrite = false) ->
         ts_changed st_i !! k = ts_changed st0 !! k).
Proof. exact task_sees_parent_value. Qed.
Print Assumptions C24_tx_sees_parent_value.

(* ---- nothing else in the parent matters ------------------------------------------------------ *)

(* Two parents with the same metadata that agree on every key declared by a transaction of the block
   (and differ arbitrarily elsewhere) give the same verdict, results, diff, prices, units — and the
   same requested keys. *)
Theorem C24_undeclared_parent_irrelevant : forall r mk p1 p2 b, parents_agree b p1 p2 ->
  execute_block r mk p1 b = execute_block r mk p2 b /\ block_reads r mk p1 b = block_reads r mk p2 b.
Proof. exact undeclared_parent_irrelevant. Qed.
Print Assumptions C24_undeclared_parent_irrelevant.

(* ---- read errors ------------------------------------------------------------------------------ *)

(* A failing read of a key the block requests makes the block fail (with a fetch / execute-txs
   class, unless a check that precedes the read had already rejected it): it is never an accepted
   block, in particular the key is never treated as absent. *)
Theorem C24_error_not_absence : forall r mk p b f,
  b_fail_key b = Some f -> f ∈ fst (block_reads r mk p b) ->
  exists cls sub, execute_block r mk p b = inr (cls, sub) /\
    (cls = clsFetchHeight \/ cls = clsFetchTs \/ cls = clsFetchFee \/ cls = clsExecuteTxs \/
     cls = clsTooLate \/ cls = clsBadHeight \/ cls = clsTooEarly \/ cls = clsTooEarlyEmpty \/ cls = clsDuplicate).
Proof. exact error_not_absence. Qed.
Print Assumptions C24_error_not_absence.

(* Conversely a fault on a key the block does not request is unobservable. *)
Theorem C24_fault_elsewhere_harmless : forall r mk p b f,
  b_fail_key b = Some f -> f ∉ fst (block_reads r mk p b) ->
  execute_block r mk p b = execute_block r mk p (without_fault b).
Proof. exact fault_elsewhere_harmless. Qed.
Print Assumptions C24_fault_elsewhere_harmless.

(* ---- non-vacuity ----------------------------------------------------------------------------- *)
Definition ex_rules : rules :=
  mkRules 100%Z 750%Z [1;1;1;1;1] [48;48;48;48;48] [20000000;1000;1000;1000;1000] [1800000;2000;2000;2000;2000]
          60000%Z 4 1 5 2 20 5 10 3.
Definition ex_fee : manager := mkFee 1058 [1;100;1;1;1] [] [1500;500;1500;0;0].
Definition kA : key := [209;0;1].
Definition kB : key := [210;0;1].
Definition kC : key := [211;0;1].     (* declared by nobody *)
Definition sp0 : key := [1;0;1].  Definition sp1 : key := [2;0;1].
Definition ex_tx (sp : key) (decl : list (key * perm)) (ops : list sop) : tx :=
  mkTx 1067000%Z true 1000000 sp true 3 (-1)%Z (-1)%Z 100 false [mkAction 1 decl ops (-1)%Z (-1)%Z].
(* tx0 reads kA and kB (absent in the parent) and writes kA; tx1 reads kA (changed by tx0) and kB *)
Definition ex_txs : list tx :=
  [ ex_tx sp0 [(kA, pAll); (kB, pRead)] [OGet kA; OGet kB; OPut kA [3]];
    ex_tx sp1 [(kA, pRead); (kB, pRead)] [OGet kA; OGet kB] ].
Definition ex_data : gmap key val := list_to_map [(sp0, be64 500000); (sp1, be64 500000); (kA, [9])].
Definition ex_parent (data : gmap key val) : parent_state := mkParent data (Some 47) 1059318 ex_fee.
Definition ex_block (fault : option key) : block := mkBlock 1059418%Z 48 true false false fault ex_txs.
Definition ex_meta : meta_keys := mkMeta [0;0;1] [0;1;1] [0;2;1].

(* the block succeeds; kA and kB are declared by both transactions and requested once each;
   tx0 sees the parent's kA = [9] and kB absent, tx1 sees tx0's kA = [3] and kB absent *)
Example C24_ex_success :
  match execute_block ex_rules ex_meta (ex_parent ex_data) (ex_block None) with
  | inl o => map res_outputs (o_results o) = [[[1; 1; 9; 0]]; [[1; 1; 3; 0]]]
  | inr _ => False
  end /\
  block_reads ex_rules ex_meta (ex_parent ex_data) (ex_block None)
  = ([[0;0;1]; [0;1;1]; [0;2;1]; sp0; kA; kB; sp1], true).
Proof. vm_compute. auto. Qed.

(* C24_tx_sees_parent_value: hypothesis satisfiable *)
Example C24_ex_lookup : exists ptxs fm' t sk u,
  prepare ex_rules (compute_next ex_fee 1059418%Z (r_target ex_rules) (r_denom ex_rules) (r_min_price ex_rules)) ex_txs
    = inl (ptxs, fm') /\ ptxs !! 1%nat = Some (t, sk, u) /\ is_Some (sk !! kB).
Proof. eexists _, _, _, _, _. split; [vm_compute; reflexivity|]. split; [reflexivity|]. vm_compute. eauto. Qed.

(* C24_undeclared_parent_irrelevant: a parent that differs on the undeclared key kC *)
Example C24_ex_parents_agree :
  parents_agree (ex_block None) (ex_parent ex_data) (ex_parent (<[kC := [7; 7]]> ex_data)).
Proof.
  split; [reflexivity|]. split; [reflexivity|]. split; [reflexivity|].
  intros k (t & Ht & Hk). cbn [p_data ex_parent]. symmetry. apply lookup_insert_ne.
  cbn [ex_block b_txs ex_txs] in Ht.
  repeat (apply elem_of_cons in Ht; destruct Ht as [->|Ht]); [| |inversion Ht];
    vm_compute in Hk; repeat (apply elem_of_cons in Hk; destruct Hk as [->|Hk]); try discriminate; inversion Hk.
Qed.
Example C24_ex_parents_differ : ex_parent ex_data <> ex_parent (<[kC := [7; 7]]> ex_data).
Proof. intros H. apply (f_equal (fun p => p_data p !! kC)) in H. vm_compute in H. discriminate H. Qed.

(* C24_error_not_absence: a fault on the declared key kB (which is ABSENT in the parent) rejects the
   block with the execute-txs class, while without the fault the same block, with kB absent, succeeds *)
Example C24_ex_fault_declared :
  kB ∈ fst (block_reads ex_rules ex_meta (ex_parent ex_data) (ex_block (Some kB))) /\
  execute_block ex_rules ex_meta (ex_parent ex_data) (ex_block (Some kB)) = inr (clsExecuteTxs, 0) /\
  ex_data !! kB = None.
Proof.
  split; [|vm_compute; auto]. apply elem_of_list_In. vm_compute. auto 10.
Qed.
Example C24_ex_fault_meta :
  execute_block ex_rules ex_meta (ex_parent ex_data) (ex_block (Some [0;1;1])) = inr (clsFetchTs, 0).
Proof. vm_compute. reflexivity. Qed.

(* C24_fault_elsewhere_harmless: a fault on the undeclared key kC *)
Example C24_ex_fault_undeclared :
  kC ∉ fst (block_reads ex_rules ex_meta (ex_parent ex_data) (ex_block (Some kC))) /\
  execute_block ex_rules ex_meta (ex_parent ex_data) (ex_block (Some kC))
  = execute_block ex_rules ex_meta (ex_parent ex_data) (ex_block None).
Proof.
  split; [|vm_compute; reflexivity].
  intros H. apply elem_of_list_In in H. vm_compute in H. intuition discriminate.
Qed.

(* =================================================================================================
   The concurrent prefetcher itself (internal/fetcher/fetcher.go).

   Model/Fetcher.v is a labelled transition system whose labels are the lock-delimited regions and
   channel operations of Fetch / Get / Stop / Wait / runWorker / set / handleErr.  The theorems below
   quantify over ALL traces [steps c (init c) tr s]: every interleaving, any number of workers, any
   channel capacity, any Fetch calls (overlapping key lists, duplicate keys inside a list), any Get
   calls, Stop and Wait at any point; [c_parent] is the parent state, [c_fail] the key whose read fails.
   Check/C24F_check.v ties the LTS to the real fetcher.Fetcher on every run (harness/drivers/fetcher). *)
From HV Require Import Model.Fetcher Proofs.Fetcher_proofs.

(* Every key is requested from the parent at most once, and only keys listed by some Fetch call. *)
Theorem C24_fetcher_each_key_once : forall c tr s, steps c (Fetcher.init c) tr s ->
  NoDup (reads s) /\
  forall k, k ∈ reads s -> exists i t ks, LFetch i t ks ∈ tr /\ k ∈ ks.
Proof. exact reads_once. Qed.
Print Assumptions C24_fetcher_each_key_once.

(* When Get returns a map it is exactly the parent's entries of the keys the transaction listed (absent
   keys are absent from the map), and none of those keys is the failing one.  Hypothesis: transaction
   ids are distinct ([dupid] = false: no Fetch call re-used an id), see C24_fetcher_distinct_ids_needed. *)
Theorem C24_fetcher_get_values : forall c tr s, steps c (Fetcher.init c) tr s -> dupid s = false ->
  forall g t m, (g, t, GMap m) ∈ get_results s ->
  exists i ks, LFetch i t ks ∈ tr /\ m = get_map (c_parent c) ks /\
               forall k, k ∈ ks -> Fetcher.is_fail c k = false.
Proof. exact get_values. Qed.
Print Assumptions C24_fetcher_get_values.

(* ... and [get_map] is the sequential [Chain.fetch] of the theorems above: the map handed to a task's
   view by the concurrent fetcher is the one C24_fetch_exactly_declared / C24_tx_sees_parent_value use. *)
Theorem C24_fetcher_get_map_is_fetch : forall (parent : gmap key val) (ks : list key) (sk : gmap key perm),
  (forall k, k ∈ ks <-> is_Some (sk !! k)) -> get_map parent ks = fetch parent sk.
Proof.
  intros parent ks sk H. apply map_eq. intros k. rewrite get_map_lookup, fetch_lookup.
  destruct (decide (k ∈ ks)) as [Hi|Hni], (decide (is_Some (sk !! k))) as [Hs|Hns]; try reflexivity.
  - exfalso. apply Hns, H, Hi.
  - exfalso. apply Hni, H, Hs.
Qed.
Print Assumptions C24_fetcher_get_map_is_fetch.

(* Blockers accounting and absence of Go panics (ids distinct): [broken] (double close / close of a nil
   waiter / nil dereference in set / send on the closed task channel) is unreachable; a transaction's
   blockers counter equals the number of occurrences of still uncached keys in its list; its waiter is an
   open channel exactly while the counter is positive, so it is closed exactly when the counter reaches 0
   (and a transaction whose keys were all cached at Fetch time has no waiter). *)
Theorem C24_fetcher_no_double_close : forall c tr s, steps c (Fetcher.init c) tr s -> dupid s = false ->
  broken s = false /\
  forall t r, txs s t = Some r ->
    blockers r = Z.of_nat (cntb (pendK (keys s)) (tkeys r)) /\
    (waiter r = WOpen <-> (0 < blockers r)%Z) /\
    (waiter r = WClosed -> blockers r = 0%Z).
Proof. exact accounting. Qed.
Print Assumptions C24_fetcher_no_double_close.

(* No lost wake-up, local form: a Get call waiting for transaction t can take its next step as soon as
   every key of t is cached, or the fetcher was stopped. *)
Theorem C24_fetcher_no_lost_wakeup : forall c tr s g t r,
  steps c (Fetcher.init c) tr s -> dupid s = false ->
  gph s g = GWait t -> txs s t = Some r ->
  (forall k, k ∈ tkeys r -> cachedK (keys s) k = true) \/ stop s = true ->
  exists b s', Fetcher.step c s (LGetWake g b) = Some s'.
Proof. exact wake_enabled. Qed.
Print Assumptions C24_fetcher_no_lost_wakeup.

(* No deadlock (ids distinct, >= 1 worker, channel capacity >= 1; with or without errors): in every
   reachable state either a label of the fetcher's own threads or of a caller already inside Fetch / Get
   is enabled ([is_internal]: everything except the environment's LFetch / LGetBegin / LStop / LWaitClose /
   LWaitRet), or the fetcher is quiescent: every submitted Fetch call and every submitted Get call has
   returned, no task is left unsent, every worker is idle or has exited.  Hence no Get and no Fetch blocks
   forever (under a fair scheduler), whatever the interleaving. *)
Theorem C24_fetcher_no_deadlock : forall c tr s,
  steps c (Fetcher.init c) tr s -> dupid s = false -> (1 <= c_nw c)%nat -> (1 <= c_cap c)%nat ->
  (forall l, is_internal l = true -> Fetcher.step c s l = None) ->
  (forall w p, ws s !! w = Some p -> p = WIdle \/ p = WExit) /\
  unsent s = [] /\
  (forall i, fph s i = FNone \/ exists e, fph s i = FRet e) /\
  (forall g, gph s g = GNone \/ exists r, gph s g = GRet r).
Proof. exact progress. Qed.
Print Assumptions C24_fetcher_no_deadlock.

(* Errors are never absence.  For every reachable state: a Get that returns an error returns the
   fetcher's non-nil error; a failing read that happened is never lost (the error is set or the worker
   holding it is about to set it); every error handed out by Fetch / Wait is the final one.  (That a
   transaction listing the failing key never receives a map is part of C24_fetcher_get_values.) *)
Theorem C24_fetcher_error_not_absence : forall c tr s, steps c (Fetcher.init c) tr s ->
  (forall g t e, (g, t, GErr e) ∈ get_results s -> e = err s /\ e <> None) /\
  (forall k, Fetcher.is_fail c k = true -> k ∈ reads s ->
     err s <> None \/ exists w, ws s !! w = Some (WFail k)) /\
  (forall i e, EvFetchRet i (Some e) ∈ Fetcher.log s -> err s = Some e) /\
  (forall e, EvWaitRet e ∈ Fetcher.log s -> e = err s).
Proof. exact error_not_absence. Qed.
Print Assumptions C24_fetcher_error_not_absence.

(* The error is sticky, and once it is set Fetch refuses new transactions: the call registers nothing
   and returns the error. *)
Theorem C24_fetcher_refuses_after_error : forall c tr s l s' e,
  steps c (Fetcher.init c) tr s -> Fetcher.step c s l = Some s' -> err s = Some e ->
  err s' = Some e /\
  forall i t ks, l = LFetch i t ks ->
    keys s' = keys s /\ txs s' = txs s /\ unsent s' = unsent s /\ fph s' i = FRet (Some e).
Proof.
  intros c tr s l s' e Hs Hst He. split.
  - eapply err_sticky; [apply (reach_AB _ _ _ Hs)|exact Hst|exact He].
  - intros i t ks ->. eapply fetch_refused; eassumption.
Qed.
Print Assumptions C24_fetcher_refuses_after_error.

(* ---- non-vacuity: concrete traces ------------------------------------------------------------- *)
Definition fA : key := [1;0].  Definition fB : key := [2;0].  Definition fC : key := [3;0].
Definition fpar : gmap key val := list_to_map [(fA, [9]); (fC, [])].     (* fB is absent, fC is empty *)
Definition show (r : gres) : option (list (key * val)) + option ecode :=
  match r with GMap m => inl (Some (map_to_list m)) | GErr e => inr e | GMissing => inl None end.
Definition outcome (s : state) :=
  (reads s, map (fun x => (fst x, show (snd x))) (get_results s), err s, broken s, dupid s).

(* two transactions sharing fB on two workers: fB is pending when the second Fetch runs; each key is
   read once; both Gets return the parent's entries (fB absent from both maps, fC present and empty) *)
Example C24_fetcher_ex_overlap :
  match run_labels (mkC fpar None 2 4) (Fetcher.init (mkC fpar None 2 4))
    [LFetch 0 10 [fA; fB]; LFetch 1 11 [fB; fC]; LSend 0; LSend 0; LFetchRet 0; LSend 1; LFetchRet 1;
     LTake 0; LTake 1; LGetBegin 0 10; LGetBegin 1 11; LRead 1; LRead 0; LSet 1; LSet 0;
     LGetWake 0 false; LGetRead 0; LTake 0; LRead 0; LSet 0; LGetWake 1 false; LGetRead 1;
     LWaitClose; LExit 0; LExit 1; LWaitRet] with
  | Some s => outcome s = ([fB; fA; fC],
                           [(0%nat, 10, inl (Some [(fA, [9])])); (1%nat, 11, inl (Some [(fC, [])]))],
                           None, false, false)
  | None => False
  end.
Proof. vm_compute. reflexivity. Qed.

(* the same calls with a failing read of fB: both Gets return the read error, a later Fetch is refused,
   Wait returns the error; fB is not treated as absent *)
Example C24_fetcher_ex_error :
  match run_labels (mkC fpar (Some fB) 2 4) (Fetcher.init (mkC fpar (Some fB) 2 4))
    [LFetch 0 10 [fA; fB]; LFetch 1 11 [fB; fC]; LSend 0; LSend 0; LFetchRet 0; LSend 1; LFetchRet 1;
     LGetBegin 0 10; LGetBegin 1 11; LTake 0; LTake 1; LRead 1; LErrSet 1; LRead 0; LSet 0; LErrClose;
     LGetWake 0 true; LGetWake 1 true; LExit 0; LFetch 2 12 [fC]; LWaitClose; LWaitRet] with
  | Some s => outcome s = ([fB; fA], [(0%nat, 10, inr (Some ERead)); (1%nat, 11, inr (Some ERead))],
                           Some ERead, false, false)
              /\ fph s 2 = FRet (Some ERead) /\ txs s 12 = None
              /\ EvWaitRet (Some ERead) ∈ Fetcher.log s
  | None => False
  end.
Proof. vm_compute. split; [reflexivity|]. split; [reflexivity|]. split; [reflexivity|]. constructor. Qed.

(* C24_fetcher_no_lost_wakeup: its hypotheses hold in the state before the first LGetWake above *)
Example C24_fetcher_ex_wake :
  match run_labels (mkC fpar None 2 4) (Fetcher.init (mkC fpar None 2 4))
    [LFetch 0 10 [fA; fB]; LFetch 1 11 [fB; fC]; LSend 0; LSend 0; LFetchRet 0; LSend 1; LFetchRet 1;
     LTake 0; LTake 1; LGetBegin 0 10; LGetBegin 1 11; LRead 1; LRead 0; LSet 1; LSet 0] with
  | Some s => gph s 0 = GWait 10 /\ dupid s = false /\
              match txs s 10 with
              | Some r => forallb (cachedK (keys s)) (tkeys r) = true /\ waiter r = WClosed /\ blockers r = 0%Z
              | None => False
              end /\
              match txs s 11 with Some r => waiter r = WOpen /\ blockers r = 1%Z | None => False end
  | None => False
  end.
Proof. vm_compute. auto 10. Qed.

(* Distinct ids are needed: two Fetch calls for the same id (f.txs[txID] is overwritten).  The second
   record has 2 blockers; the first key's blocked list names the id twice, so caching fA alone closes the
   waiter and Get returns a map WITHOUT fC although the parent has it and it was never read. *)
Example C24_fetcher_distinct_ids_needed :
  match run_labels (mkC fpar None 1 4) (Fetcher.init (mkC fpar None 1 4))
    [LFetch 0 7 [fA]; LFetch 1 7 [fA; fC]; LSend 0; LFetchRet 0; LSend 1; LFetchRet 1;
     LTake 0; LRead 0; LSet 0; LGetBegin 0 7; LGetWake 0 false; LGetRead 0] with
  | Some s => outcome s = ([fA], [(0%nat, 7, inl (Some [(fA, [9])]))], None, false, true)
              /\ fpar !! fC = Some []
  | None => False
  end.
Proof. vm_compute. split; reflexivity. Qed.

(* C24_fetcher_no_deadlock: the quiescence hypothesis is satisfiable in a non-initial state (after both
   transactions of C24_fetcher_ex_overlap were served, before Wait), and there all calls have returned *)
Example C24_fetcher_ex_quiescent :
  match run_labels (mkC fpar None 2 4) (Fetcher.init (mkC fpar None 2 4))
    [LFetch 0 10 [fA; fB]; LFetch 1 11 [fB; fC]; LSend 0; LSend 0; LFetchRet 0; LSend 1; LFetchRet 1;
     LTake 0; LTake 1; LGetBegin 0 10; LGetBegin 1 11; LRead 1; LRead 0; LSet 1; LSet 0;
     LGetWake 0 false; LGetRead 0; LTake 0; LRead 0; LSet 0; LGetWake 1 false; LGetRead 1] with
  | Some s => (forall l, is_internal l = true -> Fetcher.step (mkC fpar None 2 4) s l = None) /\ dupid s = false
  | None => False
  end.
Proof.
  vm_compute run_labels. split; [|reflexivity]. intros l Hl.
  destruct l as [i t ks|i|i|i|w|w|w|w|w|w| | |g t|g st|g| |]; try discriminate Hl;
    try (destruct i as [|[|i]]; vm_compute; reflexivity);
    try (destruct w as [|[|w]]; vm_compute; reflexivity);
    try (destruct g as [|[|g]]; vm_compute; reflexivity);
    try (vm_compute; reflexivity).
Qed.
