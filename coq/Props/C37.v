(* C37 — a DSMR chain never references an expired or already-included chunk.  Property theorems only.

   Model/DsmrVerify.v: a DSMR block is a [block] whose items are chunk certificates
   (chunk id, expiry); [dsmr_verify] = Node.Verify (header checks, VerifyExpiryReplayProtection,
   the expiry interval loop added by fix 1a58604), [dsmr_build] = Node.BuildBlock's filter,
   [run dsmr_vf] = the node's window driven by consensus-engine calls.  Unlike C09 the validity
   interval of the certificates is NOT a hypothesis: certificates of any expiry may appear in
   blocks; Verify has to reject them.  Hypotheses [tree_ok0]/[ts_pos] as in C09 (heights, monotone
   non-negative timestamps, a chunk id determines its expiry). *)
From Coq Require Import List NArith ZArith Bool Lia.
Import ListNotations.
From HV Require Import Model.ValidityWindow Model.DsmrVerify
                       Proofs.ValidityWindow_proofs Proofs.DsmrVerify_proofs.
Local Open Scope Z_scope.

(* Every block Node.Verify accepts, in any call sequence respecting the engine contract, lies on a
   path to genesis on which every block has pairwise different chunk ids, no two blocks share a
   chunk id, and every certificate satisfies block ts <= expiry <= block ts + W
   ([clean] = these three facts for all blocks of the path). *)
Theorem C37_no_repeat : forall (tree : index) (W : Z) (g : N) (gb : block) (ops : list op) (e : eng),
  tree_ok0 tree -> ts_pos tree ->
  tree g = Some gb -> b_height gb = 0%N -> b_items gb = [] ->
  eng_run tree (eng0 g) ops (run dsmr_vf tree W (sys0 tree W gb) ops) = Some e ->
  forall v, In v (e_ever e) -> exists vb, tree v = Some vb /\ clean tree W vb.
Proof.
  intros tree W g gb ops e TOK POS Hg Hh Hnil Hrun.
  assert (forall idx w b, in_tree tree b -> dsmr_vf tree idx w W b = 0%N ->
            verify_replay idx w W b = 0%N /\ interval_ok W b) as VF
    by (intros idx w b _ Hv; exact (dsmr_vf_sound tree W idx w b Hv)).
  assert (NoDup (ids (b_items gb))) as Hnd by (rewrite Hnil; constructor).
  assert (interval_ok W gb) as Hig by (intros x e' Hin; rewrite Hnil in Hin; contradiction).
  exact (run_inv tree W TOK dsmr_vf VF POS ops _ _ e (inv0 tree W TOK g gb Hg Hh Hnd Hig) Hrun).
Qed.
Print Assumptions C37_no_repeat.

(* Verify rejects outright, whatever the window state: a chunk twice in one block, a certificate
   whose expiry is before the block timestamp, a certificate beyond the window, an empty block,
   a timestamp not above the parent's. *)
Theorem C37_verify_rejects : forall (idx : index) (w : win) (W : Z) (parent b : block),
  (b_height b <=? last_h w)%N = false ->
  dsmr_verify idx w W parent b = 0%N ->
  NoDup (ids (b_items b)) /\
  (forall x e, In (x, e) (b_items b) -> b_ts b <= e <= b_ts b + W) /\
  b_items b <> [] /\ b_ts parent < b_ts b.
Proof.
  intros idx w W parent b Hh Hv. apply dsmr_verify_ok in Hv.
  destruct Hv as [_ [_ [Hts [Hne [Hr Hint]]]]].
  split; [|split; [exact Hint | split; [exact Hne | lia]]].
  unfold verify_replay in Hr. rewrite Hh in Hr.
  destruct (has_dup [] (ids (b_items b))) eqn:Hd; [discriminate|].
  exact (proj1 (has_dup_spec _ _ Hd)).
Qed.
Print Assumptions C37_verify_rejects.

(* BuildBlock over pending certificates with distinct chunk ids: the block it emits contains only
   certificates with ts <= expiry <= ts + W, is not empty, and passes Node.Verify on the same
   parent (hence, by C37_no_repeat, references nothing an ancestor references).  The bound on ts is
   Verify's clock-skew check, which BuildBlock does not perform. *)
Theorem C37_builder : forall (idx : index) (w : win) (W : Z) (parent : block) (ts : Z)
                             (certs avail : list item) (newid : N),
  idx (b_id parent) = Some parent ->
  NoDup (ids certs) ->
  ts <= b_ts parent + max_time_skew ->
  dsmr_build idx w W parent ts certs = (0%N, avail) ->
  dsmr_verify idx w W parent (mkB newid (b_id parent) (N.succ (b_height parent)) ts avail) = 0%N /\
  (forall x e, In (x, e) avail -> ts <= e <= ts + W) /\ avail <> [].
Proof. exact builder_passes_verify. Qed.
Print Assumptions C37_builder.

(* ---- non-vacuity ---- *)
Ltac tcases_go H :=
  match type of H with
  | (if (?k =? ?i)%N then _ else _) = Some _ =>
      destruct (N.eqb_spec k i); [inversion H; subst; clear H | tcases_go H]
  | _ => discriminate H
  end.
Ltac tcases H := unfold tree_of in H; cbn [find b_id] in H; tcases_go H.

(* certificate 100 (expiry 3) is accepted at block 1, evicted by Accept(2) (timestamp 4) and then
   re-included by block 3: rejected as expired (code 3); 4 carries a far-future certificate
   (code 3); the builder on 2 at ts 5 keeps only certificate 102 *)
Definition ex_blocks : list block :=
  [ mkB 0 99 0 0 []; mkB 1 0 1 1 [(100%N, 3)]; mkB 2 1 2 4 [(101%N, 5)];
    mkB 3 2 3 5 [(100%N, 3)]; mkB 4 2 3 5 [(103%N, 10)] ].

Example C37_hypotheses_satisfiable : tree_ok0 (tree_of ex_blocks) /\ ts_pos (tree_of ex_blocks).
Proof.
  split.
  - unfold ex_blocks. constructor.
    + intros i b H; tcases H; reflexivity.
    + intros i b H Hh; tcases H; cbn [b_height] in Hh; try congruence;
        (eexists; split; [reflexivity | split; [reflexivity | cbn [b_ts]; lia]]).
    + intros i b H; tcases H; cbn [b_ts]; lia.
    + intros i j b b' x e e' H H' Hin Hin'; tcases H; tcases H'; cbn [b_items In] in *;
        repeat match goal with
               | Hx : _ \/ _ |- _ => destruct Hx
               | Hx : (_, _) = (_, _) |- _ => inversion Hx; subst; clear Hx
               | Hx : False |- _ => contradiction
               end; try reflexivity; try congruence.
  - intros i b H Hh. unfold ex_blocks in H. tcases H; cbn [b_height b_ts] in *; try congruence; lia.
Qed.

Example C37_contract_satisfiable :
  let tree := tree_of ex_blocks in
  let ops := [OVerify 1; OAccept 1; OVerify 2; OAccept 2; OVerify 3; OVerify 4] in
  run dsmr_vf tree 2 (sys0 tree 2 (mkB 0 99 0 0 [])) ops =
    [OutV 0; OutUnit; OutV 0; OutUnit; OutV 3; OutV 3] /\
  option_map e_ever (eng_run tree (eng0 0) ops (run dsmr_vf tree 2 (sys0 tree 2 (mkB 0 99 0 0 [])) ops))
    = Some [2; 1; 0]%N.
Proof. vm_compute. split; reflexivity. Qed.

Example C37_builder_example :
  let tree := tree_of ex_blocks in
  let w := accept (accept (fst (new_window tree 2 (mkB 0 99 0 0 []))) (mkB 1 0 1 1 [(100%N, 3)]))
                  (mkB 2 1 2 4 [(101%N, 5)]) in
  dsmr_build tree w 2 (mkB 2 1 2 4 [(101%N, 5)]) 5 [(100%N, 3); (101%N, 5); (102%N, 6); (103%N, 10)]
    = (0%N, [(102%N, 6)]).
Proof. vm_compute. reflexivity. Qed.
