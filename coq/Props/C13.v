(* C13 — Unit prices follow the fee-market rule exactly.  Property theorems only.
   Model: Model/Fees.v (internal/fees/manager.go computeNextPriceWindow + mulDiv, internal/window/window.go,
   Manager byte layout), proofs: Proofs/Fees_proofs.v.
   All values range over N (no 64-bit bound is assumed unless stated as [<= MaxU64]); windows are the 10
   uint64 slots of a window.Window. *)
From Coq Require Import List NArith ZArith Bool Lia.
Import ListNotations.
From HV Require Import Lib.U64 Model.Fees Proofs.Fees_proofs.
Local Open Scope N_scope.

(* The next price is the rule, computed in Z:
     total  = min(2^64-1, sum of the window shifted by [since] with the parent's consumption added at slot 9-since)
     amount = max 1 ( min(2^64-1, floor(prev*|total-target|/target)) / denom )
     next   = max minPrice ( min(2^64-1, prev + amount)                              if total > target
                             max 0 (prev - amount [* floor(since/10), capped at 2^64-1, if since > 10])  if total < target
                             prev                                                    otherwise )
   ([price_rule_Z], [window_spec] in Proofs/Fees_proofs.v).  Guard: target > 0 (the Go code divides by it;
   for denom = 0 the Go code panics, both sides of the equation then use x/0 = 0).
   Note the one intermediate saturation the code has: floor(prev*delta/target) is a uint64 and is capped
   at 2^64-1 before the division by denom (see C13_exact_unsaturated for the uncapped case). *)
Theorem C13_exact : forall (w : window) (consumed prev target denom minp since : N),
  length w = 10%nat -> 0 < target ->
  let total := N.min MaxU64 (fold_right N.add 0 (window_spec w consumed since)) in
  snd (compute_next_price_window w consumed prev target denom minp since) = window_spec w consumed since /\
  Z.of_N (fst (compute_next_price_window w consumed prev target denom minp since)) =
    price_rule_Z (Z.of_N total) (Z.of_N prev) (Z.of_N target) (Z.of_N denom) (Z.of_N minp) (Z.of_N since).
Proof.
  intros w consumed prev target denom minp since Hlen Ht. cbv zeta.
  unfold compute_next_price_window. cbn [fst snd].
  rewrite next_price_exact_Z by exact Ht. rewrite wsum_spec, new_window_eq_spec by exact Hlen. split; reflexivity.
Qed.
Print Assumptions C13_exact.

(* whenever floor(prev*delta/target) fits in 64 bits the change is exactly max 1 (floor(floor(prev*delta/target)/denom)) *)
Theorem C13_exact_unsaturated : forall prev delta target denom : N,
  0 < target -> prev * delta / target <= MaxU64 ->
  amount prev delta target denom = N.max 1 (prev * delta / target / denom).
Proof. exact amount_unsaturated. Qed.
Print Assumptions C13_exact_unsaturated.

(* never below the minimum price *)
Theorem C13_floor : forall (w : window) (consumed prev target denom minp since : N),
  minp <= fst (compute_next_price_window w consumed prev target denom minp since).
Proof. intros. unfold compute_next_price_window. cbn [fst]. apply next_price_floor. Qed.
Print Assumptions C13_floor.

(* rises iff usage is above target (strictly, unless already at 2^64-1), falls iff below (strictly, down to the
   floor), unchanged at the target *)
Theorem C13_direction : forall (w : window) (consumed prev target denom minp since : N),
  prev <= MaxU64 ->
  let total := wsum (new_window w consumed since) in
  let next := fst (compute_next_price_window w consumed prev target denom minp since) in
  (target < total -> prev <= next /\ (prev < MaxU64 -> prev < next)) /\
  (total < target -> (minp < prev -> minp <= next < prev) /\ (prev <= minp -> next = minp)) /\
  (total = target -> next = N.max minp prev).
Proof.
  intros w consumed prev target denom minp since Hp. cbv zeta. unfold compute_next_price_window. cbn [fst].
  split; [|split].
  - intros H. apply next_price_up; assumption.
  - intros H. apply next_price_down; assumption.
  - intros H. apply next_price_same; assumption.
Qed.
Print Assumptions C13_direction.

(* a higher window usage never yields a lower next price *)
Theorem C13_monotone : forall (w1 w2 : window) (c1 c2 prev target denom minp since : N),
  prev <= MaxU64 ->
  wsum (new_window w1 c1 since) <= wsum (new_window w2 c2 since) ->
  fst (compute_next_price_window w1 c1 prev target denom minp since) <=
  fst (compute_next_price_window w2 c2 prev target denom minp since).
Proof. intros. unfold compute_next_price_window. cbn [fst]. apply next_price_mono; assumption. Qed.
Print Assumptions C13_monotone.

(* ... in particular when every slot and the parent's consumption are at least as large *)
Theorem C13_monotone_slots : forall (w1 w2 : window) (c1 c2 prev target denom minp since : N),
  prev <= MaxU64 -> length w1 = 10%nat -> length w2 = 10%nat -> Forall2 N.le w1 w2 -> c1 <= c2 ->
  fst (compute_next_price_window w1 c1 prev target denom minp since) <=
  fst (compute_next_price_window w2 c2 prev target denom minp since).
Proof. intros. apply C13_monotone; [assumption|]. apply window_total_mono; assumption. Qed.
Print Assumptions C13_monotone_slots.

(* Roll / Update / Sum: shift by [r] slots with zero fill (all zero for r > 10), saturating add at one slot,
   saturating sum; and their composition in computeNextPriceWindow *)
Theorem C13_window :
  (forall (w : window) (r : N), length w = 10%nat ->
     roll w r = map (fun i : nat => let j := N.of_nat i + r in if j <? 10 then nth (N.to_nat j) w 0 else 0) (seq 0 10)) /\
  (forall (w : window) (s i : nat) (v : N), (s < length w)%nat ->
     length (wupdate w s v) = length w /\
     nth i (wupdate w s v) 0 = if Nat.eqb i s then N.min MaxU64 (nth s w 0 + v) else nth i w 0) /\
  (forall w : window, wsum w = N.min MaxU64 (fold_right N.add 0 w)) /\
  (forall (w : window) (consumed since : N), length w = 10%nat ->
     new_window w consumed since = window_spec w consumed since).
Proof.
  split; [|split; [|split]].
  - exact roll_eq_spec.
  - intros w s i v Hs. split; [apply wupdate_length|]. rewrite wupdate_nth by exact Hs. rewrite sat_add_eq. reflexivity.
  - exact wsum_spec.
  - exact new_window_eq_spec.
Qed.
Print Assumptions C13_window.

(* the encoded fee state (8 + 5*96 = 488 bytes) decodes to the same timestamp, prices, windows and consumption *)
Theorem C13_roundtrip : forall m : manager,
  wf_mgr m -> length (encode m) = 488%nat /\ decode (encode m) = Some m.
Proof. intros m H. split; [apply encode_length, H | apply decode_encode, H]. Qed.
Print Assumptions C13_roundtrip.

(* every state the code produces is such a well-formed state: the fresh manager, and ComputeNext of one *)
Theorem C13_states_wf :
  wf_mgr zero_mgr /\
  forall (m : manager) (t : Z) (targets denoms mins : dims),
    wf_mgr m -> Forall (fun v => v <= MaxU64) mins -> wf_mgr (compute_next m t targets denoms mins).
Proof. split; [exact wf_zero_mgr | exact compute_next_wf]. Qed.
Print Assumptions C13_states_wf.

(* the arithmetic of the pinned tree (wrapping previousPrice*delta) violates monotonicity: one more unit of
   usage makes previousPrice*delta wrap to 0 and the price rise collapse to 1 *)
Theorem C13_pinned_refuted : exists (w : window) (c1 c2 prev target denom minp since : N),
  prev <= MaxU64 /\ c1 <= c2 /\
  wsum (new_window w c1 since) <= wsum (new_window w c2 since) /\
  fst (compute_next_price_window_pinned w c2 prev target denom minp since) <
  fst (compute_next_price_window_pinned w c1 prev target denom minp since).
Proof.
  exists (repeat 0 10), (1000 + 16777215), (1000 + 16777216), (2 ^ 40), 1000, 48, 100, 1.
  vm_compute. repeat split; discriminate.
Qed.
Print Assumptions C13_pinned_refuted.

(* ---------------- non-vacuity ---------------- *)
(* default rules (target 1000 here), twice the target used one second ago: +2 *)
Example C13_ex_up :
  compute_next_price_window (repeat 0 10) 2000 100 1000 48 100 1 = (102, [0;0;0;0;0;0;0;0;2000;0]).
Proof. reflexivity. Qed.
(* nothing used for 25 seconds: falls by max 1 (100/48) * 2 = 4, clamped at the minimum *)
Example C13_ex_down :
  fst (compute_next_price_window [0;0;0;0;0;0;0;0;0;0] 0 110 1000 48 100 25) = 106.
Proof. reflexivity. Qed.
(* the operands of the pinned-tree wrap: the fixed code keeps rising *)
Example C13_ex_wrap :
  fst (compute_next_price_window (repeat 0 10) (1000 + 16777215) (2 ^ 40) 1000 48 100 1) <=
  fst (compute_next_price_window (repeat 0 10) (1000 + 16777216) (2 ^ 40) 1000 48 100 1).
Proof. vm_compute. discriminate. Qed.
(* intermediate saturation: floor(prev*delta/target) = 2^70 is capped at 2^64-1 before /denom *)
Example C13_ex_intermediate_saturation :
  amount (2 ^ 40) (2 ^ 40) (2 ^ 10) (2 ^ 20) = 2 ^ 44 - 1 /\ 2 ^ 40 * 2 ^ 40 / 2 ^ 10 / 2 ^ 20 = 2 ^ 50.
Proof. split; reflexivity. Qed.
Example C13_ex_wf : wf_mgr (compute_next zero_mgr 5000%Z [1000;1000;1000;1000;1000] [48;48;48;48;48] [100;100;100;100;100]).
Proof. apply C13_states_wf; [exact wf_zero_mgr|]. repeat constructor; unfold MaxU64; lia. Qed.
Example C13_ex_roundtrip :
  decode (encode (compute_next zero_mgr 5000%Z [1000;1000;1000;1000;1000] [48;48;48;48;48] [100;100;100;100;100])) =
  Some (compute_next zero_mgr 5000%Z [1000;1000;1000;1000;1000] [48;48;48;48;48] [100;100;100;100;100]).
Proof. apply C13_roundtrip, C13_ex_wf. Qed.
