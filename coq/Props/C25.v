(* C25 — Expiry-indexed sets behave like an ordered set.  Property theorems only.
   Models: Model/Heap.v (internal/heap on container/heap), Model/EHeap.v (internal/eheap), Model/EMap.v
   (internal/emap).  Every theorem quantifies over ALL operation sequences. *)
From Coq Require Import List NArith ZArith Bool Permutation Sorted.
Import ListNotations.
From HV Require Import Model.Heap Model.EHeap Model.EMap Proofs.Heap_proofs Proofs.EHeap_proofs Proofs.EMap_proofs.

(* Array heap (min or max).  After any sequence of Push (Index = Len, as emap/eheap do) / Pop / Remove(i):
   every entry's Index field equals its position, no two entries share an ID, and the heap order holds at
   every parent/child pair (sift-up/sift-down restore it) — [hwf]. *)
Theorem C25_heap_invariant : forall (A : Type) (mn : bool) (ops : list (hop A)),
  hwf A mn (fst (hrun A mn [] ops)).
Proof. intros A mn ops. apply hrun_wf, hwf_nil. Qed.
Print Assumptions C25_heap_invariant.

(* ... and each operation changes the multiset of (ID, Item, Val) triples as specified: Push adds the triple
   unless the ID is present (then nothing changes); Pop removes and returns the root, which is a best entry;
   Remove(i) removes and returns the entry at position i; out-of-range/empty leave the heap unchanged. *)
Theorem C25_heap_multiset : forall (A : Type) (mn : bool) (l : list (entry A)) (o : hop A),
  hwf A mn l ->
  hwf A mn (fst (hstep A mn l o)) /\ hstep_spec A mn l o (fst (hstep A mn l o)) (snd (hstep A mn l o)).
Proof. exact hstep_ok. Qed.
Print Assumptions C25_heap_multiset.

(* ExpiryHeap refines a finite set of items with unique ids ordered by expiry: over all sequences of
   Add / Remove / Has / PeekMin / PopMin / SetMin / Len the outputs are those allowed by [spec_step]:
   Add is idempotent per id, Has = membership, Remove(id) removes and returns exactly the item with that id,
   PeekMin/PopMin return an item of minimum expiry, SetMin t removes and returns exactly the items with
   expiry < t (in non-decreasing expiry order) and keeps exactly those with expiry >= t. *)
Theorem C25_eheap_refines : forall (A : Type) (gid : A -> N) (gexp : A -> Z) (ops : list (eop A)),
  spec_trace A gid gexp [] ops (snd (eh_run A gid gexp [] ops)).
Proof. intros A gid gexp ops. apply (eheap_refines A gid gexp ops []), ehwf_nil. Qed.
Print Assumptions C25_eheap_refines.

(* EMap refines a finite map id -> expiry: over all sequences of add / SetMin / Any, an add with expiry 0 or
   of a tracked id changes nothing, otherwise it binds the id; Any/Contains answer membership; SetMin t evicts
   and returns exactly the ids bound to an expiry < t (by increasing expiry) and keeps the others. *)
Theorem C25_emap_refines : forall (ops : list mop),
  mspec_trace [] ops (snd (em_run em_new ops)).
Proof. intros ops. apply (emap_refines ops em_new), emwf_new. Qed.
Print Assumptions C25_emap_refines.

(* ---------- non-vacuity ---------- *)
Local Open Scope N_scope.
Example C25_heap_example :
  map (fun e => (e_id e, e_val e, e_idx e))
      (fst (hrun unit true [] [HPush unit 1 tt 30%Z; HPush unit 2 tt 10%Z; HPush unit 3 tt 20%Z; HPush unit 2 tt 5%Z;
                               HPush unit 4 tt 10%Z; HRemove unit 1%nat; HPop unit]))
  = [(3, 20%Z, 0%nat); (1, 30%Z, 1%nat)].
Proof. vm_compute. reflexivity. Qed.
Example C25_eheap_example :
  snd (eh_run (N * Z) fst snd [] [EAdd _ (1, 30%Z); EAdd _ (2, 10%Z); EAdd _ (2, 40%Z); EAdd _ (3, 10%Z);
                                   ERemove _ 3; ESetMin _ 20%Z; EPeek _])
  = [OUnit _; OUnit _; OUnit _; OUnit _; OOpt _ (Some (3, 10%Z)); OList _ [(2, 10%Z)]; OOpt _ (Some (1, 30%Z))].
Proof. vm_compute. reflexivity. Qed.
Example C25_emap_example :
  snd (em_run em_new [MAdd 1 30%Z; MAdd 2 10%Z; MAdd 3 0%Z; MAdd 2 40%Z; MAdd 4 10%Z; MAny [3]; MSetMin 20%Z; MAny [2; 1]])
  = [MUnit; MUnit; MUnit; MUnit; MUnit; MBool false; MIds [2; 4]; MBool true].
Proof. vm_compute. reflexivity. Qed.
