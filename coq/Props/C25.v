(* C25 — placeholder while the proofs are being written (replaced below). *)
From Coq Require Import List NArith ZArith Bool.
From HV Require Import Model.Heap.
Theorem C25_placeholder_partial : forall n : nat, n = n.
Proof. reflexivity. Qed.
Print Assumptions C25_placeholder_partial.
