(* C09 — a transaction is never included twice on one chain.  Property theorems only.

   Objects (Model/ValidityWindow.v): a block tree [tree : id -> option block] (blocks carry parent,
   height, timestamp and items = (id, expiry) pairs), the window [W], the TimeValidityWindow model
   (Accept / isRepeat walk / VerifyExpiryReplayProtection / populate), driven by a list of
   consensus-engine calls [ops].  [eng_run] checks the engine contract against the outputs of the
   calls and collects in [e_ever] every block whose Verify returned nil.

   Hypotheses [tree_ok0 tree]: ids are consistent, height = parent height + 1, timestamps are
   non-negative and non-decreasing along parent links, an item id determines its expiry (hash
   oracle).  [interval_ok W b]: every item of b satisfies ts <= expiry <= ts + W (both bounds are
   used: the upper one puts the earlier inclusion inside the walked range; for transactions this
   is chain.Base.Execute / C10).  [ts_pos tree]: non-genesis
   blocks have a positive timestamp (F-23; without it the statement is false, see
   C09_expiry0_refuted).

   [clean tree W b] (Proofs): on the path from b to genesis every block has pairwise different item
   ids, no two different blocks of the path share an item id, and every block satisfies
   [interval_ok]. *)
From Coq Require Import List NArith ZArith Bool Lia.
Import ListNotations.
From HV Require Import Model.ValidityWindow Proofs.ValidityWindow_proofs.
Local Open Scope Z_scope.

(* All trees, all call sequences respecting the engine contract (forks, any accept/verify/reject
   order, lagging accept, restarts with index pruning), any constant window. *)
Theorem C09_no_repeat : forall (tree : index) (W : Z) (g : N) (gb : block) (ops : list op) (e : eng),
  tree_ok0 tree -> ts_pos tree -> (forall i b, tree i = Some b -> interval_ok W b) ->
  tree g = Some gb -> b_height gb = 0%N -> NoDup (ids (b_items gb)) ->
  eng_run tree (eng0 g) ops (run vf_replay tree W (sys0 tree W gb) ops) = Some e ->
  forall v, In v (e_ever e) -> exists vb, tree v = Some vb /\ clean tree W vb.
Proof.
  intros tree W g gb ops e TOK POS INT Hg Hh Hnd Hrun.
  assert (forall idx w b, in_tree tree b -> vf_replay tree idx w W b = 0%N ->
            verify_replay idx w W b = 0%N /\ interval_ok W b) as VF
    by (intros idx w b Hb Hv; split; [exact Hv | exact (INT _ _ Hb)]).
  exact (run_inv tree W TOK vf_replay VF POS ops _ _ e
           (inv0 tree W TOK g gb Hg Hh Hnd (INT _ _ Hg)) Hrun).
Qed.
Print Assumptions C09_no_repeat.

(* The builder's filter: dropping the items IsRepeat marks (chain/builder.go, "if dup.Contains(i)
   continue") yields a block on the same parent and timestamp that VerifyExpiryReplayProtection
   accepts, for every window state and chain index. *)
Theorem C09_builder : forall (W : Z) (idx : index) (w : win) (parent : block) (now : Z)
                             (items : list item) (m : list bool) (newid : N),
  idx (b_id parent) = Some parent ->
  is_repeat idx w W parent now items = (m, false) ->
  NoDup (ids (kept items m)) ->
  verify_replay idx w W (mkB newid (b_id parent) (N.succ (b_height parent)) now (kept items m)) = 0%N.
Proof. exact builder_agrees. Qed.
Print Assumptions C09_builder.

(* Restart: a window rebuilt from the chain index that reports completeness (walk reached genesis
   or a block below the window) satisfies the invariant used by C09_no_repeat: every unexpired,
   non-zero-expiry item of head's ancestry is tracked, and the boundary height is head's. *)
Theorem C09_restart : forall (tree : index) (W : Z) (idx : index) (head : block) (w : win),
  tree_ok0 tree -> sub idx tree -> in_tree tree head ->
  (forall a, reach tree head a -> interval_ok W a) ->
  new_window idx W head = (w, true) ->
  last_h w = b_height head /\
  (forall a x e, reach tree head a -> In (x, e) (b_items a) -> b_ts head <= e -> e <> 0 ->
                 em_has (seen w) x = true) /\
  (forall x e, In (x, e) (seen w) -> exists i b, tree i = Some b /\ In (x, e) (b_items b)).
Proof. intros tree W idx head w TOK. exact (populate_complete tree W TOK idx head w). Qed.
Print Assumptions C09_restart.

(* VerifyTimestamp accepts exactly the aligned expiries inside [ts, ts + W] (Go's truncated %). *)
Theorem C09_interval_test : forall ct et d W : Z,
  verify_timestamp ct et d W = 0%N <-> Z.rem ct d = 0 /\ et <= ct <= et + W.
Proof.
  intros. unfold verify_timestamp.
  destruct (Z.eqb_spec (Z.rem ct d) 0); cbn [negb]; [|split; [discriminate | tauto]].
  destruct (Z.ltb_spec ct et); [split; [discriminate | lia]|].
  destruct (Z.gtb_spec ct (et + W)); [split; [discriminate | lia]|].
  split; [lia | reflexivity].
Qed.
Print Assumptions C09_interval_test.

(* ---- concrete trees: non-vacuity and the F-23 witness ---- *)
Ltac tcases_go H :=
  match type of H with
  | (if (?k =? ?i)%N then _ else _) = Some _ =>
      destruct (N.eqb_spec k i); [inversion H; subst; clear H | tcases_go H]
  | _ => discriminate H
  end.
Ltac tcases H := unfold tree_of in H; cbn [find b_id] in H; tcases_go H.

Ltac tree_ok0_tac :=
  constructor;
  [ intros i b H; tcases H; reflexivity
  | intros i b H Hh; tcases H; cbn [b_height] in Hh; try congruence;
      (eexists; split; [reflexivity | split; [reflexivity | cbn [b_ts]; lia]])
  | intros i b H; tcases H; cbn [b_ts]; lia
  | intros i j b b' x e e' H H' Hin Hin'; tcases H; tcases H'; cbn [b_items In] in *;
      repeat match goal with
             | Hx : _ \/ _ |- _ => destruct Hx
             | Hx : (_, _) = (_, _) |- _ => inversion Hx; subst; clear Hx
             | Hx : False |- _ => contradiction
             end; try reflexivity; try congruence ].

(* a fork: block 3 repeats item 7 of its parent 1 and is rejected, before and after Accept(1) and
   after a restart; blocks 1 and 2 verify *)
Definition ex_blocks : list block :=
  [ mkB 0 99 0 0 []; mkB 1 0 1 1 [(7%N, 3)]; mkB 2 1 2 2 [(8%N, 3)]; mkB 3 1 2 2 [(7%N, 3)] ].
Definition ex_ops : list op :=
  [OVerify 1; OVerify 2; OVerify 3; OAccept 1; OVerify 3; ORestart 1 0; OVerify 2; OVerify 3;
   OIsRepeat 1 2 [(7%N, 3); (8%N, 3)]].

Example C09_hypotheses_satisfiable :
  tree_ok0 (tree_of ex_blocks) /\ ts_pos (tree_of ex_blocks) /\
  (forall i b, tree_of ex_blocks i = Some b -> interval_ok 5 b).
Proof.
  split; [unfold ex_blocks; tree_ok0_tac|]. split.
  - intros i b H Hh. unfold ex_blocks in H. tcases H; cbn [b_height b_ts] in *; try congruence; lia.
  - intros i b H x e Hin. unfold ex_blocks in H. tcases H; cbn [b_items In b_ts] in *;
      repeat match goal with
             | Hx : _ \/ _ |- _ => destruct Hx
             | Hx : (_, _) = (_, _) |- _ => inversion Hx; subst; clear Hx
             | Hx : False |- _ => contradiction
             end; lia.
Qed.

Example C09_contract_satisfiable :
  let tree := tree_of ex_blocks in
  run vf_replay tree 5 (sys0 tree 5 (mkB 0 99 0 0 [])) ex_ops =
    [OutV 0; OutV 0; OutV 1; OutUnit; OutV 1; OutR true; OutV 0; OutV 1; OutI [true; false] false] /\
  option_map e_ever (eng_run tree (eng0 0) ex_ops (run vf_replay tree 5 (sys0 tree 5 (mkB 0 99 0 0 [])) ex_ops))
    = Some [2; 2; 1; 0]%N.
Proof. vm_compute. split; reflexivity. Qed.

Example C09_builder_example :
  let tree := tree_of ex_blocks in
  let w := accept (fst (new_window tree 5 (mkB 0 99 0 0 []))) (mkB 1 0 1 1 [(7%N, 3)]) in
  is_repeat tree w 5 (mkB 1 0 1 1 [(7%N, 3)]) 2 [(7%N, 3); (8%N, 3)] = ([true; false], false) /\
  kept [(7%N, 3); (8%N, 3)] [true; false] = [(8%N, 3)].
Proof. vm_compute. split; reflexivity. Qed.

(* F-23: all hypotheses except [ts_pos].  Item 7 has expiry 0 and is included in block 1
   (timestamp 0, as allowed by MinBlockGap = 0); the emap never tracks expiry 0, so after
   Accept(1) the child 2 (timestamp 0) repeating item 7 verifies.  Reproduced on the real
   TimeValidityWindow by the driver (signature repeat-of-item-with-expiry-0-after-accept). *)
Definition f23_blocks : list block :=
  [ mkB 0 99 0 0 []; mkB 1 0 1 0 [(7%N, 0)]; mkB 2 1 2 0 [(7%N, 0)] ].

Theorem C09_expiry0_refuted :
  exists (bs : list block) (W : Z) (ops : list op) (e : eng),
    tree_ok0 (tree_of bs) /\ (forall i b, tree_of bs i = Some b -> interval_ok W b) /\
    eng_run (tree_of bs) (eng0 0) ops
            (run vf_replay (tree_of bs) W (sys0 (tree_of bs) W (mkB 0 99 0 0 [])) ops) = Some e /\
    In 2%N (e_ever e) /\ cleanb (tree_of bs) 2 = false.
Proof.
  exists f23_blocks, 5, [OVerify 1; OAccept 1; OVerify 2], (mkE [2; 1]%N 1%N [2; 1; 0]%N).
  split; [unfold f23_blocks; tree_ok0_tac|]. split.
  - intros i b H x e Hin. unfold f23_blocks in H. tcases H; cbn [b_items In b_ts] in *;
      repeat match goal with
             | Hx : _ \/ _ |- _ => destruct Hx
             | Hx : (_, _) = (_, _) |- _ => inversion Hx; subst; clear Hx
             | Hx : False |- _ => contradiction
             end; lia.
  - vm_compute. repeat split; try reflexivity. left. reflexivity.
Qed.
Print Assumptions C09_expiry0_refuted.
