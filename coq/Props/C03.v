(* C03 — Transactions are atomic and always pay their fee.
   Property theorems only; model: Model/Chain.v (chain/transaction.go: PreExecute, Execute;
   chain/processor.go: executeTxs; balance handlers) over Model/Tstate.v and Model/Fees.v;
   proofs: Proofs/TxAtomic_proofs.v (on Proofs/Tstate_proofs.v, ChainBridge_proofs.v, Fees_proofs.v).

   Vocabulary (Proofs/TxAtomic_proofs.v, all executable):
     deduct t f s        the fee deduction bh.Deduct(sponsor, fee) on view s (None = it returned an error);
                         execute_tx t u f s is, by definition (C03_not_included_iff / C03_fee_first),
                         deduct ; checkpoint := OpIndex ; run_actions
     run_all s acts      every action run in order, without checkpoint or rollback (None = one fails)
     paid_value t b f    the stored balance after paying f from b (the reference VM deletes a zero balance)
     price_x_units p u   sum over the 5 dimensions of p_d * u_d   (the formula of Check/C03_check.v)
     tx_view parent st sk  the view a transaction executes on: new_view over the block diff st, scoped to
                         its declared keys sk, reading through to the parent values of those keys
   vis s k is the visible value of key k in view s (Model/Tstate.v, C04). *)
From stdpp Require Import gmap.
From Coq Require Import NArith ZArith.
From HV Require Import Lib.Bytes Lib.U64 Model.Keys Model.Tstate Model.Fees Model.TxStatic Model.Chain
                       Proofs.Tstate_proofs Proofs.Fees_proofs Proofs.ChainBridge_proofs Proofs.TxAtomic_proofs.
Local Open Scope N_scope.

(* ---- the fee: exactly unit prices x units ---- *)

(* Whatever Execute returns records the fee and the units it was given ... *)
Theorem C03_result_records_fee_units : forall t u f s s' r,
  execute_tx t u f s = Some (s', r) -> res_fee r = f /\ res_units r = u.
Proof. exact execute_tx_fee_units. Qed.
Print Assumptions C03_result_records_fee_units.

(* ... and for every included transaction (a task of executeTxs that returned a result) that fee is
   Fees.fee of the block's fee manager and the transaction's units: sum_d price_d * units_d, computed
   with checked arithmetic (so it fits uint64), and the sponsor's balance could pay it. *)
Theorem C03_fee_exact : forall r fm parent ts st t sk u st' res,
  run_tx r fm parent ts st t sk u = (st', inl res) ->
  fee fm u = Some (res_fee res) /\ res_units res = u
  /\ res_fee res = price_x_units (unit_prices fm) u /\ res_fee res <= MaxU64
  /\ exists b, get_balance (tx_view parent st sk) (t_sponsor_key t) = Some b /\ res_fee res <= b.
Proof. exact run_tx_fee. Qed.
Print Assumptions C03_fee_exact.

(* Block level: an accepted block has exactly one result per transaction, in order; the result's
   units are Transaction.Units of that transaction and its fee is the block's unit prices (the
   prices the block outputs) times those units. *)
Theorem C03_block_fee_exact : forall r mk p b o, execute_block r mk p b = inl o ->
  Forall2 (fun t res => exists sk, state_keys t = Some sk /\ units r t sk = Some (res_units res)
       /\ fee (o_fee o) (res_units res) = Some (res_fee res)
       /\ res_fee res = price_x_units (o_prices o) (res_units res) /\ res_fee res <= MaxU64)
    (b_txs b) (o_results o).
Proof. exact execute_block_fees. Qed.
Print Assumptions C03_block_fee_exact.

(* ---- the fee is charged first ---- *)

(* Execute = deduct ; checkpoint ; action loop.  When it returns a result, the sponsor key held a
   well-formed 8-byte balance >= f; the actions start (run_actions, checkpoint = OpIndex after the
   deduction) from the view s1 = deduct t f s, in which the sponsor key holds balance - f (deleted
   at zero by the reference VM's handler), every other key is as in s, and the balance handler
   reads balance - f back. *)
Theorem C03_fee_first : forall t u f s s' r, execute_tx t u f s = Some (s', r) ->
  exists v s1,
    get s (t_sponsor_key t) = inl v /\ length v = 8%nat /\ f <= be_dec v
    /\ deduct t f s = Some s1
    /\ vis s1 (t_sponsor_key t) = paid_value t (be_dec v) f
    /\ (forall k, t_sponsor_key t <> k -> vis s1 k = vis s k)
    /\ (be_dec v <= MaxU64 -> get_balance s1 (t_sponsor_key t) = Some (be_dec v - f))
    /\ run_actions s1 (op_index s1) (t_actions t) [] = (s', res_success r, res_err r, res_outputs r)
    /\ res_fee r = f /\ res_units r = u.
Proof. exact execute_tx_fee_charged. Qed.
Print Assumptions C03_fee_first.

(* If no action writes the sponsor's balance key (no put / delete / transfer from or to it), the
   sponsor pays exactly the fee: at the end of Execute its visible balance is the balance before
   minus f, whether the actions succeeded or failed. *)
Theorem C03_sponsor_pays_exactly : forall t u f s s' r,
  view_ok s -> execute_tx t u f s = Some (s', r) ->
  no_action_writes (t_sponsor_key t) (t_actions t) ->
  exists v, get s (t_sponsor_key t) = inl v /\ length v = 8%nat /\ f <= be_dec v
    /\ vis s' (t_sponsor_key t) = paid_value t (be_dec v) f
    /\ (be_dec v <= MaxU64 -> get_balance s' (t_sponsor_key t) = Some (be_dec v - f)).
Proof. exact execute_tx_sponsor_pays_exactly. Qed.
Print Assumptions C03_sponsor_pays_exactly.

(* Execute returns an error (the transaction is not included, nothing is committed) exactly when
   the deduction fails; in particular when the sponsor's balance is below the fee. *)
Theorem C03_not_included_iff : forall t u f s,
  (is_Some (execute_tx t u f s) <-> is_Some (deduct t f s))
  /\ (forall b, get_balance s (t_sponsor_key t) = Some b -> b < f -> execute_tx t u f s = None).
Proof.
  intros t u f s. split; [apply execute_tx_included_iff|].
  intros b Hb Hlt. apply execute_tx_deduct_fails. eapply deduct_insufficient; eassumption.
Qed.
Print Assumptions C03_not_included_iff.

(* A transaction whose sponsor cannot pay prices x units is rejected by the task (the block is
   invalid) and the block diff is left as it was; so is any rejected transaction. *)
Theorem C03_cannot_pay_not_included : forall r fm parent ts st t sk u,
  (forall f b, fee fm u = Some f -> get_balance (tx_view parent st sk) (t_sponsor_key t) = Some b -> b < f ->
     exists e, run_tx r fm parent ts st t sk u = (st, inr e) /\ e <> 0)
  /\ (forall st' e, run_tx r fm parent ts st t sk u = (st', inr e) -> st' = st /\ e <> 0).
Proof.
  intros r fm parent ts st t sk u. split.
  - intros f b. apply run_tx_poor.
  - intros st' e. apply run_tx_rejected.
Qed.
Print Assumptions C03_cannot_pay_not_included.

(* ---- atomicity ---- *)

(* Success: every action ran, in order, from the post-fee view; there is one output per action;
   the final view is the one reached by running all of them (no rollback). *)
Theorem C03_atomic_success : forall t u f s s' r,
  execute_tx t u f s = Some (s', r) -> res_success r = true ->
  exists s1, deduct t f s = Some s1
    /\ run_all s1 (t_actions t) = Some (s', res_outputs r)
    /\ length (res_outputs r) = length (t_actions t)
    /\ res_err r = 0 /\ res_fee r = f /\ res_units r = u.
Proof. exact execute_tx_success. Qed.
Print Assumptions C03_atomic_success.

(* The result says success exactly when every action succeeds from the post-fee view. *)
Theorem C03_success_iff_all_actions_succeed : forall t u f s s' r s1,
  execute_tx t u f s = Some (s', r) -> deduct t f s = Some s1 ->
  (res_success r = true <-> is_Some (run_all s1 (t_actions t))).
Proof. exact execute_tx_success_iff. Qed.
Print Assumptions C03_success_iff_all_actions_succeed.

(* Failure: for EVERY key the visible value is the one of the post-fee view (the rollback theorem
   of C04 at the checkpoint taken after the deduction), and so are the pending map, the write
   counters, the undo log and the op index: no effect of any action survives, whatever reads,
   writes, deletes (of the same or different keys, the sponsor key included) the actions made
   before one failed.  The fee and units are as in the success case; the outputs are those of the
   actions that ran to completion before the failing one (Go: actionOutputs at the time of the
   error), the error class is the failing action's. *)
Theorem C03_atomic_failure : forall t u f s s' r,
  view_ok s -> execute_tx t u f s = Some (s', r) -> res_success r = false ->
  exists s1, deduct t f s = Some s1
    /\ (forall k, vis s' k = vis s1 k)
    /\ pending s' = pending s1 /\ writes s' = writes s1 /\ ops s' = ops s1 /\ op_index s' = op_index s1
    /\ res_fee r = f /\ res_units r = u
    /\ exists pre a post sp sq e,
         t_actions t = pre ++ a :: post
         /\ run_all s1 pre = Some (sp, res_outputs r)
         /\ run_ops sp (a_ops a) [] = (sq, inr e)
         /\ res_err r = aerr_class e
         /\ length (res_outputs r) = length pre
         /\ s' = rollback sq (op_index s1).
Proof. exact execute_tx_failure. Qed.
Print Assumptions C03_atomic_failure.

(* At the level of the block: a failed transaction changes the block diff at no key other than
   its sponsor's balance key, where the value visible to later transactions is balance - fee. *)
Theorem C03_failed_tx_only_pays : forall r fm parent ts st t sk u st' res,
  run_tx r fm parent ts st t sk u = (st', inl res) -> res_success res = false ->
  (forall k, t_sponsor_key t <> k -> ts_changed st' !! k = ts_changed st !! k)
  /\ exists v, under_of st (fetch parent sk) (t_sponsor_key t) = Some v /\ length v = 8%nat
       /\ res_fee res <= be_dec v
       /\ under_of st' (fetch parent sk) (t_sponsor_key t) = paid_value t (be_dec v) (res_fee res).
Proof. exact run_tx_failure_diff. Qed.
Print Assumptions C03_failed_tx_only_pays.

(* What an included transaction publishes is exactly its final view: after the commit, the value
   under every key is the one visible at the end of Execute (hence, by the two theorems above, the
   effects of all actions on top of the fee, or the fee alone). *)
Theorem C03_commit_publishes_final_view : forall r fm parent ts st t sk u st' res,
  run_tx r fm parent ts st t sk u = (st', inl res) ->
  exists f s', execute_tx t u f (tx_view parent st sk) = Some (s', res)
    /\ forall k, under_of st' (fetch parent sk) k = vis s' k.
Proof. exact run_tx_commit_vis. Qed.
Print Assumptions C03_commit_publishes_final_view.

(* ---- non-vacuity (evaluated in the model) ---- *)
Definition ex_sp : key := [115; 0; 1].
Definition ex_k : key := [97; 0; 1].
Definition ex_q : key := [98; 0; 1].
Definition ex_decl : list (key * perm) := [(ex_k, 7); (ex_q, 7)].
Definition ex_a1 : action := mkAction 1 ex_decl [OPut ex_k [5]; OGet ex_k; ODel ex_q] (-1) (-1).
Definition ex_a2_bad : action := mkAction 1 ex_decl [ODel ex_k; OPut ex_q [1]; OGet ex_q; OFail] (-1) (-1).
Definition ex_a2_good : action := mkAction 1 ex_decl [ODel ex_k; OPut ex_q [1]; OGet ex_q] (-1) (-1).
Definition ex_tx (morpheus : bool) (acts : list action) : tx :=
  mkTx 1067000 true 1000 ex_sp true 1 (-1) (-1) 100 morpheus acts.
Definition ex_sk : gmap key perm := default ∅ (state_keys (ex_tx false [ex_a1; ex_a2_bad])).
Definition ex_parent : gmap key val := {[ex_sp := be64 1000; ex_q := [9]]}.
Definition ex_view : view := tx_view ex_parent ts_new ex_sk.
Definition ex_units : dims := [100; 4; 21; 75; 39].
Definition ex_rules : rules :=
  mkRules 100 750 [1;1;1;1;1] [48;48;48;48;48] [20000000;1000;1000;1000;1000]
          [1800000;2000;2000;2000;2000] 60000 16 1 5 2 20 5 10 3.
Definition ex_fm : manager := mkFee 1058 [1; 2; 1; 3; 1] [] [0;0;0;0;0].
Definition ex_block (txs : list tx) : block := mkBlock 1060318 48 true false false None txs.
Definition ex_meta : meta_keys := mkMeta [0;0;1] [1;0;1] [2;0;8].
Definition ex_pstate : parent_state := mkParent ex_parent (Some 47) 1059318 ex_fm.

(* two script actions, the second fails after deleting what the first wrote and overwriting a
   parent key: the result is a failure carrying the first action's output and the full fee, and the
   view shows the parent values again, minus the fee *)
Example C03_failure_example :
  view_ok ex_view /\
  match execute_tx (ex_tx false [ex_a1; ex_a2_bad]) ex_units 393 ex_view with
  | Some (s', r) =>
      res_success r = false /\ res_err r = 1 /\ res_fee r = 393 /\ res_outputs r = [[1; 1; 5]]
      /\ vis s' ex_k = None /\ vis s' ex_q = Some [9] /\ vis s' ex_sp = Some (be64 607)
      /\ map_to_list (pending s') = [(ex_sp, Some (be64 607))]
  | None => False
  end.
Proof. split; [apply tx_view_ok|]. vm_compute. repeat split; reflexivity. Qed.

Example C03_no_action_writes_example :
  no_action_writes ex_sp (t_actions (ex_tx false [ex_a1; ex_a2_bad])).
Proof. repeat constructor; intros H; cbn in H; try contradiction; discriminate H. Qed.

(* the same transaction with a second action that succeeds: both outputs, all effects *)
Example C03_success_example :
  match execute_tx (ex_tx false [ex_a1; ex_a2_good]) ex_units 393 ex_view with
  | Some (s', r) =>
      res_success r = true /\ res_fee r = 393 /\ res_outputs r = [[1; 1; 5]; [1; 1; 1]]
      /\ vis s' ex_k = None /\ vis s' ex_q = Some [1] /\ vis s' ex_sp = Some (be64 607)
  | None => False
  end.
Proof. vm_compute. repeat split; reflexivity. Qed.

(* the reference VM's handler: paying the whole balance deletes the account; one unit more and
   Execute returns an error *)
Example C03_fee_boundary_example :
  match execute_tx (ex_tx true [ex_a1; ex_a2_bad]) ex_units 1000 ex_view with
  | Some (s', r) => res_success r = false /\ res_fee r = 1000 /\ vis s' ex_sp = None /\ vis s' ex_q = Some [9]
  | None => False
  end
  /\ execute_tx (ex_tx true [ex_a1; ex_a2_bad]) ex_units 1001 ex_view = None
  /\ execute_tx (ex_tx false [ex_a1; ex_a2_bad]) ex_units 1001 ex_view = None.
Proof. vm_compute. repeat split; reflexivity. Qed.

(* the hypotheses of the run_tx / execute_block theorems: an accepted block with a failing and a
   succeeding transaction; fees are prices x units = 314 under the block's prices [1;1;1;2;1], and
   the failed transaction's only trace in the diff is its sponsor's balance *)
Example C03_block_example :
  match execute_block ex_rules ex_meta ex_pstate
          (ex_block [ex_tx false [ex_a1; ex_a2_bad]; ex_tx true [ex_a1; ex_a2_good]]) with
  | inl o =>
      map res_success (o_results o) = [false; true] /\ map res_fee (o_results o) = [314; 314]
      /\ o_prices o = [1; 1; 1; 2; 1] /\ map res_units (o_results o) = [ex_units; ex_units]
      /\ map_to_list (o_diff o) = [(ex_q, Some [1]); (ex_sp, Some (be64 372))]
  | inr _ => False
  end.
Proof. vm_compute. repeat split; reflexivity. Qed.

Example C03_run_tx_example :
  match run_tx ex_rules ex_fm ex_parent 1060318 ts_new (ex_tx false [ex_a1; ex_a2_bad]) ex_sk ex_units with
  | (st', inl res) =>
      res_success res = false /\ res_fee res = 393 /\ map_to_list (ts_changed st') = [(ex_sp, Some (be64 607))]
  | (_, inr _) => False
  end.
Proof. vm_compute. repeat split; reflexivity. Qed.

(* a sponsor that cannot pay: rejected, nothing committed *)
Example C03_cannot_pay_example :
  fee ex_fm [2000; 4; 21; 75; 39] = Some 2293
  /\ get_balance ex_view ex_sp = Some 1000
  /\ run_tx ex_rules ex_fm ex_parent 1060318 ts_new (ex_tx false [ex_a1; ex_a2_bad]) ex_sk [2000; 4; 21; 75; 39]
     = (ts_new, inr subInsufficient).
Proof. vm_compute. repeat split; reflexivity. Qed.
