(* C33 — The largest-fitting-set selector returns a consistent fitting subset.  Property theorems only.
   Model: Model/LargestSet.v (fees/set.go LargestSet; fees/dimension.go CanAdd/Add in Model/Fees.v),
   proofs: Proofs/LargestSet_proofs.v.  Items and limit are arbitrary lists of N (Dimensions are read with
   [dget _ k], k < 5); no bound on the number of items or on the values. *)
From Coq Require Import List NArith ZArith Bool Lia Permutation Sorted.
Import ListNotations.
From HV Require Import Lib.U64 Model.Fees Model.LargestSet Proofs.Fees_proofs Proofs.LargestSet_proofs.
Local Open Scope N_scope.

(* For every list of dimension vectors and every limit, with (idx, total) = LargestSet(items, limit):
   1. the returned indices are pairwise distinct;
   2. each is a valid index (< len(items));
   3. total is the exact (unwrapped) per-dimension sum of the returned items;
   4. total is within the limit (and below 2^64) in every dimension;
   5. the order in which items are considered is a permutation of 0..n-1 (every input is considered exactly
      once), ascending in (weight, input position), and the returned list is a sub-multiset of it;
   6. when item j is considered (order = pre ++ j :: post) the accumulator is the exact sum of the returned
      items among [pre]; j is returned only if it fits on top of it, and every skipped j does NOT fit:
      some dimension would overflow 2^64-1 or exceed the limit. *)
Theorem C33_sound : forall (items : list dims) (limit : dims),
  let n := length items in
  let idx := fst (largest_set items limit) in
  let total := snd (largest_set items limit) in
  let order := order_of items limit in
  NoDup idx /\
  (forall i, In i idx -> (i < n)%nat) /\
  (forall k, (k < 5)%nat -> dget total k = vsum items k idx) /\
  (forall k, (k < 5)%nat -> dget total k <= MaxU64 /\ dget total k <= dget limit k) /\
  Permutation order (seq 0 n) /\
  StronglySorted (precedes (weights items limit)) order /\
  (exists rest, Permutation order (idx ++ rest)) /\
  (forall pre j post, order = pre ++ j :: post ->
     let seen := filter (memb idx) pre in
     let acc := map (fun k => vsum items k seen) idx5 in
     (In j idx -> fits_on acc (item items j) limit) /\
     (~ In j idx -> exists k, (k < 5)%nat /\ N.min MaxU64 (dget limit k) < dget acc k + dget (item items j) k)).
Proof. exact largest_set_sound. Qed.
Print Assumptions C33_sound.

(* the Add error path of LargestSet (return []uint64{}, Dimensions{}) is unreachable: after CanAdd the
   checked Add cannot fail, so the result is always the greedy selection *)
Theorem C33_no_error_path : forall (items : list dims) (limit : dims),
  largest_set items limit =
  (greedy_sel items limit (order_of items limit) dzero, greedy_total items limit (order_of items limit) dzero).
Proof. exact largest_set_eq. Qed.
Print Assumptions C33_no_error_path.

(* ---------------- non-vacuity ---------------- *)
(* a non-fitting item (index 1) followed by a fitting one (index 2): both parts of clause 6 are inhabited *)
Example C33_ex_interleaved :
  largest_set [[6;0;0;0;0]; [6;0;0;0;0]; [0;7;0;0;0]] [10;10;0;0;0] = ([0;2]%nat, [6;7;0;0;0]) /\
  order_of [[6;0;0;0;0]; [6;0;0;0;0]; [0;7;0;0;0]] [10;10;0;0;0] = [0;1;2]%nat.
Proof. split; reflexivity. Qed.
(* values >= 2^63 are squared after the int64 conversion: 2^64-1 weighs like 1 *)
Example C33_ex_int64_cast :
  order_of [[3;0;0;0;0]; [18446744073709551615;0;0;0;0]] [18446744073709551615;0;0;0;0] = [1;0]%nat /\
  largest_set [[3;0;0;0;0]; [18446744073709551615;0;0;0;0]] [18446744073709551615;0;0;0;0]
    = ([1]%nat, [18446744073709551615;0;0;0;0]).
Proof. split; vm_compute; reflexivity. Qed.
Example C33_ex_empty : largest_set [] [1;1;1;1;1] = ([], [0;0;0;0;0]).
Proof. reflexivity. Qed.
