(* C21 — dynamic state sync hands over to normal operation consistently.  Property theorems only.

   Objects (Model/Snow.v): the consensus-wrapper model [step] (snow.VM / StatefulBlock /
   statesync.go / health.go) driven by engine calls [ops]; [erun] runs the model and the engine's own
   bookkeeping [estate] together and fails as soon as a call violates the snowman call contract
   [eguard] ([engine_ok ops] = the run does not fail).  While the VM is not ready Verify/Accept are
   vacuous (blocks are only indexed / remembered); [OFinishSync t] is FinishStateSync at target t:
   reprocess the accepted chain from t to the tip, then verifyProcessingBlocks, then register the
   unresolved-blocks health check.

   [good es b] (Proofs/Snow_proofs.v): b is processing and b and all its processing ancestors up to
   the engine's last accepted block are valid.  [exec_chain t l]: VerifyBlock + AcceptBlock callbacks
   executing the blocks l on top of t.  [e_sync es]: the blocks accepted since (and including) the
   sync target, oldest first.  [Finished es st' u] (Proofs/Handover_proofs.v): the record of facts
   about the state after the hand-over used below.

   REPAIRED DEFECT (fix commit 8942b5f in /repo; former known finding
   finish-fails-not-found-while-a-processing-block-has-a-rejected-parent): FinishStateSync used to
   return `not found` and leave the VM not ready when it ran between the engine's Reject of a block
   and the Reject of that block's still-processing child.  verifyProcessingBlocks now marks a block
   whose parent is gone unresolved; such a block is not [good], so the statements below need no
   guard for it any more (example C21_orphan_repaired).

   Scope of the quantification: ALL op lists that respect the engine contract, with any number of
   parses / vacuous verifies / accepts / rejects / preference changes / lookups before and after
   StartStateSync, started from a ready or a not-ready VM, finish at ANY block accepted since the
   target.  [plain_ops ops]: no BuildBlock and no earlier FinishStateSync call in the history (a
   verified built block that is re-verified vacuously during sync is outside the proof; a second
   FinishStateSync is only possible after a failed one, i.e. after the known finding).
   AcceptedBlockWindowCache >= 1. *)
From Coq Require Import List NArith Bool.
Import ListNotations.
From HV Require Import Model.Snow Proofs.Snow_proofs Proofs.Handover_proofs.
Local Open Scope N_scope.

(* FinishStateSync succeeds; the chain callbacks it makes are exactly the execution of the accepted
   chain from the target to the engine's last accepted block, followed by re-verifications only (no
   further AcceptBlock); afterwards the VM is ready, its last accepted block is the engine's, with
   output and accepted state populated, it is the last processed block, and
   GetLastAccepted/LastAccepted answer with it. *)
Theorem C21_last_accepted_partial : forall c Q ops t st es tr,
  1 <= c_W c -> plain_ops ops = true ->
  erun c Q (init_state c) (init_estate c) ops = Some (st, es, tr) ->
  eguard Q es (OFinishSync t) = true ->
  exists st' evs2,
    step c st (OFinishSync t) = (st', RUnit, exec_chain t (after t (e_sync es)) ++ evs2) /\
    accepts evs2 = [] /\ naccepted evs2 = [] /\
    s_ready st' = true /\
    obj_of st' (s_last st') = mkO (e_last es) true true /\
    s_lastproc st' = Some (s_last st') /\
    step c st' OGetLastProcessed = (st', RId (e_last es), []) /\
    step c st' OLastAccepted = (st', RId (e_last es), []).
Proof.
  intros c Q ops t st es tr HW Hpl HR HG.
  destruct (handover_finish c Q ops t st es tr HW Hpl HR HG) as (st' & u & evs2 & A & B & C & F).
  destruct (finished_reads c es st' u F) as (R1 & R2 & _).
  exists st', evs2. repeat split; try assumption.
  - exact (f_ready _ _ _ F).
  - pose proof (f_last_id _ _ _ F). pose proof (f_last_ver _ _ _ F). pose proof (f_last_acc _ _ _ F).
    destruct (obj_of st' (s_last st')); cbn in *; congruence.
  - exact (f_lastproc _ _ _ F).
Qed.
Print Assumptions C21_last_accepted_partial.

(* Every still-processing block stays in verifiedBlocks on the object the engine verified, and
   after the hand-over that object is verified (has an output) iff the block is good; the set
   registered with the health check is exactly the processing blocks that are not good. *)
Theorem C21_reverify_partial : forall c Q ops t st es tr,
  1 <= c_W c -> plain_ops ops = true ->
  erun c Q (init_state c) (init_estate c) ops = Some (st, es, tr) ->
  eguard Q es (OFinishSync t) = true ->
  exists u, let st' := fst (fst (step c st (OFinishSync t))) in
    s_unres st' = Some u /\
    (forall b, In b u <-> hasK b (e_proc es) = true /\ ~ good es b) /\
    (forall b h, lookup b (e_proc es) = Some h ->
       get_block st' b = Some (BH h) /\ o_id (obj_of st' h) = b /\
       (o_verified (obj_of st' h) = true <-> good es b)).
Proof.
  intros c Q ops t st es tr HW Hpl HR HG.
  destruct (handover_finish c Q ops t st es tr HW Hpl HR HG) as (st' & u & evs2 & A & B & C & F).
  exists u. rewrite A. cbn [fst]. split; [exact (f_unres _ _ _ F)|]. split; [exact (f_u _ _ _ F)|].
  intros b h Hb. destruct (f_procobj _ _ _ F _ _ Hb) as (X & _ & Y).
  split; [|split; assumption]. unfold get_block. rewrite (f_proc _ _ _ F), Hb. reflexivity.
Qed.
Print Assumptions C21_reverify_partial.

(* Health: right after the hand-over the check reports (ready, |u|, healthy iff u = []) where u is
   the unresolved set of C21_reverify_partial; rejecting unresolved blocks (any of them, in any
   order) removes exactly those from the set, and once all are rejected the check is healthy;
   Accept of an unresolved block is refused (errParentFailedVerification) and changes nothing.
   PARTIAL: the reject/accept clauses are proved for reject sequences directly after the hand-over,
   not yet for arbitrary interleavings with other normal-operation calls (needs the C20 invariant
   extended with unresolved blocks). *)
Theorem C21_health_partial : forall c Q ops t st es tr,
  1 <= c_W c -> plain_ops ops = true ->
  erun c Q (init_state c) (init_estate c) ops = Some (st, es, tr) ->
  eguard Q es (OFinishSync t) = true ->
  exists u, let st' := fst (fst (step c st (OFinishSync t))) in
    (forall b, In b u <-> hasK b (e_proc es) = true /\ ~ good es b) /\
    step c st' OHealth = (st', RHealth true (Some (lenN u)) (match u with [] => true | _ => false end), []) /\
    (forall hs, (forall h, In h hs -> exists b, In b u /\ lookup b (e_proc es) = Some h) ->
       s_unres (after_rejects c st' hs) =
         Some (filter (fun x => negb (memN x (map (fun h => o_id (obj_of st' h)) hs))) u) /\
       s_ready (after_rejects c st' hs) = true /\
       ((forall b, In b u -> exists h, In h hs /\ lookup b (e_proc es) = Some h) ->
        step c (after_rejects c st' hs) OHealth = (after_rejects c st' hs, RHealth true (Some 0) true, []))) /\
    (forall b h, In b u -> lookup b (e_proc es) = Some h -> step c st' (OAccept h) = (st', RErr eParentFailed, [])).
Proof.
  intros c Q ops t st es tr HW Hpl HR HG.
  destruct (handover_finish c Q ops t st es tr HW Hpl HR HG) as (st' & u & evs2 & A & B & C & F).
  exists u. rewrite A. cbn [fst]. split; [exact (f_u _ _ _ F)|]. exact (handover_health c es st' u F).
Qed.
Print Assumptions C21_health_partial.

(* REPAIRED DEFECT (fix commit 8942b5f in /repo, former known finding
   finish-fails-not-found-while-a-processing-block-has-a-rejected-parent): FinishStateSync used to
   return `not found` and leave the VM not ready when it ran between the engine's Reject of a block
   and the Reject of that block's still-processing child (history [kf_ops] of Handover_proofs.v).
   verifyProcessingBlocks now marks such a block unresolved. *)

(* ---- non-vacuity ---- *)
Example C21_engine_ok_example :
  engine_ok (mkCfg 2 2 false) 1
    [OStartSync 0; OParseNew 0 false; OVerify 2; OParseNew 0 true; OVerify 3; OParseNew 2 false; OVerify 4;
     OAccept 2; OFinishSync 0; OHealth; OReject 3; OReject 4; OHealth] = true.
Proof. vm_compute. reflexivity. Qed.

(* the hypotheses of the _partial theorems hold for a history with a valid accepted block, an
   invalid processing sibling and its processing child (both unresolved), finish behind the tip *)
Definition ex_ops : list op :=
  [OStartSync 0; OParseNew 0 false; OVerify 2; OParseNew 0 true; OVerify 3; OParseNew 2 false; OVerify 4;
   OParseNew 1 false; OVerify 5; OAccept 2].
Example C21_partial_nonvacuous :
  plain_ops ex_ops = true /\
  match erun (mkCfg 2 2 false) 1 (init_state (mkCfg 2 2 false)) (init_estate (mkCfg 2 2 false)) ex_ops with
  | Some (st, es, _) =>
      eguard 1 es (OFinishSync 0) = true /\
      snd (fst (step (mkCfg 2 2 false) st (OFinishSync 0))) = RUnit /\
      s_unres (fst (fst (step (mkCfg 2 2 false) st (OFinishSync 0)))) = Some [2; 3]
  | None => False
  end.
Proof. vm_compute. repeat split. Qed.
(* the same from a ready VM that accepted a block in normal operation before the sync started *)
Example C21_partial_nonvacuous_ready :
  let c := mkCfg 2 2 true in
  let ops := [OParseNew 0 false; OVerify 1; OAccept 1; OProcess; OStartSync 1; OParseNew 1 false; OVerify 3; OAccept 3;
              OParseNew 2 true; OVerify 4] in
  plain_ops ops = true /\
  match erun c 1 (init_state c) (init_estate c) ops with
  | Some (st, es, _) => eguard 1 es (OFinishSync 1) = true /\
                        snd (fst (step c st (OFinishSync 1))) = RUnit
  | None => False
  end.
Proof. vm_compute. repeat split. Qed.

(* the history of the repaired defect: accept block 1, reject its sibling 2, FinishStateSync while
   2's child 3 is still processing: the hand-over succeeds and 3 is unresolved *)
Example C21_orphan_repaired :
  plain_ops kf_ops = true /\
  match erun kf_cfg 1 (init_state kf_cfg) (init_estate kf_cfg) kf_ops with
  | Some (st, es, _) =>
      eguard 1 es (OFinishSync 0) = true /\ orphan_free es = false /\
      snd (fst (step kf_cfg st (OFinishSync 0))) = RUnit /\
      s_unres (fst (fst (step kf_cfg st (OFinishSync 0)))) = Some [3] /\
      s_ready (fst (fst (step kf_cfg st (OFinishSync 0)))) = true
  | None => False
  end.
Proof. vm_compute. repeat split. Qed.
