(* C21 — dynamic state sync hands over to normal operation consistently (theorems below). *)
From Coq Require Import List NArith Bool.
Import ListNotations.
From HV Require Import Model.Snow.
Local Open Scope N_scope.

Example C21_engine_ok_example :
  engine_ok (mkCfg 2 2 false) 1
    [OStartSync 0; OParseNew 0 false; OVerify 2; OParseNew 0 true; OVerify 3; OParseNew 2 false; OVerify 4;
     OAccept 2; OFinishSync 0; OHealth; OReject 3; OReject 4; OHealth] = true.
Proof. vm_compute. reflexivity. Qed.
