(* C11 — verified blocks extend their parent correctly.

   Model: Model/Chain.v [execute_block] (chain/processor.go: Processor.Execute with createBlockContext,
   verifyParentRoot, writeBlockContext), tied to the Go code by Check/C11_check.v (= Chain_check.check_case).
   Histories: Model/ChainHistory.v ([next_parent], [run_chain]).  Proofs: Proofs/Header_proofs.v.

   In the model (as in the code) the parent's height and timestamp are the values stored in the parent
   STATE ([p_height], [p_ts]); "not more than the future bound ahead of local time" is the driver-set flag
   [b_too_late]; "recorded state root = parent's post-state root" is the flag [b_root_ok] (the driver crafts
   blocks with a right / wrong root; merkledb itself is in the trusted base); [b_fail_key] is the harness'
   fault injection (a failing database read), excluded where stated.

   STATUS.  Full for every parent whose state timestamp is its header timestamp — every block produced by
   Processor.Execute (C11_state_ts_is_header_ts), hence every chain not starting at genesis
   (C11_monotone_partial, C11_child_of_executed_block_partial).  REFUTED for the genesis block: its header
   carries 2023-01-01 while its state records timestamp 0, and children are compared with the state value
   (C11_genesis_refuted; known finding "child-of-genesis-checked-against-state-timestamp-0").

   Full intended statement (not provable, see C11_genesis_refuted):
     forall chain g :: b1 :: ... :: bn of verified blocks starting at the genesis block g,
       ts(g) + gap <= ts(b1) and ts(b_i) + gap <= ts(b_{i+1}), heights increase by one. *)
From stdpp Require Import gmap.
From Coq Require Import NArith ZArith Lia.
From HV Require Import Lib.Bytes Lib.U64 Model.Keys Model.Tstate Model.Fees Model.Chain Model.Genesis
                       Model.ChainHistory Proofs.Header_proofs.
From HV Require Check.Chain_check Check.C11_check.
Local Open Scope N_scope.

(* "A block verifies ONLY IF ...": every accepted block (fault injection or not) has parent-state height + 1,
   is at least the minimum gap (the empty-block gap without transactions) after the parent-state timestamp,
   is not beyond the future bound, records the parent's root; and the state it leaves records its own height
   and timestamp. *)
Theorem C11_verified_extends_parent : forall r mk p b o,
  execute_block r mk p b = inl o ->
  b_too_late b = false
  /\ (exists ph, p_height p = Some ph /\ b_height b = ph + 1)
  /\ (Z.of_N (p_ts p) + r_min_gap r <= b_ts b)%Z
  /\ (b_txs b = [] -> (Z.of_N (p_ts p) + r_min_empty_gap r <= b_ts b)%Z)
  /\ b_root_ok b = true
  /\ o_height o = b_height b /\ o_ts o = Z.to_N (b_ts b mod Z.of_N W64)%Z.
Proof.
  intros r mk p b o H. destruct (accepted_header_ok r mk p b o H) as ([(H1 & H2 & H3 & H4) H5] & _ & H6 & H7).
  repeat split; assumption.
Qed.
Print Assumptions C11_verified_extends_parent.

(* Classification: each failing condition gives its own error class, in the order of the code, whatever
   the rest of the block contains (no injected read fault). *)
Theorem C11_header_classification : forall r mk p b, b_fail_key b = None ->
  (b_too_late b = true -> execute_block r mk p b = inr (clsTooLate, 0))
  /\ (b_too_late b = false -> p_height p = None -> execute_block r mk p b = inr (clsFetchHeight, 0))
  /\ (forall ph, b_too_late b = false -> p_height p = Some ph ->
      (b_height b <> ph + 1 -> execute_block r mk p b = inr (clsBadHeight, 0))
      /\ (b_height b = ph + 1 ->
          ((b_ts b < Z.of_N (p_ts p) + r_min_gap r)%Z -> execute_block r mk p b = inr (clsTooEarly, 0))
          /\ ((Z.of_N (p_ts p) + r_min_gap r <= b_ts b)%Z -> b_txs b = [] ->
              (b_ts b < Z.of_N (p_ts p) + r_min_empty_gap r)%Z ->
              execute_block r mk p b = inr (clsTooEarlyEmpty, 0))))
  /\ (pre_header_ok r p b -> body_runs r p b -> b_root_ok b = false ->
      execute_block r mk p b = inr (clsRootMismatch, 0))
  /\ (forall sub, execute_block r mk p b = inr (clsRootMismatch, sub) -> b_root_ok b = false).
Proof.
  intros r mk p b Hnf.
  split. { intros H. apply pre_class_Some; [exact Hnf|]. unfold pre_class. rewrite H. reflexivity. }
  split. { intros H1 H2. apply pre_class_Some; [exact Hnf|]. unfold pre_class. rewrite H1, H2. reflexivity. }
  split.
  { intros ph H1 H2. split.
    - intros Hh. apply pre_class_Some; [exact Hnf|]. unfold pre_class. rewrite H1, H2.
      destruct (N.eqb_spec (b_height b) (ph + 1)); [contradiction | reflexivity].
    - intros Hh. split.
      + intros Ht. apply pre_class_Some; [exact Hnf|]. unfold pre_class. rewrite H1, H2.
        destruct (N.eqb_spec (b_height b) (ph + 1)); [|contradiction]. cbn [negb].
        destruct (Z.ltb_spec (b_ts b) (Z.of_N (p_ts p) + r_min_gap r)); [reflexivity | lia].
      + intros Ht Hnil Hte. apply pre_class_Some; [exact Hnf|]. unfold pre_class. rewrite H1, H2, Hnil.
        destruct (N.eqb_spec (b_height b) (ph + 1)); [|contradiction]. cbn [negb andb].
        destruct (Z.ltb_spec (b_ts b) (Z.of_N (p_ts p) + r_min_gap r)); [lia|].
        destruct (Z.ltb_spec (b_ts b) (Z.of_N (p_ts p) + r_min_empty_gap r)); [reflexivity | lia]. }
  split; [apply root_mismatch_class, Hnf | intros sub; apply root_mismatch_only_if].
Qed.
Print Assumptions C11_header_classification.

(* The pre-execution conditions hold IFF the outcome is none of the five pre-execution header classes ... *)
Theorem C11_pre_header_iff : forall r mk p b, b_fail_key b = None ->
  (b_too_late b = false
   /\ (exists ph, p_height p = Some ph /\ b_height b = ph + 1)
   /\ (Z.of_N (p_ts p) + r_min_gap r <= b_ts b)%Z
   /\ (b_txs b = [] -> (Z.of_N (p_ts p) + r_min_empty_gap r <= b_ts b)%Z))
  <-> ~ class_in [clsTooLate; clsFetchHeight; clsBadHeight; clsTooEarly; clsTooEarlyEmpty] (execute_block r mk p b).
Proof. exact pre_header_iff. Qed.
Print Assumptions C11_pre_header_iff.

(* ... and, for a block whose transactions execute (the root is compared after execution), ALL the header
   conditions hold IFF the outcome is none of the six header classes. *)
Theorem C11_header_iff : forall r mk p b, b_fail_key b = None -> body_runs r p b ->
  ((b_too_late b = false
    /\ (exists ph, p_height p = Some ph /\ b_height b = ph + 1)
    /\ (Z.of_N (p_ts p) + r_min_gap r <= b_ts b)%Z
    /\ (b_txs b = [] -> (Z.of_N (p_ts p) + r_min_empty_gap r <= b_ts b)%Z))
   /\ b_root_ok b = true)
  <-> ~ class_in [clsTooLate; clsFetchHeight; clsBadHeight; clsTooEarly; clsTooEarlyEmpty; clsRootMismatch]
                 (execute_block r mk p b).
Proof. exact header_iff. Qed.
Print Assumptions C11_header_iff.

(* writeBlockContext: the state left by a verified block records the block's own header height and
   timestamp (timestamps are int64 in the code, so below 2^64; non-negative gap = rules' MinBlockGap). *)
Theorem C11_state_ts_is_header_ts : forall r mk p b o,
  execute_block r mk p b = inl o -> (0 <= r_min_gap r)%Z -> (b_ts b < Z.of_N W64)%Z ->
  p_height (next_parent p o) = Some (b_height b) /\ Z.of_N (p_ts (next_parent p o)) = b_ts b.
Proof. exact next_parent_meta. Qed.
Print Assumptions C11_state_ts_is_header_ts.

(* The property in terms of the parent BLOCK, for every parent block that was itself executed by the
   processor (i.e. every block except genesis, which is created by NewGenesisCommit): its verified children
   have its height + 1, are at least the gap after ITS HEADER timestamp, are not too late and record the
   right root.  The guard excludes exactly the known finding. *)
Theorem C11_child_of_executed_block_partial : forall r mk p a oa b ob,
  (0 <= r_min_gap r)%Z -> (b_ts a < Z.of_N W64)%Z ->
  execute_block r mk p a = inl oa ->
  execute_block r mk (next_parent p oa) b = inl ob ->
  b_height b = b_height a + 1
  /\ (b_ts a + r_min_gap r <= b_ts b)%Z
  /\ (b_txs b = [] -> (b_ts a + r_min_empty_gap r <= b_ts b)%Z)
  /\ b_too_late b = false /\ b_root_ok b = true.
Proof.
  intros r mk p a oa b ob Hgap Hta Ha Hb.
  destruct (next_parent_meta r mk p a oa Ha Hgap Hta) as [Mh Mt].
  destruct (execute_block_inv _ _ _ _ _ Hb) as (H1 & (ph & Hph & Hh) & H3 & H4 & H5 & _).
  rewrite Mh in Hph. inversion Hph; subst ph. rewrite Mt in H3, H4. auto.
Qed.
Print Assumptions C11_child_of_executed_block_partial.

(* Along any chain of verified blocks a :: bs executed from ANY state p (the first block a is compared with
   p's state values: C11_verified_extends_parent), every later block extends its predecessor's HEADER:
   heights increase by exactly one and timestamps are at least the gaps apart; in particular timestamps
   never decrease and heights strictly increase along the chain. *)
Theorem C11_monotone_partial : forall r mk p a oa bs res,
  (0 <= r_min_gap r)%Z -> Forall (fun b => (b_ts b < Z.of_N W64)%Z) (a :: bs) ->
  execute_block r mk p a = inl oa ->
  run_chain r mk (next_parent p oa) bs = Some res ->
  linked r a bs
  /\ Forall (fun b => (b_ts a <= b_ts b)%Z /\ b_height a < b_height b) bs.
Proof.
  intros r mk p a oa bs res Hgap Hts Ha Hrun.
  pose proof (chain_linked r mk Hgap bs p a oa res Hts Ha Hrun) as Hl.
  split; [exact Hl | apply (linked_sorted r a bs Hgap Hl)].
Qed.
Print Assumptions C11_monotone_partial.

(* ---------------------------------------------------------------- the genesis block: refuted *)

(* chain/genesis.go: NewGenesisCommit gives the genesis block the timestamp 2023-01-01T00:00:00Z (ms) *)
Definition genesis_header_ts : Z := 1672531200000.

Definition ex_rules : rules :=
  mkRules 100 750 [1; 1; 1; 1; 1] [48; 48; 48; 48; 48] [1000; 1000; 1000; 1000; 1000]
          [1000000; 1000000; 1000000; 1000000; 1000000] 60000 16 1 5 2 20 5 10 3.
Definition ex_mk : meta_keys := mkMeta [0; 0; 1] [1; 0; 1] [2; 0; 8].
Definition keyA : key := [0; 65; 0; 1].
Definition keyB : key := [0; 66; 0; 1].

(* A child of the genesis state of Model/Genesis.v with timestamp 1000 ms (1970) is verified although the
   genesis header timestamp is 2023-01-01: the parent timestamp is read from the genesis STATE, which records 0. *)
Theorem C11_genesis_refuted : exists r mk min_price allocs m p b o,
  genesis_state mk min_price allocs = Some m
  /\ parent_of_state mk (omap id m) = Some p
  /\ p_height p = Some 0 /\ p_ts p = 0
  /\ execute_block r mk p b = inl o
  /\ b_height b = 1 /\ (b_ts b < genesis_header_ts)%Z.
Proof.
  exists ex_rules, ex_mk, [1; 1; 1; 1; 1], [(keyA, 1000)].
  eexists. eexists. exists (mkBlock 1000 1 true false false None []). eexists.
  split; [vm_compute; reflexivity|]. split; [vm_compute; reflexivity|].
  split; [reflexivity|]. split; [reflexivity|]. split; [vm_compute; reflexivity|].
  split; [reflexivity | reflexivity].
Qed.
Print Assumptions C11_genesis_refuted.

(* The same witness as a case of the correspondence check: the model (hence, by the check, the Go code)
   accepts, while the property evaluated with the parent block's HEADER timestamp (C11_check.header_ok) fails. *)
Definition ex_genesis_case : Chain_check.case :=
  Chain_check.mkCase [(keyA, be64 1000)] 0 0 (Z.to_N genesis_header_ts) (mkFee 0 [1; 1; 1; 1; 1] [] []) false
                   ex_rules 1000 1 true false false None [] [keyA] [[0; 0; 1]; [1; 0; 1]; [2; 0; 8]] [].

Theorem C11_genesis_refuted_checker :
  Chain_check.c_parent_h ex_genesis_case = 0 /\ Chain_check.c_parent_ts ex_genesis_case = 0
  /\ Z.of_N (Chain_check.c_parent_block_ts ex_genesis_case) = genesis_header_ts
  /\ (exists o, Chain_check.model_out ex_genesis_case = inl o)
  /\ C11_check.header_ok ex_genesis_case = false.
Proof.
  split; [reflexivity|]. split; [reflexivity|]. split; [reflexivity|].
  split; [eexists; vm_compute; reflexivity | vm_compute; reflexivity].
Qed.
Print Assumptions C11_genesis_refuted_checker.

(* ---------------------------------------------------------------- non-vacuity *)

Definition ex_parent : parent_state :=
  mkParent {[ keyA := be64 100000 ]} (Some 5) 500 (mkFee 0 [1; 1; 1; 1; 1] [] []).

Definition ex_tx : tx :=
  mkTx 2000 true 1000 keyA true 1 (-1) (-1) 100 true
       [mkAction 1 [(keyA, 5); (keyB, 7)] [OTransfer keyA keyB 5 true] (-1) (-1)].

Definition ex_b1 : block := mkBlock 1000 6 true false false None [ex_tx].
Definition ex_b2 : block := mkBlock 1100 7 true false false None [ex_tx].
Definition ex_b3 : block := mkBlock 1850 8 true false false None [].

(* an accepted block with a transaction (hypothesis of C11_verified_extends_parent / C11_state_ts_is_header_ts) *)
Example C11_accept_nonvacuous : exists o, execute_block ex_rules ex_mk ex_parent ex_b1 = inl o
  /\ (0 <= r_min_gap ex_rules)%Z /\ (b_ts ex_b1 < Z.of_N W64)%Z.
Proof. eexists. split; [vm_compute; reflexivity|]. split; [cbn; lia | reflexivity]. Qed.

(* a three-block chain (hypotheses of C11_monotone_partial and C11_child_of_executed_block_partial) *)
Example C11_chain_nonvacuous : exists oa res,
  execute_block ex_rules ex_mk ex_parent ex_b1 = inl oa
  /\ run_chain ex_rules ex_mk (next_parent ex_parent oa) [ex_b2; ex_b3] = Some res.
Proof. eexists. eexists. split; [vm_compute; reflexivity|]. vm_compute. reflexivity. Qed.

(* body_runs and the absence of faults (hypotheses of C11_header_iff): a block with a good header and one
   with a wrong root, both executing their transaction *)
Example C11_header_iff_nonvacuous :
  b_fail_key ex_b1 = None /\ body_runs ex_rules ex_parent ex_b1
  /\ body_runs ex_rules ex_parent (mkBlock 1000 6 false false false None [ex_tx])
  /\ execute_block ex_rules ex_mk ex_parent (mkBlock 1000 6 false false false None [ex_tx]) = inr (clsRootMismatch, 0).
Proof.
  split; [reflexivity|].
  split. { split; [reflexivity|]. do 4 eexists. split; [vm_compute; reflexivity|]. vm_compute. reflexivity. }
  split. { split; [reflexivity|]. do 4 eexists. split; [vm_compute; reflexivity|]. vm_compute. reflexivity. }
  vm_compute. reflexivity.
Qed.

(* every class of C11_header_classification is reachable *)
Example C11_classes_nonvacuous :
  execute_block ex_rules ex_mk ex_parent (mkBlock 1000 6 true true false None [ex_tx]) = inr (clsTooLate, 0)
  /\ execute_block ex_rules ex_mk (mkParent ∅ None 500 zero_mgr) ex_b1 = inr (clsFetchHeight, 0)
  /\ execute_block ex_rules ex_mk ex_parent (mkBlock 1000 7 true false false None [ex_tx]) = inr (clsBadHeight, 0)
  /\ execute_block ex_rules ex_mk ex_parent (mkBlock 599 6 true false false None [ex_tx]) = inr (clsTooEarly, 0)
  /\ execute_block ex_rules ex_mk ex_parent (mkBlock 1249 6 true false false None []) = inr (clsTooEarlyEmpty, 0).
Proof. vm_compute. auto. Qed.
