(* C19 — the block index keeps a complete, bounded window of accepted blocks.
   Property theorems only; model in Model/ChainIndex.v, proofs in Proofs/ChainIndex_proofs.v.

   Histories: any list of OAccept b (UpdateLastAccepted), OSave b (SaveHistorical) and
   ORestart W F (New with window W, compaction frequency F on the same database), from
   [init W0] (New on an empty database).  Windows are arbitrary, W = 0 means "never prune". *)
From Coq Require Import List NArith Bool Lia.
Import ListNotations.
From HV Require Import Lib.AssocN Model.ChainIndex Proofs.ChainIndex_proofs.
Local Open Scope N_scope.

(* Recording an accepted block never fails, in ANY database state (whatever is missing below),
   and afterwards the block is the last accepted one and is stored under its height. *)
Theorem C19_accept_total : forall (s : st) (b : block),
  snd (accept s b) = E_ok /\
  get_last (fst (accept s b)) = Some (bh b) /\
  get_block_by_height (fst (accept s b)) (bh b) = Some b.
Proof. intros s b. split; [apply accept_ok | split; [apply accept_last | apply accept_stored_new]]. Qed.
Print Assumptions C19_accept_total.

(* A block written at any point of any single-chain history (by accept or historical save) that
   has been inside the window at every later accept / restart — or is genesis, or pruning is
   off — is retrievable through all four getters.  [survives] spells "inside the window ever
   since": at each later accept of height L (window W): h = 0 or W = 0 or L < h + W; at each
   later successful restart with window W': the same with the last accepted height.
   (Enlarging the window at a restart cannot bring pruned blocks back, hence "ever since".) *)
Theorem C19_window : forall (W0 : N) (pre : list op) (wr : op) (post : list op) (b : block),
  writes wr b ->
  chain_wf (blocks_of (pre ++ wr :: post)) ->
  (let s1 := run (init W0) (pre ++ [wr]) in survives (s_W s1) (get_last s1) post (bh b)) ->
  retrievable (run (init W0) (pre ++ wr :: post)) b.
Proof. exact window_general. Qed.
Print Assumptions C19_window.

(* The property text literally: one window W for the whole history, accepted heights never
   decrease (consecutive, gaps, repeats), historical saves anywhere, restarts anywhere: genesis
   and every height in (last - W, last] that was ever written is retrievable by height and id. *)
Theorem C19_window_monotone : forall (W : N) (ops : list op) (b : block),
  chain_wf (blocks_of ops) -> same_window W ops -> mono None ops ->
  In b (blocks_of ops) ->
  (bh b = 0 \/ W = 0 \/ last0 (get_last (run (init W) ops)) < bh b + W) ->
  retrievable (run (init W) ops) b.
Proof. exact window_monotone. Qed.
Print Assumptions C19_window_monotone.

(* id->height, height->id and height->block agree on every retained entry, after any
   single-chain history (any windows, any restarts, gaps, historical saves). *)
Theorem C19_consistent : forall (W0 : N) (ops : list op),
  chain_wf (blocks_of ops) ->
  let s := run (init W0) ops in
  (forall h i, get_id_at_height s h = Some i <-> get_id_height s i = Some h) /\
  (forall h i, get_id_at_height s h = Some i ->
     exists b, get_block_by_height s h = Some b /\ bh b = h /\ bid b = i /\ get_block s i = Some b /\
               In b (blocks_of ops)) /\
  (forall h b, get_block_by_height s h = Some b -> bh b = h /\ get_id_at_height s h = Some (bid b)) /\
  (forall i b, get_block s i = Some b ->
     bid b = i /\ get_id_height s i = Some (bh b) /\ get_block_by_height s (bh b) = Some b).
Proof. exact consistent_reach. Qed.
Print Assumptions C19_consistent.

(* Retention bound.  FULL STATEMENT (property text): after every history, if W > 0 then
   [retained s <= W + 1].  It is FALSE for the code as it is (see the two refutations below), so
   the proved part is: after any upward history (accepts never go down, historical saves never
   above the last accepted height), a restart with window W > 0 followed by any number of
   consecutive accepts retains at most W + 1 non-genesis blocks.  Missing: histories with a
   height gap or a historical save below the window after the last restart. *)
Theorem C19_bound_partial : forall (W0 : N) (pre : list op) (W F : N) (bs : list block),
  W <> 0 -> F <> 0 -> upward None pre ->
  let s1 := run (init W0) (pre ++ [ORestart W F]) in
  consec (get_last s1) bs ->
  (retained (run s1 (map OAccept bs)) <= N.to_nat W + 1)%nat.
Proof. exact bound_after_restart. Qed.
Print Assumptions C19_bound_partial.

(* F-7: historical saves below last - W stay until the next restart. *)
Theorem C19_bound_refuted : exists (W : N) (ops : list op),
  W <> 0 /\ chain_wf (blocks_of ops) /\ mono None ops /\ same_window W ops /\
  (retained (run (init W) ops) > N.to_nat W + 1)%nat.
Proof.
  exists 1, [OAccept (mkB 10 110 0); OSave (mkB 3 103 0); OSave (mkB 4 104 0); OSave (mkB 5 105 0)].
  split; [discriminate|]. split; [apply chain_wfb_spec; vm_compute; reflexivity|].
  split; [cbn; lia|]. split; [intros W' F H; cbn in H; repeat (destruct H as [H|H]; [discriminate|]); destruct H|].
  vm_compute. lia.
Qed.
Print Assumptions C19_bound_refuted.

(* the same without any historical save: blocks left behind by accepts after height gaps *)
Theorem C19_bound_gap_refuted : exists (W : N) (bs : list block),
  W <> 0 /\ chain_wf bs /\ mono None (map OAccept bs) /\
  (retained (run (init W) (map OAccept bs)) > N.to_nat W + 1)%nat.
Proof.
  exists 1, [mkB 3 103 0; mkB 6 106 0; mkB 9 109 0].
  split; [discriminate|]. split; [apply chain_wfb_spec; vm_compute; reflexivity|].
  split; [cbn; lia|]. vm_compute. lia.
Qed.
Print Assumptions C19_bound_gap_refuted.

(* ---------------- non-vacuity ---------------- *)
Definition g0 := mkB 0 100 0.
Definition k (h : N) := mkB h (100 + h) 0.
(* state sync shaped history, window 2: genesis, 1, 2, gap to 9, backfill 8, 10, restart, 11 *)
Definition ex_ops : list op :=
  [OAccept g0; OAccept (k 1); OAccept (k 2); OAccept (k 9); OSave (k 8); OAccept (k 10); ORestart 2 1; OAccept (k 11)].

Example C19_ex_wf : chain_wf (blocks_of ex_ops).
Proof. apply chain_wfb_spec. vm_compute. reflexivity. Qed.
Example C19_ex_mono : mono None ex_ops /\ same_window 2 ex_ops.
Proof.
  split; [cbv [ex_ops mono k g0 bh last0]; lia|]. intros W' F H. cbv [ex_ops In] in H.
  repeat (destruct H as [H|H]; [try discriminate; injection H; auto|]). destruct H.
Qed.
(* hypotheses of C19_window hold for the accept of height 10 (index 5) *)
Example C19_ex_survives :
  let s1 := run (init 2) (firstn 5 ex_ops ++ [OAccept (k 10)]) in survives (s_W s1) (get_last s1) (skipn 6 ex_ops) 10.
Proof. vm_compute. repeat split; right; right; reflexivity. Qed.
(* ... and the conclusion is what one expects: 10, 11 and genesis are served, 8 and 9 are gone *)
Example C19_ex_answers :
  let s := run (init 2) ex_ops in
  get_block_by_height s 10 = Some (k 10) /\ get_block s 111 = Some (k 11) /\ get_block s 100 = Some g0 /\
  get_block_by_height s 9 = None /\ get_block s 108 = None /\ get_last s = Some 11.
Proof. vm_compute. repeat split; reflexivity. Qed.
(* accept after a gap whose prune target was never stored (F-6) *)
Example C19_ex_gap_accept : snd (accept (run (init 2) [OAccept g0]) (k 9)) = E_ok.
Proof. reflexivity. Qed.
(* hypotheses of C19_bound_partial are satisfiable, and the bound W+1 is attained *)
Example C19_ex_bound :
  upward None [OAccept g0; OAccept (k 1); OAccept (k 2); OAccept (k 3)] /\
  consec (Some 3) [k 4; k 5] /\
  retained (run (init 5) ([OAccept g0; OAccept (k 1); OAccept (k 2); OAccept (k 3)] ++ [ORestart 2 1] ++ map OAccept [k 4; k 5])) = 3%nat.
Proof. split; [cbv [upward k g0 bh last0]; lia|]. split; [cbv [consec k bh]; lia|]. vm_compute. reflexivity. Qed.
