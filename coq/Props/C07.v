(* C07 — No transaction is charged more than the maximum fee it signed.

   INTENDED STATEMENT (false on the faithful model — finding F-16, KNOWN-FINDING of known_findings.json):
     forall r mk p b o, execute_block r mk p b = inl o ->
       Forall2 (fun t res => res_fee res <= t_maxfee t) (b_txs b) (o_results o)
     i.e. "included -> charged fee <= Base.MaxFee" (spec_ok of Check/C07_check.v: fees_within).
   chain/transaction.go:PreExecute computes the fee and checks the sponsor's balance, but neither it
   nor Execute, the builder or the pre-executor ever compares the fee with Base.MaxFee; the model
   (Model/Chain.v: pre_execute, execute_tx) follows the code, so the statement is REFUTED below
   (C07_refuted, C07_block_refuted) and, more strongly, the max_fee field is shown to be dead:
   no verdict, result, post-state or fee state depends on it (C07_maxfee_never_read_refuted).
   If a later tree enforces the bound, pre_execute gets the comparison and the intended statement
   replaces the refutation.

   What does hold, and is proved for all inputs:
     - the charged fee is exactly unit prices x units (C07_charged_fee_is_price_times_units_partial),
       so "fee <= max_fee" holds for an included transaction iff prices x units <= max_fee;
     - there is a single gate, pre_execute, whose verdict is a function of (rules, fee manager,
       transaction, units, timestamp, sponsor balance) only; a transaction is included only through
       it and is charged the fee it computed (C07_same_gate_partial);
     - the gate rejects a transaction whose sponsor cannot pay the fee: nobody is ever charged more
       than they own (C07_fee_bounded_by_balance_partial).
   Proofs: Proofs/TxAtomic_proofs.v. *)
From stdpp Require Import gmap.
From Coq Require Import NArith ZArith.
From HV Require Import Lib.Bytes Lib.U64 Model.Keys Model.Tstate Model.Fees Model.TxStatic Model.Chain
                       Proofs.Tstate_proofs Proofs.Fees_proofs Proofs.ChainBridge_proofs Proofs.TxAtomic_proofs.
Local Open Scope N_scope.

(* ---- witnesses ---- *)
Definition ex_sp : key := [115; 0; 1].
Definition ex_k : key := [97; 0; 1].
Definition ex_a : action := mkAction 1 [(ex_k, 7)] [OPut ex_k [5]; OGet ex_k] (-1) (-1).
(* signed max fee = 1 *)
Definition ex_tx : tx := mkTx 1067000 true 1 ex_sp true 1 (-1) (-1) 100 false [ex_a].
Definition ex_sk : gmap key perm := default ∅ (state_keys ex_tx).
Definition ex_parent : gmap key val := {[ex_sp := be64 1000]}.
Definition ex_view : view := tx_view ex_parent ts_new ex_sk.
Definition ex_rules : rules :=
  mkRules 100 750 [1;1;1;1;1] [48;48;48;48;48] [20000000;1000;1000;1000;1000]
          [1800000;2000;2000;2000;2000] 60000 16 1 5 2 20 5 10 3.
Definition ex_fm : manager := mkFee 1058 [1; 2; 1; 3; 1] [] [0;0;0;0;0].
Definition ex_units : dims := default [] (units ex_rules ex_tx ex_sk).
Definition ex_block (txs : list tx) : block := mkBlock 1060318 48 true false false None txs.
Definition ex_meta : meta_keys := mkMeta [0;0;1] [1;0;1] [2;0;8].
Definition ex_pstate : parent_state := mkParent ex_parent (Some 47) 1059318 ex_fm.

(* ---- the finding ---- *)

(* PreExecute accepts, and Execute charges, a fee strictly above the signed maximum fee. *)
Theorem C07_refuted : exists r fm t sk u s ts f s' res,
  state_keys t = Some sk /\ units r t sk = Some u
  /\ pre_execute r fm t u s ts = (0, f)
  /\ execute_tx t u f s = Some (s', res)
  /\ res_success res = true
  /\ t_maxfee t < res_fee res
  /\ get_balance s (t_sponsor_key t) = Some 1000
  /\ get_balance s' (t_sponsor_key t) = Some (1000 - res_fee res).
Proof.
  exists ex_rules, ex_fm, ex_tx, ex_sk, ex_units, ex_view, 1060318%Z, 296.
  assert (E : exists x, execute_tx ex_tx ex_units 296 ex_view = Some x
              /\ res_success (snd x) = true /\ t_maxfee ex_tx < res_fee (snd x)
              /\ get_balance ex_view (t_sponsor_key ex_tx) = Some 1000
              /\ get_balance (fst x) (t_sponsor_key ex_tx) = Some (1000 - res_fee (snd x))).
  { eexists. split; [vm_compute; reflexivity|]. vm_compute. repeat split; reflexivity. }
  destruct E as ([s' res] & X & H). exists s', res.
  split; [vm_compute; reflexivity|]. split; [vm_compute; reflexivity|]. split; [vm_compute; reflexivity|].
  split; [exact X | exact H].
Qed.
Print Assumptions C07_refuted.

(* A block whose only transaction signed max fee 1 is accepted and charges it 243. *)
Theorem C07_block_refuted : exists r mk p b o t res,
  execute_block r mk p b = inl o /\ b_txs b = [t] /\ o_results o = [res]
  /\ t_maxfee t = 1 /\ res_fee res = 243.
Proof.
  exists ex_rules, ex_meta, ex_pstate, (ex_block [ex_tx]).
  assert (E : exists o, execute_block ex_rules ex_meta ex_pstate (ex_block [ex_tx]) = inl o
              /\ map res_fee (o_results o) = [243] /\ length (o_results o) = 1%nat).
  { eexists. split; [vm_compute; reflexivity|]. vm_compute. split; reflexivity. }
  destruct E as (o & X & Hf & Hl). exists o, ex_tx.
  destruct (o_results o) as [|res [|? ?]] eqn:R; try discriminate Hl.
  exists res. cbn [map] in Hf. inversion Hf. repeat split; auto.
Qed.
Print Assumptions C07_block_refuted.

(* The general form of the finding: the verdict on a block, its results (fees included), its
   post-state and fee state are the same whatever max_fee each transaction carries.  In particular
   every accepted block stays accepted, with the same charges, when all signed maxima are set to 0. *)
Theorem C07_maxfee_never_read_refuted : forall r mk p b,
  (forall txs', Forall2 same_but_maxfee (b_txs b) txs' ->
     execute_block r mk p (with_txs b txs') = execute_block r mk p b)
  /\ execute_block r mk p (with_txs b (map (with_maxfee 0) (b_txs b))) = execute_block r mk p b.
Proof.
  intros r mk p b. split.
  - intros txs'. apply execute_block_maxfee.
  - apply (execute_block_remax r mk p b (fun _ => 0)).
Qed.
Print Assumptions C07_maxfee_never_read_refuted.

(* ---- the part of the property that holds ---- *)

(* The fee charged to an included transaction is Fees.fee of the block's fee manager and the
   transaction's units = sum_d price_d * units_d, and the task's outcome is the same for every
   value of the max_fee field.  (Hence: charged fee <= max_fee iff prices x units <= max_fee.) *)
Theorem C07_charged_fee_is_price_times_units_partial : forall r fm parent ts st t sk u st' res,
  run_tx r fm parent ts st t sk u = (st', inl res) ->
  fee fm u = Some (res_fee res) /\ res_fee res = price_x_units (unit_prices fm) u
  /\ forall m, run_tx r fm parent ts st (with_maxfee m t) sk u = (st', inl res).
Proof. exact run_tx_fee_any_maxfee. Qed.
Print Assumptions C07_charged_fee_is_price_times_units_partial.

(* Same at block level: one result per transaction of an accepted block, fee = output prices x units. *)
Theorem C07_block_fee_is_price_times_units_partial : forall r mk p b o, execute_block r mk p b = inl o ->
  Forall2 (fun t res => exists sk, state_keys t = Some sk /\ units r t sk = Some (res_units res)
       /\ fee (o_fee o) (res_units res) = Some (res_fee res)
       /\ res_fee res = price_x_units (o_prices o) (res_units res) /\ res_fee res <= MaxU64)
    (b_txs b) (o_results o).
Proof. exact execute_block_fees. Qed.
Print Assumptions C07_block_fee_is_price_times_units_partial.

(* One gate.  (a) pre_execute accepts (class 0) and hands fee f to Execute exactly when the static
   checks pass (the function the admission path uses too: TxStatic.admit_static is
   pre_execute_static), the fee of the units is computable and equals f, and the sponsor's balance
   is readable and at least f; (b) two call sites whose views show the same sponsor balance get the
   same verdict and fee; (c) a transaction is included by the block executor only if this gate
   accepted it on the transaction's view, and it is charged the fee the gate computed.
   Partial: the model contains the verifier's call site only; the builder's and the pre-executor's
   calls to Transaction.PreExecute are the same Go function, which the driver does not exercise. *)
Theorem C07_same_gate_partial : forall r fm t u ts,
  (forall s f, pre_execute r fm t u s ts = (0, f) <->
     pre_execute_static (static_rules r) (static_tx t) ts = 0
     /\ fee fm u = Some f
     /\ exists b, get_balance s (t_sponsor_key t) = Some b /\ f <= b)
  /\ (forall s1 s2, get_balance s1 (t_sponsor_key t) = get_balance s2 (t_sponsor_key t) ->
        pre_execute r fm t u s1 ts = pre_execute r fm t u s2 ts)
  /\ (forall parent st sk st' res, run_tx r fm parent ts st t sk u = (st', inl res) ->
        pre_execute r fm t u (tx_view parent st sk) ts = (0, res_fee res))
  /\ (forall now, admit_static (static_rules r) (static_tx t) now = pre_execute_static (static_rules r) (static_tx t) now).
Proof.
  intros r fm t u ts. split; [intros s f; apply pre_execute_ok_iff|].
  split; [intros s1 s2; apply pre_execute_same_gate|].
  split; [intros parent st sk st' res; apply run_tx_gate | reflexivity].
Qed.
Print Assumptions C07_same_gate_partial.

(* The bound that IS enforced: the gate rejects a transaction whose sponsor balance is below the
   fee, such a transaction is never included (its task fails, nothing is committed), and every
   included transaction's fee is at most the sponsor's balance before it. *)
Theorem C07_fee_bounded_by_balance_partial : forall r fm parent ts st t sk u,
  (forall f b, fee fm u = Some f -> get_balance (tx_view parent st sk) (t_sponsor_key t) = Some b -> b < f ->
     fst (pre_execute r fm t u (tx_view parent st sk) ts) <> 0
     /\ exists e, run_tx r fm parent ts st t sk u = (st, inr e) /\ e <> 0)
  /\ (forall st' res, run_tx r fm parent ts st t sk u = (st', inl res) ->
        exists b, get_balance (tx_view parent st sk) (t_sponsor_key t) = Some b /\ res_fee res <= b).
Proof.
  intros r fm parent ts st t sk u. split.
  - intros f b Hf Hb Hlt. split; [eapply pre_execute_rejects_poor; eassumption | eapply run_tx_poor; eassumption].
  - intros st' res H. destruct (run_tx_fee _ _ _ _ _ _ _ _ _ _ H) as (_ & _ & _ & _ & Hb). exact Hb.
Qed.
Print Assumptions C07_fee_bounded_by_balance_partial.

(* ---- non-vacuity ---- *)

(* an included transaction (hypothesis of the run_tx theorems), charged 296 = [1;2;1;3;1] x units
   with max_fee = 1; the same outcome with max_fee = 0 and 2^64-1 *)
Example C07_included_example :
  match run_tx ex_rules ex_fm ex_parent 1060318 ts_new ex_tx ex_sk ex_units with
  | (st', inl res) =>
      res_fee res = 296 /\ res_fee res = price_x_units (unit_prices ex_fm) ex_units /\ t_maxfee ex_tx = 1
      /\ run_tx ex_rules ex_fm ex_parent 1060318 ts_new (with_maxfee 0 ex_tx) ex_sk ex_units = (st', inl res)
      /\ run_tx ex_rules ex_fm ex_parent 1060318 ts_new (with_maxfee MaxU64 ex_tx) ex_sk ex_units = (st', inl res)
  | (_, inr _) => False
  end.
Proof. vm_compute. repeat split; reflexivity. Qed.

(* an accepted block (hypothesis of the block theorems) *)
Example C07_block_example :
  match execute_block ex_rules ex_meta ex_pstate (ex_block [ex_tx; with_maxfee 1000 ex_tx]) with
  | inl o => map res_fee (o_results o) = [243; 243] /\ o_prices o = [1; 1; 1; 2; 1]
             /\ map res_units (o_results o) = [ex_units; ex_units]
  | inr _ => False
  end.
Proof. vm_compute. repeat split; reflexivity. Qed.

(* the gate rejects a sponsor that cannot pay: balance 1000, fee 2196 *)
Example C07_poor_example :
  fee ex_fm [2000; 3; 14; 50; 26] = Some 2196
  /\ get_balance ex_view ex_sp = Some 1000
  /\ pre_execute ex_rules ex_fm ex_tx [2000; 3; 14; 50; 26] ex_view 1060318 = (subInsufficient, 2196)
  /\ run_tx ex_rules ex_fm ex_parent 1060318 ts_new ex_tx ex_sk [2000; 3; 14; 50; 26] = (ts_new, inr subInsufficient).
Proof. vm_compute. repeat split; reflexivity. Qed.
