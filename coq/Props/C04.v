(* C04 — The transactional state view behaves like a key-value map with checkpoints.
   Property theorems only; model: Model/Tstate.v (state/tstate/tstate_view.go, tstate.go),
   proofs: Proofs/Tstate_proofs.v.

   vis s k   : the visible value of k (view's pending change, else block diff, else parent state)
   reachable : any state of a view obtained from NewView by any history of
               GetValue / Insert / Remove / Rollback calls (arbitrary TState, scope, storage). *)
From stdpp Require Import gmap.
From Coq Require Import NArith.
From HV Require Import Lib.Bytes Model.Keys Model.Tstate Proofs.Keys_proofs Proofs.Tstate_proofs.
Local Open Scope N_scope.

(* Every permitted read returns the visible value (not-found iff there is none); a fresh view falls
   back to the block's pending changes and then to the parent state.  Together with C04_insert /
   C04_remove (a write makes its value the visible one) this is "read returns the last write". *)
Theorem C04_read_last_write : forall (s : view) (k : key),
  scope_has (v_scope s) k pRead = true ->
  get s k = match vis s k with Some v => inl v | None => inr ENotFound end.
Proof. exact get_vis. Qed.
Print Assumptions C04_read_last_write.

Theorem C04_fresh_view_falls_back : forall ts sc base (k : key),
  vis (new_view ts sc base) k = match ts_changed ts !! k with Some ov => ov | None => base !! k end.
Proof. exact fresh_view_vis. Qed.
Print Assumptions C04_fresh_view_falls_back.

(* A successful Insert makes v visible at k and changes no other key; the op index grows by one
   exactly when the visible value changed; a failing Insert changes nothing at all. *)
Theorem C04_insert : forall (s s' : view) (k : key) (v : val),
  (insert s k v = (s', None) ->
     vis s' k = Some v /\ (forall k', k <> k' -> vis s' k' = vis s k') /\
     op_index s' = if decide (vis s k = Some v) then op_index s else op_index s + 1)
  /\ (forall e, insert s k v = (s', Some e) -> s' = s).
Proof.
  intros s s' k v. split.
  - intros H. destruct (insert_vis _ _ _ _ H) as [H1 H2]. auto using insert_op_index.
  - intros e H. exact (insert_fail _ _ _ _ _ H).
Qed.
Print Assumptions C04_insert.

Theorem C04_remove : forall (s s' : view) (k : key),
  (remove s k = (s', None) ->
     vis s' k = None /\ (forall k', k <> k' -> vis s' k' = vis s k') /\
     op_index s' = if decide (vis s k = None) then op_index s else op_index s + 1)
  /\ (forall e, remove s k = (s', Some e) -> s' = s).
Proof.
  intros s s' k. split.
  - intros H. destruct (remove_vis _ _ _ H) as [H1 H2]. auto using remove_op_index.
  - intros e H. exact (proj1 (remove_fail _ _ _ _ H)).
Qed.
Print Assumptions C04_remove.

(* Rollback: for every history h1 ++ h2 (h2's own restore points at or above the checkpoint taken
   after h1), rolling back to the op index recorded after h1 restores the visible value of EVERY
   key, the pending map and the op index. *)
Theorem C04_rollback : forall ts sc base (h1 h2 : list hop),
  let s1 := fst (run (new_view ts sc base) h1) in
  Forall (above (op_index s1)) h2 ->
  let s2 := rollback (fst (run s1 h2)) (op_index s1) in
  (forall k, vis s2 k = vis s1 k) /\ op_index s2 = op_index s1 /\ pending s2 = pending s1
  /\ ops s2 = ops s1.
Proof.
  intros ts sc base h1 h2 s1 Hab s2.
  destruct (rollback_restores s1 h2 (run_view_ok h1 _ (view_ok_new ts sc base)) Hab)
    as (Hp & _ & Ho & Hi & Hv & _).
  auto.
Qed.
Print Assumptions C04_rollback.

(* Commit publishes exactly the keys whose visible value differs from the underlying state, with
   those values; every other entry of the block diff is left as it was; a later view over the
   committed TState sees exactly what this view saw. *)
Theorem C04_commit_minimal : forall (s : view) (k : key), reachable s ->
  (is_Some (pending s !! k) <-> vis s k <> under s k)
  /\ ts_changed (commit s) !! k =
       (if decide (vis s k = under s k) then ts_changed (v_ts s) !! k else Some (vis s k))
  /\ (forall sc, vis (new_view (commit s) sc (v_base s)) k = vis s k)
  /\ ts_ops (commit s) = ts_ops (v_ts s) + op_index s.
Proof.
  intros s k Hr. pose proof (reachable_ok s Hr) as Hok.
  split; [exact (pending_iff_changed s k Hok)|].
  split; [exact (commit_minimal s k Hok)|].
  split; [intros sc; apply commit_new_view_vis | reflexivity].
Qed.
Print Assumptions C04_commit_minimal.

(* Refinement: on every history the view returns the same results, shows the same visible map and
   the same op index as a plain map [key -> option val] with a stack of snapshots (a_run). *)
Theorem C04_refines_map : forall ts sc base (h : list hop),
  let s := fst (run (new_view ts sc base) h) in
  let a := fst (a_run (a_init ts sc base) h) in
  snd (run (new_view ts sc base) h) = snd (a_run (a_init ts sc base) h)
  /\ (forall k, vis s k = a_cur a k) /\ op_index s = a_index a.
Proof. exact refines_new_run. Qed.
Print Assumptions C04_refines_map.

(* ---- non-vacuity / regression examples (evaluated in the model) *)
Definition ex_k : key := [97; 0; 1].
Definition ex_q : key := [98; 0; 1].
Definition ex_view : view := new_view ts_new (ScopeKeys {[ex_k := 7; ex_q := 7]}) {[ex_k := [7]]}.

(* the history fixed by 340ee66: Remove; Insert; Remove of a key present in the parent *)
Example C04_f1_history :
  vis (fst (run ex_view [HRem ex_k; HIns ex_k [9]; HRem ex_k])) ex_k = None.
Proof. vm_compute. reflexivity. Qed.

(* the rollback theorem's hypothesis is satisfiable with inner rollbacks, and its conclusion is
   not trivial: the view has changed before the rollback *)
Example C04_rollback_example :
  let h1 := [HRem ex_k; HIns ex_q [1]] in
  let h2 := [HIns ex_k [9]; HRem ex_k; HRb 3; HRem ex_q; HIns ex_k [7]] in
  let s1 := fst (run ex_view h1) in
  Forall (above (op_index s1)) h2
  /\ vis (fst (run s1 h2)) ex_q <> vis s1 ex_q
  /\ vis (rollback (fst (run s1 h2)) (op_index s1)) ex_q = vis s1 ex_q.
Proof.
  cbn zeta. split; [|split].
  - repeat constructor. vm_compute. discriminate.
  - vm_compute. discriminate.
  - vm_compute. reflexivity.
Qed.

Example C04_reachable_example : reachable (fst (run ex_view [HRem ex_k])).
Proof. exists ts_new, (ScopeKeys {[ex_k := 7; ex_q := 7]}), {[ex_k := [7]]}, [HRem ex_k]. reflexivity. Qed.

(* delete + re-create with the parent value publishes nothing for that key *)
Example C04_commit_example :
  let t := ts_changed (commit (fst (run ex_view [HRem ex_k; HIns ex_k [7]; HIns ex_q [1]]))) in
  t !! ex_q = Some (Some [1]) /\ t !! ex_k = None /\ size t = 1%nat.
Proof. vm_compute. auto. Qed.
