(* C04 — property theorems (being written). *)
From HV Require Import Model.Keys Model.Tstate.
