(* C15 — one canonical encoding (theorems are added below as they are proved) *)
From Coq Require Import List NArith Bool.
From HV Require Import Lib.Bytes Lib.Canoto Model.TxCodec.
