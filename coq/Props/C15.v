(* C15 — transactions, blocks, batches and execution results have one canonical encoding.

   All theorems are about the decoders / encoders of Model/TxCodec.v (over Lib/Canoto.v, Lib/Varint.v), the
   same definitions Check/C15_check.v runs against chain.UnmarshalTx, BatchedTransactionSerializer.Unmarshal,
   chain.UnmarshalBlock, chain.ParseExecutionResults and chain.UnmarshalResult on every check.
   They hold for EVERY byte string (wf_bytes bs: every element is a byte, < 256) and every parser pair.

   Parsers (chain.Parser) are universally quantified; [canonical_parser parse bytes_of] says
   "parse b = Some a -> bytes_of a = b".  The C15_morpheus_* theorems discharge that hypothesis for the
   MorpheusVM registry (codec.TypeParser over UnmarshalTransfer / linearcodec and the ed25519, secp256r1, BLS
   auth formats; the BLS point check is an arbitrary boolean function), leaving only wf_bytes.

   Not modelled: chain.ExecutedBlock (node-internal storage format, never received from the network). *)
From Coq Require Import List ZArith NArith Bool.
Import ListNotations.
From HV Require Import Lib.Bytes Lib.U64 Lib.Varint Lib.Canoto Model.TxCodec Proofs.TxCodec_proofs.
Local Open Scope N_scope.

(* ---- canonical encoding: whatever is accepted re-encodes to the accepted bytes ------------- *)

Theorem C15_canonical_base : forall bs b,
  wf_bytes bs -> decode_base bs = Ok b -> encode_base b = bs.
Proof. exact decode_base_canon. Qed.
Print Assumptions C15_canonical_base.

Theorem C15_canonical_stx : forall bs s,
  wf_bytes bs -> decode_stx bs = Ok s -> encode_stx s = bs.
Proof. exact decode_stx_canon. Qed.
Print Assumptions C15_canonical_stx.

(* Transaction.UnmarshalCanotoFrom: NewTransaction(Base, Actions, Auth).Bytes() of the parsed parts is the
   input, and the cached bytes (from which the id is computed) are the input *)
Theorem C15_canonical_tx :
  forall (A U : Type) (parse_action : bytes -> option A) (action_bytes : A -> bytes)
         (parse_auth : bytes -> option U) (auth_bytes : U -> bytes),
  canonical_parser parse_action action_bytes -> canonical_parser parse_auth auth_bytes ->
  forall bs t, wf_bytes bs -> decode_tx A U parse_action parse_auth bs = Ok t ->
    encode_tx A U action_bytes auth_bytes (x_base t) (x_actions t) (x_auth t) = bs /\ x_bytes t = bs.
Proof.
  intros A U pa ab pu ub Ha Hu bs t Hwf H. split.
  - exact (decode_tx_canon A U pa ab pu ub Ha Hu bs t Hwf H).
  - exact (decode_tx_bytes A U pa pu bs t H).
Qed.
Print Assumptions C15_canonical_tx.

(* BatchedTransactionSerializer.Unmarshal: Marshal of the accepted transactions (cached bytes) and the batch
   rebuilt from every transaction's parsed parts both equal the input *)
Theorem C15_canonical_batch :
  forall (A U : Type) (parse_action : bytes -> option A) (action_bytes : A -> bytes)
         (parse_auth : bytes -> option U) (auth_bytes : U -> bytes),
  canonical_parser parse_action action_bytes -> canonical_parser parse_auth auth_bytes ->
  forall bs ts, wf_bytes bs -> decode_batch A U parse_action parse_auth bs = Ok ts ->
    encode_batch A U ts = bs /\
    enc_repeated (tag 1 WT_LEN) (map (reenc_tx A U action_bytes auth_bytes) ts) = bs.
Proof.
  intros A U pa ab pu ub Ha Hu bs ts Hwf H.
  destruct (decode_batch_canon A U pa ab pu ub Ha Hu bs ts Hwf H) as (H1 & H2 & _). split; assumption.
Qed.
Print Assumptions C15_canonical_batch.

(* StatelessBlock.UnmarshalCanotoFrom: NewStatelessBlock(parsed header, accepted txs).GetBytes() is the input,
   the cached bytes are the input, and every contained transaction re-encodes from its parts to its own bytes *)
Theorem C15_canonical_block :
  forall (A U : Type) (parse_action : bytes -> option A) (action_bytes : A -> bytes)
         (parse_auth : bytes -> option U) (auth_bytes : U -> bytes),
  canonical_parser parse_action action_bytes -> canonical_parser parse_auth auth_bytes ->
  forall bs k, wf_bytes bs -> decode_block A U parse_action parse_auth bs = Ok k ->
    encode_block A U (k_parent k) (k_ts k) (k_height k) (k_ctx k) (k_txs k) (k_root k) = bs /\
    k_bytes k = bs /\
    map (reenc_tx A U action_bytes auth_bytes) (k_txs k) = map x_bytes (k_txs k).
Proof.
  intros A U pa ab pu ub Ha Hu bs k Hwf H.
  destruct (decode_block_canon A U pa ab pu ub Ha Hu bs k Hwf H) as (H1 & H2 & H3 & _). repeat split; assumption.
Qed.
Print Assumptions C15_canonical_block.

Theorem C15_canonical_result : forall bs r,
  wf_bytes bs -> decode_result bs = Ok r -> encode_result r = bs.
Proof. exact decode_result_canon. Qed.
Print Assumptions C15_canonical_result.

Theorem C15_canonical_results : forall bs e,
  wf_bytes bs -> decode_results bs = Ok e -> encode_results e = bs.
Proof. exact decode_results_canon. Qed.
Print Assumptions C15_canonical_results.

(* ---- the signed message ---------------------------------------------------------------------- *)

(* the unsigned bytes sliced off the tail of an accepted transaction are NewTxData(Base, Actions).UnsignedBytes(),
   i.e. the encoding of the body without the auth field, and the accepted bytes are that ++ the auth field *)
Theorem C15_unsigned_suffix :
  forall (A U : Type) (parse_action : bytes -> option A) (action_bytes : A -> bytes)
         (parse_auth : bytes -> option U) (auth_bytes : U -> bytes),
  canonical_parser parse_action action_bytes -> canonical_parser parse_auth auth_bytes ->
  forall bs t, wf_bytes bs -> decode_tx A U parse_action parse_auth bs = Ok t ->
    x_unsigned t = unsigned_of A action_bytes (x_base t) (x_actions t) /\
    bs = x_unsigned t ++ enc_msg_field (tag 3 WT_LEN) (auth_bytes (x_auth t)).
Proof. exact decode_tx_unsigned. Qed.
Print Assumptions C15_unsigned_suffix.

(* ---- ids -------------------------------------------------------------------------------------- *)

(* The id of a transaction / block is the hash of its cached bytes (utils.ToID(t.bytes); the hash is an
   arbitrary function here).  For an accepted value this is the hash of the input and the hash of the
   re-encoding of the parsed parts. *)
Definition tx_id {A U T} (H : bytes -> T) (t : tx A U) : T := H (x_bytes t).
Definition block_id {A U T} (H : bytes -> T) (k : block A U) : T := H (k_bytes k).

Theorem C15_id_is_hash_of_bytes :
  forall (T : Type) (H : bytes -> T)
         (A U : Type) (parse_action : bytes -> option A) (action_bytes : A -> bytes)
         (parse_auth : bytes -> option U) (auth_bytes : U -> bytes),
  canonical_parser parse_action action_bytes -> canonical_parser parse_auth auth_bytes ->
  (forall bs t, wf_bytes bs -> decode_tx A U parse_action parse_auth bs = Ok t ->
     tx_id H t = H bs /\
     tx_id H t = H (encode_tx A U action_bytes auth_bytes (x_base t) (x_actions t) (x_auth t))) /\
  (forall bs k, wf_bytes bs -> decode_block A U parse_action parse_auth bs = Ok k ->
     block_id H k = H bs /\
     block_id H k = H (encode_block A U (k_parent k) (k_ts k) (k_height k) (k_ctx k) (k_txs k) (k_root k))).
Proof.
  intros T H A U pa ab pu ub Ha Hu. split.
  - intros bs t Hwf Hd. destruct (C15_canonical_tx A U pa ab pu ub Ha Hu bs t Hwf Hd) as [H1 H2].
    unfold tx_id. rewrite H1, H2. split; reflexivity.
  - intros bs k Hwf Hd. destruct (C15_canonical_block A U pa ab pu ub Ha Hu bs k Hwf Hd) as (H1 & H2 & _).
    unfold block_id. rewrite H1, H2. split; reflexivity.
Qed.
Print Assumptions C15_id_is_hash_of_bytes.

(* ---- injectivity ------------------------------------------------------------------------------ *)

(* two accepted encodings with the same parsed parts are the same byte string *)
Theorem C15_injective :
  forall (A U : Type) (parse_action : bytes -> option A) (action_bytes : A -> bytes)
         (parse_auth : bytes -> option U) (auth_bytes : U -> bytes),
  canonical_parser parse_action action_bytes -> canonical_parser parse_auth auth_bytes ->
  forall bs1 bs2 t1 t2, wf_bytes bs1 -> wf_bytes bs2 ->
    decode_tx A U parse_action parse_auth bs1 = Ok t1 -> decode_tx A U parse_action parse_auth bs2 = Ok t2 ->
    x_base t1 = x_base t2 -> x_actions t1 = x_actions t2 -> x_auth t1 = x_auth t2 -> bs1 = bs2.
Proof.
  intros A U pa ab pu ub Ha Hu bs1 bs2 t1 t2 W1 W2 D1 D2 Eb Ea Eu.
  destruct (C15_canonical_tx A U pa ab pu ub Ha Hu bs1 t1 W1 D1) as [H1 _].
  destruct (C15_canonical_tx A U pa ab pu ub Ha Hu bs2 t2 W2 D2) as [H2 _].
  rewrite <- H1, <- H2, Eb, Ea, Eu. reflexivity.
Qed.
Print Assumptions C15_injective.

(* no two distinct accepted encodings share a signed body and a signature (auth bytes) *)
Theorem C15_injective_body_sig :
  forall (A U : Type) (parse_action : bytes -> option A) (action_bytes : A -> bytes)
         (parse_auth : bytes -> option U) (auth_bytes : U -> bytes),
  canonical_parser parse_action action_bytes -> canonical_parser parse_auth auth_bytes ->
  forall bs1 bs2 t1 t2, wf_bytes bs1 -> wf_bytes bs2 ->
    decode_tx A U parse_action parse_auth bs1 = Ok t1 -> decode_tx A U parse_action parse_auth bs2 = Ok t2 ->
    x_unsigned t1 = x_unsigned t2 -> auth_bytes (x_auth t1) = auth_bytes (x_auth t2) -> bs1 = bs2.
Proof.
  intros A U pa ab pu ub Ha Hu bs1 bs2 t1 t2 W1 W2 D1 D2 Eun Eau.
  destruct (decode_tx_unsigned A U pa ab pu ub Ha Hu bs1 t1 W1 D1) as [_ H1].
  destruct (decode_tx_unsigned A U pa ab pu ub Ha Hu bs2 t2 W2 D2) as [_ H2].
  rewrite H1, H2, Eun, Eau. reflexivity.
Qed.
Print Assumptions C15_injective_body_sig.

Theorem C15_injective_block :
  forall (A U : Type) (parse_action : bytes -> option A) (action_bytes : A -> bytes)
         (parse_auth : bytes -> option U) (auth_bytes : U -> bytes),
  canonical_parser parse_action action_bytes -> canonical_parser parse_auth auth_bytes ->
  forall bs1 bs2 k1 k2, wf_bytes bs1 -> wf_bytes bs2 ->
    decode_block A U parse_action parse_auth bs1 = Ok k1 -> decode_block A U parse_action parse_auth bs2 = Ok k2 ->
    k_parent k1 = k_parent k2 -> k_ts k1 = k_ts k2 -> k_height k1 = k_height k2 -> k_ctx k1 = k_ctx k2 ->
    map x_bytes (k_txs k1) = map x_bytes (k_txs k2) -> k_root k1 = k_root k2 -> bs1 = bs2.
Proof.
  intros A U pa ab pu ub Ha Hu bs1 bs2 k1 k2 W1 W2 D1 D2 E1 E2 E3 E4 E5 E6.
  destruct (C15_canonical_block A U pa ab pu ub Ha Hu bs1 k1 W1 D1) as [H1 _].
  destruct (C15_canonical_block A U pa ab pu ub Ha Hu bs2 k2 W2 D2) as [H2 _].
  rewrite <- H1, <- H2. unfold encode_block. rewrite E1, E2, E3, E4, E5, E6. reflexivity.
Qed.
Print Assumptions C15_injective_block.

(* execution results: equal decoded values come from equal byte strings *)
Theorem C15_injective_results : forall bs1 bs2 e,
  wf_bytes bs1 -> wf_bytes bs2 -> decode_results bs1 = Ok e -> decode_results bs2 = Ok e -> bs1 = bs2.
Proof.
  intros bs1 bs2 e W1 W2 D1 D2.
  rewrite <- (decode_results_canon _ _ W1 D1), <- (decode_results_canon _ _ W2 D2). reflexivity.
Qed.
Print Assumptions C15_injective_results.

(* ---- the MorpheusVM parsers are canonical ----------------------------------------------------- *)

(* UnmarshalTransfer behind codec.TypeParser (linearcodec; trailing bytes rejected, fix 0b60f6b) *)
Theorem C15_morpheus_action_parser_canonical : canonical_parser morpheus_action_parser transfer_bytes.
Proof. exact morpheus_action_canon. Qed.
Print Assumptions C15_morpheus_action_parser_canonical.

(* ed25519 / secp256r1 / BLS behind codec.TypeParser: exact length, type id; an auth is its byte string *)
Theorem C15_morpheus_auth_parser_canonical : forall bls_ok : bytes -> bool,
  canonical_parser (morpheus_auth_parser bls_ok) auth_id_bytes.
Proof. exact morpheus_auth_canon. Qed.
Print Assumptions C15_morpheus_auth_parser_canonical.

Definition mdecode_tx (bls_ok : bytes -> bool) := decode_tx transfer bytes morpheus_action_parser (morpheus_auth_parser bls_ok).
Definition mencode_tx := encode_tx transfer bytes transfer_bytes auth_id_bytes.
Definition mdecode_block (bls_ok : bytes -> bool) := decode_block transfer bytes morpheus_action_parser (morpheus_auth_parser bls_ok).
Definition mdecode_batch (bls_ok : bytes -> bool) := decode_batch transfer bytes morpheus_action_parser (morpheus_auth_parser bls_ok).

(* no hypothesis left except wf_bytes *)
Theorem C15_morpheus_canonical_tx : forall bls_ok bs t,
  wf_bytes bs -> mdecode_tx bls_ok bs = Ok t ->
  mencode_tx (x_base t) (x_actions t) (x_auth t) = bs /\ x_bytes t = bs /\
  x_unsigned t = unsigned_of transfer transfer_bytes (x_base t) (x_actions t) /\
  bs = x_unsigned t ++ enc_msg_field (tag 3 WT_LEN) (x_auth t).
Proof.
  intros bls_ok bs t Hwf H.
  destruct (C15_canonical_tx _ _ _ _ _ _ morpheus_action_canon (morpheus_auth_canon bls_ok) bs t Hwf H) as [H1 H2].
  destruct (C15_unsigned_suffix _ _ _ _ _ _ morpheus_action_canon (morpheus_auth_canon bls_ok) bs t Hwf H) as [H3 H4].
  repeat split; assumption.
Qed.
Print Assumptions C15_morpheus_canonical_tx.

Theorem C15_morpheus_canonical_block : forall bls_ok bs k,
  wf_bytes bs -> mdecode_block bls_ok bs = Ok k ->
  encode_block transfer bytes (k_parent k) (k_ts k) (k_height k) (k_ctx k) (k_txs k) (k_root k) = bs /\
  k_bytes k = bs /\
  map (fun t => mencode_tx (x_base t) (x_actions t) (x_auth t)) (k_txs k) = map x_bytes (k_txs k).
Proof.
  intros bls_ok bs k Hwf H.
  exact (C15_canonical_block _ _ _ _ _ _ morpheus_action_canon (morpheus_auth_canon bls_ok) bs k Hwf H).
Qed.
Print Assumptions C15_morpheus_canonical_block.

Theorem C15_morpheus_canonical_batch : forall bls_ok bs ts,
  wf_bytes bs -> mdecode_batch bls_ok bs = Ok ts ->
  encode_batch transfer bytes ts = bs /\
  enc_repeated (tag 1 WT_LEN) (map (fun t => mencode_tx (x_base t) (x_actions t) (x_auth t)) ts) = bs.
Proof.
  intros bls_ok bs ts Hwf H.
  exact (C15_canonical_batch _ _ _ _ _ _ morpheus_action_canon (morpheus_auth_canon bls_ok) bs ts Hwf H).
Qed.
Print Assumptions C15_morpheus_canonical_batch.

(* ---- round trip: every valid structured value is accepted and parsed back ------------------------- *)

(* validity = what the encoder can represent: timestamp in int64 range, 32-byte chain id, fee < 2^64
   (absent fields are the zero values, which the encoder omits) *)
Theorem C15_roundtrip_base : forall b, valid_base b = true -> decode_base (encode_base b) = Ok b.
Proof. exact decode_base_rt. Qed.
Print Assumptions C15_roundtrip_base.

Theorem C15_roundtrip_stx : forall s, valid_stx s = true -> decode_stx (encode_stx s) = Ok s.
Proof. exact decode_stx_rt. Qed.
Print Assumptions C15_roundtrip_stx.

(* five 64-bit units, fee < 2^64, byte strings shorter than 2^64 *)
Theorem C15_roundtrip_result : forall r, valid_result r = true -> decode_result (encode_result r) = Ok r.
Proof. exact decode_result_rt. Qed.
Print Assumptions C15_roundtrip_result.

(* in addition a present (non-nil) result must not be the all-zero Result: canoto writes that as an empty
   entry, which is read back as a nil pointer *)
Theorem C15_roundtrip_results : forall e, valid_results e = true -> decode_results (encode_results e) = Ok e.
Proof. exact decode_results_rt. Qed.
Print Assumptions C15_roundtrip_results.

(* NewTransaction(base, actions, auth).Bytes() is accepted and gives back the parts, the encoding as cached
   bytes and NewTxData(base, actions).UnsignedBytes() as the signed message; [valid_tx_parts]: valid base,
   parsers that read back what Bytes() of each action / the auth writes, components shorter than 2^64 *)
Theorem C15_roundtrip_tx :
  forall (A U : Type) (parse_action : bytes -> option A) (action_bytes : A -> bytes)
         (parse_auth : bytes -> option U) (auth_bytes : U -> bytes) b acts au,
  valid_tx_parts A U parse_action action_bytes parse_auth auth_bytes b acts au ->
  decode_tx A U parse_action parse_auth (encode_tx A U action_bytes auth_bytes b acts au) =
    Ok (mkTxm b acts au (unsigned_of A action_bytes b acts) (encode_tx A U action_bytes auth_bytes b acts au)).
Proof. exact decode_tx_rt. Qed.
Print Assumptions C15_roundtrip_tx.

(* batches / blocks of transactions that carry accepted, non-empty cached bytes *)
Theorem C15_roundtrip_batch :
  forall (A U : Type) (parse_action : bytes -> option A) (parse_auth : bytes -> option U) ts,
  Forall (cached_ok A U parse_action parse_auth) ts ->
  decode_batch A U parse_action parse_auth (encode_batch A U ts) = Ok ts.
Proof. exact decode_batch_rt. Qed.
Print Assumptions C15_roundtrip_batch.

Theorem C15_roundtrip_block :
  forall (A U : Type) (parse_action : bytes -> option A) (parse_auth : bytes -> option U)
         prnt ts h ctx txs root,
  valid_block_parts A U parse_action parse_auth prnt ts h ctx txs root ->
  decode_block A U parse_action parse_auth (encode_block A U prnt ts h ctx txs root) =
    Ok (mkBlock prnt ts h ctx txs root (encode_block A U prnt ts h ctx txs root)).
Proof. exact decode_block_rt. Qed.
Print Assumptions C15_roundtrip_block.

(* MorpheusVM: validity is a boolean predicate on the parts (33-byte address, value < 2^64, memo <= 256;
   auth of one of the three formats) *)
Theorem C15_morpheus_roundtrip_tx : forall bls_ok b acts au,
  valid_base b = true -> forallb valid_transfer acts = true -> valid_auth bls_ok au = true ->
  mdecode_tx bls_ok (mencode_tx b acts au) =
    Ok (mkTxm b acts au (unsigned_of transfer transfer_bytes b acts) (mencode_tx b acts au)).
Proof.
  intros bls_ok b acts au Hb Ha Hu.
  exact (C15_roundtrip_tx _ _ _ _ _ _ b acts au (morpheus_valid_tx_parts bls_ok b acts au Hb Ha Hu)).
Qed.
Print Assumptions C15_morpheus_roundtrip_tx.

(* ---- non-vacuity: concrete accepted encodings -------------------------------------------------- *)

Definition ex_base : base := mkBase 1700000000000%Z (repeat 1 32) 77.
Definition ex_transfer : transfer := mkTransfer (repeat 7 33) 5 [104; 105].
Definition ex_auth : bytes := 0 :: repeat 9 96.                      (* ed25519: type id, key, signature *)
Definition ex_tx_bytes : bytes := mencode_tx ex_base [ex_transfer; ex_transfer] ex_auth.
Definition ex_tx : tx transfer bytes :=
  mkTxm ex_base [ex_transfer; ex_transfer] ex_auth
        (unsigned_of transfer transfer_bytes ex_base [ex_transfer; ex_transfer]) ex_tx_bytes.

Example C15_ex_tx_accepted :
  wf_bytes ex_tx_bytes /\ mdecode_tx (fun _ => true) ex_tx_bytes = Ok ex_tx /\ length ex_tx_bytes = 251%nat.
Proof. split; [apply wf_bytesb_ok; vm_compute; reflexivity | split; vm_compute; reflexivity]. Qed.

(* a trailing byte is rejected *)
Example C15_ex_tx_trailing_rejected : mdecode_tx (fun _ => true) (ex_tx_bytes ++ [0]) = Err E_ORDER.
Proof. vm_compute. reflexivity. Qed.

Definition ex_block_bytes : bytes :=
  encode_block transfer bytes (repeat 3 32) 1700000000123 9 (Some 42) [ex_tx; ex_tx] (repeat 4 32).
Example C15_ex_block_accepted :
  wf_bytes ex_block_bytes /\
  mdecode_block (fun _ => true) ex_block_bytes =
    Ok (mkBlock (repeat 3 32) 1700000000123 9 (Some 42) [ex_tx; ex_tx] (repeat 4 32) ex_block_bytes).
Proof. split; [apply wf_bytesb_ok; vm_compute; reflexivity | vm_compute; reflexivity]. Qed.

Example C15_ex_batch_accepted :
  mdecode_batch (fun _ => true) (encode_batch transfer bytes [ex_tx; ex_tx]) = Ok [ex_tx; ex_tx].
Proof. vm_compute. reflexivity. Qed.

Definition ex_result : result := mkResult true [] [[1; 2]; []] [1; 0; 3; 0; 5] 1000.
Definition ex_results : exec_results := mkER [Some ex_result; None; Some (mkResult false [101] [] dims_zero 0)] [1; 1; 1; 1; 1] dims_zero.
Example C15_ex_results_accepted :
  decode_result (encode_result ex_result) = Ok ex_result /\
  decode_results (encode_results ex_results) = Ok ex_results /\ wf_bytes (encode_results ex_results).
Proof. split; [|split]; [vm_compute; reflexivity .. | apply wf_bytesb_ok; vm_compute; reflexivity]. Qed.

(* validity hypotheses are satisfiable *)
Example C15_ex_valid :
  valid_base ex_base = true /\ forallb valid_transfer [ex_transfer; ex_transfer] = true /\
  valid_auth (fun _ => true) ex_auth = true /\ valid_result ex_result = true /\ valid_results ex_results = true /\
  valid_stx (mkStx ex_base [transfer_bytes ex_transfer] ex_auth) = true.
Proof. repeat split; vm_compute; reflexivity. Qed.

Example C15_ex_cached_ok :
  cached_ok transfer bytes morpheus_action_parser (morpheus_auth_parser (fun _ => true)) ex_tx /\
  valid_block_parts transfer bytes morpheus_action_parser (morpheus_auth_parser (fun _ => true))
    (repeat 3 32) 1700000000123 9 (Some 42) [ex_tx; ex_tx] (repeat 4 32).
Proof.
  assert (Hc : cached_ok transfer bytes morpheus_action_parser (morpheus_auth_parser (fun _ => true)) ex_tx).
  { split; [vm_compute; reflexivity | split; [discriminate | vm_compute; reflexivity]]. }
  split; [exact Hc|]. unfold valid_block_parts.
  split; [reflexivity|]. split; [reflexivity|]. split; [reflexivity|]. split; [reflexivity|].
  split; [|reflexivity]. constructor; [exact Hc|]. constructor; [exact Hc|]. constructor.
Qed.

(* a transaction produced by the Go code (work/C15_*/cases_0.v: chain.NewTransaction(...).Bytes(), one Transfer
   with memo "abc", ed25519 auth): accepted, re-encodes to itself, 103 signed bytes *)
Definition go_tx_bytes : bytes :=
  [10;50;8;192;201;178;254;249;98;18;32;1;2;3;0;0;0;0;0;0;0;0;0;0;0;0;0;0;0;0;0;0;0;0;0;0;0;0;0;0;0;0;0;25;232;3;0;0;0;0;0;0;18;49;0;0;1;0;0;0;0;0;0;0;0;0;0;0;0;0;0;0;0;0;0;0;0;0;0;0;0;0;0;0;0;0;0;0;0;0;0;0;0;0;0;1;0;0;0;3;97;98;99;26;97;0;0;1;2;3;4;5;6;7;8;9;10;11;12;13;14;15;16;17;18;19;20;21;22;23;24;25;26;27;28;29;30;31;7;7;7;7;7;7;7;7;7;7;7;7;7;7;7;7;7;7;7;7;7;7;7;7;7;7;7;7;7;7;7;7;7;7;7;7;7;7;7;7;7;7;7;7;7;7;7;7;7;7;7;7;7;7;7;7;7;7;7;7;7;7;7;7].
Example C15_ex_go_tx_accepted :
  match mdecode_tx (fun _ => true) go_tx_bytes with
  | Ok t => bytes_eqb (mencode_tx (x_base t) (x_actions t) (x_auth t)) go_tx_bytes &&
            (blen (x_unsigned t) =? 103) && (b_ts (x_base t) =? 1700000060000)%Z && (b_fee (x_base t) =? 1000)
  | Err _ => false
  end = true.
Proof. vm_compute. reflexivity. Qed.

(* the same transaction with one extra byte inside the Transfer (corpus case; accepted before fix 0b60f6b):
   a second encoding of the same parsed parts -- rejected *)
Definition go_tx_trailing_in_action : bytes :=
  firstn 53 go_tx_bytes ++ [50] ++ firstn 49 (skipn 54 go_tx_bytes) ++ [0] ++ skipn 103 go_tx_bytes.
Example C15_ex_noncanonical_action_rejected :
  mdecode_tx (fun _ => true) go_tx_trailing_in_action = Err E_ACTION /\
  length go_tx_trailing_in_action = S (length go_tx_bytes).
Proof. split; vm_compute; reflexivity. Qed.
