(* C27 — theorems being added *)
From stdpp Require Import gmap.
From Coq Require Import NArith.
From HV Require Import Lib.U64 Model.Keys Model.Tstate Model.Fees Model.Chain Model.Genesis.
Theorem C27_supply_overflow_rejected : forall s supply k b rest,
  add_chk supply b = None -> init_state s supply ((k, b) :: rest) = None.
Proof. intros s supply k b rest H. cbn [init_state]. rewrite H. reflexivity. Qed.
Print Assumptions C27_supply_overflow_rejected.
