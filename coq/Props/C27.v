(* C27 — genesis state contains exactly the configured allocations and initial metadata.

   Model: Model/Genesis.v [genesis_state] = chain/genesis.go:NewGenesisCommit with
   genesis/genesis.go:DefaultGenesis.InitializeState, run through the state-view model (Model/Tstate.v);
   its result is the committed diff over the EMPTY database, i.e. the whole genesis state
   ([Some (Some v)] = key holds v, [None] = key absent).  Check/C27_check.v compares exactly this map with
   the full dump of the real genesis database.  Proofs: Proofs/Genesis_proofs.v.

   The merkle root is not modelled (merkledb is in the trusted base as "a finite map"); that the root
   recorded in the genesis block equals the root of the committed view is observed on every run by the
   driver ([root_ok] in C27_check.spec_ok).  What is proved here about the root (C27_root, C27_root_order_independent) is that the
   state it is computed from is exactly [genesis_map] and does not depend on the order in which the
   allocations are listed. *)
From stdpp Require Import gmap.
From Coq Require Import NArith ZArith Lia.
From HV Require Import Lib.Bytes Lib.U64 Model.Keys Model.Tstate Model.Fees Model.Chain Model.Genesis
                       Proofs.Genesis_proofs.
From HV Require Check.C27_check.
Local Open Scope N_scope.

(* Exactness.  If NewGenesisCommit succeeds, then for EVERY key k the genesis state holds:
   the encoded fee manager under the fee key, be64 0 under the timestamp and height keys, the 8-byte
   big-endian per-address total (duplicates summed, zero totals written as eight zero bytes) under the
   balance key of every listed address, and nothing under any other key. *)
Theorem C27_exact : forall mk min_price allocs m,
  genesis_state mk min_price allocs = Some m ->
  forall k,
    m !! k =
      if bytes_eqb k (mk_fee mk) then Some (Some (encode (genesis_manager min_price)))
      else if bytes_eqb k (mk_ts mk) then Some (Some (be64 0))
      else if bytes_eqb k (mk_height mk) then Some (Some (be64 0))
      else if mentioned k allocs then Some (Some (be64 (sum_for k allocs)))
      else None.
Proof.
  intros mk mp allocs m H k. etransitivity; [exact (genesis_state_exact mk mp allocs m H k)|]. unfold genesis_spec.
  repeat match goal with |- context [if ?b then _ else _] => destruct b end; reflexivity.
Qed.
Print Assumptions C27_exact.

(* The fee manager written at genesis: timestamp 0, unit prices = the minimum prices, empty windows,
   nothing consumed; and its byte layout (the value C27_check.spec_ok expects under the fee key). *)
Theorem C27_fee_manager : forall min_price,
  m_ts (genesis_manager min_price) = 0
  /\ unit_prices (genesis_manager min_price) = map (dget min_price) idx5
  /\ (forall k, m_window (genesis_manager min_price) k = zero_window)
  /\ units_consumed (genesis_manager min_price) = dzero
  /\ encode (genesis_manager min_price)
     = be64 0 ++ flat_map (fun k => be64 (dget min_price k) ++ repeat 0 88%nat) idx5.
Proof.
  intros mp. split; [apply genesis_manager_ts|]. split; [apply genesis_manager_prices|].
  split; [apply genesis_manager_windows|]. split; [apply genesis_manager_consumed | apply genesis_manager_bytes].
Qed.
Print Assumptions C27_fee_manager.

(* Complete characterisation (success condition AND content): NewGenesisCommit succeeds exactly when the
   total supply fits in a uint64 and every written key can hold its value (keys.VerifyValue), and then its
   state is the explicitly constructed map [genesis_map]. *)
Theorem C27_complete : forall mk min_price allocs,
  genesis_state mk min_price allocs
  = if (total allocs <=? MaxU64)
       && forallb (fun a => verify_value_len (fst a) 8) allocs
       && verify_value_len (mk_height mk) 8 && verify_value_len (mk_ts mk) 8
       && verify_value_len (mk_fee mk) 488
    then Some (<[mk_fee mk := Some (encode (genesis_manager min_price))]>
                (<[mk_ts mk := Some (be64 0)]>
                  (<[mk_height mk := Some (be64 0)]>
                    (list_to_map (map (fun a => (fst a, Some (be64 (sum_for (fst a) allocs)))) allocs)))))
    else None.
Proof.
  intros mk mp allocs. rewrite genesis_state_char. unfold genesis_ok. rewrite verify_fee_key. reflexivity.
Qed.
Print Assumptions C27_complete.

(* Overflow: a configuration whose total supply exceeds 2^64-1 is rejected ... *)
Theorem C27_overflow_rejected : forall mk min_price allocs,
  MaxU64 < total allocs -> genesis_state mk min_price allocs = None.
Proof. exact genesis_total_overflow. Qed.
Print Assumptions C27_overflow_rejected.

(* ... in particular when the allocations of one address alone overflow ... *)
Theorem C27_address_overflow_rejected : forall mk min_price allocs k,
  MaxU64 < sum_for k allocs -> genesis_state mk min_price allocs = None.
Proof. exact genesis_address_overflow. Qed.
Print Assumptions C27_address_overflow_rejected.

(* ... and the loop of InitializeState itself rejects, from ANY view and any running supply, as soon as
   the running supply plus the remaining allocations overflows (the overflowing allocation can be at any
   position of the list). *)
Theorem C27_supply_overflow_rejected : forall s supply allocs,
  supply <= MaxU64 -> MaxU64 < supply + total allocs -> init_state s supply allocs = None.
Proof. intros s supply allocs. apply init_state_overflow. Qed.
Print Assumptions C27_supply_overflow_rejected.

(* Root.  For any function [root] of the state content (the merkle root is one: trusted base), the root of
   the state produced by NewGenesisCommit is the root of [genesis_map], whose content C27_exact describes. *)
Theorem C27_root : forall (R : Type) (root : gmap key (option val) -> R) mk min_price allocs m,
  genesis_state mk min_price allocs = Some m ->
  root m = root (genesis_map mk min_price allocs).
Proof.
  intros R root mk mp allocs m H. rewrite genesis_state_char in H.
  destruct (genesis_ok mk mp allocs); [|discriminate]. inversion H. reflexivity.
Qed.
Print Assumptions C27_root.

(* ... and it does not depend on the order of the configured allocations (nor does acceptance). *)
Theorem C27_root_order_independent : forall mk min_price allocs allocs',
  Permutation allocs allocs' -> genesis_state mk min_price allocs = genesis_state mk min_price allocs'.
Proof. exact genesis_state_perm. Qed.
Print Assumptions C27_root_order_independent.

(* The vocabulary of these theorems is the vocabulary of the executable specification that
   Check/C27_check.v evaluates on the real database dump. *)
Theorem C27_checker_vocabulary : forall (allocs : list (list N * N)) (k : list N) (min_price : list N),
  C27_check.sum_for k allocs = sum_for k allocs
  /\ C27_check.total allocs = total allocs
  /\ C27_check.mentioned k allocs = mentioned k allocs
  /\ C27_check.expected_fee_bytes min_price = encode (genesis_manager min_price).
Proof.
  intros allocs k mp. split; [|split; [|split]].
  - induction allocs as [|[k' b] rest IH]; cbn [C27_check.sum_for sum_for]; [reflexivity|]. rewrite IH. reflexivity.
  - apply total_fold_left.
  - reflexivity.
  - rewrite genesis_manager_bytes. reflexivity.
Qed.
Print Assumptions C27_checker_vocabulary.

(* ---------------------------------------------------------------- non-vacuity *)

Definition ex_mk : meta_keys := mkMeta [0; 0; 1] [1; 0; 1] [2; 0; 8].
Definition ex_mp : dims := [100; 100; 100; 100; 100].
Definition acctA : key := [0; 65; 0; 1].
Definition acctB : key := [0; 66; 0; 1].
(* duplicates, a zero allocation, a zero total *)
Definition ex_allocs : list (key * N) := [(acctA, 5); (acctB, 0); (acctA, 7); (acctA, 0)].

Example C27_exact_nonvacuous : exists m, genesis_state ex_mk ex_mp ex_allocs = Some m
  /\ m !! acctA = Some (Some (be64 12)) /\ m !! acctB = Some (Some (be64 0)) /\ m !! [0; 67; 0; 1] = None
  /\ size m = 5%nat.
Proof. eexists. split; [vm_compute; reflexivity|]. vm_compute. auto. Qed.

Example C27_overflow_nonvacuous :
  MaxU64 < total [(acctA, MaxU64); (acctB, 1)]
  /\ genesis_state ex_mk ex_mp [(acctA, MaxU64); (acctB, 1)] = None
  /\ MaxU64 < sum_for acctA [(acctA, MaxU64 - 1); (acctB, 0); (acctA, 2)]
  /\ genesis_state ex_mk ex_mp [(acctA, MaxU64 - 1); (acctB, 0); (acctA, 2)] = None.
Proof. vm_compute. auto. Qed.

Example C27_supply_overflow_nonvacuous :
  init_state (new_view ts_new ScopeAll ∅) 0 [(acctA, 5); (acctB, MaxU64 - 5); (acctA, 1)] = None
  /\ 0 + total [(acctA, 5); (acctB, MaxU64 - 5); (acctA, 1)] = MaxU64 + 1.
Proof. vm_compute. auto. Qed.

Example C27_order_nonvacuous :
  Permutation ex_allocs [(acctA, 0); (acctA, 7); (acctB, 0); (acctA, 5)]
  /\ genesis_state ex_mk ex_mp ex_allocs <> None.
Proof.
  split; [|vm_compute; discriminate]. unfold ex_allocs.
  apply (Permutation_rev [(acctA, 5); (acctB, 0); (acctA, 7); (acctA, 0)]).
Qed.
