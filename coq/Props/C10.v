(* C10 — Transactions execute only inside their validity interval and on their chain.
   Property theorems only; model in Model/TxStatic.v, proofs in Proofs/TxStatic_proofs.v. *)
From Coq Require Import List ZArith NArith Bool.
Import ListNotations.
From HV Require Import Lib.Bytes Model.TxStatic Proofs.TxStatic_proofs.
Local Open Scope Z_scope.

(* [executable r tx t] is the property's condition, written over mathematical integers:
     expiry mod 1000 = 0  /\  t <= expiry <= t + window  /\  chain id = rules' chain id  /\
     #actions <= max  /\  every action and the auth are activated at t
   where "activated" is  (start < 0 \/ start <= t) /\ (end < 0 \/ t <= end)  (negative = -1 sentinel). *)

(* For every rule set, transaction and block timestamp for which t + window fits int64 (no wrap),
   the static pre-execution checks succeed exactly on the executable transactions. *)
Theorem C10_iff : forall (r : srules) (tx : stx) (t : Z),
  in_i64 (t + r_window r) ->
  pre_execute_static r tx t = E_OK <->
  (s_expiry tx mod 1000 = 0 /\ t <= s_expiry tx <= t + r_window r /\ s_chain tx = r_chain r /\
   (N.of_nat (length (s_actions tx)) <= r_max_actions r)%N /\
   Forall (fun a => (v_start a < 0 \/ v_start a <= t) /\ (v_end a < 0 \/ t <= v_end a)) (s_actions tx) /\
   ((v_start (s_auth tx) < 0 \/ v_start (s_auth tx) <= t) /\ (v_end (s_auth tx) < 0 \/ t <= v_end (s_auth tx)))).
Proof. exact pre_execute_static_iff. Qed.
Print Assumptions C10_iff.

(* The error class returned is that of the first failing clause in code order:
   chain id, alignment, expired, too far in the future, action count, an action's range, the auth's range. *)
Theorem C10_error_class : forall (r : srules) (tx : stx) (t : Z),
  in_i64 (t + r_window r) ->
  let res := pre_execute_static r tx t in
  let e := s_expiry tx in
  (res = E_CHAIN <-> s_chain tx <> r_chain r) /\
  (res = E_MISALIGNED <-> s_chain tx = r_chain r /\ ~ whole_second e) /\
  (res = E_EXPIRED <-> s_chain tx = r_chain r /\ whole_second e /\ e < t) /\
  (res = E_FUTURE <-> s_chain tx = r_chain r /\ whole_second e /\ t <= e /\ t + r_window r < e) /\
  (res = E_TOO_MANY <-> interval_ok r tx t /\ ~ count_ok r tx) /\
  (res = E_ACTION_NA <-> interval_ok r tx t /\ count_ok r tx /\ ~ Forall (activated t) (s_actions tx)) /\
  (res = E_AUTH_NA <-> interval_ok r tx t /\ count_ok r tx /\ Forall (activated t) (s_actions tx) /\
                       ~ activated t (s_auth tx)) /\
  (res = E_OK <-> executable r tx t).
Proof. exact pre_execute_static_class. Qed.
Print Assumptions C10_error_class.

(* Without the no-wrap hypothesis (any int64 t and any non-negative int64 window): whatever is
   accepted is executable in the mathematical sense, and if t + window overflows int64 nothing is
   accepted — overflow can only reject. *)
Theorem C10_overflow_only_rejects : forall (r : srules) (tx : stx) (t : Z),
  in_i64 t -> in_i64 (r_window r) -> 0 <= r_window r ->
  (pre_execute_static r tx t = E_OK -> executable r tx t) /\
  (MaxI64 < t + r_window r -> pre_execute_static r tx t <> E_OK).
Proof.
  intros r tx t Ht HW H0. split.
  - exact (pre_execute_static_ok_sound r tx t Ht HW H0).
  - exact (pre_execute_static_overflow_rejects r tx t Ht HW).
Qed.
Print Assumptions C10_overflow_only_rejects.

(* Mempool admission runs the same checks at t = now: whatever is admitted is a whole second, not yet
   expired, at most one validity window ahead, on this chain, and activated now. *)
Theorem C10_admission : forall (r : srules) (tx : stx) (now : Z),
  in_i64 now -> in_i64 (r_window r) -> 0 <= r_window r ->
  admit_static r tx now = E_OK ->
  whole_second (s_expiry tx) /\ now <= s_expiry tx <= now + r_window r /\ s_chain tx = r_chain r /\
  count_ok r tx /\ Forall (activated now) (s_actions tx) /\ activated now (s_auth tx).
Proof. intros r tx now Hn HW H0. exact (pre_execute_static_ok_sound r tx now Hn HW H0). Qed.
Print Assumptions C10_admission.

(* Non-vacuity: boundary equalities are accepted, one step outside is rejected with the right class. *)
Local Open Scope N_scope.
Definition ex_rules := mkRules [7] 60000%Z 2.
Definition always := mkRange (-1)%Z (-1)%Z.
Example C10_ex_lower : pre_execute_static ex_rules (mkTx 5000%Z [7] [always] always) 5000%Z = E_OK.
Proof. reflexivity. Qed.
Example C10_ex_upper : pre_execute_static ex_rules (mkTx 65000%Z [7] [always; always] always) 5000%Z = E_OK.
Proof. reflexivity. Qed.
Example C10_ex_expired : pre_execute_static ex_rules (mkTx 4000%Z [7] [always] always) 5000%Z = E_EXPIRED.
Proof. reflexivity. Qed.
Example C10_ex_future : pre_execute_static ex_rules (mkTx 66000%Z [7] [always] always) 5000%Z = E_FUTURE.
Proof. reflexivity. Qed.
Example C10_ex_misaligned : pre_execute_static ex_rules (mkTx 5001%Z [7] [always] always) 5000%Z = E_MISALIGNED.
Proof. reflexivity. Qed.
Example C10_ex_chain : pre_execute_static ex_rules (mkTx 5000%Z [8] [always] always) 5000%Z = E_CHAIN.
Proof. reflexivity. Qed.
Example C10_ex_too_many : pre_execute_static ex_rules (mkTx 5000%Z [7] [always; always; always] always) 5000%Z = E_TOO_MANY.
Proof. reflexivity. Qed.
Example C10_ex_range_end_eq : pre_execute_static ex_rules (mkTx 5000%Z [7] [mkRange 5000%Z 5000%Z] always) 5000%Z = E_OK.
Proof. reflexivity. Qed.
Example C10_ex_action_na : pre_execute_static ex_rules (mkTx 5000%Z [7] [mkRange (-1)%Z 4999%Z] always) 5000%Z = E_ACTION_NA.
Proof. reflexivity. Qed.
Example C10_ex_auth_na : pre_execute_static ex_rules (mkTx 5000%Z [7] [always] (mkRange 5001%Z (-1)%Z)) 5000%Z = E_AUTH_NA.
Proof. reflexivity. Qed.
(* the hypotheses of C10_overflow_only_rejects are satisfiable with an overflowing sum *)
Example C10_ex_overflow :
  pre_execute_static (mkRules [7] 60000%Z 2) (mkTx 9223372036854775000%Z [7] [always] always) 9223372036854775000%Z = E_FUTURE.
Proof. reflexivity. Qed.
