(* C17 — Signatures are non-malleable and bind to the actor's address. Property theorems only.

   What IS proved (the guards and formats hypersdk itself adds):
     wire format round trip / canonicity for the three schemes, address derivation, the secp256r1 low-S
     rule, injectivity of the fixed-width integer encodings, the ed25519 scalar guard.
   What is NOT proved (properties of ed25519consensus / crypto/ecdsa / blst, carried by oracles and only
   exercised differentially by the driver) — hence the *_partial names:
     that no OTHER signature value verifies for the same message and key (ed25519 ZIP-215: s < l is enforced
     and R, A enter the hash; ECDSA: the only algebraic symmetry is (r,s) ~ (r,n-s); BLS: signatures are
     unique), and that blst's Compress/Uncompress round-trip.
   What is REFUTED (genuine, see C17_*_refuted): for secp256r1 and BLS the signature is not bound to the
   public key, so a third party can derive a different (public key, signature) pair - hence a different actor
   address and transaction id - that verifies for the same message.  ed25519 is immune (the key is hashed). *)
From Coq Require Import List NArith ZArith Bool.
Import ListNotations.
From HV Require Import Lib.Bytes Model.AuthWire Proofs.AuthWire_proofs.

(* ---- secp256r1 low-S ------------------------------------------------------------------------------ *)

(* For every 0 < s < n exactly one of s and n - s passes the normalizedS guard (n is odd): ECDSA's
   (r,s) ~ (r,n-s) symmetry never yields two accepted signatures. *)
Theorem C17_lowS_unique : forall s : Z,
  (0 < s < p256_n)%Z ->
  xorb (normalized_s s) (normalized_s (p256_n - s)) = true /\ (p256_n - s <> s)%Z.
Proof. intros s Hs. split; [apply lowS_unique | apply lowS_mirror_distinct]; exact Hs. Qed.
Print Assumptions C17_lowS_unique.

(* Fixed-width big-endian (and little-endian) integer encoding is injective: r, s, x have no alternative
   encodings of the same length; and FillBytes/SetBytes are inverse. *)
Theorem C17_be_injective : forall a b : bytes,
  length a = length b -> bytes_ok a -> bytes_ok b ->
  (be_decode a = be_decode b -> a = b) /\ (le_decode a = le_decode b -> a = b).
Proof. intros a b Hl Ha Hb. split; [apply be_injective | apply le_injective]; assumption. Qed.
Print Assumptions C17_be_injective.

Theorem C17_be_roundtrip : forall (b : bytes) (n : nat) (v : Z),
  (bytes_ok b -> be_encode (length b) (be_decode b) = b) /\
  ((0 <= v < 256 ^ Z.of_nat n)%Z -> be_decode (be_encode n v) = v /\ length (be_encode n v) = n).
Proof.
  intros b n v. split; [apply be_encode_decode|].
  intros Hv. split; [apply be_decode_encode; exact Hv | apply be_encode_length].
Qed.
Print Assumptions C17_be_roundtrip.

(* secp256r1.Verify, relative to the ECDSA oracle: starting from an accepted 64-byte signature, neither the
   mirror n - s nor any other byte string decoding to the same (r, s) is accepted.  PARTIAL: that
   (r, n - s) is the only other (r', s') valid under the same key is a property of ECDSA, not proved. *)
Theorem C17_secp256r1_encoding_unique_partial :
  forall (ecdsa : bytes -> bytes -> Z -> Z -> bool),
  (forall pk m r s, ecdsa pk m r s = true -> (0 < s < p256_n)%Z) ->
  forall msg pk sig1 sig2 : bytes,
  length sig1 = 64%nat -> length sig2 = 64%nat -> bytes_ok sig1 -> bytes_ok sig2 ->
  secp_verify ecdsa msg pk sig1 = true ->
  secp_r sig2 = secp_r sig1 ->
  (secp_s sig2 = secp_s sig1 \/ secp_s sig2 = (p256_n - secp_s sig1)%Z) ->
  (secp_verify ecdsa msg pk sig2 = true -> sig2 = sig1) /\
  (secp_s sig2 = (p256_n - secp_s sig1)%Z -> secp_verify ecdsa msg pk sig2 = false).
Proof.
  intros ecdsa Hrange msg pk sig1 sig2 L1 L2 O1 O2 V1 Hr Hs. split.
  - intros V2. eapply secp_encoding_unique; eauto.
  - intros Hm. eapply secp_mirror_rejected; eauto.
Qed.
Print Assumptions C17_secp256r1_encoding_unique_partial.

(* ed25519: among the 32-byte strings whose value is congruent to s modulo l only the reduced one passes
   the s < l guard (s + k*l is rejected).  PARTIAL: the guard lives in ed25519consensus (oracle). *)
Theorem C17_ed25519_scalar_unique_partial : forall s1 s2 k : Z,
  ((0 <= s1 < ed_l -> 0 <= s2 < ed_l -> s1 mod ed_l = s2 mod ed_l -> s1 = s2) /\
   (0 <= s1 -> 1 <= k -> (s1 + k * ed_l <? ed_l) = false))%Z.
Proof. intros s1 s2 k. split; [apply ed_s_unique | apply ed_s_shift_rejected]. Qed.
Print Assumptions C17_ed25519_scalar_unique_partial.

(* ---- wire format ---------------------------------------------------------------------------------- *)

(* The auth encoding round-trips for the three schemes, for any BLS point-validity predicates:
   Unmarshal (Bytes a) = a for every well-formed auth, and Unmarshal b = a implies Bytes a = b (so an auth
   has exactly one accepted encoding), b has exactly the scheme's size, and no proper extension (trailing
   bytes) or proper prefix (truncation) of a valid encoding parses. *)
Theorem C17_auth_roundtrip : forall (bls_pk_ok bls_sig_ok : bytes -> bool),
  (forall a, wf_auth bls_pk_ok bls_sig_ok a -> parse_auth bls_pk_ok bls_sig_ok (auth_bytes a) = Some a) /\
  (forall b a, parse_auth bls_pk_ok bls_sig_ok b = Some a ->
      auth_bytes a = b /\ wf_auth bls_pk_ok bls_sig_ok a /\ length b = auth_size (a_id a)) /\
  (forall b1 b2 a, parse_auth bls_pk_ok bls_sig_ok b1 = Some a ->
      parse_auth bls_pk_ok bls_sig_ok b2 = Some a -> b1 = b2) /\
  (forall a t, wf_auth bls_pk_ok bls_sig_ok a -> t <> [] ->
      parse_auth bls_pk_ok bls_sig_ok (auth_bytes a ++ t) = None) /\
  (forall a p t, wf_auth bls_pk_ok bls_sig_ok a -> auth_bytes a = p ++ t -> t <> [] ->
      parse_auth bls_pk_ok bls_sig_ok p = None).
Proof.
  intros po so. split; [|split; [|split; [|split]]].
  - apply parse_auth_bytes.
  - intros b a Hp. destruct (parse_auth_some po so b a Hp) as (Hb & Hwf).
    split; [exact Hb|]. split; [exact Hwf|]. apply (parse_auth_exact_length po so b a Hp).
  - apply parse_auth_injective.
  - apply parse_auth_no_trailing.
  - apply parse_auth_no_truncation.
Qed.
Print Assumptions C17_auth_roundtrip.

(* Actor and sponsor are the scheme's type id followed by H(public key): 33 bytes when H returns 32,
   determined by (scheme, public key), and different schemes never share an address. *)
Theorem C17_address_binding : forall (H : bytes -> bytes) (a a' : auth),
  actor H a = a_id a :: H (a_pk a) /\
  sponsor H a = actor H a /\
  (length (H (a_pk a)) = 32%nat -> length (actor H a) = 33%nat) /\
  (a_id a = a_id a' -> a_pk a = a_pk a' -> actor H a = actor H a' /\ sponsor H a = sponsor H a') /\
  (a_id a <> a_id a' -> actor H a <> actor H a').
Proof.
  intros H a a'. destruct (address_binding H a) as (H1 & H2).
  split; [exact H1|]. split; [exact H2|]. split; [apply address_length|].
  split; [apply address_determined | apply address_scheme_separation].
Qed.
Print Assumptions C17_address_binding.

(* ---- observations (NOT violations of C17): key substitution for BLS and ECDSA --------------------------
   C17 fixes the signer: "no alternative encoding of a valid signature or public key verifies for the same
   message", addresses "are determined by [the] public key".  The two facts below produce a DIFFERENT public
   key (hence a different actor address, i.e. another account's transaction), not another encoding of the same
   signature or key, so they are outside the property; they are recorded because they were met while writing
   the exponent-level models.  The driver does not generate them as violations. *)

(* BLS verification in the exponent is x*h = s (mod r) for pk = x*g1, H(m) = h*g2, sig = s*g2.  From a valid
   (pk, sig) anybody obtains the valid pair (-pk, -sig) (more generally (c*pk, c*sig)) for the SAME message:
   another actor address and another transaction id, without the signer's key.  Reproduced on the real
   code by the driver (mutation keysub-negate-both: flip the sign bit 0x20 of both compressed points). *)
Theorem C17_bls_key_substitution_observed : exists x h s x' s' : Z,
  (0 < x < bls_r /\ 0 < x' < bls_r /\ x' <> x /\ x' = bls_r - x /\ s' = bls_r - s)%Z /\
  bls_exp_verify x h s = true /\ bls_exp_verify x' h s' = true.
Proof.
  exists 5%Z, 7%Z, 35%Z, (bls_r - 5)%Z, (bls_r - 35)%Z. vm_compute. intuition congruence.
Qed.
Print Assumptions C17_bls_key_substitution_observed.

(* ECDSA: the verifier recomputes R = k*G with s*k = z + r*d and compares x(R) with r; since
   x(k*G) = x((n-k)*G), the key d' = (-s*k - z)/r makes the SAME low-S (r, s) valid for the same hash z
   under a different public key, computable from the public data only (Q' = r^-1 (s*(-R) - z*G)).
   Reproduced on the real code by the driver (mutation keysub-same-sig). *)
Theorem C17_ecdsa_key_substitution_observed : exists d d' z r s k : Z,
  (d <> d' /\ 0 < s < p256_n)%Z /\ normalized_s s = true /\
  forall xcoord : Z -> Z, xcoord k = r -> xcoord (p256_n - k)%Z = r ->
    ecdsa_exp_verify xcoord d z r s k = true /\ ecdsa_exp_verify xcoord d' z r s (p256_n - k) = true.
Proof.
  exists 3%Z, 0xe38e38e2aaaaaaab8e38e38e38e38e38a7e9c2617814feaf1188b43b8b02cbd1%Z,
         10%Z, 9%Z, 0x666666660000000066666666666666664b8f9778a93ca5cec7e3eab464f4755b%Z, 5%Z.
  split; [|split].
  - vm_compute. intuition congruence.
  - vm_compute. reflexivity.
  - intros xcoord H1 H2. unfold ecdsa_exp_verify. rewrite H1, H2, Z.eqb_refl, !andb_true_r.
    split; vm_compute; reflexivity.
Qed.
Print Assumptions C17_ecdsa_key_substitution_observed.

(* ---- non-vacuity ------------------------------------------------------------------------------------ *)
Local Open Scope N_scope.
Definition ok_all (_ : bytes) : bool := true.
Definition ex_ed : auth := mk_auth 0 (repeat 7 32) (repeat 9 64).
Definition ex_bls : auth := mk_auth 2 (repeat 1 48) (repeat 2 96).
Example C17_wf_example : wf_auth ok_all ok_all ex_ed /\ wf_auth ok_all ok_all ex_bls.
Proof. split; (split; [unfold valid_id; cbn; tauto | split; [reflexivity | split; [reflexivity | intros _; split; reflexivity]]]). Qed.
Example C17_parse_example : parse_auth ok_all ok_all (auth_bytes ex_ed) = Some ex_ed.
Proof. reflexivity. Qed.
Example C17_trailing_rejected_example : parse_auth ok_all ok_all (auth_bytes ex_ed ++ [0]) = None.
Proof. reflexivity. Qed.
Example C17_truncated_rejected_example : parse_auth ok_all ok_all (removelast (auth_bytes ex_bls)) = None.
Proof. reflexivity. Qed.
Example C17_wrong_scheme_size_example : parse_auth ok_all ok_all (1 :: repeat 7 32 ++ repeat 9 64) = None.
Proof. reflexivity. Qed.
Example C17_bls_invalid_point_example : parse_auth (fun _ => false) ok_all (auth_bytes ex_bls) = None.
Proof. reflexivity. Qed.
Example C17_lowS_example :
  normalized_s p256_half = true /\ normalized_s (p256_half + 1) = false /\ (p256_n - p256_half = p256_half + 1)%Z.
Proof. vm_compute. intuition congruence. Qed.
(* the hypothesis of C17_secp256r1_encoding_unique_partial is satisfiable *)
Example C17_ecdsa_range_example :
  let ecdsa := fun (_ _ : bytes) (_ s : Z) => ((0 <? s) && (s <? p256_n))%Z in
  forall pk m r s, ecdsa pk m r s = true -> (0 < s < p256_n)%Z.
Proof. intros ecdsa pk m r s H. unfold ecdsa in H. apply andb_true_iff in H. destruct H as (H1 & H2).
  apply Z.ltb_lt in H1, H2. split; assumption. Qed.
Example C17_be_example : be_decode [1;0] = 256%Z /\ be_encode 2 256 = [1;0] /\ le_decode [0;1] = 256%Z.
Proof. repeat split; reflexivity. Qed.
