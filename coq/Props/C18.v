(* C18 — a restarted node recovers the accepted chain after a crash at any point.

   Model: Model/AcceptPipeline.v (labelled transition system of the consensus thread + asynchronous accepter over the
   persistent markers, and [recover] = vm.initLastAccepted/extractLatestOutputBlock + snow.makeConsensusIndex/
   reprocessFromOutputToInput + the start-up notification).  A trace is any interleaving of the two threads (any chain
   length, queue of 16); the crash may come after any prefix.

   FULL STATEMENT (DESIGN C18_recovers) — does NOT hold for the code as it is (see C18_refuted):

     Theorem C18_recovers : forall ns tr s,
       run ns (init ns) tr = Some s -> recovery_correct ns s.

   where [recovery_correct ns s] says: recovery over the persistent state left by the crash succeeds with
   last accepted = index last, the state and the execution results are those of the crash-free run up to that height
   (heights stand for the deterministic roots/results, see C18_reference_run), and every subscriber j < ns has received
   every height <= index last at least once across (log before the crash ++ start-up notifications), heights never
   going backwards.

   Proved instead: the exact outcome of a restart for every reachable crash state (C18_recovery_outcome), the full
   statement under the guard "no accepted block is indexed but uncommitted at the crash" (C18_recovers_partial), and
   the refutation of the unguarded statement (C18_refuted).  What is missing for the full statement is a fix of the
   code: extractLatestOutputBlock must hand back the output block at the *state* height whatever the index height is
   (and not touch vm.chain before it exists), so that reprocessFromOutputToInput replays - and notifies - the rest. *)
From Coq Require Import List NArith Bool.
Import ListNotations.
From HV Require Import Model.AcceptPipeline Proofs.AcceptPipeline_proofs.
Local Open Scope N_scope.

(* The restart outcome is determined by how far the block index is ahead of the committed state, for every
   interleaving, chain length and crash point: equal -> success (re-notifying the last block), one ahead -> panic,
   two to eighteen ahead -> "invalid state" error; nothing else is reachable. *)
Theorem C18_recovery_outcome : forall ns tr s,
  run ns (init ns) tr = Some s ->
  let p := crash s in
  (p_index p = p_state p /\ recover ns p = ROk (p_index p) p (notify_all ns (p_index p)))
  \/ (p_index p = p_state p + 1 /\ recover ns p = RPanic)
  \/ (p_state p + 2 <= p_index p /\ p_index p <= p_state p + 18 /\ recover ns p = RErr E_INVALID_STATE).
Proof. exact recovery_outcome. Qed.
Print Assumptions C18_recovery_outcome.

(* all three cases occur; the bound 18 (16 queued + 1 in flight + 1 blocked on the full queue) is reached *)
Example C18_outcome_ok_reachable :
  exists s, run 2 (init 2) [LIndex; LEnqueue; LTake; LWrite; LCommit] = Some s
            /\ recover 2 (crash s) = ROk 1 (mkP 1 1 1) [(0, 1); (1, 1)].
Proof. eexists. split; vm_compute; reflexivity. Qed.
Example C18_ahead_18_reachable :
  exists s, run 2 (init 2) ([LIndex; LEnqueue; LTake] ++ concat (repeat [LIndex; LEnqueue] 16) ++ [LIndex]) = Some s
            /\ crash s = mkP 18 0 0.
Proof. eexists. split; vm_compute; reflexivity. Qed.

(* The C18 statement for every crash that leaves no accepted block indexed but uncommitted. *)
Theorem C18_recovers_partial : forall ns tr s,
  run ns (init ns) tr = Some s ->
  p_index (st_p s) = p_state (st_p s) ->
  recovery_correct ns s.
Proof. exact recovers_partial. Qed.
Print Assumptions C18_recovers_partial.

(* non-vacuity: crashes in the middle of the notifications / right after the commit satisfy the guard *)
Example C18_partial_nonvacuous :
  exists s, run 2 (init 2) ([LIndex; LEnqueue; LTake; LWrite; LCommit; LNotify; LNotify; LFinish]
                            ++ [LIndex; LEnqueue; LTake; LWrite; LCommit; LNotify]) = Some s
            /\ p_index (st_p s) = p_state (st_p s) /\ p_index (st_p s) = 2
            /\ st_cur s = Some (2, SCommitted 1)
            /\ recover 2 (crash s) = ROk 2 (mkP 2 2 2) [(0, 2); (1, 2)].
Proof. eexists. split; [vm_compute; reflexivity|]. vm_compute. repeat split; reflexivity. Qed.

(* The unguarded statement is false: a crash right after the index update of one block makes the restart panic
   (vm.chain is nil in extractLatestOutputBlock), a crash with two blocks indexed ahead of the state makes it fail. *)
Theorem C18_refuted :
  (exists tr s, run 2 (init 2) tr = Some s
                /\ p_index (st_p s) = p_state (st_p s) + 1 /\ recover 2 (crash s) = RPanic)
  /\ (exists tr s, run 2 (init 2) tr = Some s
                   /\ p_index (st_p s) = p_state (st_p s) + 2 /\ recover 2 (crash s) = RErr E_INVALID_STATE)
  /\ ~ (forall ns tr s, run ns (init ns) tr = Some s -> recovery_correct ns s).
Proof.
  split; [|split].
  - exists wit_plus1. eexists. split; [vm_compute; reflexivity|]. vm_compute. split; reflexivity.
  - exists wit_plus2. eexists. split; [vm_compute; reflexivity|]. vm_compute. split; reflexivity.
  - intros H. destruct not_recovery_correct_plus1 as [s [Hrun Hnot]]. exact (Hnot (H 2 wit_plus1 s Hrun)).
Qed.
Print Assumptions C18_refuted.

(* The crash-free reference: accepting a chain of len blocks one after the other ends with index = state = results
   = len and nothing queued, so "the state of the crash-free run at height h" is the marker value h. *)
Theorem C18_reference_run : forall ns len,
  exists lg, run ns (init ns) (seq_trace ns len)
             = Some (resume (mkP (N.of_nat len) (N.of_nat len) (N.of_nat len)) lg).
Proof. exact reference_run. Qed.
Print Assumptions C18_reference_run.
