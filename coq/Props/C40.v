(* C40 — Size-suffixed state keys bound the values they can hold.
   Property theorems only; model: Model/Keys.v (keys/keys.go, state.Keys.Add), Model/Tstate.v
   (the write-time check in TStateView.Insert); proofs: Proofs/Keys_proofs.v, Proofs/Tstate_proofs.v. *)
From stdpp Require Import gmap.
From Coq Require Import NArith ZArith.
From HV Require Import Lib.Bytes Model.Keys Model.Tstate Proofs.Keys_proofs Proofs.Tstate_proofs.
Local Open Scope N_scope.

(* A key's declared chunk count is the big-endian number in its last two bytes. *)
Theorem C40_max_chunks : forall (k : key) (c : N),
  (max_chunks k = Some c <-> exists pre hi lo, k = pre ++ [hi; lo] /\ c = hi * 256 + lo)
  /\ max_chunks (encode_chunks k c) = Some c.
Proof. intros k c. split; [apply max_chunks_spec | apply max_chunks_encode_chunks]. Qed.
Print Assumptions C40_max_chunks.

(* The chunk count of a value: 0 for the empty value, len/64 + 1 otherwise, defined up to 65535. *)
Theorem C40_num_chunks : forall (v : val) (n : N),
  num_chunks v = Some n <->
  (chunks_nonneg (blenZ v) <= 65535)%Z /\ n = Z.to_N (chunks_nonneg (blenZ v)).
Proof. exact num_chunks_spec. Qed.
Print Assumptions C40_num_chunks.

(* A value can be written to a key only if its chunk count does not exceed the key's number. *)
Theorem C40_verify_value_iff : forall (k : key) (v : val),
  verify_value k v = true <->
  exists n c, num_chunks v = Some n /\ max_chunks k = Some c /\ n <= c.
Proof. exact verify_value_iff. Qed.
Print Assumptions C40_verify_value_iff.

(* A key encoded for a maximum size admits every value up to that size (and the encoding succeeds
   whenever the size needs at most 65535 chunks). *)
Theorem C40_encode_bound : forall (k : key) (n : Z), (0 <= n)%Z ->
  (forall k', encode k n = Some k' -> forall v, (blenZ v <= n)%Z -> verify_value k' v = true)
  /\ ((chunks_nonneg n <= 65535)%Z -> encode k n = Some (encode_chunks k (Z.to_N (chunks_nonneg n)))).
Proof.
  intros k n Hn. split.
  - intros k' H. exact (encode_admits k n k' H Hn).
  - apply encode_some. exact Hn.
Qed.
Print Assumptions C40_encode_bound.

(* Keys shorter than two bytes are invalid everywhere they are declared or used. *)
Theorem C40_short_keys_rejected : forall (k : key), (length k < 2)%nat ->
  valid k = false /\ max_chunks k = None /\ decode_chunks k = None
  /\ (forall m p, keys_add m k p = None)
  /\ (forall ms mc, verify ms mc k = false)
  /\ (forall v, verify_value k v = false)
  /\ (forall s v, snd (insert s k v) <> None)
  /\ (forall s v, reachable s -> pending s !! k <> Some (Some v))
  /\ (forall decls m s, keys_add_all ∅ decls = Some m -> v_scope s = ScopeKeys m ->
        get s k = inr EPerm /\ (forall v, insert s k v = (s, Some EPerm)) /\ remove s k = (s, Some EPerm)).
Proof.
  intros k Hk. split.
  - destruct (valid k) eqn:E; [|reflexivity]. apply valid_spec in E. lia.
  - split; [apply max_chunks_short; exact Hk|]. split; [apply max_chunks_short; exact Hk|].
    split; [intros m p; apply keys_add_short; exact Hk|].
    split; [intros ms mc; apply verify_short; exact Hk|].
    split; [intros v; apply verify_value_short; exact Hk|].
    split; [intros s v; apply insert_short_key; exact Hk|].
    split; [intros s v Hr; apply short_key_never_written; [apply reachable_ok; exact Hr | exact Hk]|].
    intros decls m s Hm Hsc. exact (short_key_denied decls m s k Hm Hsc Hk).
Qed.
Print Assumptions C40_short_keys_rejected.

(* Insert succeeds only if the chunk bound holds; hence every value pending in a view satisfies the
   bound of its key, after any history including rollbacks. *)
Theorem C40_insert_chunk_bound : forall (s s' : view) (k : key) (v : val),
  insert s k v = (s', None) ->
  exists n c, num_chunks v = Some n /\ max_chunks k = Some c /\ n <= c.
Proof. intros s s' k v. apply insert_chunk_bound. Qed.
Print Assumptions C40_insert_chunk_bound.

Theorem C40_view_values_bounded : forall (s : view) (k : key) (v : val), reachable s ->
  pending s !! k = Some (Some v) -> verify_value k v = true.
Proof. intros s k v Hr. apply pending_values_bounded. apply reachable_ok. exact Hr. Qed.
Print Assumptions C40_view_values_bounded.

(* with full permission the bound is also sufficient *)
Theorem C40_insert_admits : forall (s : view) (k : key) (v : val),
  v_scope s = ScopeAll -> verify_value k v = true -> snd (insert s k v) = None.
Proof.
  intros s k v Hsc Hv. apply insert_succeeds; unfold check; try rewrite Hsc; auto.
Qed.
Print Assumptions C40_insert_admits.

(* ---- non-vacuity *)
Example C40_examples :
  max_chunks [107; 1; 2] = Some 258
  /\ num_chunks (repeat 7 64) = Some 2 /\ num_chunks (repeat 7 63) = Some 1 /\ num_chunks [] = Some 0
  /\ verify_value [107; 0; 1] (repeat 7 63) = true /\ verify_value [107; 0; 1] (repeat 7 64) = false
  /\ encode [107] 63 = Some [107; 0; 1] /\ encode [107] (65535 * 64)%Z = None
  /\ encode [107] (-6400)%Z = Some [107; 255; 157].
Proof. vm_compute. repeat split; reflexivity. Qed.

Example C40_insert_example :
  let s := new_view ts_new ScopeAll ∅ in
  snd (insert s [107; 0; 1] (repeat 7 63)) = None /\ snd (insert s [107; 0; 1] (repeat 7 64)) = Some EValue
  /\ snd (insert s [107] []) = Some EValue.
Proof. vm_compute. auto. Qed.
