(* C06 — token supply is conserved except for burned fees (reference VM).

   Model: Model/Chain.v (execute_block / run_txs / run_tx / execute_tx / run_actions / run_ops with the
   reference VM's Transfer action [OTransfer] and the morpheusvm balance handler sub_balance / add_balance,
   delete-at-zero), tied to the Go code by Check/C06_check.v (= Chain_check.check_case) on blocks of real
   examples/morpheusvm Transfer transactions.  Definitions: Model/Supply.v ([supply], [wf_state], [vmap],
   [transfer_tx] ...), Model/ChainHistory.v ([post_data], [next_parent], [run_chain]).
   Proofs: Proofs/Supply_proofs.v.

   What "supply" is.  [supply m] = the sum of [be_dec v] over ALL entries of the data state m (a finite map;
   the three metadata keys are kept apart in [parent_state]).  Under [wf_state m] — every value is the 8-byte
   encoding of a uint64, which is what the reference VM's state consists of — this is the sum over all
   keys of the balance GetBalance returns ([parse_u64 v = Some (be_dec v)]).  Nothing else is assumed:
   in particular NOT that the total fits in 64 bits (a receiver overflow makes the action fail and is
   rolled back), nor that accounts are distinct, nor anything on amounts.

   Scope.  The theorems are for transactions all of whose actions are Transfer actions ([transfer_tx]: any
   number of actions, each any list of Transfer operations, any of them failing) — the reference VM.  The
   scripted put/delete operations of the harness can write arbitrary bytes and are excluded.  Both balance
   handlers for the fee ([t_morpheus] true or false) are covered.  The state view a transaction runs on
   holds only the declared keys of the parent; C06_tx_in_block lifts the statement to the WHOLE state. *)
From stdpp Require Import gmap.
From Coq Require Import NArith ZArith Lia.
From HV Require Import Lib.Bytes Lib.U64 Model.Keys Model.Tstate Model.Fees Model.Chain
                       Model.ChainHistory Model.Supply
                       Proofs.Tstate_proofs Proofs.Supply_proofs.
From HV Require Check.C06_check.
Local Open Scope N_scope.

(* One Transfer (sub_balance from, add_balance to) through a state view, for ANY from/to (also from = to),
   any amount (0 is refused; the full balance deletes the sender's key), any receiver balance (an overflowing
   receiver makes the action FAIL after the sender was debited): if it succeeds the supply of the visible
   state is unchanged; if it fails, rolling back to the checkpoint taken before it (what Transaction.Execute
   does) restores the visible state exactly. *)
Theorem C06_transfer_conserves : forall s from to value memo_ok out s' x,
  view_ok s -> wf_state (vmap s) ->
  run_ops s [OTransfer from to value memo_ok] out = (s', x) ->
  match x with
  | inl _ => supply (vmap s') = supply (vmap s) /\ wf_state (vmap s')
  | inr _ => vmap (rollback s' (op_index s)) = vmap s
  end.
Proof. exact transfer_conserves. Qed.
Print Assumptions C06_transfer_conserves.

(* Transaction.Execute on a view: for every transaction made of Transfer actions (any number, any of them
   failing, emptying and refilling accounts), supply after + fee = supply before. *)
Theorem C06_tx : forall t u f s s' res,
  transfer_tx t -> view_ok s -> wf_state (vmap s) ->
  execute_tx t u f s = Some (s', res) ->
  supply (vmap s') + res_fee res = supply (vmap s) /\ wf_state (vmap s').
Proof.
  intros t u f s s' res Ht Hok Hwf H.
  destruct (execute_tx_supply t u f s s' res Ht Hok Hwf H) as (E & W & _ & ->). auto.
Qed.
Print Assumptions C06_tx.

(* One task of the block, on the WHOLE state (parent + the block's diff so far), although the transaction's
   view only holds its declared keys: an included transaction burns exactly its fee, a rejected one changes
   nothing. *)
Theorem C06_tx_in_block : forall r fm parent ts st t sk u st' x,
  transfer_tx t -> wf_state (overlay (ts_changed st) parent) ->
  run_tx r fm parent ts st t sk u = (st', x) ->
  wf_state (overlay (ts_changed st') parent)
  /\ match x with
     | inl res => supply (overlay (ts_changed st') parent) + res_fee res = supply (overlay (ts_changed st) parent)
     | inr _ => st' = st
     end.
Proof. exact run_tx_supply. Qed.
Print Assumptions C06_tx_in_block.

(* One accepted block of Transfer transactions: supply(post-state) + sum of the fees in the block's results
   = supply(parent state); and the post-state is again well formed. *)
Theorem C06_block : forall r mk p b o,
  transfer_block b -> wf_state (p_data p) ->
  execute_block r mk p b = inl o ->
  supply (post_data p o) + fees (o_results o) = supply (p_data p) /\ wf_state (post_data p o).
Proof. exact block_supply. Qed.
Print Assumptions C06_block.

(* Any history of accepted blocks: the final supply plus all fees charged = the initial supply. *)
Theorem C06_history : forall r mk bs p p' os,
  Forall transfer_block bs -> wf_state (p_data p) ->
  run_chain r mk p bs = Some (p', os) ->
  supply (p_data p') + chain_fees os = supply (p_data p) /\ wf_state (p_data p').
Proof. intros r mk. exact (chain_supply r mk). Qed.
Print Assumptions C06_history.

(* [post_data] is the post-state the correspondence check compares ([post_value] on every key). *)
Theorem C06_post_data_is_post_value : forall p o k, post_data p o !! k = post_value p o k.
Proof. exact Header_proofs.post_data_lookup. Qed.
Print Assumptions C06_post_data_is_post_value.

(* The executable specification of Check/C06_check.v ([spec_one]) is this equation: over a duplicate-free
   universe of accounts covering every key present in the state, the checker's [sum_vals] of the looked-up
   values is [supply], and its sum of [res_fee] is [fees]. *)
Theorem C06_checker_vocabulary : forall (m : gmap key val) (universe : list key) (rs : list result),
  NoDup universe -> (forall k, is_Some (m !! k) -> In k universe) ->
  C06_check.sum_vals (map (fun k => m !! k) universe) = supply m
  /\ fold_left N.add (map res_fee rs) 0 = fees rs.
Proof.
  intros m l rs Hnd Hcov. split; [|apply fold_left_add_right].
  unfold C06_check.sum_vals. rewrite fold_left_add_right, map_map. apply (supply_universe l m Hnd Hcov).
Qed.
Print Assumptions C06_checker_vocabulary.

(* ---------------------------------------------------------------- non-vacuity *)

Definition ex_rules : rules :=
  mkRules 100 750 [1; 1; 1; 1; 1] [48; 48; 48; 48; 48] [1000; 1000; 1000; 1000; 1000]
          [1000000; 1000000; 1000000; 1000000; 1000000] 60000 16 1 5 2 20 5 10 3.
Definition ex_mk : meta_keys := mkMeta [0; 0; 1] [1; 0; 1] [2; 0; 8].
Definition keyA : key := [0; 65; 0; 1].
Definition keyB : key := [0; 66; 0; 1].
Definition keyC : key := [0; 67; 0; 1].

(* A rich, B absent, C two units below 2^64-1 *)
Definition ex_data : gmap key val := <[keyA := be64 100000]> (<[keyC := be64 (MaxU64 - 2)]> ∅).
Definition ex_parent : parent_state := mkParent ex_data (Some 5) 500 (mkFee 0 [1; 1; 1; 1; 1] [] []).

Definition transfer (from to : key) (v : N) : action :=
  mkAction 1 [(from, 5); (to, 7)] [OTransfer from to v true] (-1) (-1).
Definition mk_tx (acts : list action) : tx := mkTx 2000 true 1000000 keyA true 1 (-1) (-1) 100 true acts.

(* tx1: A -> B 5 (creates B).  tx2: A -> A 7 (self), B -> A 5 (empties B: key deleted), A -> B 3 (re-creates B).
   tx3: A -> C 5 overflows C: the action fails after A was debited, is rolled back, the fee is still charged. *)
Definition ex_block : block :=
  mkBlock 1000 6 true false false None
    [mk_tx [transfer keyA keyB 5];
     mk_tx [transfer keyA keyA 7; transfer keyB keyA 5; transfer keyA keyB 3];
     mk_tx [transfer keyA keyB 1; transfer keyA keyC 5]].

Lemma ex_wf : wf_state ex_data.
Proof. unfold ex_data. repeat apply wf_insert_be64; try apply wf_empty; unfold MaxU64; lia. Qed.

Lemma ex_transfer_block : transfer_block ex_block.
Proof. unfold transfer_block, transfer_tx, transfer_action, ex_block. cbn. repeat constructor. Qed.

Example C06_block_nonvacuous : exists o,
  execute_block ex_rules ex_mk ex_parent ex_block = inl o
  /\ transfer_block ex_block /\ wf_state (p_data ex_parent)
  /\ map res_success (o_results o) = [true; true; false]
  /\ 0 < fees (o_results o)
  /\ post_data ex_parent o !! keyB = Some (be64 3).
Proof.
  eexists. split; [vm_compute; reflexivity|]. split; [exact ex_transfer_block|]. split; [exact ex_wf|].
  vm_compute. auto.
Qed.

Definition ex_block2 : block :=
  mkBlock 1100 7 true false false None [mk_tx [transfer keyA keyB 98000]; mk_tx [transfer keyB keyA 98003]].

Example C06_history_nonvacuous : exists p' os,
  run_chain ex_rules ex_mk ex_parent [ex_block; ex_block2] = Some (p', os)
  /\ Forall transfer_block [ex_block; ex_block2]
  /\ length os = 2%nat /\ p_data p' !! keyB = None.
Proof.
  eexists. eexists. split; [vm_compute; reflexivity|].
  split. { repeat constructor. }
  vm_compute. auto.
Qed.

(* hypotheses of C06_transfer_conserves / C06_tx: a view over a well-formed state; success, self-transfer and
   the overflow failure *)
Definition ex_view : view := new_view ts_new ScopeAll ex_data.

Example C06_view_nonvacuous :
  view_ok ex_view /\ wf_state (vmap ex_view)
  /\ (exists s' o, run_ops ex_view [OTransfer keyA keyB 100000 true] [] = (s', inl o))
  /\ (exists s' o, run_ops ex_view [OTransfer keyA keyA 100000 true] [] = (s', inl o))
  /\ (exists s', run_ops ex_view [OTransfer keyA keyC 3 true] [] = (s', inr AEBalance)).
Proof.
  split; [apply view_ok_new|]. split.
  { unfold ex_view. rewrite vmap_full_view, dstate_new. exact ex_wf. }
  split; [eexists; eexists; vm_compute; reflexivity|].
  split; [eexists; eexists; vm_compute; reflexivity|].
  eexists; vm_compute; reflexivity.
Qed.

Example C06_tx_nonvacuous : exists s' res,
  execute_tx (mk_tx [transfer keyA keyB 1; transfer keyA keyC 5]) [100; 3; 10; 10; 10] 133 ex_view = Some (s', res)
  /\ res_success res = false /\ res_fee res = 133
  /\ transfer_tx (mk_tx [transfer keyA keyB 1; transfer keyA keyC 5]).
Proof.
  eexists. eexists. split; [vm_compute; reflexivity|]. split; [reflexivity|]. split; [reflexivity|].
  unfold transfer_tx, transfer_action. cbn. repeat constructor.
Qed.

Example C06_vocabulary_nonvacuous :
  NoDup [keyA; keyB; keyC] /\ (forall k, is_Some (ex_data !! k) -> In k [keyA; keyB; keyC])
  /\ supply ex_data = 100000 + (MaxU64 - 2).
Proof.
  split. { repeat constructor; set_solver. }
  split; [|vm_compute; reflexivity].
  intros k [v H]. unfold ex_data in H.
  destruct (decide (keyA = k)) as [<-|N1]; [cbn; auto|]. rewrite lookup_insert_ne in H by exact N1.
  destruct (decide (keyC = k)) as [<-|N2]; [cbn; auto|]. rewrite lookup_insert_ne in H by exact N2.
  rewrite lookup_empty in H. discriminate.
Qed.
