(* C06 — theorems being added *)
From stdpp Require Import gmap.
From HV Require Import Model.Keys Model.Tstate Model.Fees Model.Chain.
Theorem C06_placeholder_too_late : forall r mk p b, b_too_late b = true -> execute_block r mk p b = inr (clsTooLate, 0%N).
Proof. intros r mk p b H. unfold execute_block. rewrite H. reflexivity. Qed.
Print Assumptions C06_placeholder_too_late.
