(* C31 — the indexer serves exactly the recent accepted blocks and transaction results.
   Property theorems only; model in Model/Indexer.v, proofs in Proofs/Indexer_proofs.v.

   Histories: any list of INotify b (Notify) and IRestart W (close + NewIndexer on the same store)
   from [init W] (NewIndexer on an empty directory), window W >= 1.  [notifs ops] are the notified
   blocks in order, [last_height] the height of the last one.  Hypotheses of the three theorems:
   the notified blocks form one chain (chain_wf: equal heights / ids mean the same block, a
   transaction id occurs once, one result per transaction), every restart uses the window W, and
   notified heights never decrease (consecutive, gaps of any size, repeats) — [monoL]. *)
From Coq Require Import List NArith Bool Lia.
Import ListNotations.
From HV Require Import Lib.AssocN Model.Indexer Proofs.Indexer_proofs.
Local Open Scope N_scope.

(* The answers are exactly the notified blocks with height in (last - W, last]:
   by height, by id, per transaction (its block's timestamp and its own result; never an error),
   nothing for any transaction outside, and GetLatestBlock is the last notified block.
   Restarts at any point of the history do not appear in the right-hand sides at all. *)
Theorem C31_window : forall (W : N) (ops : list iop),
  W <> 0 -> chain_wf (notifs ops) -> same_window W ops -> monoL None (notifs ops) ->
  let s := irun (init W) ops in
  let bs := notifs ops in
  (forall h b, get_by_height s h = Some b <-> In b bs /\ eh b = h /\ inwin W (last_height bs) h) /\
  (forall i b, get_block s i = Some b <-> In b bs /\ eid b = i /\ inwin W (last_height bs) (eh b)) /\
  (forall t b p, In b bs -> inwin W (last_height bs) (eh b) -> nth_error (etxs b) p = Some t ->
     exists r, nth_error (eres b) p = Some r /\ get_tx s t = TxFound t (ets b) r) /\
  (forall t, (forall b, In b bs -> inwin W (last_height bs) (eh b) -> ~ In t (etxs b)) -> get_tx s t = TxNone) /\
  match last_height bs with
  | None => get_latest s = (1, None)
  | Some l => exists b, In b bs /\ eh b = l /\ get_latest s = (0, Some b)
  end.
Proof. exact window_answers. Qed.
Print Assumptions C31_window.

(* A restart at any point changes no answer, neither immediately (ops2 = []) nor after any
   continuation ops2 of the history. *)
Theorem C31_restart_stable : forall (W : N) (ops1 ops2 : list iop),
  W <> 0 -> chain_wf (notifs (ops1 ++ ops2)) -> same_window W (ops1 ++ ops2) -> monoL None (notifs (ops1 ++ ops2)) ->
  answers_eq (irun (init W) (ops1 ++ IRestart W :: ops2)) (irun (init W) (ops1 ++ ops2)).
Proof. exact restart_stable. Qed.
Print Assumptions C31_restart_stable.

(* Delivering the last notified block once more changes no answer. *)
Theorem C31_redelivery_idempotent : forall (W : N) (ops : list iop) (pre : list eblock) (b : eblock),
  W <> 0 -> notifs ops = pre ++ [b] -> chain_wf (notifs ops) -> same_window W ops -> monoL None (notifs ops) ->
  answers_eq (irun (init W) (ops ++ [INotify b])) (irun (init W) ops).
Proof. exact redelivery_idempotent. Qed.
Print Assumptions C31_redelivery_idempotent.

(* Without the monotonicity hypothesis the property fails for the code as it is: re-delivery of a
   block BELOW the last height (what snow's reprocessFromOutputToInput does after a crash).
   Window 2, blocks 5,6,7 then 5 again: the last notified height is 5 but heights 6 and 7 are still
   served (3 blocks cached), and a restart in that state changes GetLatestBlock from 5 to 7 and drops 5.
   Reported as KNOWN-FINDING (signature older-block-redelivered-after-newer). *)
Definition blk (h : N) : eblock := mkE h (100 + h) (10 * h) [1000 + h] [2000 + h].
Theorem C31_older_redelivery_refuted :
  let ops := [INotify (blk 5); INotify (blk 6); INotify (blk 7); INotify (blk 5)] in
  let s := irun (init 2) ops in
  chain_wf (notifs [INotify (blk 5); INotify (blk 6); INotify (blk 7)]) /\
  last_height (notifs ops) = Some 5 /\
  get_by_height s 7 = Some (blk 7) /\ get_by_height s 6 = Some (blk 6) /\ get_by_height s 5 = Some (blk 5) /\
  get_latest s = (0, Some (blk 5)) /\
  get_latest (restart s 2) = (0, Some (blk 7)) /\ get_by_height (restart s 2) 5 = None.
Proof.
  cbv zeta. split; [apply table_wfb_spec; vm_compute; reflexivity|]. vm_compute. repeat split; reflexivity.
Qed.
Print Assumptions C31_older_redelivery_refuted.

(* ---------------- non-vacuity ---------------- *)
(* window 2: 1, 2, restart, 2 again (repeat), gap to 7, 8, restart, 9 *)
Definition ex_ops : list iop :=
  [INotify (blk 1); INotify (blk 2); IRestart 2; INotify (blk 2); INotify (blk 7); INotify (blk 8); IRestart 2; INotify (blk 9)].

Example C31_ex_hyps : chain_wf [blk 1; blk 2; blk 7; blk 8; blk 9] /\ same_window 2 ex_ops /\ monoL None (notifs ex_ops).
Proof.
  split; [apply table_wfb_spec; vm_compute; reflexivity|]. split.
  - intros W' H. cbv [ex_ops In] in H. repeat (destruct H as [H|H]; [try discriminate; injection H; auto|]). destruct H.
  - cbv [ex_ops notifs monoL blk eh]. repeat split; intros l Hl; try discriminate; injection Hl as <-; lia.
Qed.
(* (the repeated block 2 makes [notifs ex_ops] contain blk 2 twice; chain_wf is about membership) *)
Example C31_ex_wf : chain_wf (notifs ex_ops).
Proof.
  destruct C31_ex_hyps as [H _]. destruct H as [H1 H2 H3 H4].
  assert (Hin : forall b, In b (notifs ex_ops) -> In b [blk 1; blk 2; blk 7; blk 8; blk 9]).
  { intros b Hb. cbv [ex_ops notifs In] in Hb. cbv [In]. intuition. }
  constructor; eauto.
Qed.
Example C31_ex_answers :
  let s := irun (init 2) ex_ops in
  get_by_height s 9 = Some (blk 9) /\ get_block s 108 = Some (blk 8) /\ get_by_height s 7 = None /\
  get_block s 102 = None /\ get_tx s 1008 = TxFound 1008 80 2008 /\ get_tx s 1007 = TxNone /\
  get_latest s = (0, Some (blk 9)).
Proof. vm_compute. repeat split; reflexivity. Qed.
