(* C31 — the indexer serves exactly the recent accepted blocks.  Property theorems only. *)
From Coq Require Import List NArith Bool.
Import ListNotations.
From HV Require Import Lib.AssocN Model.Indexer Proofs.Indexer_proofs.
Local Open Scope N_scope.

Theorem C31_init_empty : forall W, get_latest (init W) = (1, None).
Proof. exact init_latest. Qed.
Print Assumptions C31_init_empty.
