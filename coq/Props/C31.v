(* C31 — the indexer serves exactly the recent accepted blocks and transaction results.
   Property theorems only; model in Model/Indexer.v, proofs in Proofs/Indexer_proofs.v.

   Histories: ANY list of INotify b (Notify) and IRestart W (close + NewIndexer on the same store)
   from [init W] (NewIndexer on an empty directory), window W >= 1.  [notifs ops] are the notified
   blocks in delivery order; the heights may come in any order: consecutive, with gaps of any size,
   repeated, and older blocks delivered again after newer ones (what snow's
   reprocessFromOutputToInput does after a crash).  [top_height] is the highest notified height.
   Hypotheses: the notified blocks form one chain (chain_wf: equal heights / ids mean the same block,
   a transaction id occurs once, one result per transaction) and every restart uses the window W.

   Repaired defect (F-25, fix commit "indexer must not move backwards when an older accepted block
   is delivered again"): Notify of a block BELOW the last height used to set lastHeight to that
   height: GetLatestBlock went backwards while the newer blocks stayed served, more than W heights
   could be served, and a restart in that state changed the answers (window 2, notify 5,6,7,5:
   latest = 5 with 5,6,7 served; after a restart latest = 7 and 5 gone).  The former theorem
   C31_older_redelivery_refuted stated that witness and the three main theorems carried a
   "heights never decrease" hypothesis; with the fix the hypothesis is gone and the witness history
   is covered by the theorems (see C31_ex_older below). *)
From Coq Require Import List NArith Bool Lia.
Import ListNotations.
From HV Require Import Lib.AssocN Model.Indexer Proofs.Indexer_proofs.
Local Open Scope N_scope.

(* [top_height bs] is the maximum of the notified heights. *)
Theorem C31_top_height_is_max : forall (bs : list eblock) (m : N),
  top_height bs = Some m <-> (exists b, In b bs /\ eh b = m) /\ (forall x, In x bs -> eh x <= m).
Proof. exact top_height_spec. Qed.
Print Assumptions C31_top_height_is_max.

(* The answers are exactly the notified blocks with height in (top - W, top]:
   by height, by id, per transaction (its block's timestamp and its own result; never an error),
   nothing for any transaction outside, and GetLatestBlock is the notified block of height top.
   Restarts at any point of the history do not appear in the right-hand sides at all, and neither
   does the delivery order. *)
Theorem C31_window : forall (W : N) (ops : list iop),
  W <> 0 -> chain_wf (notifs ops) -> same_window W ops ->
  let s := irun (init W) ops in
  let bs := notifs ops in
  (forall h b, get_by_height s h = Some b <-> In b bs /\ eh b = h /\ inwin W (top_height bs) h) /\
  (forall i b, get_block s i = Some b <-> In b bs /\ eid b = i /\ inwin W (top_height bs) (eh b)) /\
  (forall t b p, In b bs -> inwin W (top_height bs) (eh b) -> nth_error (etxs b) p = Some t ->
     exists r, nth_error (eres b) p = Some r /\ get_tx s t = TxFound t (ets b) r) /\
  (forall t, (forall b, In b bs -> inwin W (top_height bs) (eh b) -> ~ In t (etxs b)) -> get_tx s t = TxNone) /\
  match top_height bs with
  | None => get_latest s = (1, None)
  | Some l => exists b, In b bs /\ eh b = l /\ get_latest s = (0, Some b)
  end.
Proof. exact window_answers. Qed.
Print Assumptions C31_window.

(* A restart at any point changes no answer, neither immediately (ops2 = []) nor after any
   continuation ops2 of the history. *)
Theorem C31_restart_stable : forall (W : N) (ops1 ops2 : list iop),
  W <> 0 -> chain_wf (notifs (ops1 ++ ops2)) -> same_window W (ops1 ++ ops2) ->
  answers_eq (irun (init W) (ops1 ++ IRestart W :: ops2)) (irun (init W) (ops1 ++ ops2)).
Proof. exact restart_stable. Qed.
Print Assumptions C31_restart_stable.

(* Delivering any already notified block once more — the last one or an older one, inside or
   below the window — changes no answer. *)
Theorem C31_redelivery_idempotent : forall (W : N) (ops : list iop) (b : eblock),
  W <> 0 -> In b (notifs ops) -> chain_wf (notifs ops) -> same_window W ops ->
  answers_eq (irun (init W) (ops ++ [INotify b])) (irun (init W) ops).
Proof. exact redelivery_idempotent. Qed.
Print Assumptions C31_redelivery_idempotent.

(* No notification moves GetLatestBlock backwards: after Notify b the latest height is at least
   what it was and at least the height of b. *)
Theorem C31_latest_never_backwards : forall (W : N) (ops : list iop) (b : eblock) (l : N),
  W <> 0 -> chain_wf (notifs (ops ++ [INotify b])) -> same_window W ops ->
  latest_height (irun (init W) ops) = Some l ->
  exists l', latest_height (irun (init W) (ops ++ [INotify b])) = Some l' /\ l <= l' /\ eh b <= l'.
Proof. exact latest_monotone. Qed.
Print Assumptions C31_latest_never_backwards.

(* At most W heights are served at any point of any history. *)
Theorem C31_at_most_window_served : forall (W : N) (ops : list iop) (hs : list N),
  W <> 0 -> chain_wf (notifs ops) -> same_window W ops ->
  NoDup hs -> (forall h, In h hs -> get_by_height (irun (init W) ops) h <> None) ->
  N.of_nat (length hs) <= W.
Proof. exact served_at_most_window. Qed.
Print Assumptions C31_at_most_window_served.

(* When the notified heights never decrease (consecutive, gaps of any size, repeats) the highest
   height is the height of the last notified block: the window of C31_window is then relative to
   the most recent notification. *)
Theorem C31_monotone_top_is_last : forall (bs : list eblock),
  monoL None bs -> top_height bs = last_height bs.
Proof. exact mono_top_last. Qed.
Print Assumptions C31_monotone_top_is_last.

(* ---------------- non-vacuity ---------------- *)
Definition blk (h : N) : eblock := mkE h (100 + h) (10 * h) [1000 + h] [2000 + h].

(* window 2: 1, 2, restart, 2 again (repeat), gap to 7, 8, older 7 again (inside the window),
   older 2 again (below the window), restart, 9 *)
Definition ex_ops : list iop :=
  [INotify (blk 1); INotify (blk 2); IRestart 2; INotify (blk 2); INotify (blk 7); INotify (blk 8);
   INotify (blk 7); INotify (blk 2); IRestart 2; INotify (blk 9)].

Example C31_ex_same_window : same_window 2 ex_ops.
Proof.
  intros W' H. cbv [ex_ops In] in H. repeat (destruct H as [H|H]; [try discriminate; injection H; auto|]). destruct H.
Qed.
(* (the repeated blocks make [notifs ex_ops] contain blk 2 and blk 7 more than once; chain_wf is about membership) *)
Example C31_ex_wf : chain_wf (notifs ex_ops).
Proof.
  apply (chain_wf_incl _ [blk 1; blk 2; blk 7; blk 8; blk 9]).
  - intros b Hb. cbv [ex_ops notifs In] in Hb. cbv [In]. intuition.
  - apply table_wfb_spec. vm_compute. reflexivity.
Qed.
Example C31_ex_answers :
  let s := irun (init 2) ex_ops in
  top_height (notifs ex_ops) = Some 9 /\
  get_by_height s 9 = Some (blk 9) /\ get_block s 108 = Some (blk 8) /\ get_by_height s 7 = None /\
  get_block s 102 = None /\ get_tx s 1008 = TxFound 1008 80 2008 /\ get_tx s 1007 = TxNone /\
  get_latest s = (0, Some (blk 9)).
Proof. vm_compute. repeat split; reflexivity. Qed.

Example C31_ex_mono : monoL None [blk 1; blk 2; blk 2; blk 7; blk 8] /\ last_height [blk 1; blk 2; blk 2; blk 7; blk 8] = Some 8.
Proof. cbv [monoL blk eh]. repeat split; intros l Hl; try discriminate; injection Hl as <-; lia. Qed.

(* the history of the repaired defect: window 2, 5 6 7 then 5 again.  5 is below the window of 7: it
   is ignored, the latest block stays 7, two heights are served and a restart changes nothing. *)
Definition ex_older : list iop := [INotify (blk 5); INotify (blk 6); INotify (blk 7); INotify (blk 5)].
Example C31_ex_older :
  let s := irun (init 2) ex_older in
  chain_wf (notifs ex_older) /\ same_window 2 ex_older /\ In (blk 5) (notifs [INotify (blk 5); INotify (blk 6); INotify (blk 7)]) /\
  latest_height (irun (init 2) [INotify (blk 5); INotify (blk 6); INotify (blk 7)]) = Some 7 /\
  get_latest s = (0, Some (blk 7)) /\ get_by_height s 7 = Some (blk 7) /\ get_by_height s 6 = Some (blk 6) /\
  get_by_height s 5 = None /\ get_latest (restart s 2) = (0, Some (blk 7)) /\ get_by_height (restart s 2) 5 = None.
Proof.
  cbv zeta. split.
  { apply (chain_wf_incl _ [blk 5; blk 6; blk 7]).
    - intros b Hb. cbv [ex_older notifs In] in Hb. cbv [In]. intuition.
    - apply table_wfb_spec. vm_compute. reflexivity. }
  split.
  { intros W' H. cbv [ex_older In] in H. repeat (destruct H as [H|H]; [discriminate|]). destruct H. }
  split; [left; reflexivity|]. vm_compute. repeat split; reflexivity.
Qed.
(* an older block INSIDE the window is stored at its height (window 3: 5, 8, then 7): *)
Example C31_ex_older_in_window :
  let s := irun (init 3) [INotify (blk 5); INotify (blk 8); INotify (blk 7)] in
  get_latest s = (0, Some (blk 8)) /\ get_by_height s 7 = Some (blk 7) /\ get_by_height s 8 = Some (blk 8) /\
  get_by_height s 5 = None /\ get_tx s 1007 = TxFound 1007 70 2007 /\
  get_latest (restart s 3) = (0, Some (blk 8)) /\ get_by_height (restart s 3) 7 = Some (blk 7).
Proof. vm_compute. repeat split; reflexivity. Qed.
