(* Varint.v — protobuf / canoto unsigned varints over byte lists.

   Go sources modelled:
     encoding/binary: AppendUvarint, Uvarint
     github.com/StephenButtolph/canoto: SizeUint, AppendUint, ReadUint (the canonical reader:
       rejects truncated input, values that do not fit the target width, and padded zeroes)

   Provided:
     uvarint_enc n        the encoding of n (little-endian base-128 groups, continuation bit 128)
     uvarint_len n        canoto.SizeUint n  ( = length (uvarint_enc n), lemma uvarint_enc_length )
     read_uint bits buf   canoto.ReadUint[uintBITS] on buf: UvOk value rest | UvEOF | UvOverflow | UvPadded
   Main lemmas:
     uvarint_enc_unfold, uvarint_enc_length, uvarint_enc_bytes (every byte < 256), uvarint_len_pos,
     read_uint_enc : n < 2^bits -> bits <= 64 -> read_uint bits (uvarint_enc n ++ rest) = UvOk n rest.

   Modelling note: Go computes  x | uint64(b&0x7f) << s ; the groups occupy disjoint bit ranges and
   the guarded loop never shifts a set bit out of 64 bits, so the model uses  x + (b mod 128) * 2^s. *)
From Coq Require Import List NArith Bool Lia ZifyN ZifyNat ZifyBool.
Import ListNotations.
From HV Require Import Lib.Bytes.
Local Open Scope N_scope.

(* ---- encoding ---------------------------------------------------------------------------- *)

Fixpoint uvarint_enc_fuel (fuel : nat) (n : N) : bytes :=
  match fuel with
  | O => [n]
  | S f => if n <? 128 then [n] else (n mod 128 + 128) :: uvarint_enc_fuel f (n / 128)
  end.

(* enough fuel for every n: one step per 7 bits *)
Definition uvarint_enc (n : N) : bytes := uvarint_enc_fuel (S (N.to_nat (N.log2 n))) n.

(* canoto.SizeUint: 1 for 0, else (bits.Len64(v)+6)/7 *)
Definition uvarint_len (n : N) : N :=
  if n =? 0 then 1 else (N.log2 n + 1 + 6) / 7.

(* ---- decoding ---------------------------------------------------------------------------- *)

Inductive uv_raw :=
| RawOk (v : N) (nread : N) (last : N) (rest : bytes)
| RawEOF          (* Uvarint returned (0, 0): buffer too small *)
| RawOverflow.    (* Uvarint returned n < 0 *)

(* binary.Uvarint: i = index of the byte being read (shift s = 7*i), x = accumulator *)
Fixpoint uvarint_loop (buf : bytes) (i : N) (x : N) : uv_raw :=
  match buf with
  | [] => RawEOF
  | b :: rest =>
      if i =? 10 then RawOverflow
      else if b <? 128 then
        if (i =? 9) && (1 <? b) then RawOverflow
        else RawOk (x + b * 2 ^ (7 * i)) (i + 1) b rest
      else uvarint_loop rest (i + 1) (x + (b mod 128) * 2 ^ (7 * i))
  end.

Inductive uv_result :=
| UvOk (v : N) (rest : bytes)
| UvEOF
| UvOverflow
| UvPadded.

(* canoto.ReadUint[T] with T an unsigned type of [bits] bits *)
Definition read_uint (bits : N) (buf : bytes) : uv_result :=
  match uvarint_loop buf 0 0 with
  | RawEOF => UvEOF
  | RawOverflow => UvOverflow
  | RawOk v nread last rest =>
      if 2 ^ bits <=? v then UvOverflow
      else if (1 <? nread) && (last =? 0) then UvPadded
      else UvOk v rest
  end.

(* ---- lemmas ------------------------------------------------------------------------------ *)

Lemma log2_div128 n : 128 <= n -> N.log2 (n / 128) = N.log2 n - 7.
Proof.
  intros _. change 128 with (2 ^ 7). rewrite <- N.shiftr_div_pow2. apply N.log2_shiftr.
Qed.

Lemma log2_ge7 n : 128 <= n -> 7 <= N.log2 n.
Proof.
  intros H. change 7 with (N.log2 128). apply N.log2_le_mono. exact H.
Qed.

Lemma uvarint_enc_fuel_irrel f1 : forall f2 n,
  (N.to_nat (N.log2 n) < f1)%nat -> (N.to_nat (N.log2 n) < f2)%nat ->
  uvarint_enc_fuel f1 n = uvarint_enc_fuel f2 n.
Proof.
  induction f1 as [|f1 IH]; intros f2 n H1 H2; [lia|].
  destruct f2 as [|f2]; [lia|].
  cbn [uvarint_enc_fuel]. destruct (n <? 128) eqn:E; [reflexivity|].
  apply N.ltb_ge in E. f_equal.
  pose proof (log2_div128 n E) as Hd. pose proof (log2_ge7 n E) as H7.
  apply IH; lia.
Qed.

Lemma uvarint_enc_unfold n :
  uvarint_enc n = if n <? 128 then [n] else (n mod 128 + 128) :: uvarint_enc (n / 128).
Proof.
  unfold uvarint_enc at 1. cbn [uvarint_enc_fuel].
  destruct (n <? 128) eqn:E; [reflexivity|].
  apply N.ltb_ge in E. f_equal. unfold uvarint_enc.
  pose proof (log2_div128 n E) as Hd. pose proof (log2_ge7 n E) as H7.
  apply uvarint_enc_fuel_irrel; lia.
Qed.

(* strong induction principle following the encoder's recursion *)
Lemma uvarint_ind (P : N -> Prop) :
  (forall n, n < 128 -> P n) ->
  (forall n, 128 <= n -> P (n / 128) -> P n) ->
  forall n, P n.
Proof.
  intros Hs Hb n. induction n as [n IH] using (well_founded_induction N.lt_wf_0).
  destruct (N.ltb_spec n 128) as [Hlt|Hge].
  - apply Hs; exact Hlt.
  - apply Hb; [exact Hge|]. apply IH.
    apply N.div_lt; lia.
Qed.

Lemma uvarint_enc_bytes n : Forall (fun b => b < 256) (uvarint_enc n).
Proof.
  induction n as [n Hn | n Hn IH] using uvarint_ind; rewrite uvarint_enc_unfold.
  - apply N.ltb_lt in Hn as E. rewrite E. constructor; [lia | constructor].
  - apply N.ltb_ge in Hn as E. rewrite E. constructor; [|exact IH].
    pose proof (N.mod_lt n 128 ltac:(lia)). lia.
Qed.

Lemma uvarint_len_small n : n < 128 -> uvarint_len n = 1.
Proof.
  intros Hn. unfold uvarint_len. destruct (N.eqb_spec n 0) as [|Hz]; [reflexivity|].
  assert (HL : N.log2 n <= 6).
  { change 6 with (N.log2 127). apply N.log2_le_mono. lia. }
  assert (E : N.log2 n + 1 + 6 = 1 * 7 + N.log2 n) by lia.
  rewrite E, N.div_add_l by lia. rewrite N.div_small by lia. reflexivity.
Qed.

Lemma uvarint_len_big n : 128 <= n -> uvarint_len n = 1 + uvarint_len (n / 128).
Proof.
  intros Hn. unfold uvarint_len.
  assert (Hq : 1 <= n / 128).
  { change 1 with (128 / 128). apply N.div_le_mono; lia. }
  destruct (N.eqb_spec n 0) as [|_]; [lia|].
  destruct (N.eqb_spec (n / 128) 0) as [|_]; [lia|].
  rewrite (log2_div128 n Hn). pose proof (log2_ge7 n Hn) as H7.
  assert (E : N.log2 n + 1 + 6 = 1 * 7 + (N.log2 n - 7 + 1 + 6)) by lia.
  rewrite E, N.div_add_l by lia. reflexivity.
Qed.

Lemma uvarint_enc_length n : N.of_nat (length (uvarint_enc n)) = uvarint_len n.
Proof.
  induction n as [n Hn | n Hn IH] using uvarint_ind; rewrite uvarint_enc_unfold.
  - apply N.ltb_lt in Hn as E. rewrite E. rewrite uvarint_len_small by exact Hn. reflexivity.
  - apply N.ltb_ge in Hn as E. rewrite E. rewrite uvarint_len_big by exact Hn.
    cbn [length]. rewrite Nat2N.inj_succ, IH. lia.
Qed.

Lemma uvarint_len_pos n : 1 <= uvarint_len n.
Proof.
  rewrite <- uvarint_enc_length. rewrite uvarint_enc_unfold.
  destruct (n <? 128); cbn [length]; lia.
Qed.

Lemma pow7_succ i : 2 ^ (7 * (i + 1)) = 128 * 2 ^ (7 * i).
Proof.
  replace (7 * (i + 1)) with (7 + 7 * i) by lia. rewrite N.pow_add_r. reflexivity.
Qed.

(* the decoder loop run on an encoding, from any position i <= 9 *)
Lemma uvarint_loop_enc n : forall i x rest,
  i <= 9 -> n * 2 ^ (7 * i) < 2 ^ 64 ->
  exists nread last,
    uvarint_loop (uvarint_enc n ++ rest) i x = RawOk (x + n * 2 ^ (7 * i)) nread last rest /\
    (last = 0 -> n = 0 /\ nread = i + 1).
Proof.
  induction n as [n Hn | n Hn IH] using uvarint_ind; intros i x rest Hi Hb; rewrite uvarint_enc_unfold.
  - apply N.ltb_lt in Hn as E. rewrite E. cbn [app uvarint_loop].
    destruct (N.eqb_spec i 10) as [|_]; [lia|]. rewrite E.
    destruct (N.eqb_spec i 9) as [Hi9|Hi9].
    + subst i. change (2 ^ (7 * 9)) with 9223372036854775808 in *.
      change (2 ^ 64) with 18446744073709551616 in Hb.
      assert (Hn1 : n <= 1) by lia.
      destruct (N.ltb_spec 1 n) as [|_]; [lia|]. cbn [andb].
      exists (9 + 1), n. split; [reflexivity|]. intros ->. split; reflexivity.
    + cbn [andb]. exists (i + 1), n. split; [reflexivity|].
      intros ->. split; reflexivity.
  - apply N.ltb_ge in Hn as E. rewrite E. cbn [app uvarint_loop].
    destruct (N.eqb_spec i 10) as [|_]; [lia|].
    pose proof (N.mod_lt n 128 ltac:(lia)) as Hm.
    destruct (N.ltb_spec (n mod 128 + 128) 128) as [|_]; [lia|].
    assert (Hmm : (n mod 128 + 128) mod 128 = n mod 128).
    { rewrite <- (N.mul_1_l 128) at 2. rewrite N.mod_add by lia. apply N.mod_mod. lia. }
    rewrite Hmm.
    pose proof (N.div_mod n 128 ltac:(lia)) as Hdm.
    assert (Hq : 1 <= n / 128).
    { change 1 with (128 / 128). apply N.div_le_mono; lia. }
    assert (Hi9 : i <> 9).
    { intros ->. change (2 ^ (7 * 9)) with 9223372036854775808 in *.
      change (2 ^ 64) with 18446744073709551616 in Hb. lia. }
    assert (Hb' : n / 128 * 2 ^ (7 * (i + 1)) < 2 ^ 64).
    { rewrite pow7_succ. eapply N.le_lt_trans; [|exact Hb].
      rewrite N.mul_assoc. apply N.mul_le_mono_r. lia. }
    destruct (IH (i + 1) (x + n mod 128 * 2 ^ (7 * i)) rest ltac:(lia) Hb') as (nread & last & Heq & Hpad).
    exists nread, last. split.
    + rewrite Heq. f_equal. rewrite pow7_succ.
      set (P := 2 ^ (7 * i)) in *. set (q := n / 128) in *. set (r := n mod 128) in *. lia.
    + intros H0. apply Hpad in H0. lia.
Qed.

Lemma read_uint_enc bits n rest :
  bits <= 64 -> n < 2 ^ bits -> read_uint bits (uvarint_enc n ++ rest) = UvOk n rest.
Proof.
  intros Hbits Hn. unfold read_uint.
  assert (Hb : n * 2 ^ (7 * 0) < 2 ^ 64).
  { cbn [N.mul]. change (2 ^ 0) with 1. rewrite N.mul_1_r.
    eapply N.lt_le_trans; [exact Hn|]. apply N.pow_le_mono_r; lia. }
  destruct (uvarint_loop_enc n 0 0 rest ltac:(lia) Hb) as (nread & last & Heq & Hpad).
  rewrite Heq. cbn [N.mul]. change (2 ^ 0) with 1. rewrite N.mul_1_r, N.add_0_l.
  destruct (N.leb_spec (2 ^ bits) n) as [|_]; [lia|].
  destruct (N.eqb_spec last 0) as [H0|_].
  - apply Hpad in H0. destruct H0 as [_ ->]. reflexivity.
  - rewrite andb_false_r. reflexivity.
Qed.
