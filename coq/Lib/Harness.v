(* Harness.v — the generic comparison fold used by every cases_*.v file.
   [mismatches f cs] = indices (0-based, as N) of the cases on which [f] is false. *)
From Coq Require Import List NArith Bool.
Import ListNotations.

Fixpoint mismatches_from {A : Type} (f : A -> bool) (i : N) (cs : list A) : list N :=
  match cs with
  | [] => []
  | c :: cs' => if f c then mismatches_from f (N.succ i) cs'
                else i :: mismatches_from f (N.succ i) cs'
  end.

Definition mismatches {A : Type} (f : A -> bool) (cs : list A) : list N :=
  mismatches_from f 0%N cs.

Lemma mismatches_from_nil {A} (f : A -> bool) i cs :
  mismatches_from f i cs = [] <-> forallb f cs = true.
Proof.
  revert i; induction cs as [|c cs IH]; intros i; cbn [mismatches_from forallb].
  - tauto.
  - destruct (f c); cbn [andb].
    + apply IH.
    + split; intros H; discriminate H.
Qed.

Lemma mismatches_nil {A} (f : A -> bool) cs :
  mismatches f cs = [] <-> forall c, In c cs -> f c = true.
Proof.
  unfold mismatches. rewrite mismatches_from_nil, forallb_forall. tauto.
Qed.
