(* U64.v — unsigned 64-bit arithmetic as used by hypersdk, over [N].
   * checked add/sub/mul returning [option] (avalanchego utils/math Add/Sub/Mul: error on
     overflow / underflow, never a wrapped value),
   * wrapping arithmetic mod 2^64 (plain Go uint64 operators),
   * saturating helpers (the "if err != nil { v = MaxUint64 }" idiom),
   * the sticky-error accumulator of internal/math/uint64.go (Uint64Operator),
   * int64 reinterpretation of a uint64 (Go conversion int64(x)),
   * fixed-width big-endian encoding (encoding/binary.BigEndian).
   Kept small and stable: other models import it. *)
From Coq Require Import List NArith ZArith Bool Lia ZifyN ZifyNat ZifyBool.
Import ListNotations.
Local Open Scope N_scope.

Definition W64 : N := 18446744073709551616.        (* 2^64 *)
Definition MaxU64 : N := 18446744073709551615.     (* 2^64 - 1 *)
Definition W63 : N := 9223372036854775808.         (* 2^63 *)

Definition is_u64 (x : N) : Prop := x <= MaxU64.
Definition is_u64b (x : N) : bool := x <=? MaxU64.

(* ---- checked arithmetic (avalanchego safemath) ---- *)
Definition add_chk (a b : N) : option N := if a + b <=? MaxU64 then Some (a + b) else None.
Definition mul_chk (a b : N) : option N := if a * b <=? MaxU64 then Some (a * b) else None.
Definition sub_chk (a b : N) : option N := if b <=? a then Some (a - b) else None.

(* ---- wrapping arithmetic (Go's +, -, * on uint64) ---- *)
Definition wadd (a b : N) : N := (a + b) mod W64.
Definition wmul (a b : N) : N := (a * b) mod W64.
Definition wsub (a b : N) : N := (a + W64 - b mod W64) mod W64.

(* ---- saturating helpers ---- *)
Definition sat_add (a b : N) : N := match add_chk a b with Some v => v | None => MaxU64 end.
Definition sat_mul (a b : N) : N := match mul_chk a b with Some v => v | None => MaxU64 end.
Definition sat_sub (a b : N) : N := match sub_chk a b with Some v => v | None => 0 end.

(* ---- int64(x) for a uint64 x, as a mathematical integer ---- *)
Definition to_int64 (x : N) : Z := if x <? W63 then Z.of_N x else (Z.of_N x - Z.of_N W64)%Z.

(* ---- Uint64Operator: value + sticky error ---- *)
Record u64op := mkOp { op_v : N; op_err : bool }.
Definition op_new (v : N) : u64op := mkOp v false.
Definition op_add (o : u64op) (n : N) : u64op :=
  if op_err o then o else
  match add_chk (op_v o) n with
  | None => mkOp (op_v o) true
  | Some nv => mkOp nv false
  end.
Definition op_mul (o : u64op) (n : N) : u64op :=
  if op_err o then o else
  match mul_chk (op_v o) n with
  | None => mkOp (op_v o) true
  | Some nv => mkOp nv false
  end.
Definition op_muladd (o : u64op) (a b : N) : u64op :=
  if op_err o then o else
  match mul_chk a b with
  | None => mkOp (op_v o) true
  | Some pv =>
      match add_chk (op_v o) pv with
      | None => mkOp (op_v o) true
      | Some nv => mkOp nv false
      end
  end.
(* Value(): (v, err); callers use v only when err = nil *)
Definition op_value (o : u64op) : option N := if op_err o then None else Some (op_v o).

(* ---- big-endian fixed width ---- *)
Fixpoint be_enc (n : nat) (v : N) : list N :=
  match n with
  | O => []
  | S n' => be_enc n' (v / 256) ++ [v mod 256]
  end.
Definition be_dec (l : list N) : N := fold_left (fun acc b => acc * 256 + b) l 0.
Definition be64 (v : N) : list N := be_enc 8 v.

(* ================================ lemmas ================================ *)

Lemma W64_eq : W64 = 2 ^ 64. Proof. reflexivity. Qed.
Lemma MaxU64_eq : MaxU64 = W64 - 1. Proof. reflexivity. Qed.

Lemma add_chk_Some a b v : add_chk a b = Some v <-> v = a + b /\ a + b <= MaxU64.
Proof. unfold add_chk. destruct (N.leb_spec (a + b) MaxU64); split; intros H0; try (inversion H0; subst); try lia; try (destruct H0; subst); auto; lia. Qed.
Lemma add_chk_None a b : add_chk a b = None <-> MaxU64 < a + b.
Proof. unfold add_chk. destruct (N.leb_spec (a + b) MaxU64); split; intros H0; try discriminate; try lia; auto. Qed.
Lemma mul_chk_Some a b v : mul_chk a b = Some v <-> v = a * b /\ a * b <= MaxU64.
Proof. unfold mul_chk. destruct (N.leb_spec (a * b) MaxU64); split; intros H0; try (inversion H0; subst); try lia; try (destruct H0; subst); auto; lia. Qed.
Lemma mul_chk_None a b : mul_chk a b = None <-> MaxU64 < a * b.
Proof. unfold mul_chk. destruct (N.leb_spec (a * b) MaxU64); split; intros H0; try discriminate; try lia; auto. Qed.
Lemma sub_chk_Some a b v : sub_chk a b = Some v <-> v = a - b /\ b <= a.
Proof. unfold sub_chk. destruct (N.leb_spec b a); split; intros H0; try (inversion H0; subst); try lia; try (destruct H0; subst); auto; lia. Qed.
Lemma sub_chk_None a b : sub_chk a b = None <-> a < b.
Proof. unfold sub_chk. destruct (N.leb_spec b a); split; intros H0; try discriminate; try lia; auto. Qed.

Lemma sat_add_eq a b : sat_add a b = N.min MaxU64 (a + b).
Proof. unfold sat_add, add_chk. destruct (N.leb_spec (a + b) MaxU64); lia. Qed.
Lemma sat_mul_eq a b : sat_mul a b = N.min MaxU64 (a * b).
Proof. unfold sat_mul, mul_chk. destruct (N.leb_spec (a * b) MaxU64); lia. Qed.
Lemma sat_sub_eq a b : sat_sub a b = a - b.
Proof. unfold sat_sub, sub_chk. destruct (N.leb_spec b a); lia. Qed.

Lemma sat_add_u64 a b : sat_add a b <= MaxU64. Proof. rewrite sat_add_eq. lia. Qed.
Lemma sat_mul_u64 a b : sat_mul a b <= MaxU64. Proof. rewrite sat_mul_eq. lia. Qed.

(* the checked operations agree with the wrapping ones exactly when they succeed *)
Lemma add_chk_wadd a b v : a <= MaxU64 -> b <= MaxU64 -> add_chk a b = Some v -> wadd a b = v.
Proof.
  intros Ha Hb H. apply add_chk_Some in H. destruct H as [-> H]. unfold wadd.
  apply N.mod_small. unfold MaxU64, W64 in *. lia.
Qed.
Lemma mul_chk_wmul a b v : mul_chk a b = Some v -> wmul a b = v.
Proof.
  intros H. apply mul_chk_Some in H. destruct H as [-> H]. unfold wmul.
  apply N.mod_small. unfold MaxU64, W64 in *. lia.
Qed.

(* sticky-error accumulator = option monad over checked arithmetic *)
Definition oadd (o : option N) (n : N) : option N := match o with Some v => add_chk v n | None => None end.
Definition omuladd (o : option N) (a b : N) : option N :=
  match o with
  | Some v => match mul_chk a b with Some p => add_chk v p | None => None end
  | None => None
  end.

Lemma op_value_new v : op_value (op_new v) = Some v. Proof. reflexivity. Qed.
Lemma op_value_add o n : op_value (op_add o n) = oadd (op_value o) n.
Proof.
  unfold op_value, op_add, oadd. destruct o as [v e]; cbn [op_err op_v]. destruct e; [reflexivity|].
  destruct (add_chk v n); reflexivity.
Qed.
Lemma op_value_muladd o a b : op_value (op_muladd o a b) = omuladd (op_value o) a b.
Proof.
  unfold op_value, op_muladd, omuladd. destruct o as [v e]; cbn [op_err op_v]. destruct e; [reflexivity|].
  destruct (mul_chk a b) as [p|]; [|reflexivity]. destruct (add_chk v p); reflexivity.
Qed.
Lemma op_value_mul o n : op_value (op_mul o n) = match op_value o with Some v => mul_chk v n | None => None end.
Proof.
  unfold op_value, op_mul. destruct o as [v e]; cbn [op_err op_v]. destruct e; [reflexivity|].
  destruct (mul_chk v n); reflexivity.
Qed.

(* exactness: the option value is the mathematical result or an error, never a wrapped value *)
Lemma oadd_Some o n r : oadd o n = Some r <-> exists v, o = Some v /\ r = v + n /\ v + n <= MaxU64.
Proof.
  destruct o as [v|]; cbn [oadd].
  - rewrite add_chk_Some. split; [intros [-> H]; exists v; auto | intros [v' [E [-> H]]]; inversion E; subst; auto].
  - split; [discriminate | intros [v [E _]]; discriminate].
Qed.
Lemma omuladd_Some o a b r :
  omuladd o a b = Some r <-> exists v, o = Some v /\ r = v + a * b /\ v + a * b <= MaxU64.
Proof.
  destruct o as [v|]; cbn [omuladd].
  - destruct (mul_chk a b) as [p|] eqn:Ep.
    + apply mul_chk_Some in Ep. destruct Ep as [-> Hp]. rewrite add_chk_Some.
      split; [intros [-> H]; exists v; auto | intros [v' [E [-> H]]]; inversion E; subst; auto].
    + apply mul_chk_None in Ep. split; [discriminate | intros [v' [E [-> H]]]; inversion E; subst; lia].
  - split; [discriminate | intros [v [E _]]; discriminate].
Qed.

(* to_int64 *)
Lemma to_int64_sq x : x <= MaxU64 -> (0 <= to_int64 x * to_int64 x)%Z.
Proof. intros _. apply Z.square_nonneg. Qed.
Lemma to_int64_nonzero x : 0 < x -> x <= MaxU64 -> to_int64 x <> 0%Z.
Proof. unfold to_int64, MaxU64, W63, W64. intros H1 H2. destruct (N.ltb_spec x 9223372036854775808); lia. Qed.

(* big-endian round trip *)
Lemma be_enc_length n v : length (be_enc n v) = n.
Proof. revert v; induction n as [|n IH]; intros v; cbn [be_enc]; [reflexivity|]. rewrite app_length, IH. cbn. lia. Qed.

Lemma be_dec_app l b : be_dec (l ++ [b]) = be_dec l * 256 + b.
Proof. unfold be_dec. rewrite fold_left_app. reflexivity. Qed.

Lemma be_dec_enc n v : be_dec (be_enc n v) = v mod 256 ^ N.of_nat n.
Proof.
  revert v; induction n as [|n IH]; intros v.
  - cbn. rewrite N.mod_1_r. reflexivity.
  - cbn [be_enc]. rewrite be_dec_app, IH.
    replace (N.of_nat (S n)) with (N.succ (N.of_nat n)) by lia.
    rewrite N.pow_succ_r'.
    assert (Hp : 256 ^ N.of_nat n <> 0) by (apply N.pow_nonzero; lia).
    rewrite N.mod_mul_r by lia. lia.
Qed.

Lemma be64_length v : length (be64 v) = 8%nat. Proof. apply be_enc_length. Qed.
Lemma be64_roundtrip v : v <= MaxU64 -> be_dec (be64 v) = v.
Proof.
  intros H. unfold be64. rewrite be_dec_enc. apply N.mod_small.
  change (256 ^ N.of_nat 8) with W64. unfold MaxU64, W64 in *. lia.
Qed.
Lemma be_enc_bytes n v : Forall (fun b => b < 256) (be_enc n v).
Proof.
  revert v; induction n as [|n IH]; intros v; cbn [be_enc]; [constructor|].
  apply Forall_app. split; [apply IH|]. constructor; [|constructor]. apply N.mod_lt. lia.
Qed.
