(* AssocN.v — finite maps with N keys as association lists with set semantics
   (put removes the old binding first, so keys stay duplicate free).  Executable, small,
   with the lookup lemmas needed by the database models (ChainIndex, Indexer). *)
From Coq Require Import List NArith Bool Lia.
From Coq Require Import ZifyN ZifyNat ZifyBool.
Import ListNotations.
Local Open Scope N_scope.

Section AMap.
Context {V : Type}.

Definition amap := list (N * V).

Fixpoint aget (k : N) (m : amap) : option V :=
  match m with
  | [] => None
  | (k', v) :: r => if k =? k' then Some v else aget k r
  end.

Definition afilter (p : N -> bool) (m : amap) : amap := filter (fun e => p (fst e)) m.

Definition adel (k : N) (m : amap) : amap := afilter (fun k' => negb (k =? k')) m.

Definition aput (k : N) (v : V) (m : amap) : amap := (k, v) :: adel k m.

Definition akeys (m : amap) : list N := map fst m.

Fixpoint memN (k : N) (l : list N) : bool :=
  match l with
  | [] => false
  | x :: r => (k =? x) || memN k r
  end.

(* delete every key of [ks] *)
Definition adel_many (ks : list N) (m : amap) : amap := afilter (fun k => negb (memN k ks)) m.

Lemma memN_In k l : memN k l = true <-> In k l.
Proof.
  induction l as [|x r IH]; cbn [memN In].
  - split; [discriminate | tauto].
  - rewrite orb_true_iff, IH, N.eqb_eq. split; intros [H|H]; auto.
Qed.

Lemma aget_afilter p k m :
  aget k (afilter p m) = if p k then aget k m else None.
Proof.
  induction m as [|[k' v] r IH]; cbn [afilter filter aget fst].
  - destruct (p k); reflexivity.
  - fold (afilter p r). destruct (p k') eqn:Hp; cbn [aget].
    + destruct (k =? k') eqn:E.
      * apply N.eqb_eq in E. subst k'. rewrite Hp. reflexivity.
      * exact IH.
    + destruct (k =? k') eqn:E.
      * apply N.eqb_eq in E. subst k'. rewrite Hp in IH |- *. exact IH.
      * exact IH.
Qed.

Lemma aget_adel k k' m : aget k (adel k' m) = if k' =? k then None else aget k m.
Proof. unfold adel. rewrite aget_afilter. destruct (k' =? k); reflexivity. Qed.

Lemma aget_adel_eq k m : aget k (adel k m) = None.
Proof. rewrite aget_adel, N.eqb_refl. reflexivity. Qed.

Lemma aget_adel_ne k k' m : k' <> k -> aget k (adel k' m) = aget k m.
Proof. intros H. rewrite aget_adel. destruct (k' =? k) eqn:E; [apply N.eqb_eq in E; congruence | reflexivity]. Qed.

Lemma aget_aput k k' v m : aget k (aput k' v m) = if k =? k' then Some v else aget k m.
Proof.
  unfold aput. cbn [aget]. destruct (k =? k') eqn:E; [reflexivity|].
  apply aget_adel_ne. intros ->. rewrite N.eqb_refl in E. discriminate.
Qed.

Lemma aget_aput_eq k v m : aget k (aput k v m) = Some v.
Proof. rewrite aget_aput, N.eqb_refl. reflexivity. Qed.

Lemma aget_aput_ne k k' v m : k <> k' -> aget k (aput k' v m) = aget k m.
Proof. intros H. rewrite aget_aput. destruct (k =? k') eqn:E; [apply N.eqb_eq in E; congruence | reflexivity]. Qed.

Lemma aget_adel_many k ks m : aget k (adel_many ks m) = if memN k ks then None else aget k m.
Proof. unfold adel_many. rewrite aget_afilter. destruct (memN k ks); reflexivity. Qed.

Lemma aget_In k v m : aget k m = Some v -> In (k, v) m.
Proof.
  induction m as [|[k' v'] r IH]; cbn [aget]; [discriminate|].
  destruct (k =? k') eqn:E.
  - apply N.eqb_eq in E. intros H. injection H as ->. subst. left. reflexivity.
  - intros H. right. auto.
Qed.

Lemma aget_None_keys k m : aget k m = None <-> ~ In k (akeys m).
Proof.
  induction m as [|[k' v'] r IH]; cbn [aget akeys map fst In].
  - tauto.
  - destruct (k =? k') eqn:E.
    + apply N.eqb_eq in E. subst. split; [discriminate | intros H; exfalso; apply H; auto].
    + apply N.eqb_neq in E. fold (akeys r). rewrite IH. split; [intros H [H1|H1]; [congruence|tauto] | tauto].
Qed.

Lemma In_keys_aget k m : In k (akeys m) <-> exists v, aget k m = Some v.
Proof.
  destruct (aget k m) as [v|] eqn:E.
  - split; [eauto|]. intros _. apply aget_In in E. apply in_map_iff. exists (k, v). auto.
  - apply aget_None_keys in E. split; [tauto | intros [v Hv]; discriminate].
Qed.

Lemma In_aget_nodup k v m : NoDup (akeys m) -> In (k, v) m -> aget k m = Some v.
Proof.
  induction m as [|[k' v'] r IH]; cbn [akeys map fst In aget]; [tauto|].
  intros Hnd [H|H].
  - injection H as -> ->. rewrite N.eqb_refl. reflexivity.
  - inversion Hnd as [|x l Hni Hnd']; subst. destruct (k =? k') eqn:E.
    + apply N.eqb_eq in E. subst. exfalso. apply Hni. apply in_map_iff. exists (k', v). auto.
    + auto.
Qed.

Lemma akeys_afilter p m : akeys (afilter p m) = filter p (akeys m).
Proof.
  induction m as [|[k v] r IH]; cbn [afilter filter akeys map fst]; [reflexivity|].
  fold (afilter p r). fold (akeys r). destruct (p k); cbn [map fst akeys]; fold (akeys (afilter p r)); rewrite IH; reflexivity.
Qed.

Lemma NoDup_filter {A} (p : A -> bool) l : NoDup l -> NoDup (filter p l).
Proof.
  induction 1 as [|x l Hni Hnd IH]; cbn [filter]; [constructor|].
  destruct (p x); [constructor; [|exact IH] | exact IH].
  intros H. apply filter_In in H. tauto.
Qed.

Lemma nodup_afilter p m : NoDup (akeys m) -> NoDup (akeys (afilter p m)).
Proof. rewrite akeys_afilter. apply NoDup_filter. Qed.

Lemma nodup_adel k m : NoDup (akeys m) -> NoDup (akeys (adel k m)).
Proof. apply nodup_afilter. Qed.

Lemma nodup_adel_many ks m : NoDup (akeys m) -> NoDup (akeys (adel_many ks m)).
Proof. apply nodup_afilter. Qed.

Lemma nodup_aput k v m : NoDup (akeys m) -> NoDup (akeys (aput k v m)).
Proof.
  intros H. unfold aput. cbn [akeys map fst]. constructor.
  - fold (akeys (adel k m)). apply aget_None_keys. apply aget_adel_eq.
  - apply nodup_adel. exact H.
Qed.

End AMap.
Arguments amap V : clear implicits.

(* ---- counting: a duplicate-free list of N inside an interval of n values has at most n elements ---- *)
Lemma NoDup_interval_length (l : list N) (a : N) (n : nat) :
  NoDup l -> (forall x, In x l -> a <= x /\ x < a + N.of_nat n) -> (length l <= n)%nat.
Proof.
  intros Hnd Hin.
  set (f := fun x : N => N.to_nat (x - a)).
  assert (Hnd' : NoDup (map f l)).
  { clear -Hnd Hin. induction Hnd as [|x l Hni Hnd IH]; cbn [map]; [constructor|].
    constructor.
    - intros H. apply in_map_iff in H. destruct H as [y [Hy Hyl]].
      assert (a <= x /\ x < a + N.of_nat n) by (apply Hin; left; reflexivity).
      assert (a <= y /\ y < a + N.of_nat n) by (apply Hin; right; exact Hyl).
      unfold f in Hy. assert (x = y) by lia. subst. contradiction.
    - apply IH. intros y Hy. apply Hin. right. exact Hy. }
  assert (Hincl : incl (map f l) (seq 0 n)).
  { intros y Hy. apply in_map_iff in Hy. destruct Hy as [x [<- Hx]]. apply Hin in Hx.
    apply in_seq. unfold f. lia. }
  pose proof (NoDup_incl_length Hnd' Hincl) as H. rewrite map_length, seq_length in H. exact H.
Qed.

(* a duplicate-free list contains a given value at most once *)
Lemma NoDup_filter_eq_length (l : list N) (a : N) :
  NoDup l -> (length (filter (fun x => x =? a) l) <= 1)%nat.
Proof.
  induction 1 as [|x l Hni Hnd IH]; cbn [filter length]; [lia|].
  destruct (x =? a) eqn:E; [|exact IH].
  apply N.eqb_eq in E. subst x. cbn [length].
  assert (filter (fun x => x =? a) l = []) as ->; [|cbn; lia].
  destruct (filter (fun x => x =? a) l) as [|y r] eqn:Ef; [reflexivity|].
  exfalso. assert (Hy : In y (filter (fun x => x =? a) l)) by (rewrite Ef; left; reflexivity).
  apply filter_In in Hy. destruct Hy as [Hy E]. apply N.eqb_eq in E. subst. contradiction.
Qed.

Lemma filter_split_length {A} (p : A -> bool) (l : list A) :
  length l = (length (filter p l) + length (filter (fun x => negb (p x)) l))%nat.
Proof.
  induction l as [|x l IH]; cbn [filter length]; [reflexivity|].
  destruct (p x); cbn [negb length]; lia.
Qed.
