(* Bytes.v — byte strings as [list N] (each element < 256), prefix test, big-endian. *)
From Coq Require Import List NArith Bool Lia.
Import ListNotations.
Local Open Scope N_scope.

Definition bytes := list N.

Fixpoint bytes_eqb (a b : bytes) : bool :=
  match a, b with
  | [], [] => true
  | x :: a', y :: b' => N.eqb x y && bytes_eqb a' b'
  | _, _ => false
  end.

Lemma bytes_eqb_eq a b : bytes_eqb a b = true <-> a = b.
Proof.
  revert b; induction a as [|x a IH]; intros [|y b]; cbn [bytes_eqb]; try (split; congruence).
  rewrite andb_true_iff, N.eqb_eq, IH. split; [intros [-> ->]; reflexivity | intros H; inversion H; auto].
Qed.

(* Go's bytes.HasPrefix s p *)
Fixpoint has_prefix (s p : bytes) {struct p} : bool :=
  match p, s with
  | [], _ => true
  | y :: p', x :: s' => N.eqb x y && has_prefix s' p'
  | _ :: _, [] => false
  end.

Definition is_prefix (p s : bytes) : Prop := exists t, s = p ++ t.

Lemma has_prefix_spec s p : has_prefix s p = true <-> is_prefix p s.
Proof.
  revert s; induction p as [|y p IH]; intros s; cbn [has_prefix].
  - split; [intros _; exists s; reflexivity | reflexivity].
  - destruct s as [|x s].
    + split; [discriminate | intros [t Ht]; discriminate Ht].
    + rewrite andb_true_iff, N.eqb_eq, IH. split.
      * intros [-> [t ->]]. exists t. reflexivity.
      * intros [t Ht]. cbn in Ht. inversion Ht; subst. split; [reflexivity | exists t; reflexivity].
Qed.
