(* Canoto.v — the canoto (protobuf-style, canonical) wire format as implemented by
   github.com/StephenButtolph/canoto v0.15.0 and the code it generates (the .canoto.go files).

   Go sources modelled (canoto.go): ReadTag, ReadUint / AppendUint (via Lib/Varint.v), ReadInt / AppendInt
   (zigzag), ReadFint64 / AppendFint64 (little endian), ReadBytes / AppendBytes, ReadBool, CountBytes + the
   generated "repeated" loops, the generated fixed-bytes field reader, IsZero checks, HasNext.

   What the generated decoders reject (each with its own error class, see [E_*]):
     truncated input, varints that overflow the target width, varints with padded zeroes (non-minimal),
     invalid wire types (3, 4, 6, 7), a field number below the minimum allowed next field (fields must be
     strictly increasing: out-of-order and duplicated fields), a known field with the wrong wire type,
     unknown fields, explicitly encoded zero values (zero int, zero fixed array, empty bytes / message for a
     non-repeated field), fixed-size byte fields with another length, bools other than 0/1.

   The generated loop  `for HasNext { ReadTag; field < minField?; switch field {...}; minField = field+1 }`
   is modelled in the equivalent sequential form: for each known field in increasing order, if the input
   starts with that field's tag the field is read ([opt_field]); whatever is left at the end is classified
   by [leftover] exactly like the loop's next iteration would (tag errors, order, wire type, unknown).
   The equivalence relies on tags being canonical varints (a tag is recognised iff the bytes equal the
   precomputed tag string) and is exercised by the differential check. *)
From Coq Require Import List ZArith NArith Bool Lia ZifyN ZifyNat ZifyBool.
Import ListNotations.
From HV Require Import Lib.Bytes Lib.Varint.
Local Open Scope N_scope.

(* ---- results with error classes ---------------------------------------------------------- *)

Inductive res (A : Type) : Type :=
| Ok (a : A)
| Err (e : N).
Arguments Ok {A} a.
Arguments Err {A} e.

Definition bind {A B} (r : res A) (f : A -> res B) : res B :=
  match r with Ok a => f a | Err e => Err e end.
Notation "' p <- r ;; k" := (bind r (fun p => k)) (at level 60, p pattern, r at next level, right associativity).
Notation "x <- r ;; k" := (bind r (fun x => k)) (at level 60, r at next level, right associativity).

Definition E_EOF : N := 1.            (* io.ErrUnexpectedEOF *)
Definition E_OVERFLOW : N := 2.       (* canoto.ErrOverflow *)
Definition E_PADDED : N := 3.         (* canoto.ErrPaddedZeroes *)
Definition E_INVALID_WIRE : N := 4.   (* canoto.ErrInvalidWireType *)
Definition E_ORDER : N := 5.          (* canoto.ErrInvalidFieldOrder *)
Definition E_WIRE : N := 6.           (* canoto.ErrUnexpectedWireType *)
Definition E_ZERO : N := 7.           (* canoto.ErrZeroValue *)
Definition E_UNKNOWN : N := 8.        (* canoto.ErrUnknownField *)
Definition E_LENGTH : N := 9.         (* canoto.ErrInvalidLength *)
Definition E_ACTION : N := 10.        (* parser.ParseAction failed *)
Definition E_AUTH : N := 11.          (* parser.ParseAuth failed *)
Definition E_BOOL : N := 12.          (* canoto.ErrInvalidBool *)
Definition E_NIL_TX : N := 13.        (* chain.ErrNilTxInBlock *)
Definition E_INTERNAL : N := 98.      (* unreachable model state *)

(* wire types *)
Definition WT_VARINT : N := 0.
Definition WT_I64 : N := 1.
Definition WT_LEN : N := 2.
Definition WT_I32 : N := 5.

Definition wf_bytes (bs : bytes) : Prop := Forall (fun b => b < 256) bs.

Definition blen (bs : bytes) : N := N.of_nat (length bs).
Definition take (n : N) (bs : bytes) : bytes := firstn (N.to_nat n) bs.
Definition drop (n : N) (bs : bytes) : bytes := skipn (N.to_nat n) bs.

(* ---- primitives -------------------------------------------------------------------------- *)

Definition read_uvar (bits : N) (bs : bytes) : res (N * bytes) :=
  match read_uint bits bs with
  | UvOk v r => Ok (v, r)
  | UvEOF => Err E_EOF
  | UvOverflow => Err E_OVERFLOW
  | UvPadded => Err E_PADDED
  end.

Definition wire_valid (wt : N) : bool := (wt =? 0) || (wt =? 1) || (wt =? 2) || (wt =? 5).

(* canoto.ReadTag: (field number, wire type, rest) *)
Definition read_tag (bs : bytes) : res (N * N * bytes) :=
  '(v, r) <- read_uvar 32 bs ;;
  let wt := v mod 8 in
  if wire_valid wt then Ok (v / 8, wt, r) else Err E_INVALID_WIRE.

(* canoto.Tag *)
Definition tag (field wt : N) : bytes := uvarint_enc (field * 8 + wt).

(* zigzag (canoto.AppendInt / ReadInt for int64) *)
Definition zigzag (z : Z) : N :=
  if (0 <=? z)%Z then Z.to_N (2 * z) else Z.to_N (-2 * z - 1).
Definition unzigzag (u : N) : Z :=
  if N.even u then Z.of_N (u / 2) else (- Z.of_N (u / 2) - 1)%Z.

Definition read_int64 (bs : bytes) : res (Z * bytes) :=
  '(u, r) <- read_uvar 64 bs ;; Ok (unzigzag u, r).
Definition enc_int64 (z : Z) : bytes := uvarint_enc (zigzag z).

Definition enc_uint (v : N) : bytes := uvarint_enc v.

(* little-endian fixed width *)
Fixpoint le_enc (n : nat) (v : N) : bytes :=
  match n with O => [] | S n' => (v mod 256) :: le_enc n' (v / 256) end.
Fixpoint le_dec (bs : bytes) : N :=
  match bs with [] => 0 | b :: r => b + 256 * le_dec r end.

(* canoto.ReadFint64: the uint64 bit pattern (an int64 field is its two's-complement reading) *)
Definition read_fint64 (bs : bytes) : res (N * bytes) :=
  if blen bs <? 8 then Err E_EOF else Ok (le_dec (take 8 bs), drop 8 bs).
Definition enc_fint64 (v : N) : bytes := le_enc 8 v.

(* canoto.ReadBytes *)
Definition read_bytes (bs : bytes) : res (bytes * bytes) :=
  '(len, r) <- read_uvar 64 bs ;;
  if blen r <? len then Err E_EOF else Ok (take len r, drop len r).
Definition enc_bytes (b : bytes) : bytes := uvarint_enc (blen b) ++ b.

Definition all_zero (bs : bytes) : bool := forallb (fun b => b =? 0) bs.
Definition zeros (n : nat) : bytes := repeat 0 n.

(* generated reader of a `fixed bytes` field of [n] bytes: length check, EOF, zero check *)
Definition read_fixed_bytes (n : N) (bs : bytes) : res (bytes * bytes) :=
  '(len, r) <- read_uvar 64 bs ;;
  if negb (len =? n) then Err E_LENGTH
  else if blen r <? n then Err E_EOF
  else let v := take n r in
       if all_zero v then Err E_ZERO else Ok (v, drop n r).

(* canoto.ReadBool *)
Definition read_bool (bs : bytes) : res (bool * bytes) :=
  match bs with
  | [] => Err E_EOF
  | b :: r => if 1 <? b then Err E_BOOL else Ok (b =? 1, r)
  end.

(* a field whose tag is [tg]: if the input starts with the tag, read it with [parse], else keep the
   default; the second component is the loop's minField afterwards *)
Definition opt_field {A} (tg : bytes) (field : N) (parse : bytes -> res (A * bytes)) (dflt : A)
                     (minf : N) (bs : bytes) : res (A * N * bytes) :=
  if has_prefix bs tg
  then '(v, r) <- parse (skipn (length tg) bs) ;; Ok (v, field + 1, r)
  else Ok (dflt, minf, bs).

(* what the loop does with input left after the last recognised field: [known f] = expected wire type *)
Definition leftover (known : N -> option N) (minf : N) (bs : bytes) : res unit :=
  match bs with
  | [] => Ok tt
  | _ =>
      '(f, wt, _) <- read_tag bs ;;
      if f <? minf then Err E_ORDER
      else match known f with
           | Some ewt => if wt =? ewt then Err E_INTERNAL else Err E_WIRE
           | None => Err E_UNKNOWN
           end
  end.

(* `repeated bytes` / `repeated pointer`: the first entry (tag already consumed) then every following
   entry introduced by the same tag (canoto.CountBytes + the generated loop).  Framing errors of any entry
   are reported before the entries are interpreted.  [fuel] bounds the number of entries by the input length. *)
Fixpoint read_more (fuel : nat) (tg : bytes) (bs : bytes) : res (list bytes * bytes) :=
  match fuel with
  | O => Ok ([], bs)
  | S fuel' =>
      if has_prefix bs tg then
        '(e, r) <- read_bytes (skipn (length tg) bs) ;;
        '(es, r') <- read_more fuel' tg r ;;
        Ok (e :: es, r')
      else Ok ([], bs)
  end.

Definition read_repeated (tg : bytes) (bs : bytes) : res (list bytes * bytes) :=
  '(e, r) <- read_bytes bs ;;
  '(es, r') <- read_more (length r) tg r ;;
  Ok (e :: es, r').

Definition enc_repeated (tg : bytes) (es : list bytes) : bytes :=
  flat_map (fun e => tg ++ enc_bytes e) es.

(* ================================ lemmas ================================ *)

Lemma wf_app a b : wf_bytes (a ++ b) <-> wf_bytes a /\ wf_bytes b.
Proof. unfold wf_bytes. apply Forall_app. Qed.

Lemma wf_skipn n bs : wf_bytes bs -> wf_bytes (skipn n bs).
Proof.
  intros H. rewrite <- (firstn_skipn n bs) in H. apply wf_app in H. tauto.
Qed.

Lemma wf_firstn n bs : wf_bytes bs -> wf_bytes (firstn n bs).
Proof.
  intros H. rewrite <- (firstn_skipn n bs) in H. apply wf_app in H. tauto.
Qed.

Lemma has_prefix_split bs tg : has_prefix bs tg = true -> bs = tg ++ skipn (length tg) bs.
Proof.
  intros H. apply has_prefix_spec in H. destruct H as [t ->].
  rewrite skipn_app, skipn_all, Nat.sub_diag. reflexivity.
Qed.

(* ---- varint: decoding is injective (canonical) ------------------------------------------- *)

Lemma uvarint_loop_canon buf : forall i x v nread last rest,
  wf_bytes buf ->
  uvarint_loop buf i x = RawOk v nread last rest ->
  exists m bs, buf = bs ++ rest /\ v = x + m * 2 ^ (7 * i) /\ last < 128 /\ i + 1 <= nread /\
    ((last <> 0 \/ nread = i + 1) -> bs = uvarint_enc m) /\ (last <> 0 -> m <> 0).
Proof.
  induction buf as [|b buf IH]; intros i x v nread last rest Hwf H; cbn [uvarint_loop] in H; [discriminate|].
  inversion Hwf as [|b' buf' Hb Hwf']; subst.
  destruct (N.eqb_spec i 10) as [|Hi]; [discriminate|].
  destruct (N.ltb_spec b 128) as [Hlt|Hge].
  - destruct ((i =? 9) && (1 <? b)); [discriminate|].
    inversion H; subst. exists last, [last].
    split; [reflexivity|]. split; [reflexivity|]. split; [exact Hlt|]. split; [lia|]. split.
    + intros _. rewrite uvarint_enc_unfold. apply N.ltb_lt in Hlt. rewrite Hlt. reflexivity.
    + intros Hnz. exact Hnz.
  - destruct (IH _ _ _ _ _ _ Hwf' H) as (m' & bs' & Hbuf & Hv & Hl & Hn & Henc & Hnz).
    pose proof (N.mod_lt b 128 ltac:(lia)) as Hm.
    pose proof (N.div_mod b 128 ltac:(lia)) as Hdm.
    assert (Hq : b / 128 = 1).
    { assert (b / 128 < 2) by (apply N.div_lt_upper_bound; lia).
      assert (1 <= b / 128) by (change 1 with (128 / 128); apply N.div_le_mono; lia). lia. }
    exists (b mod 128 + 128 * m'), (b :: bs'). repeat split.
    + cbn [app]. rewrite Hbuf. reflexivity.
    + rewrite Hv, pow7_succ. lia.
    + exact Hl.
    + lia.
    + intros [Hlast|Hnr]; [|lia].
      specialize (Hnz Hlast). rewrite (Henc (or_introl Hlast)).
      rewrite (uvarint_enc_unfold (b mod 128 + 128 * m')).
      destruct (N.ltb_spec (b mod 128 + 128 * m') 128) as [Hs|_]; [lia|].
      assert (Hmod : (b mod 128 + 128 * m') mod 128 = b mod 128).
      { rewrite (N.mul_comm 128 m'), N.mod_add by lia. apply N.mod_small. exact Hm. }
      assert (Hdiv : (b mod 128 + 128 * m') / 128 = m').
      { rewrite (N.mul_comm 128 m'), N.div_add by lia. rewrite N.div_small by exact Hm. lia. }
      rewrite Hmod, Hdiv. f_equal. lia.
    + intros Hlast. specialize (Hnz Hlast). lia.
Qed.

Lemma read_uint_canon bits buf v rest :
  wf_bytes buf -> read_uint bits buf = UvOk v rest ->
  buf = uvarint_enc v ++ rest /\ v < 2 ^ bits.
Proof.
  intros Hwf. unfold read_uint.
  destruct (uvarint_loop buf 0 0) as [v' nread last rest'| |] eqn:E; try discriminate.
  destruct (N.leb_spec (2 ^ bits) v') as [|Hfit]; [discriminate|].
  destruct ((1 <? nread) && (last =? 0)) eqn:Epad; [discriminate|].
  intros H; inversion H; subst.
  destruct (uvarint_loop_canon _ _ _ _ _ _ _ Hwf E) as (m & bs & Hbuf & Hv & Hl & Hn & Henc & _).
  cbn [N.mul] in Hv. change (2 ^ 0) with 1 in Hv. rewrite N.mul_1_r, N.add_0_l in Hv. subst m.
  split; [|exact Hfit]. rewrite Hbuf. f_equal. apply Henc. lia.
Qed.

Lemma read_uvar_canon bits bs v r :
  wf_bytes bs -> read_uvar bits bs = Ok (v, r) -> bs = uvarint_enc v ++ r /\ v < 2 ^ bits.
Proof.
  intros Hwf. unfold read_uvar. destruct (read_uint bits bs) eqn:E; try discriminate.
  intros H; inversion H; subst. apply read_uint_canon; assumption.
Qed.

Lemma read_uvar_wf bits bs v r : wf_bytes bs -> read_uvar bits bs = Ok (v, r) -> wf_bytes r.
Proof.
  intros Hwf H. destruct (read_uvar_canon _ _ _ _ Hwf H) as [Heq _]. rewrite Heq in Hwf.
  apply wf_app in Hwf. tauto.
Qed.

(* ---- zigzag ------------------------------------------------------------------------------ *)

Lemma zigzag_unzigzag u : zigzag (unzigzag u) = u.
Proof.
  unfold zigzag, unzigzag. pose proof (N.div_mod u 2 ltac:(lia)) as Hdm.
  pose proof (N.mod_lt u 2 ltac:(lia)) as Hm.
  destruct (N.even u) eqn:Ev.
  - assert (Hm0 : u mod 2 = 0).
    { apply N.even_spec in Ev. destruct Ev as [k ->]. rewrite N.mul_comm. apply N.mod_mul. lia. }
    destruct (Z.leb_spec 0 (Z.of_N (u / 2))); lia.
  - assert (Hm1 : u mod 2 = 1).
    { assert (Ho : N.odd u = true) by (rewrite <- N.negb_even, Ev; reflexivity).
      apply N.odd_spec in Ho. destruct Ho as [k ->].
      rewrite N.add_comm, N.mul_comm, N.mod_add by lia. reflexivity. }
    destruct (Z.leb_spec 0 (- Z.of_N (u / 2) - 1)); lia.
Qed.

Lemma unzigzag_zigzag z : unzigzag (zigzag z) = z.
Proof.
  unfold zigzag, unzigzag. destruct (Z.leb_spec 0 z) as [Hz|Hz].
  - assert (E : Z.to_N (2 * z) = 2 * Z.to_N z) by lia. rewrite E.
    rewrite N.even_mul. cbn [N.even orb].
    rewrite N.mul_comm, N.div_mul by lia. lia.
  - assert (E : Z.to_N (-2 * z - 1) = 1 + 2 * Z.to_N (- z - 1)) by lia. rewrite E.
    rewrite N.even_add_mul_2. cbn [N.even].
    rewrite N.add_comm, N.mul_comm, N.div_add_l by lia. cbn [N.div]. change (1 / 2) with 0. lia.
Qed.

Lemma unzigzag_zero u : unzigzag u = 0%Z <-> u = 0.
Proof.
  split; [|intros ->; reflexivity]. intros H.
  rewrite <- (zigzag_unzigzag u), H. reflexivity.
Qed.

Lemma read_int64_canon bs z r :
  wf_bytes bs -> read_int64 bs = Ok (z, r) -> bs = enc_int64 z ++ r.
Proof.
  intros Hwf. unfold read_int64, bind. destruct (read_uvar 64 bs) as [[u r']|] eqn:E; [|discriminate].
  intros H; inversion H; subst. unfold enc_int64. rewrite zigzag_unzigzag.
  apply (read_uvar_canon 64 bs u r Hwf E).
Qed.

(* ---- little endian ----------------------------------------------------------------------- *)

Lemma le_enc_dec bs : wf_bytes bs -> le_enc (length bs) (le_dec bs) = bs.
Proof.
  induction bs as [|b bs IH]; intros Hwf; [reflexivity|].
  inversion Hwf as [|b' bs' Hb Hwf']; subst. cbn [length le_enc le_dec].
  assert (Hm : (b + 256 * le_dec bs) mod 256 = b).
  { rewrite (N.mul_comm 256), N.mod_add by lia. apply N.mod_small. exact Hb. }
  assert (Hd : (b + 256 * le_dec bs) / 256 = le_dec bs).
  { rewrite (N.mul_comm 256), N.div_add by lia. rewrite N.div_small by exact Hb. lia. }
  rewrite Hm, Hd, (IH Hwf'). reflexivity.
Qed.

Lemma le_dec_zero bs : le_dec bs = 0 -> all_zero bs = true.
Proof.
  induction bs as [|b bs IH]; intros H; [reflexivity|]. cbn [le_dec] in H. cbn [all_zero forallb].
  assert (b = 0) by lia. assert (le_dec bs = 0) by lia. subst b. cbn. apply IH. assumption.
Qed.

Lemma take_length n bs : n <= blen bs -> length (take n bs) = N.to_nat n.
Proof. unfold take, blen. intros H. apply firstn_length_le. lia. Qed.

Lemma take_drop n bs : take n bs ++ drop n bs = bs.
Proof. apply firstn_skipn. Qed.

Lemma read_fint64_canon bs v r :
  wf_bytes bs -> read_fint64 bs = Ok (v, r) -> bs = enc_fint64 v ++ r.
Proof.
  intros Hwf. unfold read_fint64. destruct (N.ltb_spec (blen bs) 8) as [|Hlen]; [discriminate|].
  intros H; inversion H; subst. unfold enc_fint64.
  pose proof (take_length 8 bs Hlen) as Hl. change (N.to_nat 8) with 8%nat in Hl.
  rewrite <- Hl. rewrite le_enc_dec by (apply wf_firstn; exact Hwf). symmetry. apply take_drop.
Qed.

(* ---- bytes ------------------------------------------------------------------------------- *)

Lemma read_bytes_canon bs b r :
  wf_bytes bs -> read_bytes bs = Ok (b, r) -> bs = enc_bytes b ++ r /\ blen b < 2 ^ 64.
Proof.
  intros Hwf. unfold read_bytes, bind. destruct (read_uvar 64 bs) as [[len r']|] eqn:E; [|discriminate].
  destruct (N.ltb_spec (blen r') len) as [|Hlen]; [discriminate|].
  intros H; inversion H; subst.
  destruct (read_uvar_canon 64 bs len r' Hwf E) as [Hbs Hfit].
  assert (Hl : blen (take len r') = len).
  { unfold blen. rewrite take_length by exact Hlen. lia. }
  unfold enc_bytes. rewrite Hl. split; [|exact Hfit].
  rewrite Hbs, <- app_assoc, take_drop. reflexivity.
Qed.

Lemma read_bytes_wf bs b r : wf_bytes bs -> read_bytes bs = Ok (b, r) -> wf_bytes b /\ wf_bytes r.
Proof.
  intros Hwf H. destruct (read_bytes_canon _ _ _ Hwf H) as [Heq _]. rewrite Heq in Hwf.
  unfold enc_bytes in Hwf. rewrite !wf_app in Hwf. tauto.
Qed.

Lemma read_fixed_bytes_canon n bs v r :
  wf_bytes bs -> read_fixed_bytes n bs = Ok (v, r) ->
  bs = enc_bytes v ++ r /\ blen v = n /\ all_zero v = false.
Proof.
  intros Hwf. unfold read_fixed_bytes, bind. destruct (read_uvar 64 bs) as [[len r']|] eqn:E; [|discriminate].
  destruct (N.eqb_spec len n) as [->|]; cbn [negb]; [|discriminate].
  destruct (N.ltb_spec (blen r') n) as [|Hlen]; [discriminate|].
  destruct (all_zero (take n r')) eqn:Ez; [discriminate|].
  intros H; inversion H; subst.
  destruct (read_uvar_canon 64 bs n r' Hwf E) as [Hbs _].
  assert (Hl : blen (take n r') = n).
  { unfold blen. rewrite take_length by exact Hlen. lia. }
  unfold enc_bytes. rewrite Hl. repeat split; try assumption.
  rewrite Hbs, <- app_assoc, take_drop. reflexivity.
Qed.

Lemma read_more_canon fuel tg : forall bs es r,
  wf_bytes bs -> read_more fuel tg bs = Ok (es, r) -> bs = enc_repeated tg es ++ r.
Proof.
  induction fuel as [|fuel IH]; intros bs es r Hwf H; cbn [read_more] in H.
  - inversion H; subst. reflexivity.
  - destruct (has_prefix bs tg) eqn:Ep.
    + unfold bind in H.
      destruct (read_bytes (skipn (length tg) bs)) as [[e r1]|] eqn:E1; [|discriminate].
      destruct (read_more fuel tg r1) as [[es' r2]|] eqn:E2; [|discriminate].
      inversion H; subst.
      pose proof (wf_skipn (length tg) bs Hwf) as Hwf1.
      destruct (read_bytes_canon _ _ _ Hwf1 E1) as [Hs _].
      destruct (read_bytes_wf _ _ _ Hwf1 E1) as [_ Hwfr1].
      rewrite (has_prefix_split bs tg Ep), Hs, (IH r1 es' r Hwfr1 E2).
      cbn [enc_repeated flat_map]. rewrite <- !app_assoc. reflexivity.
    + inversion H; subst. reflexivity.
Qed.

Lemma read_repeated_canon tg bs es r :
  wf_bytes bs -> read_repeated tg bs = Ok (es, r) ->
  exists e es', es = e :: es' /\ bs = enc_bytes e ++ enc_repeated tg es' ++ r.
Proof.
  intros Hwf. unfold read_repeated, bind.
  destruct (read_bytes bs) as [[e r1]|] eqn:E1; [|discriminate].
  destruct (read_more (length r1) tg r1) as [[es' r2]|] eqn:E2; [|discriminate].
  intros H; inversion H; subst. exists e, es'. split; [reflexivity|].
  destruct (read_bytes_canon _ _ _ Hwf E1) as [Hs _].
  destruct (read_bytes_wf _ _ _ Hwf E1) as [_ Hwfr1].
  rewrite Hs, (read_more_canon _ _ _ _ _ Hwfr1 E2). reflexivity.
Qed.

Lemma leftover_ok known minf bs : leftover known minf bs = Ok tt -> bs = [].
Proof.
  destruct bs as [|b bs]; [reflexivity|]. unfold leftover, bind.
  destruct (read_tag (b :: bs)) as [[[f wt] r]|]; [|discriminate].
  destruct (f <? minf); [discriminate|]. destruct (known f) as [ewt|]; [|discriminate].
  destruct (wt =? ewt); discriminate.
Qed.
