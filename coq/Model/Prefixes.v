(* Model of state/metadata/state_manager.go:HasConflictingPrefixes.
   The Go loop keeps a list of already verified prefixes and compares each new prefix with every
   earlier one in both directions. *)
From Coq Require Import List NArith Bool.
Import ListNotations.
From HV Require Import Lib.Bytes.

Definition conflicts (p q : bytes) : bool := has_prefix p q || has_prefix q p.

(* inner loop: for _, vp := range verifiedPrefixes *)
Definition conflicts_any (p : bytes) (verified : list bytes) : bool := existsb (conflicts p) verified.

(* outer loop with accumulator verifiedPrefixes (appended at the end, as in the code) *)
Fixpoint has_conflict_from (verified prefixes : list bytes) : bool :=
  match prefixes with
  | [] => false
  | p :: rest => if conflicts_any p verified then true
                 else has_conflict_from (verified ++ [p]) rest
  end.

(* HasConflictingPrefixes(m, vm) with the three metadata prefixes first *)
Definition has_conflicting_prefixes (height fee timestamp : bytes) (vm : list bytes) : bool :=
  has_conflict_from [] ([height; fee; timestamp] ++ vm).
