(* Fetcher.v — labelled transition system for internal/fetcher/fetcher.go (model only, no proofs).

   Threads: the callers of Fetch (any number, concurrently: "Fetch can be called concurrently"), the
   callers of Get (any number, concurrently), [c_nw] worker goroutines (runWorker), the callers of Stop
   and Wait.  The labels are the lock-delimited regions and the channel operations of the code:

     LFetch i t ks     Fetch(ctx, t, ks), call number i: the region under f.l — the `f.err != nil` check
                       (refusal: the call returns f.err and registers nothing), then for each key in
                       order: unknown key -> new entry {blocked: [t]}, a task, blockers++ / cached key ->
                       nothing / pending key -> blocked = append(blocked, t), blockers++; waiter made iff
                       blockers > 0; f.txs[t] = tx
     LSend i           one `case f.tasks <- t` of the send loop of call i (needs room in the channel)
     LSendStop i       the `case <-f.stop: return f.err` alternative of that select (drops the call's
                       remaining tasks)
     LFetchRet i       the send loop of call i is finished: `return nil`
     LTake w           worker w: `case t, ok := <-f.tasks` with ok = true (FIFO head)
     LExit w           worker w: `case <-f.stop` or `!ok` (channel closed by Wait and drained)
     LRead w           worker w: `f.im.GetValue(t.ctx, t.key)` — the parent view is the parameter
                       [c_parent] (a missing key = database.ErrNotFound), [c_fail] is the key on which
                       the read fails (an injected error, or a value keys.NumChunks rejects)
     LSet w            worker w: the region under f.l of `set` (cache the datum, decrement the blockers
                       of the blocked txs, close the waiter of a tx that reaches 0, blocked = nil)
     LErrSet w         worker w: handleErr, first caller of setErr.Do: the region f.l{f.err = err}
     LErrSkip w        worker w: handleErr when setErr.Do already completed: nothing happens, the worker returns
     LErrClose         the current runner of setErr.Do executes close(f.stop) and leaves Do
                       (a worker then returns; other callers of Do were blocked until now)
     LStop             Stop(): handleErr(ErrStopped) as first caller of setErr.Do: f.l{f.err = ErrStopped}
                       (Stop when Do already ran is a no-op and is not a label)
     LGetBegin g t     Get(t), call number g: the RLock region looking up f.txs[t] (missing: returns ErrMissingTx)
     LGetWake g st     Get call g passes `if tx.waiter != nil { select {...} }`: st = false — waiter nil or
                       `case <-tx.waiter` (waiter closed); st = true — `case <-f.stop: return nil, f.err`
     LGetRead g        Get call g: the final RLock region building the map from the cache; returns it
     LWaitClose        Wait(): waitOnce.Do(close(f.tasks))
     LWaitRet          Wait(): wg.Wait() returned (every worker exited), setErr.Do(func(){}), return f.err

   Contract of the API encoded in the enabling conditions (fetcher.go: "Don't call Fetch after calling
   Stop or Wait", "Fetch should never be called after Wait is called"): LFetch is not enabled once the
   task channel is closed and LWaitClose is enabled only when no Fetch call still has a task to send
   (a weaker requirement than "every Fetch call has returned").  Fetch after/while Stop is allowed.

   Go panics are modelled by the flag [broken] (the model is exact up to the first such step; the theorems
   prove it is never set when transaction ids are distinct): closing a nil or an already closed waiter
   (`close(tx.waiter)` in set), a blocked id without tx record or a task whose key has no entry (nil
   dereference in set), a send on the closed task channel.

   Transaction ids: f.txs[txID] = tx overwrites.  With two Fetch calls for one id the code misbehaves
   (Props/C24.v C24_fetcher_distinct_ids_needed); the ghost flag [dupid] records that some Fetch call
   re-used an id.  Get keeps the *pointer* it looked up; the model looks the record up again by id, which
   is the same thing as long as [dupid] = false.

   The channel f.tasks has capacity [c_cap] (= the `txs` argument of New); a capacity 0 (rendezvous)
   channel behaves like a subset of the behaviours of capacity 1 for everything observed here. *)
From stdpp Require Import gmap.
From Coq Require Import NArith ZArith.
From HV Require Import Model.Keys.

Definition id := N.

Inductive ecode := EStopped | ERead.              (* f.err: ErrStopped / the error of the failing read *)
Inductive wstate := WNil | WOpen | WClosed.       (* tx.waiter: nil / open channel / closed channel *)
Inductive once := ONew | ORun (o : option nat) | ODone.   (* setErr: runner = worker (Some w) or Stop (None) *)

Record trec := mkT { blockers : Z; waiter : wstate; tkeys : list key }.
(* key.cache: None = nil, Some None = data{nil,false,0}, Some (Some v) = data{v,true,chunks} *)
Record krec := mkK { cache : option (option val); blocked : list id }.

Inductive gres := GMap (m : gmap key val) | GErr (e : option ecode) | GMissing.

Inductive wphase := WIdle | WHas (k : key) | WGot (k : key) (r : option val) | WFail (k : key) | WClosing | WExit.
Inductive fphase := FNone | FSend (t : id) | FRet (e : option ecode).
Inductive gphase := GNone | GWait (t : id) | GRead (t : id) | GRet (r : gres).

Inductive event :=
| EvRead (k : key)                          (* a worker called GetValue(k) on the parent view *)
| EvFetchRet (i : nat) (e : option ecode)    (* Fetch call i returned e *)
| EvGetRet (g : nat) (t : id) (r : gres)     (* Get call g (for tx t) returned r *)
| EvWaitRet (e : option ecode).

Record state := mkS {
  keys : key -> option krec;       (* f.keys *)
  txs : id -> option trec;         (* f.txs *)
  err : option ecode;              (* f.err *)
  onc : once;                      (* f.setErr *)
  stop : bool;                     (* f.stop closed *)
  tclosed : bool;                  (* f.tasks closed *)
  queue : list key;                (* f.tasks *)
  unsent : list (nat * key);       (* local `tasks` slices of the Fetch calls in their send loop *)
  fph : nat -> fphase;
  gph : nat -> gphase;
  ws : list wphase;
  dupid : bool;                    (* ghost: some Fetch call re-used a transaction id *)
  broken : bool;
  log : list event                 (* ghost: observable events, newest first *)
}.

Record cfg := mkC { c_parent : gmap key val; c_fail : option key; c_nw : nat; c_cap : nat }.

Definition upd {A B} `{EqDecision A} (f : A -> B) (x : A) (v : B) : A -> B :=
  fun y => if decide (x = y) then v else f y.

Definition init (c : cfg) : state :=
  mkS (fun _ => None) (fun _ => None) None ONew false false [] [] (fun _ => FNone) (fun _ => GNone)
      (replicate (c_nw c) WIdle) false false [].

(* ---- the region under f.l of Fetch --------------------------------------------------------------- *)
Definition fetch_key (t : id) (acc : (key -> option krec) * list key * Z) (k : key)
  : (key -> option krec) * list key * Z :=
  let '(K, tasks, b) := acc in
  match K k with
  | None => (upd K k (Some (mkK None [t])), tasks ++ [k], (b + 1)%Z)
  | Some kr =>
      match cache kr with
      | Some _ => acc
      | None => (upd K k (Some (mkK None (blocked kr ++ [t]))), tasks, (b + 1)%Z)
      end
  end.
Definition fetch_keys (t : id) (K : key -> option krec) (ks : list key) :=
  fold_left (fetch_key t) ks (K, [], 0%Z).

(* ---- the region under f.l of set ------------------------------------------------------------------ *)
Definition dec_one (acc : (id -> option trec) * bool) (t : id) : (id -> option trec) * bool :=
  let '(T, brk) := acc in
  match T t with
  | None => (T, true)
  | Some r =>
      let b := (blockers r - 1)%Z in
      if (b =? 0)%Z then
        match waiter r with
        | WOpen => (upd T t (Some (mkT b WClosed (tkeys r))), brk)
        | w => (upd T t (Some (mkT b w (tkeys r))), true)       (* close of a nil / closed channel *)
        end
      else (upd T t (Some (mkT b (waiter r) (tkeys r))), brk)
  end.
Definition notify (T : id -> option trec) (bl : list id) := fold_left dec_one bl (T, false).

(* ---- Get: the map built from the cache ------------------------------------------------------------- *)
Definition collect (K : key -> option krec) (ks : list key) : gmap key val :=
  foldr (fun k m => match K k with
                    | Some kr => match cache kr with Some (Some v) => <[k := v]> m | _ => m end
                    | None => m
                    end) ∅ ks.

(* what Get returns according to the property: the parent's entries of the listed keys *)
Definition get_map (parent : gmap key val) (ks : list key) : gmap key val :=
  foldr (fun k m => match parent !! k with Some v => <[k := v]> m | None => m end) ∅ ks.

Definition is_fail (c : cfg) (k : key) : bool :=
  match c_fail c with Some f => bool_decide (f = k) | None => false end.

(* ---- labels ---------------------------------------------------------------------------------------- *)
Inductive label :=
| LFetch (i : nat) (t : id) (ks : list key) | LSend (i : nat) | LSendStop (i : nat) | LFetchRet (i : nat)
| LTake (w : nat) | LExit (w : nat) | LRead (w : nat) | LSet (w : nat)
| LErrSet (w : nat) | LErrSkip (w : nat) | LErrClose | LStop
| LGetBegin (g : nat) (t : id) | LGetWake (g : nat) (st : bool) | LGetRead (g : nat)
| LWaitClose | LWaitRet.

Definition set_ws (s : state) (x : list wphase) : state :=
  mkS (keys s) (txs s) (err s) (onc s) (stop s) (tclosed s) (queue s) (unsent s) (fph s) (gph s) x
      (dupid s) (broken s) (log s).
Definition set_w (s : state) (w : nat) (p : wphase) : state := set_ws s (<[w := p]> (ws s)).
Definition set_fph (s : state) (i : nat) (p : fphase) (l : list event) : state :=
  mkS (keys s) (txs s) (err s) (onc s) (stop s) (tclosed s) (queue s) (unsent s) (upd (fph s) i p) (gph s) (ws s)
      (dupid s) (broken s) (l ++ log s).
Definition set_gph (s : state) (g : nat) (p : gphase) (l : list event) : state :=
  mkS (keys s) (txs s) (err s) (onc s) (stop s) (tclosed s) (queue s) (unsent s) (fph s) (upd (gph s) g p) (ws s)
      (dupid s) (broken s) (l ++ log s).

Definition mine (i : nat) (p : nat * key) : bool := Nat.eqb (fst p) i.
(* first task of call i and the list without it *)
Fixpoint pop_first (i : nat) (l : list (nat * key)) : option (key * list (nat * key)) :=
  match l with
  | [] => None
  | p :: l' => if mine i p then Some (snd p, l')
               else match pop_first i l' with Some (k, r) => Some (k, p :: r) | None => None end
  end.

Definition all_exited (l : list wphase) : bool :=
  forallb (fun p => match p with WExit => true | _ => false end) l.

Definition step (c : cfg) (s : state) (l : label) : option state :=
  match l with
  | LFetch i t ks =>
      match fph s i with
      | FNone =>
          if tclosed s then None else
          match err s with
          | Some e => Some (set_fph s i (FRet (Some e)) [EvFetchRet i (Some e)])
          | None =>
              let '(K, tasks, b) := fetch_keys t (keys s) ks in
              let r := mkT b (if (0 <? b)%Z then WOpen else WNil) ks in
              Some (mkS K (upd (txs s) t (Some r)) (err s) (onc s) (stop s) (tclosed s) (queue s)
                        (unsent s ++ map (fun k => (i, k)) tasks) (upd (fph s) i (FSend t)) (gph s) (ws s)
                        (dupid s || match txs s t with Some _ => true | None => false end) (broken s) (log s))
          end
      | _ => None
      end
  | LSend i =>
      match fph s i, pop_first i (unsent s) with
      | FSend _, Some (k, rest) =>
          if Nat.ltb (length (queue s)) (c_cap c) then
            Some (mkS (keys s) (txs s) (err s) (onc s) (stop s) (tclosed s) (queue s ++ [k]) rest (fph s) (gph s)
                      (ws s) (dupid s) (broken s || tclosed s) (log s))
          else None
      | _, _ => None
      end
  | LSendStop i =>
      match fph s i, pop_first i (unsent s) with
      | FSend _, Some _ =>
          if stop s then
            Some (mkS (keys s) (txs s) (err s) (onc s) (stop s) (tclosed s) (queue s)
                      (filter (fun p => negb (mine i p)) (unsent s)) (upd (fph s) i (FRet (err s))) (gph s)
                      (ws s) (dupid s) (broken s) (EvFetchRet i (err s) :: log s))
          else None
      | _, _ => None
      end
  | LFetchRet i =>
      match fph s i, pop_first i (unsent s) with
      | FSend _, None => Some (set_fph s i (FRet None) [EvFetchRet i None])
      | _, _ => None
      end
  | LTake w =>
      match ws s !! w, queue s with
      | Some WIdle, k :: q =>
          Some (mkS (keys s) (txs s) (err s) (onc s) (stop s) (tclosed s) q (unsent s) (fph s) (gph s)
                    (<[w := WHas k]> (ws s)) (dupid s) (broken s) (log s))
      | _, _ => None
      end
  | LExit w =>
      match ws s !! w with
      | Some WIdle =>
          if stop s || (tclosed s && match queue s with [] => true | _ => false end)
          then Some (set_w s w WExit) else None
      | _ => None
      end
  | LRead w =>
      match ws s !! w with
      | Some (WHas k) =>
          let p := if is_fail c k then WFail k else WGot k (c_parent c !! k) in
          Some (mkS (keys s) (txs s) (err s) (onc s) (stop s) (tclosed s) (queue s) (unsent s) (fph s) (gph s)
                    (<[w := p]> (ws s)) (dupid s) (broken s) (EvRead k :: log s))
      | _ => None
      end
  | LSet w =>
      match ws s !! w with
      | Some (WGot k r) =>
          match keys s k with
          | None => Some (mkS (keys s) (txs s) (err s) (onc s) (stop s) (tclosed s) (queue s) (unsent s) (fph s)
                              (gph s) (<[w := WIdle]> (ws s)) (dupid s) true (log s))
          | Some kr =>
              let '(T, brk) := notify (txs s) (blocked kr) in
              Some (mkS (upd (keys s) k (Some (mkK (Some r) []))) T (err s) (onc s) (stop s) (tclosed s) (queue s)
                        (unsent s) (fph s) (gph s) (<[w := WIdle]> (ws s)) (dupid s) (broken s || brk) (log s))
          end
      | _ => None
      end
  | LErrSet w =>
      match ws s !! w, onc s with
      | Some (WFail _), ONew =>
          Some (mkS (keys s) (txs s) (Some ERead) (ORun (Some w)) (stop s) (tclosed s) (queue s) (unsent s) (fph s)
                    (gph s) (<[w := WClosing]> (ws s)) (dupid s) (broken s) (log s))
      | _, _ => None
      end
  | LErrSkip w =>
      match ws s !! w, onc s with
      | Some (WFail _), ODone => Some (set_w s w WExit)
      | _, _ => None
      end
  | LErrClose =>
      match onc s with
      | ORun o =>
          Some (mkS (keys s) (txs s) (err s) ODone true (tclosed s) (queue s) (unsent s) (fph s) (gph s)
                    (match o with Some w => <[w := WExit]> (ws s) | None => ws s end)
                    (dupid s) (broken s) (log s))
      | _ => None
      end
  | LStop =>
      match onc s with
      | ONew =>
          Some (mkS (keys s) (txs s) (Some EStopped) (ORun None) (stop s) (tclosed s) (queue s) (unsent s) (fph s)
                    (gph s) (ws s) (dupid s) (broken s) (log s))
      | _ => None
      end
  | LGetBegin g t =>
      match gph s g with
      | GNone =>
          match txs s t with
          | None => Some (set_gph s g (GRet GMissing) [EvGetRet g t GMissing])
          | Some _ => Some (set_gph s g (GWait t) [])
          end
      | _ => None
      end
  | LGetWake g st =>
      match gph s g with
      | GWait t =>
          match txs s t with
          | None => None
          | Some r =>
              match waiter r, st with
              | WNil, false => Some (set_gph s g (GRead t) [])
              | WClosed, false => Some (set_gph s g (GRead t) [])
              | WOpen, true | WClosed, true =>
                  if stop s then Some (set_gph s g (GRet (GErr (err s))) [EvGetRet g t (GErr (err s))]) else None
              | _, _ => None
              end
          end
      | _ => None
      end
  | LGetRead g =>
      match gph s g with
      | GRead t =>
          match txs s t with
          | None => None
          | Some r =>
              let m := GMap (collect (keys s) (tkeys r)) in
              Some (set_gph s g (GRet m) [EvGetRet g t m])
          end
      | _ => None
      end
  | LWaitClose =>
      if tclosed s then None else
      match unsent s with
      | [] => Some (mkS (keys s) (txs s) (err s) (onc s) (stop s) true (queue s) (unsent s) (fph s) (gph s) (ws s)
                        (dupid s) (broken s) (log s))
      | _ => None
      end
  | LWaitRet =>
      if tclosed s && all_exited (ws s) then
        match onc s with
        | ORun _ => None
        | _ => Some (mkS (keys s) (txs s) (err s) ODone (stop s) (tclosed s) (queue s) (unsent s) (fph s) (gph s)
                         (ws s) (dupid s) (broken s) (EvWaitRet (err s) :: log s))
        end
      else None
  end.

(* all traces: every finite sequence of enabled labels from [init] *)
Inductive steps (c : cfg) : state -> list label -> state -> Prop :=
| steps_nil : forall s, steps c s [] s
| steps_snoc : forall s tr s1 l s2, steps c s tr s1 -> step c s1 l = Some s2 -> steps c s (tr ++ [l]) s2.

Definition reachable (c : cfg) (s : state) : Prop := exists tr, steps c (init c) tr s.

(* executable replay of a label list *)
Fixpoint run_labels (c : cfg) (s : state) (ls : list label) : option state :=
  match ls with
  | [] => Some s
  | l :: ls' => match step c s l with Some s' => run_labels c s' ls' | None => None end
  end.

(* ---- observables ----------------------------------------------------------------------------------- *)
(* keys requested from the parent, oldest first *)
Definition reads (s : state) : list key :=
  rev (omap (fun e => match e with EvRead k => Some k | _ => None end) (log s)).
(* keys listed by the Fetch calls of a trace that were not refused at the f.err check *)
Definition get_results (s : state) : list (nat * id * gres) :=
  rev (omap (fun e => match e with EvGetRet g t r => Some (g, t, r) | _ => None end) (log s)).

(* ---- a deterministic scheduler (used by the examples and by Check/C24F_check.v) --------------------
   [internal c s n ng]: the labels of the fetcher's own threads and of the blocked callers for call
   numbers < n (Fetch), < ng (Get) and the workers; [drive] fires the first enabled one until none is. *)
Definition internal (c : cfg) (n ng : nat) : list label :=
  flat_map (fun w => [LSet w; LRead w; LErrSet w; LErrSkip w; LTake w; LExit w]) (seq 0 (c_nw c)) ++
  [LErrClose] ++
  flat_map (fun i => [LSend i; LSendStop i; LFetchRet i]) (seq 0 n) ++
  flat_map (fun g => [LGetRead g; LGetWake g false; LGetWake g true]) (seq 0 ng).

Fixpoint first_enabled (c : cfg) (s : state) (ls : list label) : option state :=
  match ls with
  | [] => None
  | l :: ls' => match step c s l with Some s' => Some s' | None => first_enabled c s ls' end
  end.

Fixpoint drive (c : cfg) (n ng : nat) (fuel : nat) (s : state) : state :=
  match fuel with
  | O => s
  | S f => match first_enabled c s (internal c n ng) with Some s' => drive c n ng f s' | None => s end
  end.
