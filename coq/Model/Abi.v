(* Abi.v — executable model for C29.

   Code modelled (hypersdk /repo):
     abi/abi.go                      describeStruct / describeTypedStruct / NewABI     -> desc_fields, desc_loop, describe
     abi/dynamic/reflect_marshal.go  getReflectType / Marshal / Unmarshal              -> reflect, dyn_marshal, dyn_unmarshal
     avalanchego codec/reflectcodec  marshal / unmarshal (codec.LinearCodec)           -> enc, dec
     avalanchego utils/wrappers      Packer (big endian ints, u16 strings, u32 slices) -> be, take, enc_prim, dec_prim

   Type universe [ty]: the Go types an action / output struct is built from: fixed-width ints, bool, string,
   codec.Address, named scalar types (type Permissions byte), slices ([]byte = TSlice (TPrim U8)), arrays, structs
   with per-field Go name / json tag / serialize tag / embedded flag.  Values [value] carry one entry per
   *serialized* field.  JSON <-> value is Go's encoding/json: not modelled (an oracle of the driver); its only
   effect visible here is that an untagged embedded struct is flattened, which is [canon_val]. *)
From Coq Require Import List NArith ZArith Bool String Ascii Lia.
From Coq Require Import DecimalString DecimalN.
Import ListNotations.
From HV Require Import Lib.Bytes.
Local Open Scope N_scope.

(* ------------------------------------------------------------------ types and values *)

Inductive prim := U8 | U16 | U32 | U64 | I8 | I16 | I32 | I64 | PBool | PString.

(* one struct field: Go name, json tag name (part before the first comma; None = no json tag),
   serialize:"true" present, anonymous (embedded) field *)
Record finfo := FI { f_go : string; f_json : option string; f_ser : bool; f_emb : bool }.

Inductive ty :=
| TPrim (p : prim)
| TAddress                                  (* codec.Address = [33]byte, Name() = "Address" *)
| TNamed (nm : string) (p : prim)           (* type nm <prim>, e.g. state.Permissions *)
| TSlice (t : ty)
| TArray (n : N) (t : ty)
| TStruct (nm : string) (fs : fields)
with fields :=
| FNil
| FCons (i : finfo) (t : ty) (rest : fields).

Scheme ty_mind := Induction for ty Sort Prop
  with fields_mind := Induction for fields Sort Prop.
Combined Scheme ty_fields_ind from ty_mind, fields_mind.

Inductive value :=
| VNum (z : Z)
| VBool (b : bool)
| VStr (s : bytes)
| VList (l : list value).      (* slice / array / Address elements, struct: serialized fields in order *)

Definition prim_eqb (a b : prim) : bool :=
  match a, b with
  | U8, U8 | U16, U16 | U32, U32 | U64, U64 | I8, I8 | I16, I16 | I32, I32 | I64, I64
  | PBool, PBool | PString, PString => true
  | _, _ => false
  end.

Fixpoint fapp (a b : fields) : fields :=
  match a with FNil => b | FCons i t r => FCons i t (fapp r b) end.

(* effective field name: json tag name if a json tag is present, else the Go field name *)
Definition jname (i : finfo) : string :=
  match f_json i with Some s => s | None => f_go i end.

(* ------------------------------------------------------------------ wire format: wrappers.Packer *)

(* k big-endian bytes of n (n mod 256^k) *)
Fixpoint be (k : nat) (n : N) : bytes :=
  match k with O => [] | S k' => be k' (n / 256) ++ [n mod 256] end.

Definition unbe (bs : bytes) : N := fold_left (fun acc b => acc * 256 + b) bs 0.

Fixpoint take (n : nat) (bs : bytes) : option (bytes * bytes) :=
  match n with
  | O => Some ([], bs)
  | S n' => match bs with
            | [] => None                      (* ErrInsufficientLength *)
            | b :: bs' => match take n' bs' with Some (h, r) => Some (b :: h, r) | None => None end
            end
  end.

Definition len (A : Type) (l : list A) : N := N.of_nat (List.length l).
Arguments len {A} l.

Definition prim_bytes (p : prim) : nat :=
  match p with U8 | I8 | PBool => 1 | U16 | I16 => 2 | U32 | I32 => 4 | U64 | I64 => 8 | PString => 0 end%nat.

Definition prim_signed (p : prim) : bool :=
  match p with I8 | I16 | I32 | I64 => true | _ => false end.

Definition pow256 (k : nat) : Z := Z.pow 256 (Z.of_nat k).

(* reflectcodec.marshal, scalar kinds: uint8(value.Int()) etc. = two's complement truncation *)
Definition enc_prim (p : prim) (v : value) : option bytes :=
  match p, v with
  | PBool, VBool b => Some [if b then 1 else 0]
  | PString, VStr s => if len s <=? 65535 then Some (be 2 (len s) ++ s) else None   (* PackStr: MaxStringLen *)
  | PBool, _ | PString, _ => None
  | _, VNum z => Some (be (prim_bytes p) (Z.to_N (Z.modulo z (pow256 (prim_bytes p)))))
  | _, _ => None
  end.

Definition dec_prim (p : prim) (bs : bytes) : option (value * bytes) :=
  match p with
  | PBool => match bs with
             | 0 :: r => Some (VBool false, r)
             | 1 :: r => Some (VBool true, r)
             | _ => None                          (* errBadBool / insufficient *)
             end
  | PString => match take 2 bs with
               | Some (h, r) => match take (N.to_nat (unbe h)) r with
                                | Some (s, r') => Some (VStr s, r')
                                | None => None
                                end
               | None => None
               end
  | _ => match take (prim_bytes p) bs with
         | Some (h, r) =>
             let u := Z.of_N (unbe h) in
             let z := if prim_signed p && (Z.leb (pow256 (prim_bytes p)) (2 * u)) then (u - pow256 (prim_bytes p))%Z else u in
             Some (VNum z, r)
         | None => None
         end
  end.

(* encode the elements of a slice (strict = true: an element of encoded length 0 is
   ErrMarshalZeroLength) or of an array / Address (strict = false) *)
Fixpoint enc_seq (strict : bool) (f : value -> option bytes) (l : list value) : option bytes :=
  match l with
  | [] => Some []
  | v :: l' => match f v, enc_seq strict f l' with
               | Some b, Some bs => if strict && (match b with [] => true | _ => false end) then None else Some (b ++ bs)
               | _, _ => None
               end
  end.

(* decode n elements *)
Fixpoint dec_seq (strict : bool) (f : bytes -> option (value * bytes)) (n : nat) (bs : bytes)
  : option (list value * bytes) :=
  match n with
  | O => Some ([], bs)
  | S n' => match f bs with
            | Some (v, r) =>
                if strict && (List.length r =? List.length bs)%nat then None      (* ErrUnmarshalZeroLength *)
                else match dec_seq strict f n' r with
                     | Some (vs, r') => Some (v :: vs, r')
                     | None => None
                     end
            | None => None
            end
  end.

Definition max_int32 : N := 2147483647.

(* ------------------------------------------------------------------ linear codec on typed values *)

Fixpoint enc (t : ty) (v : value) {struct t} : option bytes :=
  match t with
  | TPrim p => enc_prim p v
  | TNamed _ p => enc_prim p v
  | TAddress =>
      match v with
      | VList l => if len l =? 33 then enc_seq false (enc_prim U8) l else None
      | _ => None
      end
  | TSlice t' =>
      match v with
      | VList l => if max_int32 <? len l then None                      (* ErrMaxSliceLenExceeded *)
                   else match enc_seq true (enc t') l with
                        | Some bs => Some (be 4 (len l) ++ bs)
                        | None => None
                        end
      | _ => None
      end
  | TArray n t' =>
      match v with
      | VList l => if len l =? n then enc_seq false (enc t') l else None
      | _ => None
      end
  | TStruct _ fs =>
      match v with
      | VList l => enc_fields fs l
      | _ => None
      end
  end
with enc_fields (fs : fields) (vs : list value) {struct fs} : option bytes :=
  match fs with
  | FNil => match vs with [] => Some [] | _ => None end
  | FCons i t rest =>
      if f_ser i then
        match vs with
        | v :: vs' => match enc t v, enc_fields rest vs' with
                      | Some a, Some b => Some (a ++ b)
                      | _, _ => None
                      end
        | [] => None
        end
      else enc_fields rest vs             (* GetSerializedFields skips fields without serialize:"true" *)
  end.

(* reflectcodec.unmarshal.  Slice: the Go loop runs numElts times and fails on the first element that
   cannot be decoded or has length zero; every successful element consumes >= 1 byte, hence the loop fails
   whenever numElts exceeds the remaining bytes — the model tests that first so that the iteration count is
   bounded by the input length (the []byte fast path UnpackFixedBytes(numElts) is the same function). *)
Fixpoint dec (t : ty) (bs : bytes) {struct t} : option (value * bytes) :=
  match t with
  | TPrim p => dec_prim p bs
  | TNamed _ p => dec_prim p bs
  | TAddress =>
      match dec_seq false (dec_prim U8) 33 bs with
      | Some (vs, r) => Some (VList vs, r)
      | None => None
      end
  | TSlice t' =>
      match take 4 bs with
      | Some (h, r) =>
          let n := unbe h in
          if max_int32 <? n then None
          else if len r <? n then None
          else match dec_seq true (dec t') (N.to_nat n) r with
               | Some (vs, r') => Some (VList vs, r')
               | None => None
               end
      | None => None
      end
  | TArray n t' =>
      match dec_seq false (dec t') (N.to_nat n) bs with
      | Some (vs, r) => Some (VList vs, r)
      | None => None
      end
  | TStruct _ fs =>
      match dec_fields fs bs with
      | Some (vs, r) => Some (VList vs, r)
      | None => None
      end
  end
with dec_fields (fs : fields) (bs : bytes) {struct fs} : option (list value * bytes) :=
  match fs with
  | FNil => Some ([], bs)
  | FCons i t rest =>
      if f_ser i then
        match dec t bs with
        | Some (v, r) => match dec_fields rest r with
                         | Some (vs, r') => Some (v :: vs, r')
                         | None => None
                         end
        | None => None
        end
      else dec_fields rest bs
  end.

(* "v is a value of Go type t" *)
Definition wt_prim (p : prim) (v : value) : bool :=
  match p, v with
  | PBool, VBool _ => true
  | PString, VStr s => (len s <=? 65535) && forallb (fun b => b <? 256) s
  | PBool, _ | PString, _ => false
  | _, VNum z =>
      if prim_signed p then (Z.leb (- (pow256 (prim_bytes p) / 2)) z && Z.ltb z (pow256 (prim_bytes p) / 2))%Z
      else (Z.leb 0 z && Z.ltb z (pow256 (prim_bytes p)))%Z
  | _, _ => false
  end.

Fixpoint wt (t : ty) (v : value) {struct t} : bool :=
  match t with
  | TPrim p => wt_prim p v
  | TNamed _ p => wt_prim p v
  | TAddress => match v with VList l => (len l =? 33) && forallb (wt_prim U8) l | _ => false end
  | TSlice t' => match v with VList l => (len l <=? max_int32) && forallb (wt t') l | _ => false end
  | TArray n t' => match v with VList l => (len l =? n) && forallb (wt t') l | _ => false end
  | TStruct _ fs => match v with VList l => wt_fields fs l | _ => false end
  end
with wt_fields (fs : fields) (vs : list value) {struct fs} : bool :=
  match fs with
  | FNil => match vs with [] => true | _ => false end
  | FCons i t rest =>
      if f_ser i then match vs with v :: vs' => wt t v && wt_fields rest vs' | [] => false end
      else wt_fields rest vs
  end.

(* ------------------------------------------------------------------ abi.go: describing a type *)

Definition primname (p : prim) : string :=
  match p with
  | U8 => "uint8" | U16 => "uint16" | U32 => "uint32" | U64 => "uint64"
  | I8 => "int8" | I16 => "int16" | I32 => "int32" | I64 => "int64"
  | PBool => "bool" | PString => "string"
  end%string.

Definition dec_string (n : N) : string := NilEmpty.string_of_uint (N.to_uint n).

(* describeStruct: `for fieldType.Name() == ""` prefix loop, then the base type's Name() *)
Fixpoint tyname (t : ty) : string :=
  match t with
  | TPrim p => primname p
  | TAddress => "Address"
  | TNamed nm _ => nm
  | TSlice t' => "[]" ++ tyname t'
  | TArray n t' => "[" ++ dec_string n ++ "]" ++ tyname t'
  | TStruct nm _ => nm
  end%string.

Fixpoint base (t : ty) : ty :=
  match t with TSlice t' => base t' | TArray _ t' => base t' | _ => t end.

Definition abitype : Type := string * list (string * string).     (* abi.Type: name, fields (name, type) *)

(* describeStruct(t): (fields, otherStructsSeen) *)
Fixpoint desc_fields (fs : fields) : list (string * string) * list ty :=
  match fs with
  | FNil => ([], [])
  | FCons i t rest =>
      let '(fr, mr) := desc_fields rest in
      if f_ser i then
        match t with
        | TStruct _ fs' =>
            if f_emb i then let '(fe, me) := desc_fields fs' in (fe ++ fr, me ++ mr)   (* flatten embedded struct *)
            else ((jname i, tyname t) :: fr, t :: mr)
        | _ => ((jname i, tyname t) :: fr,
                (match base t with TStruct _ _ => [base t] | _ => [] end) ++ mr)
        end
      else (fr, mr)
  end.

Fixpoint mem_str (s : string) (l : list string) : bool :=
  match l with [] => false | x :: l' => String.eqb s x || mem_str s l' end.

(* describeTypedStruct's work list.  [seen] = typesAlreadyProcessed (the Go set is keyed by reflect.Type,
   NewABI then drops types whose *name* was already emitted; with struct names identifying struct types —
   hypothesis [names_consistent] of the theorems — keying by name is the same). *)
Fixpoint desc_loop (fuel : nat) (left : list ty) (seen : list string) (acc : list abitype)
  : list string * list abitype :=
  match fuel with
  | O => (seen, acc)
  | S f =>
      match find (fun t => negb (mem_str (tyname t) seen)) left with
      | Some (TStruct nm fs) =>
          let '(fl, more) := desc_fields fs in
          desc_loop f (left ++ more) (nm :: seen) (acc ++ [(nm, fl)])
      | _ => (seen, acc)
      end
  end.

Fixpoint nstructs (t : ty) : nat :=
  match t with
  | TSlice t' => nstructs t'
  | TArray _ t' => nstructs t'
  | TStruct _ fs => S (nstructs_fields fs)
  | _ => O
  end
with nstructs_fields (fs : fields) : nat :=
  match fs with FNil => O | FCons _ t r => (nstructs t + nstructs_fields r)%nat end.

(* NewABI(actions ++ outputs): Types list *)
Definition new_abi (roots : list ty) : list abitype :=
  snd (fold_left (fun '(seen, acc) t => desc_loop (S (nstructs t)) [t] seen acc) roots ([], [])).

Definition describe (t : ty) : list abitype := new_abi [t].

(* ------------------------------------------------------------------ reflect_marshal.go: getReflectType *)

Fixpoint lookup (nm : string) (a : list abitype) : option (list (string * string)) :=
  match a with
  | [] => None
  | (n, fl) :: a' => if String.eqb n nm then Some fl else lookup nm a'
  end.

Fixpoint drop_prefix (p s : string) : option string :=
  match p with
  | EmptyString => Some s
  | String c p' => match s with
                   | String d s' => if Ascii.eqb c d then drop_prefix p' s' else None
                   | EmptyString => None
                   end
  end.

(* split at the first "]" *)
Fixpoint split_rb (s : string) : option (string * string) :=
  match s with
  | EmptyString => None
  | String c s' => if Ascii.eqb c "]" then Some (EmptyString, s')
                   else match split_rb s' with
                        | Some (a, b) => Some (String c a, b)
                        | None => None
                        end
  end.

(* fixedSizeArrayRegex ^\[(\d+)\](.+)$ + strconv.Atoi *)
Definition parse_array (s : string) : option (N * string) :=
  match s with
  | String c s' =>
      if Ascii.eqb "[" c then
        match split_rb s' with
        | Some (ds, rest) =>
            match ds, rest with
            | EmptyString, _ => None
            | _, EmptyString => None
            | _, _ => match NilEmpty.uint_of_string ds with
                      | Some u => Some (N.of_uint u, rest)
                      | None => None
                      end
            end
        | None => None
        end
      else None
  | EmptyString => None
  end.

(* field of a reflect.StructOf type: Name = cases.Title(name) (not modelled: the Go name of a field has no
   influence on the codec or on JSON, which uses the tag), Tag = serialize:"true" json:"<name>" *)
Definition rfield (nm : string) : finfo := FI nm (Some nm) true false.

(* the loop over abiType.Fields; [r] = getReflectType on a field's type name *)
Fixpoint reflect_fields (r : string -> option ty) (fl : list (string * string)) : option fields :=
  match fl with
  | [] => Some FNil
  | (fn, ft) :: fl' =>
      match r ft, reflect_fields r fl' with
      | Some t, Some rest => Some (FCons (rfield fn) t rest)
      | _, _ => None
      end
  end.

Fixpoint reflect (fuel : nat) (a : list abitype) (nm : string) : option ty :=
  match fuel with
  | O => None
  | S f =>
      if String.eqb nm "string" then Some (TPrim PString)
      else if String.eqb nm "uint8" then Some (TPrim U8)
      else if String.eqb nm "uint16" then Some (TPrim U16)
      else if String.eqb nm "uint32" then Some (TPrim U32)
      else if String.eqb nm "uint64" then Some (TPrim U64)
      else if String.eqb nm "int8" then Some (TPrim I8)
      else if String.eqb nm "int16" then Some (TPrim I16)
      else if String.eqb nm "int32" then Some (TPrim I32)
      else if String.eqb nm "int64" then Some (TPrim I64)
      else if String.eqb nm "Address" then Some TAddress
      else match drop_prefix "[]" nm with
           | Some rest => option_map TSlice (reflect f a rest)
           | None =>
               match parse_array nm with
               | Some (n, rest) => option_map (TArray n) (reflect f a rest)
               | None =>
                   match lookup nm a with
                   | None => None                                  (* "type %s not found in ABI" *)
                   | Some fl => option_map (TStruct nm) (reflect_fields (reflect f a) fl)
                   end
               end
           end
  end.

(* the type getReflectType builds from the description of t: embedded structs flattened, non-serialized
   fields dropped, every field tagged serialize:"true" json:"<effective name>" *)
Fixpoint canon (t : ty) : ty :=
  match t with
  | TSlice t' => TSlice (canon t')
  | TArray n t' => TArray n (canon t')
  | TStruct nm fs => TStruct nm (canon_fields fs)
  | _ => t
  end
with canon_fields (fs : fields) : fields :=
  match fs with
  | FNil => FNil
  | FCons i t rest =>
      if f_ser i then
        match t with
        | TStruct _ fs' =>
            if f_emb i then fapp (canon_fields fs') (canon_fields rest)
            else FCons (rfield (jname i)) (canon t) (canon_fields rest)
        | _ => FCons (rfield (jname i)) (canon t) (canon_fields rest)
        end
      else canon_fields rest
  end.

(* the same value seen through its JSON document (encoding/json flattens untagged embedded structs) *)
Fixpoint canon_val (t : ty) (v : value) {struct t} : value :=
  match t with
  | TSlice t' => match v with VList l => VList (map (canon_val t') l) | _ => v end
  | TArray _ t' => match v with VList l => VList (map (canon_val t') l) | _ => v end
  | TStruct _ fs => match v with VList l => VList (canon_vals fs l) | _ => v end
  | _ => v
  end
with canon_vals (fs : fields) (vs : list value) {struct fs} : list value :=
  match fs with
  | FNil => []
  | FCons i t rest =>
      if f_ser i then
        match vs with
        | [] => []
        | v :: vs' =>
            match t with
            | TStruct _ fs' =>
                if f_emb i then (match v with VList l => canon_vals fs' l | _ => [v] end) ++ canon_vals rest vs'
                else canon_val t v :: canon_vals rest vs'
            | _ => canon_val t v :: canon_vals rest vs'
            end
        end
      else canon_vals rest vs
  end.

Fixpoint height (t : ty) : nat :=
  match t with
  | TSlice t' => S (height t')
  | TArray _ t' => S (height t')
  | TStruct _ fs => S (height_fields fs)
  | _ => O
  end
with height_fields (fs : fields) : nat :=
  match fs with FNil => O | FCons _ t r => Nat.max (height t) (height_fields r) end.

(* ------------------------------------------------------------------ dynamic.Marshal / Unmarshal *)

Record abi := ABI { abi_actions : list (N * string); abi_outputs : list (N * string); abi_types : list abitype }.

Fixpoint find_id (nm : string) (l : list (N * string)) : option N :=
  match l with [] => None | (i, n) :: l' => if String.eqb n nm then Some i else find_id nm l' end.

Fixpoint find_name (id : N) (l : list (N * string)) : option string :=
  match l with [] => None | (i, n) :: l' => if N.eqb i id then Some n else find_name id l' end.

(* dynamic.Marshal(abi, typeName, json): [jv] is what encoding/json delivers into the reflected type *)
Definition dyn_marshal (fuel : nat) (a : abi) (nm : string) (jv : value) : option bytes :=
  match lookup nm (abi_types a) with
  | None => None                                               (* ErrTypeNotFound *)
  | Some _ =>
      match reflect fuel (abi_types a) nm with
      | None => None
      | Some rt =>
          match find_id nm (abi_actions a) with
          | None => None                                       (* "action %s not found in ABI" *)
          | Some id => match enc rt jv with
                       | Some bs => Some (id :: bs)
                       | None => None
                       end
          end
      end
  end.

(* dynamic.UnmarshalAction / UnmarshalOutput(abi, data): value handed to json.Marshal (trailing bytes ignored) *)
Definition dyn_unmarshal (fuel : nat) (a : abi) (ids : list (N * string)) (data : bytes) : option value :=
  match data with
  | [] => None                                                 (* returns "", nil: no document *)
  | id :: body =>
      match find_name id ids with
      | None => None
      | Some nm => match reflect fuel (abi_types a) nm with
                   | None => None
                   | Some rt => match dec rt body with Some (v, _) => Some v | None => None end
                   end
      end
  end.
