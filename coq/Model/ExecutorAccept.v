(* ExecutorAccept.v — trace inclusion for the executor: is an OBSERVED event sequence of the Go driver
   (harness/drivers/executor) the visible part of some run of the LTS Model/Executor.v ?

   Same construction as Model/WorkersAccept.v:

   1. The instrumented LTS [ostep]: items are the labels of Model/Executor.v ([IL l], moving the LTS state with
      [step]) and the observed events ([IO e], which never change the LTS state).  How the driver's stamps relate
      to the labels:

        ORun j        stamped before the call Run of task j   the registration labels LRunBegin / LRunKey / LRunEnd of
                                                              task j fire after it and before the client's next stamp
                                                              (Run is called from one goroutine, tasks in order)
        OBeg j        stamped by f of task j                  after LCheck j started f (phase PRun)
        OEnd j ok     stamped by f before it returns          LFEnd j ok' fires only after this stamp, with ok' = ok
        OStopCall     stamped before the call Stop            LStop fires between OStopCall and OStopRet
        OStopRet      stamped after Stop returned
        OSeen x       the sticky error was read (in the same  the LTS error has code x (0 nil, 1 ErrStopped, 2+j task j)
                      critical section as the stamp)
        OWaitCall     stamped before the call Wait            no Run after it
        OWaitRet x    Wait returned the error coded x         every registered task went through its deferred function
                      (appended by the checker from the       (phase PDone), nothing is being registered, the LTS error
                      case's [c_wait])                        has code x

   2. The certificate checker [orun] / [accepts_with].

   3. The planner [plan]: registration right after ORun (keys in the order of the task's key list), the
      deferred function of a task eagerly after its OEnd when that cannot change the sticky error, everything
      else lazily when an observed event needs it (LRot brings the task a worker has to take to the head of the
      channel: the order in which one deferred function sends its ready tasks is Go map order).  The one choice that is not determined by the past —
      which CompareAndSwap sets the sticky error, and which tasks passed the error check before it — is
      resolved by looking ahead (the error Wait returns; the tasks whose OBeg is still to come).
      The planner is not trusted: whatever it outputs is checked by [orun]. *)
From Coq Require Import List NArith ZArith Bool Arith.
Import ListNotations.
From HV Require Import Model.Executor.

Inductive oev :=
| ORun (j : nat) | OBeg (j : nat) | OEnd (j : nat) (ok : bool)
| OStopCall | OStopRet | OSeen (x : N) | OWaitCall | OWaitRet (x : N).

Inductive item := IL (l : label) | IO (e : oev).

Record ost := mkO {
  o_s : state;
  o_called : nat;                 (* number of ORun stamps *)
  o_beg : list tid;               (* OBeg stamped *)
  o_end : list (tid * bool);      (* OEnd stamped, with the outcome *)
  o_stopcall : bool;
  o_stopfired : bool;
  o_stopret : bool;
  o_waitcall : bool
}.

Definition oinit : ost := mkO init 0 [] [] false false false false.

Definition set_s (o : ost) (s : state) : ost :=
  mkO s (o_called o) (o_beg o) (o_end o) (o_stopcall o) (o_stopfired o) (o_stopret o) (o_waitcall o).

Definition err_code (e : option esrc) : N :=
  match e with None => 0%N | Some EStop => 1%N | Some (ETask t) => N.of_nat (2 + t) end.

Fixpoint end_find (t : tid) (l : list (tid * bool)) : option bool :=
  match l with [] => None | (a, b) :: l' => if Nat.eqb a t then Some b else end_find t l' end.

Definition is_prun (p : phase) : bool := match p with PRun => true | _ => false end.
Definition is_pdone (p : phase) : bool := match p with PDone => true | _ => false end.
Definition no_cursor (s : state) : bool := match cursor s with None => true | Some _ => false end.
(* the client thread is between two calls *)
Definition client_idle (o : ost) : bool := no_cursor (o_s o) && Nat.eqb (next (o_s o)) (o_called o).

Definition guard_label (o : ost) (l : label) : bool :=
  match l with
  | LRunBegin => Nat.ltb (next (o_s o)) (o_called o)
  | LFEnd t ok => match end_find t (o_end o) with Some ok' => Bool.eqb ok ok' | None => false end
  | LStop => o_stopcall o && negb (o_stopfired o)
  | _ => true
  end.

Definition after_label (o : ost) (l : label) (s' : state) : ost :=
  match l with
  | LStop => mkO s' (o_called o) (o_beg o) (o_end o) (o_stopcall o) true (o_stopret o) (o_waitcall o)
  | _ => set_s o s'
  end.

Fixpoint all_done_b (s : state) (n : nat) : bool :=
  match n with 0 => true | S n' => is_pdone (ph (tasks s n')) && all_done_b s n' end.

Definition ostamp (o : ost) (e : oev) : option ost :=
  let s := o_s o in
  match e with
  | ORun j =>
      if client_idle o && Nat.eqb j (o_called o) && negb (o_waitcall o) then
        Some (mkO s (S (o_called o)) (o_beg o) (o_end o) (o_stopcall o) (o_stopfired o) (o_stopret o) (o_waitcall o))
      else None
  | OBeg j =>
      if is_prun (ph (tasks s j)) && negb (mem j (o_beg o)) then
        Some (mkO s (o_called o) (j :: o_beg o) (o_end o) (o_stopcall o) (o_stopfired o) (o_stopret o) (o_waitcall o))
      else None
  | OEnd j ok =>
      match end_find j (o_end o) with
      | Some _ => None
      | None =>
          if is_prun (ph (tasks s j)) && mem j (o_beg o) then
            Some (mkO s (o_called o) (o_beg o) ((j, ok) :: o_end o) (o_stopcall o) (o_stopfired o) (o_stopret o)
                      (o_waitcall o))
          else None
      end
  | OStopCall =>
      if client_idle o && negb (o_stopcall o) then
        Some (mkO s (o_called o) (o_beg o) (o_end o) true (o_stopfired o) (o_stopret o) (o_waitcall o))
      else None
  | OStopRet =>
      if o_stopfired o && negb (o_stopret o) then
        Some (mkO s (o_called o) (o_beg o) (o_end o) (o_stopcall o) (o_stopfired o) true (o_waitcall o))
      else None
  | OSeen x => if N.eqb (err_code (err s)) x then Some o else None
  | OWaitCall =>
      if client_idle o && negb (o_waitcall o) && Bool.eqb (o_stopcall o) (o_stopret o) then
        Some (mkO s (o_called o) (o_beg o) (o_end o) (o_stopcall o) (o_stopfired o) (o_stopret o) true)
      else None
  | OWaitRet x =>
      if o_waitcall o && client_idle o && all_done_b s (next s) && N.eqb (err_code (err s)) x then Some o else None
  end.

Definition ostep (c : cfg) (o : ost) (it : item) : option ost :=
  match it with
  | IL l =>
      if guard_label o l then
        match step c (o_s o) l with Some s' => Some (after_label o l s') | None => None end
      else None
  | IO e => ostamp o e
  end.

Fixpoint orun (c : cfg) (o : ost) (its : list item) : option ost :=
  match its with
  | [] => Some o
  | it :: its' => match ostep c o it with Some o' => orun c o' its' | None => None end
  end.

Definition labels_of (its : list item) : list label :=
  flat_map (fun it => match it with IL l => [l] | IO _ => [] end) its.
Definition obs_of (its : list item) : list oev :=
  flat_map (fun it => match it with IL _ => [] | IO e => [e] end) its.

Definition oev_eqb (a b : oev) : bool :=
  match a, b with
  | ORun j, ORun j' => Nat.eqb j j'
  | OBeg j, OBeg j' => Nat.eqb j j'
  | OEnd j ok, OEnd j' ok' => Nat.eqb j j' && Bool.eqb ok ok'
  | OStopCall, OStopCall => true
  | OStopRet, OStopRet => true
  | OSeen x, OSeen x' => N.eqb x x'
  | OWaitCall, OWaitCall => true
  | OWaitRet x, OWaitRet x' => N.eqb x x'
  | _, _ => false
  end.
Fixpoint oevs_eqb (a b : list oev) : bool :=
  match a, b with
  | [], [] => true
  | x :: a', y :: b' => oev_eqb x y && oevs_eqb a' b'
  | _, _ => false
  end.

Definition accepts_with (c : cfg) (its : list item) (evs : list oev) : bool :=
  match orun c oinit its with Some _ => oevs_eqb (obs_of its) evs | None => false end.

(* ---------------------------------------------------------------------------------------------------- *)
(* the planner                                                                                            *)
(* ---------------------------------------------------------------------------------------------------- *)

Definition pst := (ost * list item)%type.
Definition fire (c : cfg) (it : item) (x : pst) : option pst :=
  match ostep c (fst x) it with Some o' => Some (o', it :: snd x) | None => None end.
Definition fl (c : cfg) (l : label) (x : pst) : option pst := fire c (IL l) x.
Definition andthen (a : option pst) (f : pst -> option pst) : option pst :=
  match a with Some x => f x | None => None end.
Notation "a >>= f" := (andthen a f) (at level 50, left associativity).
Definition st (x : pst) : state := o_s (fst x).

Fixpoint for_list {A} (f : A -> pst -> option pst) (l : list A) (x : pst) : option pst :=
  match l with
  | [] => Some x
  | a :: l' => match f a x with Some x' => for_list f l' x' | None => None end
  end.

Definition has_err (s : state) : bool := match err s with Some _ => true | None => false end.

(* the deferred function of task t (phase PAfter): leave the reader sets, notify the blocked tasks *)
Definition finish_after (c : cfg) (t : tid) (x : pst) : option pst :=
  for_list (fun r x => fl c (LUnread t r) x) (reading (tasks (st x) t)) x >>= fl c (LNotify t).

(* f of t returned (phase PEnded): the CompareAndSwap, then the deferred function *)
Definition complete (c : cfg) (t : tid) (x : pst) : option pst := fl c (LSetErr t) x >>= finish_after c t.

(* every task whose f returned and whose CompareAndSwap cannot change the sticky error any more *)
Definition complete_safe (c : cfg) (x : pst) : option pst :=
  for_list (fun t x => match ph (tasks (st x) t) with
                       | PEnded ok => if ok || has_err (st x) then complete c t x else Some x
                       | _ => Some x end) (seq 0 (next (st x))) x.

(* rotate the channel until the queued task t is at its head, then let a worker take it *)
Fixpoint take_task (c : cfg) (fuel : nat) (t : tid) (x : pst) : option pst :=
  match fuel with
  | 0 => None
  | S f =>
      match queue (st x) with
      | [] => None
      | h :: _ => if Nat.eqb h t then fl c LTake x else fl c LRot x >>= take_task c f t
      end
  end.

Definition make_run (c : cfg) (fuel : nat) (t : tid) (x : pst) : option pst :=
  (match ph (tasks (st x) t) with PQueued => take_task c fuel t x | _ => Some x end) >>=
  (fun x => match ph (tasks (st x) t) with PTaken => fl c (LCheck t) x | _ => Some x end).

Fixpoint future_begins (rest : list oev) : list tid :=
  match rest with [] => [] | OBeg j :: l => j :: future_begins l | _ :: l => future_begins l end.

(* look ahead: the error Wait returns (or the first non-nil error somebody saw) *)
Fixpoint final_code (evs : list oev) : N :=
  match evs with
  | [] => 0%N
  | OWaitRet x :: l => if N.eqb x 0 then final_code l else x
  | OSeen x :: l => if N.eqb x 0 then final_code l else x
  | _ :: l => final_code l
  end.
Fixpoint task_of_code (x : N) (n : nat) : option tid :=
  match n with
  | 0 => None
  | S n' => if N.eqb x (N.of_nat (2 + n')) then Some n' else task_of_code x n'
  end.

(* set the sticky error (if it is not set yet): first let every task that will still begin pass its check *)
Definition ensure_err (c : cfg) (evs rest : list oev) (fuel : nat) (x : pst) : option pst :=
  if has_err (st x) then Some x
  else
    let fin := final_code evs in
    if N.eqb fin 0 then Some x
    else
      for_list (fun t x => make_run c fuel t x) (future_begins rest) x >>=
      (fun x => if N.eqb fin 1 then fl c LStop x
                else match task_of_code fin (next (st x)) with
                     | Some t => complete c t x
                     | None => None end) >>= complete_safe c.

(* tasks a worker holds without having made the error check yet *)
Definition check_taken (c : cfg) (x : pst) : option pst :=
  for_list (fun t x => match ph (tasks (st x) t) with
                       | PTaken => fl c (LCheck t) x >>=
                                   (fun x => match ph (tasks (st x) t) with PAfter => finish_after c t x | _ => Some x end)
                       | _ => Some x end) (seq 0 (next (st x))) x.

(* Wait: everything that is left goes through a worker *)
Fixpoint finish_all (c : cfg) (fuel : nat) (x : pst) : option pst :=
  match fuel with
  | 0 => None
  | S f =>
      match queue (st x) with
      | [] => Some x
      | t :: _ =>
          fl c LTake x >>= fl c (LCheck t) >>=
          (fun x => match ph (tasks (st x) t) with PAfter => finish_after c t x | _ => Some x end) >>=
          finish_all c f
      end
  end.

Definition plan_ev (c : cfg) (evs : list oev) (fuel : nat) (e : oev) (rest : list oev) (x : pst) : option pst :=
  match e with
  | ORun j =>
      fire c (IO e) x >>= fl c LRunBegin >>=
      for_list (fun kp x => fl c (LRunKey (fst kp)) x) (nth j (c_ts c) []) >>= fl c LRunEnd
  | OBeg j => make_run c fuel j x >>= fire c (IO e)
  | OEnd j ok =>
      fire c (IO e) x >>= fl c (LFEnd j ok) >>=
      (fun x => if ok || has_err (st x) then complete c j x else Some x)
  | OStopCall | OWaitCall => fire c (IO e) x
  | OStopRet =>
      (if o_stopfired (fst x) then Some x
       else ensure_err c evs rest fuel x >>=
            (fun x => if o_stopfired (fst x) then Some x else fl c LStop x >>= complete_safe c)) >>= fire c (IO e)
  | OSeen v => (if N.eqb v 0 then Some x else ensure_err c evs rest fuel x) >>= fire c (IO e)
  | OWaitRet _ =>
      ensure_err c evs rest fuel x >>= complete_safe c >>= check_taken c >>= finish_all c fuel >>= fire c (IO e)
  end.

Fixpoint plan_all (c : cfg) (evs : list oev) (fuel : nat) (rest : list oev) (x : pst) : option pst :=
  match rest with
  | [] => Some x
  | e :: rest' => plan_ev c evs fuel e rest' x >>= plan_all c evs fuel rest'
  end.

Definition plan_fuel (c : cfg) (evs : list oev) : nat := 2 * length (c_ts c) + 10.

Definition plan (c : cfg) (evs : list oev) : option (list item) :=
  match plan_all c evs (plan_fuel c evs) evs (oinit, []) with
  | Some x => Some (rev (snd x))
  | None => None
  end.

Definition accepts (c : cfg) (evs : list oev) : bool :=
  match plan c evs with Some its => accepts_with c its evs | None => false end.
