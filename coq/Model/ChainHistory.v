(* Histories of executed blocks on top of Model/Chain.v (new definitions only; used by Props/C11.v and
   Props/C06.v).

   [next_parent p o] is the parent state of the NEXT block after a block executed on [p] produced [o]:
   the data keys with the block's diff applied ([post_data] = [post_value] on every key, the projection
   Check/Chain_check.v compares with the real post-state) and the three metadata values written by
   Processor.writeBlockContext (height, timestamp, fee manager), which Chain_check compares with the values
   read back from the real output view.

   [run_chain r mk p bs] executes the blocks [bs] one after the other, each on the state left by its
   predecessor; None = some block was rejected.  It returns the final state and the outputs. *)
From stdpp Require Import gmap.
From Coq Require Import NArith ZArith.
From HV Require Import Lib.Bytes Lib.U64 Model.Keys Model.Tstate Model.Fees Model.Chain.
Local Open Scope N_scope.

Definition post_data (p : parent_state) (o : out_ok) : gmap key val :=
  omap id (o_diff o) ∪ filter (fun kv => o_diff o !! kv.1 = None) (p_data p).

Definition next_parent (p : parent_state) (o : out_ok) : parent_state :=
  mkParent (post_data p o) (Some (o_height o)) (o_ts o) (o_fee o).

Fixpoint run_chain (r : rules) (mk : meta_keys) (p : parent_state) (bs : list block)
  : option (parent_state * list out_ok) :=
  match bs with
  | [] => Some (p, [])
  | b :: rest =>
      match execute_block r mk p b with
      | inl o =>
          match run_chain r mk (next_parent p o) rest with
          | Some (p', os) => Some (p', o :: os)
          | None => None
          end
      | inr _ => None
      end
  end.

(* the parent state decoded from a full key/value state (e.g. the genesis state of Model/Genesis.v):
   what Processor.createBlockContext reads from the parent view *)
Definition meta_list (mk : meta_keys) : list key := [mk_height mk; mk_ts mk; mk_fee mk].

Definition parent_of_state (mk : meta_keys) (m : gmap key val) : option parent_state :=
  match m !! mk_ts mk ≫= parse_u64, m !! mk_fee mk ≫= decode with
  | Some ts, Some fm =>
      Some (mkParent (filter (fun kv => negb (existsb (bytes_eqb kv.1) (meta_list mk))) m)
                     (m !! mk_height mk ≫= parse_u64) ts fm)
  | _, _ => None
  end.
