(* Indexer.v — executable model of api/indexer/indexer.go (Indexer).

   In-memory caches (blockIDToHeight, blockHeightToBlock, txCache, lastHeight) plus the pebble
   store (height -> marshalled executed block).  An executed block is abstracted to what the
   indexer looks at: height, id, timestamp, the ids of its transactions and one result value per
   transaction; Marshal / UnmarshalExecutedBlock are a round trip (driver oracle).
   lastHeight = math.MaxUint64 ("nothing yet") is [None]; heights < 2^64 - 1, so [Hght - window]
   underflows exactly when Hght < window (the wrapped key then names no stored block).
   Model only; proofs are in Proofs/Indexer_proofs.v. *)
From Coq Require Import List NArith Bool.
Import ListNotations.
From HV Require Import Lib.AssocN.
Local Open Scope N_scope.

Record eblock := mkE { eh : N; eid : N; ets : N; etxs : list N; eres : list N }.

Record ist := mkI {
  i_W : N;                       (* blockWindow *)
  i_id2h : amap N;               (* blockIDToHeight *)
  i_h2b : amap eblock;           (* blockHeightToBlock *)
  i_tx : amap (N * N);           (* txCache: tx id -> (block height, index) *)
  i_last : option N;             (* lastHeight *)
  i_db : amap eblock             (* blockDB: height -> block *)
}.

Definition set_caches (s : ist) (a : amap N) (b : amap eblock) (c : amap (N * N)) (l : option N) : ist :=
  mkI (i_W s) a b c l (i_db s).

(* evictBlockFromCache *)
Definition evict (s : ist) (h : N) : ist :=
  match aget h (i_h2b s) with
  | None => s
  | Some eb =>
      set_caches s (adel (eid eb) (i_id2h s)) (adel (eh eb) (i_h2b s))
                 (fold_left (fun m t => adel t m) (etxs eb) (i_tx s)) (i_last s)
  end.

Fixpoint put_txs (h : N) (idx : N) (txs : list N) (m : amap (N * N)) : amap (N * N) :=
  match txs with
  | [] => m
  | t :: r => put_txs h (N.succ idx) r (aput t (h, idx) m)
  end.

(* lastHeight after a block of height h went into the cache: an older block delivered again does
   not move it backwards (if lastHeight == MaxUint64 || Hght > lastHeight { lastHeight = Hght }) *)
Definition hmax (last : option N) (h : N) : option N :=
  match last with
  | None => Some h
  | Some l => if l <? h then Some h else Some l
  end.

(* insertBlockIntoCache *)
Definition insert_cache (s : ist) (b : eblock) : ist :=
  let h := eh b in
  let s1 :=
    if i_W s <=? h then
      let lev := h - i_W s in
      match i_last s with
      | Some l =>
          if h =? l + 1 then evict s lev
          else fold_left evict (filter (fun k => k <=? lev) (akeys (i_h2b s))) s
      | None => evict s lev
      end
    else s in
  set_caches s1 (aput (eid b) h (i_id2h s1)) (aput h b (i_h2b s1)) (put_txs h 0 (etxs b) (i_tx s1)) (hmax (i_last s) h).

Definition set_db (s : ist) (d : amap eblock) : ist := mkI (i_W s) (i_id2h s) (i_h2b s) (i_tx s) (i_last s) d.

(* storeBlock *)
Definition store_block (s : ist) (b : eblock) (consecutive : bool) : ist :=
  let h := eh b in
  let W := i_W s in
  let d1 := aput h b (i_db s) in
  let d2 := if W <=? h then adel (h - W) d1 else d1 in
  let d3 := if negb consecutive && (W <? h) then afilter (fun k => negb (k <? h - W)) d2 else d2 in
  set_db s d3.

(* Notify.  A block below the last height that is already outside the retention window
   (lastHeight - Hght >= blockWindow) is ignored; one inside the window goes through the normal path
   (cache + store at its height), which leaves lastHeight alone. *)
Definition stale (s : ist) (b : eblock) : bool :=
  match i_last s with
  | None => false
  | Some l => (eh b <? l) && (i_W s <=? l - eh b)
  end.

Definition notify (s : ist) (b : eblock) : ist :=
  if stale s b then s else
  let consecutive := match i_last s with None => true | Some l => eh b =? l + 1 end in
  store_block (insert_cache s b) b consecutive.

(* ascending iteration over the store *)
Fixpoint ins_sorted (e : N * eblock) (l : list (N * eblock)) : list (N * eblock) :=
  match l with
  | [] => [e]
  | x :: r => if fst e <=? fst x then e :: l else x :: ins_sorted e r
  end.
Definition sort_db (d : amap eblock) : list (N * eblock) := fold_right ins_sorted [] d.

(* NewIndexer(path, parser, W) on the existing store: initBlocks *)
Definition restart (s : ist) (W : N) : ist :=
  let s0 := mkI W [] [] [] None (i_db s) in
  let s1 := fold_left (fun c e => insert_cache c (snd e)) (sort_db (i_db s)) s0 in
  match i_last s1 with
  | Some l => if W <? l then set_db s1 (afilter (fun k => negb (k <? l - W)) (i_db s1)) else s1
  | None => s1     (* empty store: DeleteRange on nothing *)
  end.

Definition init (W : N) : ist := mkI W [] [] [] None [].

(* getters.  error classes: 0 ok, 1 database.ErrNotFound, 2 errBlockNotFound *)
Definition get_by_height (s : ist) (h : N) : option eblock := aget h (i_h2b s).
Definition get_block (s : ist) (i : N) : option eblock :=
  match aget i (i_id2h s) with None => None | Some h => get_by_height s h end.
(* (error class, block) *)
Definition get_latest (s : ist) : N * option eblock :=
  match i_last s with
  | None => (1, None)
  | Some l => match get_by_height s l with Some b => (0, Some b) | None => (2, None) end
  end.

Inductive txans := TxNone | TxErr | TxFound (tx ts res : N).
Definition get_tx (s : ist) (t : N) : txans :=
  match aget t (i_tx s) with
  | None => TxNone
  | Some (h, idx) =>
      match aget h (i_h2b s) with
      | None => TxNone
      | Some b =>
          match nth_error (etxs b) (N.to_nat idx), nth_error (eres b) (N.to_nat idx) with
          | Some tx, Some r => TxFound tx (ets b) r
          | _, _ => TxErr
          end
      end
  end.

Inductive iop := INotify (b : eblock) | IRestart (W : N).
Definition istep (s : ist) (o : iop) : ist :=
  match o with INotify b => notify s b | IRestart W => restart s W end.
Definition irun (s : ist) (ops : list iop) : ist := fold_left istep ops s.
