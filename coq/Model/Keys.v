(* Model of keys/keys.go (size-suffixed state keys) and of the permission part of state/keys.go.

   Interface (used by Model/Tstate.v and by other components):
     key, val            byte strings ([list N], every element < 256 when produced by the drivers)
     valid k             keys.Valid              : len(key) >= 2
     max_chunks k        keys.MaxChunks / keys.DecodeChunks : big-endian uint16 in the last two bytes
     num_chunks_z l      keys.numChunks on a Go [int] (any sign, Go's truncating division and the
                         uint16 conversion are modelled)
     num_chunks v        keys.NumChunks
     verify ms mc k      keys.Verify
     verify_value k v    keys.VerifyValue
     encode k n          keys.Encode   (n : Z, a Go int)
     encode_chunks k c   keys.EncodeChunks (c a uint16)
     perm, pRead, pAllocate, pWrite, pNone, pAll, perm_has p req, perm_union
                         state.Permissions, Permissions.Has (req &^ p == 0), the |= of Keys.Add
     keys_add m k p      state.Keys.Add  (None = rejected: malformed key)
     keys_has m k p      state.Keys.Has  (a missing key has permission 0) *)
From stdpp Require Import gmap.
From Coq Require Import NArith ZArith.
From HV Require Import Lib.Bytes.
Local Open Scope N_scope.

Definition key := list N.
Definition val := list N.

Definition blenZ (b : list N) : Z := Z.of_nat (length b).

(* ---------------------------------------------------------------- keys/keys.go *)

(* func Valid(key string) bool { return len(key) >= consts.Uint16Len } *)
Definition valid (k : key) : bool := Nat.leb 2 (length k).

(* func MaxChunks(key []byte) (uint16, bool): binary.BigEndian.Uint16(key[l-2:]) *)
Definition max_chunks (k : key) : option N :=
  match rev k with
  | lo :: hi :: _ => Some (hi * 256 + lo)
  | _ => None
  end.

(* func DecodeChunks(key []byte) (uint16, bool): same computation *)
Definition decode_chunks (k : key) : option N := max_chunks k.

(* func numChunks(valueLen int) (uint16, bool)
     if valueLen == 0 { return 0, true }
     raw := valueLen/chunkSize + 1            -- Go division truncates towards zero
     if raw > int(consts.MaxUint16) { return 0, false }
     return uint16(raw), true                 -- conversion wraps modulo 2^16 *)
Definition num_chunks_z (l : Z) : option N :=
  if (l =? 0)%Z then Some 0 else
  let raw := (Z.quot l 64 + 1)%Z in
  if (raw >? 65535)%Z then None else Some (Z.to_N (raw mod 65536)%Z).

Definition num_chunks (v : val) : option N := num_chunks_z (blenZ v).

(* func Verify(maxKeySize uint32, maxValueChunks uint16, key []byte) bool *)
Definition verify (max_key_size max_value_chunks : N) (k : key) : bool :=
  if N.ltb max_key_size (N.of_nat (length k)) then false else
  match max_chunks k with
  | None => false
  | Some kc => N.leb kc max_value_chunks
  end.

(* func VerifyValue(key []byte, value []byte) bool, on the value length *)
Definition verify_value_len (k : key) (l : Z) : bool :=
  match num_chunks_z l with
  | None => false
  | Some vc =>
      match max_chunks k with
      | None => false
      | Some kc => N.leb vc kc
      end
  end.

Definition verify_value (k : key) (v : val) : bool := verify_value_len k (blenZ v).

(* binary.BigEndian.AppendUint16 *)
Definition be16 (c : N) : list N := [c / 256; c mod 256].

(* func EncodeChunks(key []byte, maxChunks uint16) []byte *)
Definition encode_chunks (k : key) (c : N) : key := k ++ be16 c.

(* func Encode(key []byte, maxSize int) ([]byte, bool) *)
Definition encode (k : key) (max_size : Z) : option key :=
  match num_chunks_z max_size with
  | None => None
  | Some c => Some (encode_chunks k c)
  end.

(* ---------------------------------------------------------------- state/keys.go *)

Definition perm := N.          (* type Permissions byte *)
Definition pNone : perm := 0.
Definition pRead : perm := 1.
Definition pAllocate : perm := 3.   (* 1<<1 | Read *)
Definition pWrite : perm := 5.      (* 1<<2 | Read *)
Definition pAll : perm := 7.

(* func (p Permissions) Has(require Permissions) bool { return require&^p == 0 } *)
Definition perm_has (p req : perm) : bool := N.eqb (N.ldiff req p) 0.

Definition perm_union (p q : perm) : perm := N.lor p q.

(* func (k Keys) Add(key string, permission Permissions) bool *)
Definition keys_add (m : gmap key perm) (k : key) (p : perm) : option (gmap key perm) :=
  if valid k then Some (<[k := perm_union (default 0 (m !! k)) p]> m) else None.

(* func (k Keys) Has(key []byte, permission Permissions) bool *)
Definition keys_has (m : gmap key perm) (k : key) (p : perm) : bool :=
  perm_has (default 0 (m !! k)) p.

(* Transaction.StateKeys folds Add over every declaration (actions first, sponsor last) and
   fails on the first malformed key. *)
Fixpoint keys_add_all (m : gmap key perm) (decls : list (key * perm)) : option (gmap key perm) :=
  match decls with
  | [] => Some m
  | (k, p) :: rest =>
      match keys_add m k p with
      | None => None
      | Some m' => keys_add_all m' rest
      end
  end.
