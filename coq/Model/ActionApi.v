(* ActionApi.v — executable model for C30 (read-only action APIs vs. on-chain execution).

   Code modelled (hypersdk /repo):
     state/keys.go                 Permissions.Has, Keys.Has / Keys.Add, SimulatedKeys.Has (recording scope), keys.Valid
     state/tstate/tstate_view.go   GetValue / Insert / Remove: permission checks + read-your-writes       -> run
     keys/keys.go                  VerifyValue                                                           -> verify_value
     api/jsonrpc/server.go         ExecuteActions  (a) per action: own declaration, fresh view, Commit    -> run_exec
                                   SimulateActions (b) one view, recording scope cleared per action       -> run_sim
     chain/transaction.go          Execute         (c) one view, declared scope, outputs until failure    -> run_tx
                                   StateKeys + Execute: union of the declarations (+ sponsor keys), an invalid
                                   declared key makes the transaction unexecutable                        -> tx_run

   Actions are programs over the key-value interface the view offers (the Go action's Execute with a fixed actor;
   timestamp and action id are not inputs: stated limitation).  A storage error (permission, invalid value)
   aborts the action — the model does not let a program catch it (all actions of the framework and reference VM
   propagate storage errors).  Only what the properties observe is kept of a view: which checks are made and which
   value each key shows (pending changes over committed changes over the state); allocate/write bookkeeping and
   rollback are the subject of C03/C04/C05 (Model/Tstate.v). *)
From Coq Require Import List NArith Bool.
Import ListNotations.
From HV Require Import Lib.Bytes.
Local Open Scope N_scope.

Definition key := bytes.
Definition val := bytes.
Definition perm := N.                      (* state.Permissions: a byte used as a bit set *)

Definition P_READ : perm := 1.
Definition P_ALLOCATE : perm := 3.         (* 1<<1 | Read *)
Definition P_WRITE : perm := 5.            (* 1<<2 | Read *)

(* Permissions.Has: require &^ p == 0 *)
Definition has (p require : perm) : bool := N.ldiff require p =? 0.

(* keys.Valid *)
Definition valid_key (k : key) : bool := Nat.leb 2 (length k).

(* keys.VerifyValue: numChunks(len v) <= big-endian uint16 in the last two bytes of the key *)
Definition num_chunks (n : N) : N := if n =? 0 then 0 else n / 64 + 1.
Fixpoint last2 (k : key) : option (N * N) :=
  match k with
  | [] => None
  | [_] => None
  | [a; b] => Some (a, b)
  | _ :: k' => last2 k'
  end.
Definition verify_value (k : key) (v : val) : bool :=
  let c := num_chunks (N.of_nat (length v)) in
  (c <=? 65535) && match last2 k with Some (a, b) => c <=? a * 256 + b | None => false end.

(* ---- state, changes, declarations *)
Definition store := list (key * val).                    (* the VM state (vm.ReadState / ImmutableState) *)
Fixpoint s_get (s : store) (k : key) : option val :=
  match s with [] => None | (k', v) :: s' => if bytes_eqb k' k then Some v else s_get s' k end.

Definition diff := list (key * option val).              (* changed keys, newest first; None = deleted *)
Fixpoint d_get (d : diff) (k : key) : option (option val) :=
  match d with [] => None | (k', r) :: d' => if bytes_eqb k' k then Some r else d_get d' k end.

(* the value a view shows for k: pending / committed changes first, then the state below *)
Definition vis (base : key -> option val) (d : diff) (k : key) : option val :=
  match d_get d k with Some r => r | None => base k end.

(* state.Keys as a list of (key, permission): the map holds the OR of the entries of a key (Keys.Add) *)
Definition checks := list (key * perm).
Fixpoint perm_of (l : checks) (k : key) : perm :=
  match l with [] => 0 | (k', p) :: l' => if bytes_eqb k' k then N.lor p (perm_of l' k) else perm_of l' k end.

(* ---- actions as programs *)
Inductive prog :=
| Ret (out : bytes)
| Fail                                                    (* Execute returns an error *)
| Get (k : key) (c : option val -> prog)                  (* GetValue; None = database.ErrNotFound *)
| Put (k : key) (v : val) (c : prog)                      (* Insert *)
| Del (k : key) (c : prog).                               (* Remove *)

(* the scope of a view: a declaration (Keys.Has) or the recorder (SimulatedKeys.Has = Keys.Add: records a valid key
   and answers true, refuses a key shorter than two bytes — since /repo 1b6be2f; before that fix it answered true
   without recording the key, so a simulation could succeed where every transaction fails) *)
Inductive mode := MScope (sc : key -> perm) | MRecord.

Definition check (m : mode) (rec : checks) (k : key) (p : perm) : option checks :=
  match m with
  | MScope sc => if has (sc k) p then Some rec else None       (* ErrInvalidKeyOrPermission *)
  | MRecord => if valid_key k then Some ((k, p) :: rec) else None   (* Keys.Add refuses: ErrInvalidKeyOrPermission *)
  end.

(* one action on a view: Some (output, pending changes, recorded checks) or None (the action failed) *)
Fixpoint run (m : mode) (base : key -> option val) (p : prog) (pend : diff) (rec : checks)
  : option (bytes * diff * checks) :=
  match p with
  | Ret o => Some (o, pend, rec)
  | Fail => None
  | Get k c =>
      match check m rec k P_READ with
      | None => None
      | Some rec1 => run m base (c (vis base pend k)) pend rec1
      end
  | Put k v c =>
      match check m rec k P_WRITE with
      | None => None
      | Some rec1 =>
          if negb (verify_value k v) then None                    (* ErrInvalidKeyValue *)
          else match vis base pend k with
               | Some _ => run m base c ((k, Some v) :: pend) rec1
               | None =>                                          (* new entry requires Allocate *)
                   match check m rec1 k P_ALLOCATE with
                   | None => None
                   | Some rec2 => run m base c ((k, Some v) :: pend) rec2
                   end
               end
      end
  | Del k c =>
      match check m rec k P_WRITE with
      | None => None
      | Some rec1 => run m base c ((k, None) :: pend) rec1
      end
  end.

(* (a) ExecuteActions: every action gets a fresh view with its own declaration over the changes committed by the
   earlier actions; stops at the first failing action (reply.Error) keeping the outputs so far *)
Fixpoint run_exec (base : key -> option val) (changed : diff) (acts : list (checks * prog)) : list bytes * bool :=
  match acts with
  | [] => ([], true)
  | (d, p) :: rest =>
      match run (MScope (perm_of d)) (vis base changed) p [] [] with
      | None => ([], false)
      | Some (o, pend, _) => let '(os, ok) := run_exec base (pend ++ changed) rest in (o :: os, ok)
      end
  end.

(* (b) SimulateActions: one view with the recording scope for all actions, the record is reported and cleared
   after each action; any failure makes the call return an error (no results) *)
Fixpoint run_sim (base : key -> option val) (pend : diff) (ps : list prog) : option (list (bytes * checks)) :=
  match ps with
  | [] => Some []
  | p :: rest =>
      match run MRecord base p pend [] with
      | None => None
      | Some (o, pend', rec) =>
          match run_sim base pend' rest with Some rs => Some ((o, rec) :: rs) | None => None end
      end
  end.

(* (c) Transaction.Execute after the fee deduction: one view with the declared scope; outputs until the first
   failing action (then everything is rolled back and Success = false) *)
Fixpoint run_tx (sc : key -> perm) (base : key -> option val) (pend : diff) (ps : list prog) : list bytes * bool :=
  match ps with
  | [] => ([], true)
  | p :: rest =>
      match run (MScope sc) base p pend [] with
      | None => ([], false)
      | Some (o, pend', _) => let '(os, ok) := run_tx sc base pend' rest in (o :: os, ok)
      end
  end.

(* Transaction.StateKeys: the scope of the transaction's view is the union (Keys.Add: OR of the permissions) of
   the actions' declarations and the sponsor's keys [extra]; Keys.Add refuses a key shorter than two bytes, then
   StateKeys / Units / Execute return an error and nothing is executed (reported as no outputs, no success).
   [pend0] = the changes the view holds when the first action starts (the fee deduction). *)
Definition decl_valid (d : checks) : bool := forallb (fun kp => valid_key (fst kp)) d.

Definition tx_scope (extra : checks) (decls : list checks) : checks := concat decls ++ extra.

Definition tx_run (extra : checks) (base : key -> option val) (pend0 : diff) (acts : list (checks * prog))
  : list bytes * bool :=
  let all := tx_scope extra (map fst acts) in
  if decl_valid all then run_tx (perm_of all) base pend0 (map snd acts) else ([], false).

(* ---- first-order scripts (what the driver's test action executes), compiled to programs *)
Inductive sop :=
| SGet (k : key)            (* read, echo *)
| SGetStop (k : key)        (* read, echo; if missing: stop here successfully *)
| SGetFail (k : key)        (* read, echo; if missing: fail *)
| SPutIfMissing (k : key) (v : val)   (* read, echo; insert only if missing *)
| SPut (k : key) (v : val)
| SDel (k : key)
| SFail.

(* echo of a read: 0 = not found, 1 :: len :: value *)
Definition echo (r : option val) : bytes :=
  match r with None => [0] | Some v => 1 :: N.of_nat (length v) :: v end.

Fixpoint script_prog (ops : list sop) (out : bytes) : prog :=
  match ops with
  | [] => Ret out
  | SGet k :: r => Get k (fun x => script_prog r (out ++ echo x))
  | SGetStop k :: r => Get k (fun x => match x with None => Ret (out ++ echo x) | Some _ => script_prog r (out ++ echo x) end)
  | SGetFail k :: r => Get k (fun x => match x with None => Fail | Some _ => script_prog r (out ++ echo x) end)
  | SPutIfMissing k v :: r =>
      Get k (fun x => match x with None => Put k v (script_prog r (out ++ echo x)) | Some _ => script_prog r (out ++ echo x) end)
  | SPut k v :: r => Put k v (script_prog r out)
  | SDel k :: r => Del k (script_prog r out)
  | SFail :: _ => Fail
  end.
