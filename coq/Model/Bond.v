(* Model of internal/chain/bond.go (Bonder: SetMaxBalance / Bond / Unbond) and x/fdsmr/node.go
   (Node.BuildChunk / Node.Accept with the expiry heap of bonded txs).

   A transaction is a number; [info t] gives its sponsor, encoded size and expiry (the Go tx is
   immutable, id = hash of its bytes, so sponsor/size/expiry are functions of the id).
   Bonder db:   address -> pending balance (absent = 0)     [b_pend]
                tx id   -> fee charged when it was bonded   [b_recs, association list, newest first]
   Mutable:     state key of address -> max balance (absent = 0)   [b_max]
   All balances are uint64: Bond uses checked Mul/Add, Unbond uses a wrapping subtraction. *)
From Coq Require Import List NArith ZArith Bool.
Import ListNotations.
Local Open Scope N_scope.

Record txinfo := mkTx { tx_sponsor : N; tx_size : N; tx_expiry : Z }.
Definition table := N -> txinfo.

Definition U64 : N := 18446744073709551616.

Record bst := mkB { b_pend : N -> N; b_recs : list (N * N); b_max : N -> N }.

Definition upd (f : N -> N) (a v : N) : N -> N := fun x => if x =? a then v else f x.

Fixpoint lookup (t : N) (l : list (N * N)) : option N :=
  match l with
  | [] => None
  | (k, v) :: r => if k =? t then Some v else lookup t r
  end.

(* db.Delete(txID) *)
Fixpoint remove_key (t : N) (l : list (N * N)) : list (N * N) :=
  match l with
  | [] => []
  | (k, v) :: r => if k =? t then r else (k, v) :: remove_key t r
  end.

Definition b_init : bst := mkB (fun _ => 0) [] (fun _ => 0).

(* SetMaxBalance: mutable.Insert(stateKey(address), be64(max)) *)
Definition set_max (s : bst) (a m : N) : bst := mkB (b_pend s) (b_recs s) (upd (b_max s) a m).

Inductive bres := BOk | BNo | BErr.

(* Bond.  [ge]: the Mutable fails (error other than not-found) on GetValue. *)
Definition bond (info : table) (s : bst) (t rate : N) (ge : bool) : bst * bres :=
  let a := tx_sponsor (info t) in
  let p := b_pend s a in                         (* getPendingBondBalance *)
  match lookup t (b_recs s) with                 (* db.Has(txID) *)
  | Some _ => (s, BOk)                           (* already bonded: idempotent *)
  | None =>
      if ge then (s, BErr) else                  (* mutable.GetValue error *)
      let mx := b_max s a in
      let fee := tx_size (info t) * rate in
      if U64 <=? fee then (s, BNo) else          (* safemath.Mul overflow *)
      let u := p + fee in
      if U64 <=? u then (s, BNo) else            (* safemath.Add overflow *)
      if mx <? u then (s, BNo) else              (* updatedBalance > maxBalance *)
      (mkB (upd (b_pend s) a u) ((t, fee) :: b_recs s) (b_max s), BOk)
  end.

(* Unbond: not-found => no-op; otherwise pending -= fee (uint64 wrapping), delete record *)
Definition unbond (info : table) (s : bst) (t : N) : bst :=
  let a := tx_sponsor (info t) in
  let p := b_pend s a in
  match lookup t (b_recs s) with
  | None => s
  | Some fee => mkB (upd (b_pend s) a ((p + U64 - fee) mod U64)) (remove_key t (b_recs s)) (b_max s)
  end.

(* ---- fdsmr.Node ---------------------------------------------------------------------- *)

(* the expiry heap is a set of tx ids (heap.Push ignores an id that is already present) *)
Record nst := mkN { n_b : bst; n_heap : list N }.

Definition n_init : nst := mkN b_init [].

Definition memN (t : N) (l : list N) : bool := existsb (N.eqb t) l.

Definition heap_add (t : N) (h : list N) : list N := if memN t h then h else t :: h.

(* BuildChunk loop.  Result: state, the txs handed to the inner DSMR, error flag of the loop. *)
Fixpoint build_loop (info : table) (s : nst) (txs : list N) (rate : N) (ge : bool) (bonded : list N)
  : nst * list N * bool :=
  match txs with
  | [] => (s, bonded, false)
  | t :: r =>
      let '(b', res) := bond info (n_b s) t rate ge in
      match res with
      | BErr => (mkN b' (n_heap s), bonded, true)
      | BNo => build_loop info (mkN b' (n_heap s)) r rate ge bonded
      | BOk => build_loop info (mkN b' (heap_add t (n_heap s))) r rate ge (bonded ++ [t])
      end
  end.

(* result code: 0 = nil error, 2 = error.  [de]: the inner DSMR's BuildChunk fails.
   When the Bond loop fails the inner DSMR is not called: reported bonded list = None. *)
Definition build_chunk (info : table) (s : nst) (txs : list N) (rate : N) (ge de : bool)
  : nst * option (list N) * N :=
  let '(s', bonded, err) := build_loop info s txs rate ge [] in
  if err then (s', None, 2) else (s', Some bonded, if de then 2 else 0).

Definition expired (info : table) (ts : Z) (t : N) : bool := (tx_expiry (info t) <? ts)%Z.

(* Accept.  [de]: the inner DSMR's Accept fails (nothing else happens then). *)
Definition accept (info : table) (s : nst) (ts : Z) (chunks : list (list N)) (de : bool) : nst * N :=
  if de then (s, 2) else
  let exp := filter (expired info ts) (n_heap s) in
  let heap' := filter (fun t => negb (expired info ts t)) (n_heap s) in
  let b1 := fold_left (unbond info) exp (n_b s) in
  let b2 := fold_left (fun b t => if memN t heap' then unbond info b t else b) (concat chunks) b1 in
  (mkN b2 heap', 0).

(* ---- histories ----------------------------------------------------------------------- *)

Inductive op :=
| OSetMax (a m : N)
| OBond (t rate : N) (ge : bool)                 (* Bonder.Bond directly *)
| OUnbond (t : N)                                (* Bonder.Unbond directly *)
| OBuild (txs : list N) (rate : N) (ge de : bool)
| OAccept (ts : Z) (chunks : list (list N)) (de : bool).

(* what a step returns: result code (0 ok/true, 1 false, 2 error) and the list given to the inner DSMR *)
Definition step (info : table) (s : nst) (o : op) : nst * (N * option (list N)) :=
  match o with
  | OSetMax a m => (mkN (set_max (n_b s) a m) (n_heap s), (0, None))
  | OBond t rate ge =>
      let '(b', r) := bond info (n_b s) t rate ge in
      (mkN b' (n_heap s), (match r with BOk => 0 | BNo => 1 | BErr => 2 end, None))
  | OUnbond t => (mkN (unbond info (n_b s) t) (n_heap s), (0, None))
  | OBuild txs rate ge de =>
      let '(s', bonded, rc) := build_chunk info s txs rate ge de in (s', (rc, bonded))
  | OAccept ts chunks de =>
      let '(s', rc) := accept info s ts chunks de in (s', (rc, None))
  end.

Definition run (info : table) (s : nst) (ops : list op) : nst :=
  fold_left (fun s o => fst (step info s o)) ops s.

(* sum of the recorded fees of the txs sponsored by [a] *)
Fixpoint sum_for (info : table) (a : N) (l : list (N * N)) : N :=
  match l with
  | [] => 0
  | (t, f) :: r => (if tx_sponsor (info t) =? a then f else 0) + sum_for info a r
  end.
