(* Model of block execution: chain/processor.go (Processor.Execute, executeTxs, createBlockContext,
   writeBlockContext), chain/transaction.go (StateKeys, Units, PreExecute, Execute) and
   state/balance/balance.go (PrefixBalanceHandler), on top of the models of the state view
   (Model/Tstate.v), the key rules (Model/Keys.v), the fee manager (Model/Fees.v) and the static
   transaction checks (Model/TxStatic.v).

   The model is SEQUENTIAL: transactions are executed one after the other in block order, each on a
   fresh view over the shared block diff (the TState) whose storage holds the parent values of the
   transaction's declared keys, and committed at its end.  Props/C01.v relates this to every
   conflict-respecting schedule (Proofs/ParExec_proofs.v); the correspondence check runs the real
   Processor.Execute under several concurrency configurations against this model.

   Actions are scripts over the state.Mutable interface (the harness' ScriptAction): a list of
   get / put / delete / fail operations whose output records every value read.  Executable, no proofs. *)
From stdpp Require Import gmap.
From Coq Require Import NArith ZArith.
From HV Require Import Lib.Bytes Lib.U64 Model.Keys Model.Tstate Model.Fees Model.TxStatic.
Local Open Scope N_scope.

(* ------------------------------------------------------------------ inputs *)

Inductive sop :=
  | OGet (k : key) | OPut (k : key) (v : val) | ODel (k : key) | OFail
  (* the reference VM's Transfer action (examples/morpheusvm/actions/transfer.go): balance keys of the
     actor and of the recipient, amount, and whether the memo is within MaxMemoSize *)
  | OTransfer (from to : key) (value : N) (memo_ok : bool).

Record action := mkAction {
  a_compute : N;
  a_decl : list (key * perm);      (* Action.StateKeys *)
  a_ops : list sop;
  a_start : Z; a_end : Z }.        (* Action.ValidRange *)

Record tx := mkTx {
  t_expiry : Z;                    (* Base.Timestamp *)
  t_chain_ok : bool;               (* Base.ChainID = rules' chain id *)
  t_maxfee : N;                    (* Base.MaxFee *)
  t_sponsor_key : key;             (* BalanceKey(Auth.Sponsor()) *)
  t_auth_ok : bool;                (* Auth.Verify succeeds *)
  t_auth_compute : N;
  t_auth_start : Z; t_auth_end : Z;
  t_size : N;                      (* Transaction.Size(): length of the signed encoding *)
  t_morpheus : bool;               (* balance handler: false = state/balance PrefixBalanceHandler,
                                      true = examples/morpheusvm/storage BalanceHandler (deletes at zero) *)
  t_actions : list action }.

Record rules := mkRules {
  r_min_gap : Z; r_min_empty_gap : Z;
  r_min_price : dims; r_denom : dims; r_target : dims; r_max_units : dims;
  r_window : Z; r_max_actions : N; r_base_compute : N;
  r_key_read : N; r_val_read : N; r_key_alloc : N; r_val_alloc : N; r_key_write : N; r_val_write : N }.

(* structured fee-manager state as the driver prints it *)
Definition mkFee (ts : N) (prices : list N) (windows : list (list N)) (consumed : list N) : manager :=
  mkMgr ts (map (fun k => mkDS (nth k prices 0) (nth k windows zero_window) (nth k consumed 0)) idx5).

(* ------------------------------------------------------------------ Transaction.StateKeys *)

Definition sponsor_perm : perm := N.lor pRead pWrite.   (* state.Read | state.Write *)

Definition tx_decls (t : tx) : list (key * perm) :=
  flat_map a_decl (t_actions t) ++ [(t_sponsor_key t, sponsor_perm)].

Definition state_keys (t : tx) : option (gmap key perm) := keys_add_all ∅ (tx_decls t).

(* ------------------------------------------------------------------ Transaction.Units *)

(* compute: base + sum of action compute + auth compute, through the sticky-error accumulator *)
Definition compute_units (r : rules) (t : tx) : option N :=
  op_value (op_add (fold_left (fun o a => op_add o (a_compute a)) (t_actions t) (op_new (r_base_compute r)))
                   (t_auth_compute t)).

(* storage: for every declared key (each once): key cost + maxChunks * value cost, for the three
   dimensions; the map iteration order of Go is irrelevant for a sum of non-negative terms whose
   only failure is "the total does not fit" (Proofs/Chain_proofs.v: storage_units_perm). *)
Definition storage_units (r : rules) (ks : list key) : option (N * N * N) :=
  let step (acc : u64op * u64op * u64op) (k : key) :=
    let '(rd, al, wr) := acc in
    let c := default 0 (max_chunks k) in
    (op_muladd (op_add rd (r_key_read r)) c (r_val_read r),
     op_muladd (op_add al (r_key_alloc r)) c (r_val_alloc r),
     op_muladd (op_add wr (r_key_write r)) c (r_val_write r)) in
  let '(rd, al, wr) := fold_left step ks (op_new 0, op_new 0, op_new 0) in
  match op_value rd, op_value al, op_value wr with
  | Some a, Some b, Some c => Some (a, b, c)
  | _, _, _ => None
  end.

Definition units (r : rules) (t : tx) (sk : gmap key perm) : option dims :=
  match compute_units r t with
  | None => None
  | Some c =>
      match storage_units r (map fst (map_to_list sk)) with
      | None => None
      | Some (rd, al, wr) => Some [t_size t; c; rd; al; wr]
      end
  end.

(* ------------------------------------------------------------------ balance handler *)

Definition parse_u64 (v : val) : option N := if Nat.eqb (length v) 8 then Some (be_dec v) else None.

(* GetBalance: not found = 0; malformed = error *)
Definition get_balance (s : view) (k : key) : option N :=
  match get s k with
  | inl v => parse_u64 v
  | inr ENotFound => Some 0
  | inr _ => None
  end.

(* error sub-classes of "failed to execute txs" (mirrors harness/drivers/chain/exec.go) *)
Definition subInvalidKey : N := 1.
Definition subOverflow : N := 2.
Definition subUnitsConsumed : N := 3.
Definition subInsufficient : N := 12.
Definition subOther : N := 13.
Definition subInvalidBalance : N := 15.   (* morpheusvm storage.ErrInvalidBalance *)
Definition sub_of_static (e : N) : N := e + 3.   (* E_CHAIN=1 -> 4 ... E_AUTH_NA=7 -> 10 *)

(* ------------------------------------------------------------------ Transaction.PreExecute *)

Definition static_tx (t : tx) : stx :=
  TxStatic.mkTx (t_expiry t) (if t_chain_ok t then [1] else [0])
       (map (fun a => mkRange (a_start a) (a_end a)) (t_actions t))
       (mkRange (t_auth_start t) (t_auth_end t)).

Definition static_rules (r : rules) : srules := TxStatic.mkRules [1] (r_window r) (r_max_actions r).

(* returns the error sub-class, 0 = ok; [fee] is returned for Execute *)
Definition pre_execute (r : rules) (fm : manager) (t : tx) (u : dims) (s : view) (ts : Z) : N * N :=
  let e := pre_execute_static (static_rules r) (static_tx t) ts in
  if negb (e =? 0) then (sub_of_static e, 0) else
  match fee fm u with
  | None => (subOverflow, 0)
  | Some f =>
      match get_balance s (t_sponsor_key t) with
      | None => (subOther, f)
      | Some b => if b <? f then ((if t_morpheus t then subInvalidBalance else subInsufficient), f) else (0, f)
      end
  end.

(* ------------------------------------------------------------------ actions *)

Inductive aerr := AEFail | AEPerm | AEValue | AEZero | AEMemo | AEBalance | AEOther.
Definition aerr_class (e : aerr) : N :=
  match e with AEFail => 1 | AEPerm => 2 | AEValue => 3 | AEZero => 5 | AEMemo => 6 | AEBalance => 7 | AEOther => 9 end.
Definition aerr_of (e : err) : aerr := match e with EValue => AEValue | _ => AEPerm end.

(* examples/morpheusvm/storage: SubBalance.  Any failure to read a well-formed existing balance is
   ErrInvalidBalance (the "!ok" test comes before the error test); a zero remainder deletes the key. *)
Definition sub_balance (s : view) (k : key) (amount : N) : view * (N + aerr) :=
  match get s k with
  | inl v =>
      match parse_u64 v with
      | None => (s, inr AEBalance)
      | Some bal =>
          if bal <? amount then (s, inr AEBalance) else
          let nbal := bal - amount in
          if nbal =? 0 then
            match remove s k with (s', None) => (s', inl 0) | (s', Some e) => (s', inr (aerr_of e)) end
          else
            match insert s k (be64 nbal) with (s', None) => (s', inl nbal) | (s', Some e) => (s', inr (aerr_of e)) end
      end
  | inr _ => (s, inr AEBalance)
  end.

(* AddBalance: absent = 0; checked add *)
Definition add_balance (s : view) (k : key) (amount : N) : view * (N + aerr) :=
  let cur := match get s k with
             | inl v => match parse_u64 v with Some b => inl b | None => inr AEOther end
             | inr ENotFound => inl 0
             | inr e => inr (aerr_of e)
             end in
  match cur with
  | inr e => (s, inr e)
  | inl bal =>
      match add_chk bal amount with
      | None => (s, inr AEBalance)
      | Some nbal =>
          match insert s k (be64 nbal) with (s', None) => (s', inl nbal) | (s', Some e) => (s', inr (aerr_of e)) end
      end
  end.

(* ScriptAction.Execute: output = for every get, [0] if absent else 1 :: len :: value *)
Fixpoint run_ops (s : view) (ops : list sop) (out : list N) : view * (list N + aerr) :=
  match ops with
  | [] => (s, inl out)
  | o :: rest =>
      match o with
      | OGet k =>
          match get s k with
          | inl v => run_ops s rest (out ++ [1; N.of_nat (length v) mod 256] ++ v)
          | inr ENotFound => run_ops s rest (out ++ [0])
          | inr e => (s, inr (aerr_of e))
          end
      | OPut k v =>
          match insert s k v with
          | (s', None) => run_ops s' rest out
          | (s', Some e) => (s', inr (aerr_of e))
          end
      | ODel k =>
          match remove s k with
          | (s', None) => run_ops s' rest out
          | (s', Some e) => (s', inr (aerr_of e))
          end
      | OFail => (s, inr AEFail)
      | OTransfer from to value memo_ok =>
          if value =? 0 then (s, inr AEZero) else
          if negb memo_ok then (s, inr AEMemo) else
          match sub_balance s from value with
          | (s1, inr e) => (s1, inr e)
          | (s1, inl sb) =>
              match add_balance s1 to value with
              | (s2, inr e) => (s2, inr e)
              | (s2, inl rb) => run_ops s2 rest (out ++ [0] ++ be64 sb ++ be64 rb)   (* TransferResult.Bytes() *)
              end
          end
      end
  end.

Record result := mkResult { res_success : bool; res_err : N; res_fee : N; res_units : dims; res_outputs : list (list N) }.

(* the action loop of Transaction.Execute, from the checkpoint [start] *)
Fixpoint run_actions (s : view) (start : N) (acts : list action) (outs : list (list N)) : view * bool * N * list (list N) :=
  match acts with
  | [] => (s, true, 0, outs)
  | a :: rest =>
      match run_ops s (a_ops a) [] with
      | (s', inl out) => run_actions s' start rest (outs ++ [out])
      | (s', inr e) => (rollback s' start, false, aerr_class e, outs)
      end
  end.

(* Transaction.Execute after a successful PreExecute: deduct the fee, run the actions.
   None = Execute returned an error (the fee could not be deducted). *)
Definition execute_tx (t : tx) (u : dims) (f : N) (s : view) : option (view * result) :=
  let deducted : option view :=
    if t_morpheus t then
      match sub_balance s (t_sponsor_key t) f with
      | (s1, inl _) => Some s1
      | (_, inr _) => None
      end
    else
      match get s (t_sponsor_key t) with
      | inl v =>
          match parse_u64 v with
          | None => None
          | Some b =>
              if b <? f then None else
              match insert s (t_sponsor_key t) (be64 (b - f)) with
              | (s1, None) => Some s1
              | (_, Some _) => None
              end
          end
      | inr _ => None
      end in
  match deducted with
  | Some s1 =>
      let '(s2, ok, ec, outs) := run_actions s1 (op_index s1) (t_actions t) [] in
      Some (s2, mkResult ok ec f u outs)
  | None => None
  end.

(* storage handed to the view by the fetcher: the parent values of the declared keys *)
Definition fetch (parent : gmap key val) (sk : gmap key perm) : gmap key val :=
  filter (fun kv => is_Some (sk !! kv.1)) parent.

(* one task of executeTxs: None = the task returned an error (sub-class given) *)
Definition run_tx (r : rules) (fm : manager) (parent : gmap key val) (ts : Z) (st : tstate) (t : tx)
                  (sk : gmap key perm) (u : dims) : tstate * (result + N) :=
  let s := new_view st (ScopeKeys sk) (fetch parent sk) in
  match pre_execute r fm t u s ts with
  | (0, f) =>
      match execute_tx t u f s with
      | Some (s', res) => (commit s', inl res)
      | None => (st, inr (if t_morpheus t then subInvalidBalance else subInsufficient))
      end
  | (e, _) => (st, inr e)
  end.

(* ------------------------------------------------------------------ executeTxs *)

(* the synchronous part of the loop: state keys, units, Consume, for every tx in block order.
   inl = prepared txs and the fee manager after all Consume calls; inr = the loop's error *)
Fixpoint prepare (r : rules) (fm : manager) (txs : list tx) : (list (tx * gmap key perm * dims) * manager) + N :=
  match txs with
  | [] => inl ([], fm)
  | t :: rest =>
      match state_keys t with
      | None => inr subInvalidKey
      | Some sk =>
          match units r t sk with
          | None => inr subOverflow
          | Some u =>
              match consume fm u (r_max_units r) with
              | (true, _, fm') =>
                  match prepare r fm' rest with
                  | inl (l, fm'') => inl ((t, sk, u) :: l, fm'')
                  | inr e => inr e
                  end
              | (false, _, _) => inr subUnitsConsumed
              end
          end
      end
  end.

(* the tasks, in block order, continuing past a failing task (which commits nothing):
   the block is rejected iff [fails] is non-empty *)
Fixpoint run_txs (r : rules) (fm : manager) (parent : gmap key val) (ts : Z) (st : tstate)
                 (ptxs : list (tx * gmap key perm * dims)) : tstate * list result * list N :=
  match ptxs with
  | [] => (st, [], [])
  | (t, sk, u) :: rest =>
      match run_tx r fm parent ts st t sk u with
      | (st', inl res) =>
          let '(st'', rs, fails) := run_txs r fm parent ts st' rest in (st'', res :: rs, fails)
      | (st', inr e) =>
          let '(st'', rs, fails) := run_txs r fm parent ts st' rest in (st'', rs, e :: fails)
      end
  end.

(* ------------------------------------------------------------------ Processor.Execute *)

Definition clsTooLate : N := 1.
Definition clsFetchHeight : N := 2.
Definition clsBadHeight : N := 4.
Definition clsTooEarly : N := 7.
Definition clsTooEarlyEmpty : N := 8.
Definition clsDuplicate : N := 10.
Definition clsExecuteTxs : N := 11.
Definition clsRootMismatch : N := 12.
Definition clsSignature : N := 13.

Record block := mkBlock {
  b_ts : Z; b_height : N; b_root_ok : bool; b_too_late : bool; b_vw_dup : bool;
  b_fail_key : option key;         (* fault injection: reading this key from the parent view fails *)
  b_txs : list tx }.

(* the three metadata keys, in the order createBlockContext reads them: height, timestamp, fee *)
Record meta_keys := mkMeta { mk_height : key; mk_ts : key; mk_fee : key }.

Definition is_fail (b : block) (k : key) : bool :=
  match b_fail_key b with Some f => bytes_eqb f k | None => false end.

Definition clsFetchTs : N := 5.
Definition clsFetchFee : N := 9.

(* does the injected fault hit a key fetched for the prepared transactions? *)
Definition fail_hits (b : block) (ptxs : list (tx * gmap key perm * dims)) : bool :=
  match b_fail_key b with
  | None => false
  | Some f => existsb (fun p => match p with (_, sk, _) => bool_decide (is_Some (sk !! f)) end) ptxs
  end.

(* the prefix of the block that the synchronous loop prepares before its first error *)
Fixpoint prepared_prefix (r : rules) (fm : manager) (txs : list tx) : list (tx * gmap key perm * dims) :=
  match txs with
  | [] => []
  | t :: rest =>
      match state_keys t with
      | None => []
      | Some sk =>
          match units r t sk with
          | None => []
          | Some u =>
              match consume fm u (r_max_units r) with
              | (true, _, fm') => (t, sk, u) :: prepared_prefix r fm' rest
              | (false, _, _) => []
              end
          end
      end
  end.

Record parent_state := mkParent {
  p_data : gmap key val;           (* everything except the three metadata keys *)
  p_height : option N;             (* None: the height key is missing *)
  p_ts : N;
  p_fee : manager }.

Record out_ok := mkOut {
  o_results : list result;
  o_diff : gmap key (option val);  (* changed data keys (TState.ChangedKeys without the metadata keys) *)
  o_height : N; o_ts : N; o_fee : manager;   (* the metadata written by writeBlockContext *)
  o_prices : dims; o_consumed : dims }.

(* error: (class, sub-class; sub-class 0 = not determined by the model: several tasks fail) *)
Definition execute_block (r : rules) (mk : meta_keys) (p : parent_state) (b : block) : out_ok + (N * N) :=
  if b_too_late b then inr (clsTooLate, 0) else
  if is_fail b (mk_height mk) then inr (clsFetchHeight, 0) else
  match p_height p with
  | None => inr (clsFetchHeight, 0)
  | Some ph =>
      if negb (b_height b =? ph + 1) then inr (clsBadHeight, 0) else
      if is_fail b (mk_ts mk) then inr (clsFetchTs, 0) else
      if (b_ts b <? Z.of_N (p_ts p) + r_min_gap r)%Z then inr (clsTooEarly, 0) else
      if (match b_txs b with [] => true | _ => false end) && (b_ts b <? Z.of_N (p_ts p) + r_min_empty_gap r)%Z
      then inr (clsTooEarlyEmpty, 0) else
      if is_fail b (mk_fee mk) then inr (clsFetchFee, 0) else
      let fm := compute_next (p_fee p) (b_ts b) (r_target r) (r_denom r) (r_min_price r) in
      if b_vw_dup b then inr (clsDuplicate, 0) else
      if fail_hits b (prepared_prefix r fm (b_txs b)) then inr (clsExecuteTxs, 0) else
      match prepare r fm (b_txs b) with
      | inr e => inr (clsExecuteTxs, e)
      | inl (ptxs, fm') =>
          let '(st, results, fails) := run_txs r fm' (p_data p) (b_ts b) ts_new ptxs in
          match fails with
          | [e] => inr (clsExecuteTxs, e)
          | _ :: _ :: _ => inr (clsExecuteTxs, 0)
          | [] =>
              if negb (b_root_ok b) then inr (clsRootMismatch, 0) else
              if negb (forallb t_auth_ok (b_txs b)) then inr (clsSignature, 0) else
              inl (mkOut results (ts_changed st) (b_height b) (Z.to_N (b_ts b mod Z.of_N W64)%Z) fm'
                         (unit_prices fm') (units_consumed fm'))
          end
      end
  end.

(* value of a key after the block *)
Definition post_value (p : parent_state) (o : out_ok) (k : key) : option val :=
  match o_diff o !! k with
  | Some ov => ov
  | None => p_data p !! k
  end.

(* ------------------------------------------------------------------ parent reads (C24)
   Keys requested from the parent view while executing the block, as a sorted list, together with
   a flag telling whether the list is exact (deterministic) or only an upper bound: when the
   synchronous loop stops early or a read fails, the fetcher is stopped while fetches are in
   flight, so only "requested is a sub-multiset of this list" is schedule-independent. *)
Definition declared_keys (ptxs : list (tx * gmap key perm * dims)) : list key :=
  map fst (map_to_list (foldr (fun p acc => match p with (_, sk, _) => sk ∪ acc end) (∅ : gmap key perm) ptxs)).

Definition block_reads (r : rules) (mk : meta_keys) (p : parent_state) (b : block) : list key * bool :=
  if b_too_late b then ([], true) else
  if is_fail b (mk_height mk) then ([mk_height mk], true) else
  match p_height p with
  | None => ([mk_height mk], true)
  | Some ph =>
      if negb (b_height b =? ph + 1) then ([mk_height mk], true) else
      if is_fail b (mk_ts mk) then ([mk_height mk; mk_ts mk], true) else
      if (b_ts b <? Z.of_N (p_ts p) + r_min_gap r)%Z then ([mk_height mk; mk_ts mk], true) else
      if (match b_txs b with [] => true | _ => false end) && (b_ts b <? Z.of_N (p_ts p) + r_min_empty_gap r)%Z
      then ([mk_height mk; mk_ts mk], true) else
      let metas := [mk_height mk; mk_ts mk; mk_fee mk] in
      if is_fail b (mk_fee mk) then (metas, true) else
      if b_vw_dup b then (metas, true) else
      let fm := compute_next (p_fee p) (b_ts b) (r_target r) (r_denom r) (r_min_price r) in
      let pre := prepared_prefix r fm (b_txs b) in
      let exact := Nat.eqb (length pre) (length (b_txs b)) && negb (fail_hits b pre) in
      (metas ++ declared_keys pre, exact)
  end.
