(* Model of chain/transaction.go: Transaction.StateKeys + Transaction.Units, with keys/keys.go (Valid,
   MaxChunks), state/keys.go (Keys.Add) and internal/math/uint64.go (Uint64Operator, in Lib/U64.v).

   Abstract inputs of Units: the encoded size t.Size(); per-action ComputeUnits; Auth.ComputeUnits; for each
   action the map returned by Action.StateKeys (a list of (key, permission) with distinct keys), the map
   returned by BalanceHandler.SponsorStateKeys; the rule costs.  Result: an error class and the five units.
   Error classes: 0 = nil, 1 = math overflow (safemath.ErrOverflow), 2 = ErrInvalidKeyValue.

   The Go code iterates over a map (random order); the model iterates over the merged association list in
   insertion order — Proofs/Units_proofs.v shows that the result does not depend on the order. *)
From Coq Require Import List NArith ZArith Bool.
Import ListNotations.
From HV Require Import Lib.Bytes Lib.U64 Model.Fees.
Local Open Scope N_scope.

Record unit_rules := mkUR {
  ur_base : N;               (* GetBaseComputeUnits *)
  ur_key_read : N; ur_val_read : N;           (* GetStorageKeyReadUnits / GetStorageValueReadUnits (per chunk) *)
  ur_key_alloc : N; ur_val_alloc : N;
  ur_key_write : N; ur_val_write : N }.

Definition skey := (bytes * N)%type.    (* key, permission bits *)

(* keys.Valid: len(key) >= 2 *)
Definition key_valid (k : bytes) : bool := Nat.leb 2 (length k).
(* keys.MaxChunks: big-endian uint16 in the last two bytes *)
Definition max_chunks (k : bytes) : option N :=
  if Nat.ltb (length k) 2 then None else Some (be_dec (skipn (length k - 2) k)).

(* state.Keys.Add: k[key] |= permission, false for a malformed key *)
Fixpoint keys_or (m : list skey) (k : bytes) (p : N) : list skey :=
  match m with
  | [] => [(k, p)]
  | (k', p') :: m' => if bytes_eqb k' k then (k', N.lor p' p) :: m' else (k', p') :: keys_or m' k p
  end.
Definition keys_add (m : list skey) (kp : skey) : option (list skey) :=
  if key_valid (fst kp) then Some (keys_or m (fst kp) (snd kp)) else None.

Fixpoint keys_add_all (m : list skey) (l : list skey) : option (list skey) :=
  match l with
  | [] => Some m
  | kp :: l' => match keys_add m kp with None => None | Some m' => keys_add_all m' l' end
  end.

(* Transaction.StateKeys: all actions in order, then the sponsor keys *)
Fixpoint state_keys_from (m : list skey) (actions : list (list skey)) (sponsor : list skey) : option (list skey) :=
  match actions with
  | [] => keys_add_all m sponsor
  | a :: rest => match keys_add_all m a with None => None | Some m' => state_keys_from m' rest sponsor end
  end.
Definition state_keys (actions : list (list skey)) (sponsor : list skey) : option (list skey) :=
  state_keys_from [] actions sponsor.

(* the storage loop of Units: three sticky-error accumulators; None = the unreachable MaxChunks failure *)
Fixpoint storage_loop (r : unit_rules) (keys : list skey) (ro ao wo : u64op) : option (u64op * u64op * u64op) :=
  match keys with
  | [] => Some (ro, ao, wo)
  | (k, _) :: rest =>
      let ro := op_add ro (ur_key_read r) in
      let ao := op_add ao (ur_key_alloc r) in
      let wo := op_add wo (ur_key_write r) in
      match max_chunks k with
      | None => None
      | Some c =>
          storage_loop r rest (op_muladd ro c (ur_val_read r)) (op_muladd ao c (ur_val_alloc r))
                       (op_muladd wo c (ur_val_write r))
      end
  end.

Definition ERR_NONE : N := 0.
Definition ERR_OVERFLOW : N := 1.
Definition ERR_INVALID_KEY : N := 2.

Definition tx_units (size : N) (r : unit_rules) (action_cu : list N) (auth_cu : N)
                    (action_keys : list (list skey)) (sponsor_keys : list skey) : N * dims :=
  let computeOp := fold_left op_add action_cu (op_new (ur_base r)) in
  let computeOp := op_add computeOp auth_cu in
  match op_value computeOp with
  | None => (ERR_OVERFLOW, dzero)
  | Some maxComputeUnits =>
      match state_keys action_keys sponsor_keys with
      | None => (ERR_INVALID_KEY, dzero)
      | Some keys =>
          match storage_loop r keys (op_new 0) (op_new 0) (op_new 0) with
          | None => (ERR_INVALID_KEY, dzero)
          | Some (ro, ao, wo) =>
              match op_value ro with
              | None => (ERR_OVERFLOW, dzero)
              | Some reads =>
                  match op_value ao with
                  | None => (ERR_OVERFLOW, dzero)
                  | Some allocates =>
                      match op_value wo with
                      | None => (ERR_OVERFLOW, dzero)
                      | Some writes => (ERR_NONE, [size; maxComputeUnits; reads; allocates; writes])
                      end
                  end
              end
          end
      end
  end.
