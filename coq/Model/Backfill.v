(* Model of the validity-window backfill: internal/validitywindow/client.go (BlockFetcherClient.
   FetchBlocks), syncer.go (Syncer.Start: populate from existing blocks, then SaveHistorical +
   AcceptHistorical for every fetched block) and handler.go (fetchBlocks, without its 50 ms
   processing budget).  Executable Gallina only.

   Peers are a fault sequence: one entry per FetchBlocksFromPeer call, either an error or a list
   of raw byte strings; [parse] is the block parser (None = unparsable).  Every entry also carries
   the value the shared minTimestamp has when the call returns (it can only change while the
   client goroutine is inside the call in the harness; constant in Syncer runs without
   UpdateSyncTarget). *)
From Coq Require Import List NArith ZArith Bool.
Import ListNotations.
From HV Require Import Model.ValidityWindow.
Local Open Scope Z_scope.

Definition two64 : N := 18446744073709551616%N.
(* uint64 h - 1 *)
Definition pred64 (h : N) : N := if (h =? 0)%N then (two64 - 1)%N else (h - 1)%N.

Record resp (R : Type) := mkResp { r_min : Z; r_blocks : option (list R) }.
Arguments mkResp {R}. Arguments r_min {R}. Arguments r_blocks {R}.

(* the completion test of FetchBlocks (after the F-22 fix): the block is below the minimum
   timestamp, or it is genesis (height 0: there is nothing older to fetch) *)
Definition fin (min : Z) (b : block) : bool := (b_ts b <? min) || (b_height b =? 0)%N.

Section Client.
Variable R : Type.
Variable parse : R -> option block.

(* for _, raw := range response.Blocks { parse; check expectedParentID; emit; stop if ts < min or height 0 } *)
Fixpoint consume (min : Z) (expected : N) (raws : list R) (last : block) (acc : list block)
  : block * list block * bool :=
  match raws with
  | [] => (last, acc, false)
  | raw :: rest =>
      match parse raw with
      | None => (last, acc, false)
      | Some b =>
          if negb (N.eqb expected (b_id b)) then (last, acc, false)
          else if fin min b then (b, acc ++ [b], true)
               else consume min (b_parent b) rest b (acc ++ [b])
      end
  end.

(* the FetchBlocks loop.  Result: blocks sent on the result channel in order, whether the channel
   was closed (backfill complete), the BlockHeight of every request sent *)
Fixpoint client (resps : list (resp R)) (min : Z) (last : block) (acc : list block) (reqs : list N)
  : list block * bool * list N :=
  if fin min last then (acc, true, reqs)
  else match resps with
       | [] => (acc, false, reqs)
       | r :: rest =>
           let reqs' := reqs ++ [pred64 (b_height last)] in
           match r_blocks r with
           | None => client rest (r_min r) last acc reqs'
           | Some raws =>
               let c := consume (r_min r) (b_parent last) raws last acc in
               if snd c then (snd (fst c), true, reqs')
               else client rest (r_min r) (fst (fst c)) (snd (fst c)) reqs'
           end
       end.

(* Syncer.Start + its goroutine: (window, saved blocks, complete, request heights) *)
Definition syncer (idx : index) (w : win) (W : Z) (target : block) (resps : list (resp R))
  : win * list block * bool * list N :=
  let p := populate idx w W target in
  let w1 := fst (fst p) in
  if snd p then (w1, [], true, [])
  else
    let oldest := hd target (snd (fst p)) in
    let c := client resps (oldest_allowed W (b_ts target)) oldest [] [] in
    (fold_left accept_historical (fst (fst c)) w1, fst (fst c), snd (fst c), snd c).
End Client.

Arguments consume {R}. Arguments client {R}. Arguments syncer {R}.

(* BlockFetcherHandler.fetchBlocks over GetBlockByHeight; None = error response *)
Fixpoint handler_fetch (byh : N -> option block) (min : Z) (fuel : nat) (h : N) (acc : list block)
  : option (list block) :=
  match fuel with
  | O => Some acc
  | S f =>
      match byh h with
      | None => match acc with [] => None | _ => Some acc end
      | Some b =>
          let acc' := acc ++ [b] in
          let h' := pred64 h in
          if (h' =? 0)%N || (b_ts b <? min) then Some acc' else handler_fetch byh min f h' acc'
      end
  end.
