(* Model of internal/mempool/mempool.go (with internal/list/list.go and internal/eheap).

     queue *list.List[T]                 -> [mp_queue : list item]: PushBack = append, PushFront = cons,
                                            Remove(elem) = delete the element's cell (elements are reached
                                            through the expiry heap, whose ids are unique, so the cell is
                                            identified by the item id)
     eh *eheap.ExpiryHeap[*Element[T]]   -> Model/EHeap.v over the same items
     owned map[Address]int               -> association list sponsor -> count (absent = 0)
     streamedItems set.Set[ids.ID]       -> option (list id)   (nil / non-nil matters in add)
     nextStream, nextStreamFetched       -> list item, bool
   All public methods take m.mu, so a concurrent history is a sequence of these atomic steps. *)
From Coq Require Import List NArith ZArith Bool Arith.
Import ListNotations.
From HV Require Import Model.Heap Model.EHeap.

Record item := mkI { it_id : N; it_sp : N; it_size : Z; it_exp : Z }.

Record mp := mkMP {
  mp_pending : Z;
  mp_max : nat;
  mp_maxsp : nat;
  mp_queue : list item;
  mp_eh : list (entry item);
  mp_owned : list (N * nat);
  mp_streamed : option (list N);
  mp_next : list item;
  mp_fetched : bool
}.

Definition mp_new (maxsz maxsp : nat) : mp := mkMP 0 maxsz maxsp [] [] [] None [] false.

Definition owned_get (o : list (N * nat)) (s : N) : nat :=
  match find (fun p => N.eqb (fst p) s) o with Some p => snd p | None => O end.
Definition owned_del (o : list (N * nat)) (s : N) : list (N * nat) :=
  filter (fun p => negb (N.eqb (fst p) s)) o.
Definition owned_set (o : list (N * nat)) (s : N) (c : nat) : list (N * nat) := (s, c) :: owned_del o s.

(* removeFromOwned *)
Definition remove_from_owned (o : list (N * nat)) (s : N) : list (N * nat) :=
  match find (fun p => N.eqb (fst p) s) o with
  | None => o
  | Some p => if Nat.eqb (snd p) 1 then owned_del o s else owned_set o s (snd p - 1)
  end.

Fixpoint queue_remove (q : list item) (id : N) : list item :=
  match q with
  | [] => []
  | x :: r => if N.eqb (it_id x) id then r else x :: queue_remove r id
  end.

Definition mem_id (id : N) (s : list N) : bool := existsb (N.eqb id) s.

Definition set_queue_etc (m : mp) (pending : Z) (q : list item) (eh : list (entry item)) (o : list (N * nat)) : mp :=
  mkMP pending (mp_max m) (mp_maxsp m) q eh o (mp_streamed m) (mp_next m) (mp_fetched m).

(* one iteration of add's loop *)
Definition add1 (front : bool) (m : mp) (x : item) : mp :=
  if match mp_streamed m with Some s => mem_id (it_id x) s | None => false end then m
  else if eh_has (mp_eh m) (it_id x) then m
  else if Nat.eqb (owned_get (mp_owned m) (it_sp x)) (mp_maxsp m) then m
  else if Nat.eqb (length (mp_queue m)) (mp_max m) then m
  else
    set_queue_etc m (mp_pending m + it_size x)%Z
      (if front then x :: mp_queue m else mp_queue m ++ [x])
      (eh_add it_id it_exp (mp_eh m) x)
      (owned_set (mp_owned m) (it_sp x) (S (owned_get (mp_owned m) (it_sp x)))).

Definition add (front : bool) (m : mp) (xs : list item) : mp := fold_left (add1 front) xs m.

(* popNext *)
Definition pop_next (m : mp) : mp * option item :=
  match mp_queue m with
  | [] => (m, None)
  | v :: q' =>
      (set_queue_etc m (mp_pending m - it_size v)%Z q'
         (fst (eh_remove (mp_eh m) (it_id v)))
         (remove_from_owned (mp_owned m) (it_sp v)),
       Some v)
  end.

Definition peek_next (m : mp) : option item := hd_error (mp_queue m).

(* Remove(items): note that owned/pendingSize are adjusted with the ARGUMENT item, as in the code *)
Definition remove1 (m : mp) (x : item) : mp :=
  match eh_remove (mp_eh m) (it_id x) with
  | (_, None) => m
  | (eh', Some el) =>
      set_queue_etc m (mp_pending m - it_size x)%Z
        (queue_remove (mp_queue m) (it_id el)) eh'
        (remove_from_owned (mp_owned m) (it_sp x))
  end.
Definition remove (m : mp) (xs : list item) : mp := fold_left remove1 xs m.

(* SetMinTimestamp *)
Definition set_min_ts (m : mp) (t : Z) : mp * list item :=
  let '(eh', removed) := eh_set_min it_id it_exp (mp_eh m) t in
  (fold_left (fun m v =>
                set_queue_etc m (mp_pending m - it_size v)%Z
                  (queue_remove (mp_queue m) (it_id v)) (mp_eh m)
                  (remove_from_owned (mp_owned m) (it_sp v)))
             removed
             (set_queue_etc m (mp_pending m) (mp_queue m) eh' (mp_owned m)),
   removed).

(* Top(f): f is a script of (cont, restore) answers, one per visited item; the driver's last answer has
   cont = false (the time budget is never the reason to stop in the driver). Returns the visited items. *)
Fixpoint top_loop (script : list (bool * bool)) (m : mp) (restorable visited : list item)
  : mp * list item * list item :=
  match script with
  | [] => (m, restorable, visited)
  | (cont, restore) :: rest =>
      if Nat.eqb (eh_len (mp_eh m)) 0 then (m, restorable, visited)
      else
        match pop_next m with
        | (m', Some v) =>
            let restorable' := if restore then restorable ++ [v] else restorable in
            if cont then top_loop rest m' restorable' (visited ++ [v])
            else (m', restorable', visited ++ [v])
        | (m', None) => (* popNext on an empty queue returns the zero item; not reachable (Len = queue size) *)
            (m', restorable, visited)
        end
  end.
Definition top (m : mp) (script : list (bool * bool)) : mp * list item :=
  let '(m', restorable, visited) := top_loop script m [] [] in
  (add true m' restorable, visited).

Definition set_stream (m : mp) (s : option (list N)) (nx : list item) (f : bool) : mp :=
  mkMP (mp_pending m) (mp_max m) (mp_maxsp m) (mp_queue m) (mp_eh m) (mp_owned m) s nx f.

(* StartStreaming *)
Definition start_streaming (m : mp) : mp := set_stream m (Some []) (mp_next m) (mp_fetched m).

(* streamItems(count); set.Add on a nil set allocates it *)
Fixpoint stream_items (count : nat) (m : mp) : mp * list item :=
  match count with
  | O => (m, [])
  | S c =>
      match pop_next m with
      | (_, None) => (m, [])
      | (m1, Some v) =>
          let s := match mp_streamed m1 with Some s => s | None => [] end in
          let m2 := set_stream m1 (Some (it_id v :: s)) (mp_next m1) (mp_fetched m1) in
          let '(m3, r) := stream_items c m2 in
          (m3, v :: r)
      end
  end.

(* PrepareStream(count) *)
Definition prepare_stream (m : mp) (count : nat) : mp :=
  let '(m1, txs) := stream_items count m in
  set_stream m1 (mp_streamed m1) txs true.

(* Stream(count) *)
Definition stream (m : mp) (count : nat) : mp * list item :=
  if mp_fetched m then (set_stream m (mp_streamed m) [] false, mp_next m)
  else stream_items count m.

(* FinishStreaming(restorable) *)
Definition finish_streaming (m : mp) (restorable : list item) : mp * nat :=
  let m1 := set_stream m None (mp_next m) (mp_fetched m) in
  let m2 := add true m1 restorable in
  if mp_fetched m2 then
    let m3 := add true m2 (mp_next m2) in
    (set_stream m3 (mp_streamed m3) [] false, length restorable + length (mp_next m2))
  else (m2, length restorable).

(* ---- operation language used by the proofs and the correspondence check ---- *)
Inductive op :=
| OAdd (xs : list item)
| ORemove (xs : list item)
| OPop
| OSetMin (t : Z)
| OTop (script : list (bool * bool))
| OStart
| OPrepare (count : nat)
| OStream (count : nat)
| OFinish (restorable : list item).

Inductive out :=
| RUnit
| ROpt (o : option item)
| RItems (xs : list item)
| RNat (n : nat).

Definition step (m : mp) (o : op) : mp * out :=
  match o with
  | OAdd xs => (add false m xs, RUnit)
  | ORemove xs => (remove m xs, RUnit)
  | OPop => let '(m', r) := pop_next m in (m', ROpt r)
  | OSetMin t => let '(m', r) := set_min_ts m t in (m', RItems r)
  | OTop s => let '(m', r) := top m s in (m', RItems r)
  | OStart => (start_streaming m, RUnit)
  | OPrepare c => (prepare_stream m c, RUnit)
  | OStream c => let '(m', r) := stream m c in (m', RItems r)
  | OFinish xs => let '(m', r) := finish_streaming m xs in (m', RNat r)
  end.

Fixpoint run (m : mp) (ops : list op) : mp * list out :=
  match ops with
  | [] => (m, [])
  | o :: rest => let '(m1, r) := step m o in let '(m2, rs) := run m1 rest in (m2, r :: rs)
  end.
