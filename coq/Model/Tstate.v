(* Model of state/tstate/tstate.go and state/tstate/tstate_view.go (as of the tree that contains
   fix 340ee66).  Executable; no proofs here (see Proofs/Tstate_proofs.v).

   ------------------------------------------------------------------------------------------
   INTERFACE (what other components should use)

     key, val, perm, ...          from Model/Keys.v
     tstate                       TState: { ts_changed : gmap key (option val)   -- changedKeys,
                                            ts_ops : N }                         -- ops counter
                                  [Some None] in ts_changed = maybe.Nothing (an explicit delete)
     scope                        ScopeAll (state.CompletePermissions) | ScopeKeys m (state.Keys)
     view                         TStateView; create with [new_view ts scope base]
                                  (base = the state.Immutable the view reads through to, a finite
                                  map that never returns an error other than not-found)
     under s k : option val       value of k below the view: block diff (ts_changed), else base
     vis   s k : option val       ABSTRACT VISIBLE MAP: pending change of the view, else [under]
     get s k      : val + err     GetValue
     insert s k v : view * option err      Insert   (None = nil error)
     remove s k   : view * option err      Remove
     rollback s n : view          Rollback(ctx, n)   (n >= OpIndex is a no-op in the model; Go
                                  requires 0 <= n <= OpIndex)
     op_index s   : N             OpIndex
     commit s     : tstate        Commit (the TState after publishing the view)
     pending_changes s : N        PendingChanges
     hop / step / run             histories of operations and their observable results

   Main lemmas are re-exported as theorems in Props/C04.v, Props/C05.v, Props/C40.v:
     get = vis (C04_read_last_write), insert/remove change vis at k only, rollback restores vis,
     commit publishes exactly {k | vis k <> under k}, footprint/confinement (C05_confinement,
     C05_read_footprint_step), chunk bound (C40_insert_chunk_bound).
   The reachability invariant all of them need is [view_ok] (Proofs/Tstate_proofs.v); it holds for
   [new_view] and is preserved by every operation.
   ------------------------------------------------------------------------------------------ *)
From stdpp Require Import gmap.
From Coq Require Import NArith ZArith.
From HV Require Import Lib.Bytes Model.Keys.
Local Open Scope N_scope.

Inductive err := EPerm      (* tstate.ErrInvalidKeyOrPermission *)
               | EValue     (* tstate.ErrInvalidKeyValue *)
               | ENotFound. (* database.ErrNotFound *)

Inductive opT := CreateOp | InsertOp | RemoveOp.

(* type op struct { t; k; pastV; pastAllocates *uint16; pastWrites *uint16 } *)
Record oprec := mkOp { o_t : opT; o_k : key; o_pastV : val; o_pastA : option N; o_pastW : option N }.

Record tstate := mkTS { ts_changed : gmap key (option val); ts_ops : N }.

Definition ts_new : tstate := mkTS ∅ 0.

Inductive scope := ScopeAll | ScopeKeys (m : gmap key perm).

Definition scope_has (sc : scope) (k : key) (p : perm) : bool :=
  match sc with
  | ScopeAll => true
  | ScopeKeys m => keys_has m k p
  end.

Record view := mkView {
  v_ts : tstate;                         (* ts *)
  v_base : gmap key val;                 (* storage *)
  v_scope : scope;                       (* scope *)
  pending : gmap key (option val);       (* pendingChangedKeys *)
  ops : list oprec;                      (* ops, MOST RECENT FIRST *)
  allocs : gmap key N;                   (* allocates *)
  writes : gmap key N }.                 (* writes *)

Definition new_view (ts : tstate) (sc : scope) (base : gmap key val) : view :=
  mkView ts base sc ∅ [] ∅ ∅.

Definition set_p (s : view) (p : gmap key (option val)) (o : list oprec) (a w : gmap key N) : view :=
  mkView (v_ts s) (v_base s) (v_scope s) p o a w.

(* TState.getChangedValue, then storage.GetValue *)
Definition under_of (ts : tstate) (base : gmap key val) (k : key) : option val :=
  match ts_changed ts !! k with
  | Some ov => ov
  | None => base !! k
  end.
Definition under (s : view) (k : key) : option val := under_of (v_ts s) (v_base s) k.

(* getValue *)
Definition vis_of (ts : tstate) (base : gmap key val) (p : gmap key (option val)) (k : key) : option val :=
  match p !! k with
  | Some ov => ov
  | None => under_of ts base k
  end.
Definition vis (s : view) (k : key) : option val := vis_of (v_ts s) (v_base s) (pending s) k.

Definition oval_eqb (a b : option val) : bool :=
  match a, b with
  | Some x, Some y => bytes_eqb x y
  | None, None => true
  | _, _ => false
  end.

(* checkScope *)
Definition check (s : view) (k : key) (p : perm) : bool := scope_has (v_scope s) k p.

(* GetValue *)
Definition get (s : view) (k : key) : val + err :=
  if negb (check s k pRead) then inr EPerm else
  match vis s k with
  | Some v => inl v
  | None => inr ENotFound
  end.

(* isUnchanged(key, nval, nexists) with (nval, nexists) given as an option *)
Definition is_unchanged (s : view) (k : key) (nv : option val) : bool := oval_eqb (under s k) nv.

(* Insert *)
Definition insert (s : view) (k : key) (v : val) : view * option err :=
  if negb (check s k pWrite) then (s, Some EPerm) else
  if negb (verify_value k v) then (s, Some EValue) else
  let value_chunks := default 0 (num_chunks v) in
  let unchanged := is_unchanged s k (Some v) in
  match vis s k with
  | Some past =>
      if bytes_eqb past v then (s, None) else
      let o := mkOp InsertOp k past (allocs s !! k) (writes s !! k) in
      let a := allocs s in
      let w := <[k := value_chunks]> (writes s) in
      let p := <[k := Some v]> (pending s) in
      if unchanged then (set_p s (delete k p) (o :: ops s) (delete k a) (delete k w), None)
      else (set_p s p (o :: ops s) a w, None)
  | None =>
      if negb (check s k pAllocate) then (s, Some EPerm) else
      let o := mkOp CreateOp k [] (allocs s !! k) (writes s !! k) in
      let a := <[k := default 0 (max_chunks k)]> (allocs s) in
      let w := <[k := value_chunks]> (writes s) in
      let p := <[k := Some v]> (pending s) in
      if unchanged then (set_p s (delete k p) (o :: ops s) (delete k a) (delete k w), None)
      else (set_p s p (o :: ops s) a w, None)
  end.

(* Remove *)
Definition remove (s : view) (k : key) : view * option err :=
  if negb (check s k pWrite) then (s, Some EPerm) else
  match vis s k with
  | None => (s, None)
  | Some past =>
      let unchanged := is_unchanged s k None in
      let o := mkOp RemoveOp k past (allocs s !! k) (writes s !! k) in
      let a := delete k (allocs s) in
      let w := <[k := 0]> (writes s) in
      let p := <[k := None]> (pending s) in
      if unchanged then (set_p s (delete k p) (o :: ops s) (delete k a) (delete k w), None)
      else (set_p s p (o :: ops s) a w, None)
  end.

(* one iteration of the loop in Rollback, on the three maps *)
Definition undo_maps (o : oprec) (paw : gmap key (option val) * gmap key N * gmap key N)
  : gmap key (option val) * gmap key N * gmap key N :=
  let '(p, a, w) := paw in
  let k := o_k o in
  match o_t o with
  | CreateOp =>
      let a' := delete k a in
      match o_pastW o with
      | Some pw => (<[k := None]> p, a', <[k := pw]> w)
      | None => (delete k p, a', delete k w)
      end
  | InsertOp =>
      match o_pastW o with
      | Some pw => (<[k := Some (o_pastV o)]> p, a, <[k := pw]> w)
      | None => (delete k p, a, delete k w)
      end
  | RemoveOp =>
      let a' := match o_pastA o with Some pa => <[k := pa]> a | None => a end in
      match o_pastW o with
      | Some pw => (<[k := Some (o_pastV o)]> p, a', <[k := pw]> w)
      | None => (delete k p, a', delete k w)
      end
  end.

(* pop and undo [n] log entries *)
Fixpoint unwind (n : nat) (l : list oprec) (paw : gmap key (option val) * gmap key N * gmap key N) :=
  match n, l with
  | S n', o :: l' => unwind n' l' (undo_maps o paw)
  | _, _ => (l, paw)
  end.

Definition op_index (s : view) : N := N.of_nat (length (ops s)).

(* Rollback(ctx, restorePoint) *)
Definition rollback (s : view) (restore_point : N) : view :=
  let '(l, (p, a, w)) := unwind (length (ops s) - N.to_nat restore_point) (ops s) (pending s, allocs s, writes s) in
  set_p s p l a w.

(* PendingChanges *)
Definition pending_changes (s : view) : N := N.of_nat (size (pending s)).

(* Commit: for k, v := range pendingChangedKeys { ts.changedKeys[k] = v }; ts.ops += len(ops) *)
Definition commit (s : view) : tstate :=
  mkTS (pending s ∪ ts_changed (v_ts s)) (ts_ops (v_ts s) + op_index s).

(* ---------------------------------------------------------------- histories *)

Inductive hop :=
  | HGet (k : key)
  | HIns (k : key) (v : val)
  | HRem (k : key)
  | HRb (n : N).

Inductive res :=
  | RVal (v : val)        (* GetValue returned a value *)
  | RErr (e : err)        (* any operation returned this error *)
  | ROk.                  (* Insert/Remove returned nil; Rollback *)

Definition res_of_get (r : val + err) : res := match r with inl v => RVal v | inr e => RErr e end.
Definition res_of_err (e : option err) : res := match e with None => ROk | Some e => RErr e end.

Definition step (s : view) (h : hop) : view * res :=
  match h with
  | HGet k => (s, res_of_get (get s k))
  | HIns k v => let '(s', e) := insert s k v in (s', res_of_err e)
  | HRem k => let '(s', e) := remove s k in (s', res_of_err e)
  | HRb n => (rollback s n, ROk)
  end.

Fixpoint run (s : view) (h : list hop) : view * list res :=
  match h with
  | [] => (s, [])
  | x :: h' =>
      let '(s1, r) := step s x in
      let '(s2, rs) := run s1 h' in
      (s2, r :: rs)
  end.

(* ---------------------------------------------------------------- abstract specification
   A plain key-value map (as a function) with a stack of snapshots.  The op index is the height
   of the stack: a snapshot is pushed exactly when an operation changes the visible map.
   Permissions and the key/value size rule are part of the specification. *)

Definition amap := key -> option val.

Record astate := mkA { a_cur : amap; a_stack : list amap; a_scope : scope }.

Definition key_eqb (a b : key) : bool := bytes_eqb a b.
Definition aupd (m : amap) (k : key) (ov : option val) : amap :=
  fun k' => if key_eqb k k' then ov else m k'.

Definition a_get (a : astate) (k : key) : val + err :=
  if negb (scope_has (a_scope a) k pRead) then inr EPerm else
  match a_cur a k with Some v => inl v | None => inr ENotFound end.

Definition a_insert (a : astate) (k : key) (v : val) : astate * option err :=
  if negb (scope_has (a_scope a) k pWrite) then (a, Some EPerm) else
  if negb (verify_value k v) then (a, Some EValue) else
  match a_cur a k with
  | Some past =>
      if bytes_eqb past v then (a, None)
      else (mkA (aupd (a_cur a) k (Some v)) (a_cur a :: a_stack a) (a_scope a), None)
  | None =>
      if negb (scope_has (a_scope a) k pAllocate) then (a, Some EPerm)
      else (mkA (aupd (a_cur a) k (Some v)) (a_cur a :: a_stack a) (a_scope a), None)
  end.

Definition a_remove (a : astate) (k : key) : astate * option err :=
  if negb (scope_has (a_scope a) k pWrite) then (a, Some EPerm) else
  match a_cur a k with
  | None => (a, None)
  | Some _ => (mkA (aupd (a_cur a) k None) (a_cur a :: a_stack a) (a_scope a), None)
  end.

Fixpoint a_pop (n : nat) (cur : amap) (st : list amap) : amap * list amap :=
  match n, st with
  | S n', m :: st' => a_pop n' m st'
  | _, _ => (cur, st)
  end.

Definition a_rollback (a : astate) (n : N) : astate :=
  let '(c, st) := a_pop (length (a_stack a) - N.to_nat n) (a_cur a) (a_stack a) in
  mkA c st (a_scope a).

Definition a_step (a : astate) (h : hop) : astate * res :=
  match h with
  | HGet k => (a, res_of_get (a_get a k))
  | HIns k v => let '(a', e) := a_insert a k v in (a', res_of_err e)
  | HRem k => let '(a', e) := a_remove a k in (a', res_of_err e)
  | HRb n => (a_rollback a n, ROk)
  end.

Fixpoint a_run (a : astate) (h : list hop) : astate * list res :=
  match h with
  | [] => (a, [])
  | x :: h' =>
      let '(a1, r) := a_step a x in
      let '(a2, rs) := a_run a1 h' in
      (a2, r :: rs)
  end.

Definition a_index (a : astate) : N := N.of_nat (length (a_stack a)).
