(* Schedule-parameterised execution of the prepared transactions of a block (property C01).

   [Chain.run_txs] executes the tasks of executeTxs one after the other in block order.  The real
   executor (internal/executor) runs them on several cores in some order that depends on the
   scheduler; what it guarantees (property C08) is that two CONFLICTING tasks never overlap and run
   in block order.  Here a schedule is a list [sigma] of block positions; [par_exec] runs the tasks
   in that order, each through [Chain.run_tx] on the shared block-level TState (fresh view over the
   current block diff, storage = the fetched parent values of its declared keys, Commit at its end),
   exactly as [run_txs] does for the identity order, and records the outcome of every position.

   The atoms of this model are whole tasks: TStateView.Commit runs under the TState lock and a task
   only reads keys it declared, so (given C08) a task never observes a partially executed
   conflicting task.  Definitions only; the theory is in Proofs/ParExec_proofs.v, the theorems in
   Props/C01.v. *)
From stdpp Require Import gmap.
From Coq Require Import NArith ZArith.
From HV Require Import Lib.Bytes Lib.U64 Model.Keys Model.Tstate Model.Fees Model.TxStatic Model.Chain.
Local Open Scope N_scope.

(* a prepared transaction: the tx, its state keys, its units (what [Chain.prepare] returns) *)
Definition ptx : Type := tx * gmap key perm * dims.
Definition ptx_keys (p : ptx) : gmap key perm := snd (fst p).

(* outcome of one task: its Result, or the error sub-class the task returned *)
Definition outcome : Type := result + N.

(* ------------------------------------------------------------------ conflicts *)

(* "more than Read": the permission is neither empty nor exactly state.Read
   (same notion as Model/Executor.v [more_than_read], the conflict notion of property C08) *)
Definition more_than_read (p : perm) : bool := negb (N.eqb p 0) && negb (N.eqb p pRead).

(* two declared key maps conflict iff they share a key on which at least one of the two permissions
   is more than Read *)
Definition conflict (a b : gmap key perm) : bool :=
  existsb (fun kp => match b !! fst kp with
                     | Some q => more_than_read (snd kp) || more_than_read q
                     | None => false
                     end) (map_to_list a).

(* the executor's own, coarser notion (internal/executor: everything that is not exactly Read is
   exclusive): every [conflict] is an [exec_conflict], so a schedule that keeps the executor's
   conflicting pairs in block order also keeps ours *)
Definition not_read (p : perm) : bool := negb (N.eqb p pRead).
Definition exec_conflict (a b : gmap key perm) : bool :=
  existsb (fun kp => match b !! fst kp with
                     | Some q => not_read (snd kp) || not_read q
                     | None => false
                     end) (map_to_list a).

(* conflict between two block positions (positions outside the block conflict with nothing) *)
Definition conflict_at (cf : gmap key perm -> gmap key perm -> bool) (ptxs : list ptx) (i j : nat) : bool :=
  match ptxs !! i, ptxs !! j with
  | Some a, Some b => cf (ptx_keys a) (ptx_keys b)
  | _, _ => false
  end.

(* [sigma] respects the conflicts of the block: whenever position i is scheduled before position j
   and the two conflict, i is also before j in the block *)
Definition respects_with (cf : gmap key perm -> gmap key perm -> bool) (ptxs : list ptx) (sigma : list nat) : Prop :=
  forall a b i j, (a < b)%nat -> sigma !! a = Some i -> sigma !! b = Some j ->
                  conflict_at cf ptxs i j = true -> (i < j)%nat.
Definition respects := respects_with conflict.

(* executable version (for examples and checks) *)
Fixpoint respects_b (cf : gmap key perm -> gmap key perm -> bool) (ptxs : list ptx) (sigma : list nat) : bool :=
  match sigma with
  | [] => true
  | i :: rest => forallb (fun j => negb (conflict_at cf ptxs i j) || Nat.ltb i j) rest && respects_b cf ptxs rest
  end.

(* ------------------------------------------------------------------ execution under a schedule *)

Fixpoint par_exec (r : rules) (fm : manager) (parent : gmap key val) (ts : Z) (st : tstate)
                  (ptxs : list ptx) (sigma : list nat) : tstate * list (nat * outcome) :=
  match sigma with
  | [] => (st, [])
  | i :: rest =>
      match ptxs !! i with
      | Some (t, sk, u) =>
          let '(st', o) := run_tx r fm parent ts st t sk u in
          let '(st'', os) := par_exec r fm parent ts st' ptxs rest in
          (st'', (i, o) :: os)
      | None => par_exec r fm parent ts st ptxs rest      (* not a position of the block: nothing runs *)
      end
  end.

(* the per-position outcomes, read back in block order (results[i] of executeTxs) *)
Definition outcome_map (os : list (nat * outcome)) : gmap nat outcome := list_to_map os.
Definition outcomes_in_order (n : nat) (os : list (nat * outcome)) : list outcome :=
  omap (fun i => outcome_map os !! i) (seq 0 n).
Definition oks (l : list outcome) : list result :=
  omap (fun o => match o with inl x => Some x | inr _ => None end) l.
Definition errs (l : list outcome) : list N :=
  omap (fun o => match o with inl _ => None | inr e => Some e end) l.

(* same observables as [Chain.run_txs]: final block-level TState, results in block order, errors of
   the failing tasks in block order *)
Definition par_block (r : rules) (fm : manager) (parent : gmap key val) (ts : Z) (st : tstate)
                     (ptxs : list ptx) (sigma : list nat) : tstate * list result * list N :=
  let '(st', os) := par_exec r fm parent ts st ptxs sigma in
  let l := outcomes_in_order (length ptxs) os in
  (st', oks l, errs l).

(* ------------------------------------------------------------------ Processor.Execute under a schedule
   [Chain.execute_block] with the task loop [run_txs] replaced by [par_block ... sigma]; everything
   else (block context, fee manager, synchronous prepare loop, verdict) is textually the same. *)
Definition execute_block_sched (r : rules) (mk : meta_keys) (p : parent_state) (b : block) (sigma : list nat)
  : out_ok + (N * N) :=
  if b_too_late b then inr (clsTooLate, 0) else
  if is_fail b (mk_height mk) then inr (clsFetchHeight, 0) else
  match p_height p with
  | None => inr (clsFetchHeight, 0)
  | Some ph =>
      if negb (b_height b =? ph + 1) then inr (clsBadHeight, 0) else
      if is_fail b (mk_ts mk) then inr (clsFetchTs, 0) else
      if (b_ts b <? Z.of_N (p_ts p) + r_min_gap r)%Z then inr (clsTooEarly, 0) else
      if (match b_txs b with [] => true | _ => false end) && (b_ts b <? Z.of_N (p_ts p) + r_min_empty_gap r)%Z
      then inr (clsTooEarlyEmpty, 0) else
      if is_fail b (mk_fee mk) then inr (clsFetchFee, 0) else
      let fm := compute_next (p_fee p) (b_ts b) (r_target r) (r_denom r) (r_min_price r) in
      if b_vw_dup b then inr (clsDuplicate, 0) else
      if fail_hits b (prepared_prefix r fm (b_txs b)) then inr (clsExecuteTxs, 0) else
      match prepare r fm (b_txs b) with
      | inr e => inr (clsExecuteTxs, e)
      | inl (ptxs, fm') =>
          let '(st, results, fails) := par_block r fm' (p_data p) (b_ts b) ts_new ptxs sigma in
          match fails with
          | [e] => inr (clsExecuteTxs, e)
          | _ :: _ :: _ => inr (clsExecuteTxs, 0)
          | [] =>
              if negb (b_root_ok b) then inr (clsRootMismatch, 0) else
              if negb (forallb t_auth_ok (b_txs b)) then inr (clsSignature, 0) else
              inl (mkOut results (ts_changed st) (b_height b) (Z.to_N (b_ts b mod Z.of_N W64)%Z) fm'
                         (unit_prices fm') (units_consumed fm'))
          end
      end
  end.

(* the key maps of a block's transactions, for stating "sigma respects the conflicts of block b"
   without mentioning [prepare]: the state keys of the i-th transaction *)
Definition tx_keys_at (txs : list tx) (i : nat) : option (gmap key perm) :=
  match txs !! i with Some t => state_keys t | None => None end.
Definition tx_conflict_at (cf : gmap key perm -> gmap key perm -> bool) (txs : list tx) (i j : nat) : bool :=
  match tx_keys_at txs i, tx_keys_at txs j with
  | Some a, Some b => cf a b
  | _, _ => false
  end.
Definition respects_block_with (cf : gmap key perm -> gmap key perm -> bool) (txs : list tx) (sigma : list nat) : Prop :=
  forall a b i j, (a < b)%nat -> sigma !! a = Some i -> sigma !! b = Some j ->
                  tx_conflict_at cf txs i j = true -> (i < j)%nat.
Definition respects_block := respects_block_with conflict.

(* executable version *)
Fixpoint respects_block_b (cf : gmap key perm -> gmap key perm -> bool) (txs : list tx) (sigma : list nat) : bool :=
  match sigma with
  | [] => true
  | i :: rest => forallb (fun j => negb (tx_conflict_at cf txs i j) || Nat.ltb i j) rest && respects_block_b cf txs rest
  end.

(* ------------------------------------------------------------------ finer grain: commits between the operations of a task
   A task's view reads the shared block diff lazily, at every GetValue/Insert/Remove (TState.getChangedValue
   under the read lock), so other tasks may Commit between two of its operations.  [retarget s ts'] is
   the same view (same storage, scope, pending changes, op log) looking at the current block diff [ts'];
   [run_segments] runs a history of view operations cut into segments, each segment seeing the block
   diff that is current at that time. *)
Definition retarget (s : view) (ts' : tstate) : view :=
  mkView ts' (v_base s) (v_scope s) (pending s) (ops s) (allocs s) (writes s).

Fixpoint run_segments (s : view) (segs : list (tstate * list hop)) : view * list res :=
  match segs with
  | [] => (s, [])
  | (ts', hs) :: rest =>
      let '(s1, r1) := run (retarget s ts') hs in
      let '(s2, r2) := run_segments s1 rest in
      (s2, r1 ++ r2)
  end.
