(* AuthWire.v — executable model of the auth wire formats, address derivation and the signature guards
   hypersdk itself adds (C17).

   Go code modelled (as it exists in /repo now):
     auth/consts.go                    type ids
     auth/ed25519.go, secp256r1.go, bls.go   Bytes / Unmarshal* / Actor / Sponsor / New*Address
     codec/type_parser.go              TypeParser.Unmarshal (dispatch on the first byte, whole slice passed on)
     codec/address.go                  CreateAddress
     crypto/secp256r1/secp256r1.go     Verify: r,s = big-endian halves, normalizedS (low-S) guard, ecdsa.Verify
     crypto/ed25519/ed25519.go         Verify = ed25519consensus.Verify (ZIP-215; s < l enforced by the library)

   Byte strings are [list N].  The hash [H] (utils.ToID = sha256), the BLS point validity predicates and the
   cryptographic verification functions are parameters (Section variables / arguments).  Model only. *)
From Coq Require Import List NArith ZArith Bool.
Import ListNotations.
From HV Require Import Lib.Bytes.

(* ---- auth/consts.go ---------------------------------------------------------------------------- *)
Definition ED25519_ID : N := 0%N.
Definition SECP256R1_ID : N := 1%N.
Definition BLS_ID : N := 2%N.

(* ed25519.PublicKeyLen = 32, SignatureLen = 64; secp256r1: 33 (compressed), 64 (R || S);
   bls: 48 (compressed G1), 96 (compressed G2) *)
Definition pk_len (id : N) : nat :=
  if N.eqb id ED25519_ID then 32 else if N.eqb id SECP256R1_ID then 33 else 48.
Definition sig_len (id : N) : nat :=
  if N.eqb id BLS_ID then 96 else 64.
(* ED25519Size = 97, SECP256R1Size = 98, BLSSize = 145 *)
Definition auth_size (id : N) : nat := 1 + pk_len id + sig_len id.

(* an auth object: scheme, signer bytes, signature bytes (a BLS point is represented by its compressed
   encoding; Compress(Uncompress b) = b for accepted b is blst's contract, checked by the driver) *)
Record auth : Type := mk_auth { a_id : N; a_pk : bytes; a_sig : bytes }.

(* Bytes(): b := make([]byte, Size); b[0] = typeID; copy(b[1:], signer); copy(b[1+PublicKeyLen:], signature) *)
Definition auth_bytes (a : auth) : bytes := a_id a :: a_pk a ++ a_sig a.

(* UnmarshalED25519 / UnmarshalSECP256R1 / the first part of UnmarshalBLS:
     if len(bytes) != Size { error }; if bytes[0] != ID { error }
     copy(signer, bytes[1:]); copy(signature, bytes[1+PublicKeyLen:]) *)
Definition unmarshal_fixed (id : N) (b : bytes) : option auth :=
  if negb (Nat.eqb (length b) (auth_size id)) then None
  else match b with
       | [] => None
       | t :: rest =>
           if negb (N.eqb t id) then None
           else Some (mk_auth id (firstn (pk_len id) rest) (firstn (sig_len id) (skipn (pk_len id) rest)))
       end.

Section Wire.
(* bls.PublicKeyFromBytes succeeds (Uncompress != nil && KeyValidate) / bls.SignatureFromBytes succeeds
   (Uncompress != nil && SigValidate(false)) *)
Variable bls_pk_ok : bytes -> bool.
Variable bls_sig_ok : bytes -> bool.

Definition unmarshal_bls (b : bytes) : option auth :=
  match unmarshal_fixed BLS_ID b with
  | None => None
  | Some a => if bls_pk_ok (a_pk a) then if bls_sig_ok (a_sig a) then Some a else None else None
  end.

Definition unmarshal_scheme (id : N) (b : bytes) : option auth :=
  if N.eqb id BLS_ID then unmarshal_bls b else unmarshal_fixed id b.

(* TypeParser.Unmarshal with the three auth types registered (examples/morpheusvm/vm/vm.go):
   empty slice: error; unknown type id: error; else decoder(bytes) with the type id included *)
Definition parse_auth (b : bytes) : option auth :=
  match b with
  | [] => None
  | t :: _ =>
      if N.eqb t ED25519_ID || N.eqb t SECP256R1_ID || N.eqb t BLS_ID then unmarshal_scheme t b else None
  end.

(* ---- addresses --------------------------------------------------------------------------------- *)
(* utils.ToID(pk bytes) = sha256 *)
Variable H : bytes -> bytes.

(* codec.CreateAddress(typeID, id): a[0] = typeID; copy(a[1:], id[:]) *)
Definition create_address (id : N) (h : bytes) : bytes := id :: h.

(* NewED25519Address / NewSECP256R1Address / NewBLSAddress *)
Definition auth_address (a : auth) : bytes := create_address (a_id a) (H (a_pk a)).
Definition actor (a : auth) : bytes := auth_address a.
Definition sponsor (a : auth) : bytes := auth_address a.

End Wire.

(* ---- fixed-width integers ---------------------------------------------------------------------- *)
Local Open Scope Z_scope.

(* new(big.Int).SetBytes(b): big-endian *)
Definition be_decode (b : bytes) : Z := fold_left (fun acc x => acc * 256 + Z.of_N x) b 0.

(* big.Int.FillBytes into n bytes (value taken modulo 256^n) *)
Fixpoint be_encode (n : nat) (v : Z) : bytes :=
  match n with
  | O => []
  | S n' => be_encode n' (v / 256) ++ [Z.to_N (v mod 256)]
  end.

(* little-endian (ed25519 scalars) *)
Definition le_decode (b : bytes) : Z := be_decode (rev b).

Definition byte_ok (x : N) : Prop := (x < 256)%N.
Definition bytes_ok (b : bytes) : Prop := Forall byte_ok b.

(* ---- crypto/secp256r1 -------------------------------------------------------------------------- *)
(* elliptic.P256().Params().N *)
Definition p256_n : Z := 0xffffffff00000000ffffffffffffffffbce6faada7179e84f3b9cac2fc632551.
(* secp256r1HalfOrder = N / 2 *)
Definition p256_half : Z := p256_n / 2.
(* normalizedS: s.Cmp(secp256r1HalfOrder) != 1 *)
Definition normalized_s (s : Z) : bool := s <=? p256_half.

(* secp256r1.Verify(msg, pk, sig): [ecdsa pk msg r s] stands for
   "UnmarshalCompressed(pk) succeeds && ecdsa.Verify(pk, sha256(msg), r, s)" *)
Definition secp_r (sig : bytes) : Z := be_decode (firstn 32 sig).
Definition secp_s (sig : bytes) : Z := be_decode (skipn 32 sig).
Definition secp_verify (ecdsa : bytes -> bytes -> Z -> Z -> bool) (msg pk sig : bytes) : bool :=
  if normalized_s (secp_s sig) then ecdsa pk msg (secp_r sig) (secp_s sig) else false.

(* ---- crypto/ed25519 ---------------------------------------------------------------------------- *)
(* order of the ed25519 base point, l = 2^252 + 27742317777372353535851937790883648493 *)
Definition ed_l : Z := 0x1000000000000000000000000000000014def9dea2f79cd65812631a5cf5d3ed.
(* the guard ZIP-215 / ed25519consensus applies to the second half of the signature (SetCanonicalBytes) *)
Definition ed_s (sig : bytes) : Z := le_decode (skipn 32 sig).
Definition ed_s_canonical (sig : bytes) : bool := ed_s sig <? ed_l.

(* Auth.Verify per scheme.  [lib] is the answer of the underlying library on (pk, msg, sig):
   ed25519consensus.Verify, raw ecdsa.Verify (no low-S rule), blst verify. *)
Definition auth_verify (lib : bool) (a : auth) : bool :=
  if N.eqb (a_id a) ED25519_ID then ed_s_canonical (a_sig a) && lib
  else if N.eqb (a_id a) SECP256R1_ID then secp_verify (fun _ _ _ _ => lib) [] (a_pk a) (a_sig a)
  else lib.

(* ---- verification equations in the exponent (used only by the C17 *_refuted witnesses) ------------
   Group elements are represented by their discrete logarithms.
   BLS (avalanchego bls.Verify = blst core verify, basic scheme): pk = x*g1, H(m) = h*g2, sig = s*g2;
   e(pk, H(m)) = e(g1, sig)  <=>  x*h = s (mod r).  Neither pk nor the address is part of the signed message. *)
Definition bls_r : Z := 0x73eda753299d7d483339d80809a1d80553bda402fffe5bfeffffffff00000001.
Definition bls_exp_verify (x h s : Z) : bool := ((x * h) mod bls_r =? s mod bls_r)%Z.

(* ECDSA (crypto/ecdsa.Verify): Q = d*G, z = hash; the verifier recomputes R = (z/s)G + (r/s)Q = k*G with
   s*k = z + r*d (mod n) and accepts iff x(R) mod n = r.  [xcoord k] stands for x(k*G) mod n; the only fact
   used is x(k*G) = x((n-k)*G). *)
Definition ecdsa_exp_verify (xcoord : Z -> Z) (d z r s k : Z) : bool :=
  (((s * k) mod p256_n =? (z + r * d) mod p256_n) && (xcoord k =? r))%Z.
