(* Model of x/dsmr/node.go Verify / BuildBlock / Accept (replay-protection relevant part) on top of
   Model/ValidityWindow.v: a DSMR block is a [block] whose items are chunk certificates
   (chunk id, expiry).  Certificate signatures are an oracle (all certificates the harness uses
   are validly signed); the chunk storage is modelled as the list of pending certificates. *)
From Coq Require Import List NArith ZArith Bool.
Import ListNotations.
From HV Require Import Model.ValidityWindow.
Local Open Scope Z_scope.

Definition max_time_skew : Z := 30000000000.   (* maxTimeSkew.Nanoseconds(): 30 s in ns *)
Definition dsmr_divisor : Z := 1.              (* validityWindowTimestampDivisor *)

Definition is_nil {A} (l : list A) : bool := match l with [] => true | _ => false end.

(* the expiry loop added by fix 1a58604: VerifyTimestamp(cert.Expiry, block.Timestamp, 1, W) *)
Definition certs_in_interval (W : Z) (b : block) : bool :=
  forallb (fun it => N.eqb (verify_timestamp (snd it) (b_ts b) dsmr_divisor W) 0) (b_items b).

(* Node.Verify(parent, block).  0 nil; 1 ErrDuplicateContainer; 2 other replay-check error;
   3 ErrInvalidChunkCertExpiry; 4 ErrEmptyBlock; 5 ErrInvalidBlockTimestamp;
   6 ErrInvalidBlockHeight; 7 ErrInvalidBlockParent *)
Definition dsmr_verify (idx : index) (w : win) (W : Z) (parent b : block) : N :=
  if negb (N.eqb (b_parent b) (b_id parent)) then 7%N
  else if negb (N.eqb (b_height b) (N.succ (b_height parent))) then 6%N
  else if (b_ts b <=? b_ts parent) || (b_ts b >? b_ts parent + max_time_skew) then 5%N
  else if is_nil (b_items b) then 4%N
  else match verify_replay idx w W b with
       | 0%N => if certs_in_interval W b then 0%N else 3%N
       | c => c
       end.

(* as a [vfun]: the engine hands Verify the parent block *)
Definition dsmr_vf : vfun := fun tree idx w W b =>
  match tree (b_parent b) with
  | Some p => dsmr_verify idx w W p b
  | None => 8%N
  end.

(* BuildBlock(parent, timestamp) over the gathered pending certificates.
   0 ok (with the certificates kept); 1 ErrTimestampNotMonotonicallyIncreasing;
   2 ErrNoAvailableChunkCerts; 3 IsRepeat error *)
Definition dsmr_keep (W ts : Z) (certs : list item) (m : list bool) : list item :=
  map fst (filter (fun p => negb ((snd (fst p) <? ts) || (snd (fst p) >? ts + W) || snd p))
                  (combine certs m)).

Definition dsmr_build (idx : index) (w : win) (W : Z) (parent : block) (ts : Z) (certs : list item)
  : N * list item :=
  if ts <=? b_ts parent then (1%N, [])
  else let r := is_repeat idx w W parent ts certs in
       if snd r then (3%N, [])
       else let avail := dsmr_keep W ts certs (fst r) in
            if is_nil avail then (2%N, []) else (0%N, avail).

(* ------------------------------------------------------------------ node = window + storage *)
Inductive dop :=
| DVerify (b : N)
| DAccept (b : N)
| DBuild (parent : N) (ts : Z).

Inductive dout :=
| DOutV (code : N)
| DOutA (code : N)                                  (* 0 accepted, 2 skipped: a chunk is not pending *)
| DOutB (code : N) (certs : list N) (vcode : N)     (* build code, sorted chunk ids, Verify of the built block *)
| DOutBad.

Record dsys := mkD { d_sys : sys; d_pending : list item }.

Fixpoint insert_sorted (x : N) (l : list N) : list N :=
  match l with
  | [] => [x]
  | y :: l' => if (x <=? y)%N then x :: l else y :: insert_sorted x l'
  end.
Definition sort_ids (l : list N) : list N := fold_right insert_sorted [] l.

Definition pending_has (p : list item) (x : N) : bool := existsb (fun it => N.eqb (fst it) x) p.

(* storage.SetMin(ts, accepted ids): accepted chunks leave the pending map, pending chunks whose
   expiry is below ts are discarded (the storage emap never tracks expiry 0) *)
Definition storage_set_min (p : list item) (ts : Z) (accepted : list N) : list item :=
  filter (fun it => negb (mem (fst it) accepted) && ((snd it =? 0) || (ts <=? snd it))) p.

Definition dstep (tree : index) (W : Z) (s : dsys) (o : dop) : dsys * dout :=
  match o with
  | DVerify b =>
      match step dsmr_vf tree W (d_sys s) (OVerify b) with
      | (_, OutV c) => (s, DOutV c)
      | _ => (s, DOutBad)
      end
  | DAccept b =>
      match tree b with
      | Some blk =>
          if forallb (fun it => pending_has (d_pending s) (fst it)) (b_items blk)
             && negb (has_dup [] (ids (b_items blk)))
          then (mkD (fst (step dsmr_vf tree W (d_sys s) (OAccept b)))
                    (storage_set_min (d_pending s) (b_ts blk) (ids (b_items blk))),
                DOutA 0)
          else (s, DOutA 2)
      | None => (s, DOutBad)
      end
  | DBuild p ts =>
      match tree p with
      | Some pb =>
          let idx := idx_of tree (s_floor (d_sys s)) in
          let w := s_win (d_sys s) in
          let r := dsmr_build idx w W pb ts (d_pending s) in
          let blk := mkB 0 (b_id pb) (N.succ (b_height pb)) ts (snd r) in
          (s, DOutB (fst r) (sort_ids (ids (snd r)))
                    (if N.eqb (fst r) 0 then dsmr_verify idx w W pb blk else 0%N))
      | None => (s, DOutBad)
      end
  end.

Fixpoint drun (tree : index) (W : Z) (s : dsys) (ops : list dop) : list dout :=
  match ops with
  | [] => []
  | o :: ops' => let r := dstep tree W s o in snd r :: drun tree W (fst r) ops'
  end.

Definition dsys0 (tree : index) (W : Z) (genesis : block) (pending : list item) : dsys :=
  mkD (sys0 tree W genesis) pending.
