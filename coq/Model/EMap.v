(* Model of internal/emap/emap.go: EMap = set [seen] of ids + buckets of ids per timestamp [times] +
   min-heap [bh] of buckets keyed by timestamp.
     seen  : set.Set[ids.ID]       -> list of ids (membership only)
     times : map[int64]*bucket     -> association list timestamp -> ids of the bucket, in append order
     bh    : heap.Heap[*bucket]    -> Model/Heap.v heap whose entries carry ID = first id of the bucket,
                                      Val = timestamp and Item = the bucket.  The *bucket held by the heap
                                      entry is the same object as times[Val] (created together in add,
                                      deleted together in SetMin), so the model stores the bucket once (in
                                      [times]) and the heap entry's item is its timestamp. *)
From Coq Require Import List NArith ZArith Bool Arith.
Import ListNotations.
From HV Require Import Model.Heap.

Record emap := mkEM {
  em_bh : list (entry Z);
  em_seen : list N;
  em_times : list (Z * list N)
}.

Definition em_new : emap := mkEM [] [] [].

Definition mem_id (id : N) (s : list N) : bool := existsb (N.eqb id) s.

Fixpoint times_get (ts : list (Z * list N)) (t : Z) : option (list N) :=
  match ts with
  | [] => None
  | (t', b) :: rest => if Z.eqb t' t then Some b else times_get rest t
  end.

Fixpoint times_append (ts : list (Z * list N)) (t : Z) (id : N) : list (Z * list N) :=
  match ts with
  | [] => []
  | (t', b) :: rest => if Z.eqb t' t then (t', b ++ [id]) :: rest else (t', b) :: times_append rest t id
  end.

Definition times_del (ts : list (Z * list N)) (t : Z) : list (Z * list N) :=
  filter (fun p => negb (Z.eqb (fst p) t)) ts.

(* add(id, t) *)
Definition em_add1 (e : emap) (id : N) (t : Z) : emap :=
  if Z.eqb t 0 then e
  else if mem_id id (em_seen e) then e
  else
    let seen' := id :: em_seen e in
    match times_get (em_times e) t with
    | Some _ => mkEM (em_bh e) seen' (times_append (em_times e) t id)
    | None =>
        mkEM (heap_push true (em_bh e) (mkE id t t (length (em_bh e))))
             seen'
             ((t, [id]) :: em_times e)
    end.

(* Add(items) *)
Definition em_add (e : emap) (items : list (N * Z)) : emap :=
  fold_left (fun e p => em_add1 e (fst p) (snd p)) items e.

Definition remove_ids (s : list N) (ids : list N) : list N :=
  filter (fun x => negb (mem_id x ids)) s.

(* SetMin(t): for { b := bh.First(); if b == nil || b.Val >= t break; bh.Pop();
                    for id in b.Item.items { seen.Remove(id); evicted += id }; delete(times, b.Val) } *)
Fixpoint em_set_min_loop (fuel : nat) (e : emap) (t : Z) : emap * list N :=
  match fuel with
  | O => (e, [])
  | S f =>
      match heap_first (em_bh e) with
      | None => (e, [])
      | Some b =>
          if (t <=? e_val b)%Z then (e, [])
          else
            let bh' := fst (heap_pop true (em_bh e)) in
            let ids := match times_get (em_times e) (e_val b) with Some l => l | None => [] end in
            let e' := mkEM bh' (remove_ids (em_seen e) ids) (times_del (em_times e) (e_val b)) in
            let '(e'', r) := em_set_min_loop f e' t in
            (e'', ids ++ r)
      end
  end.
Definition em_set_min (e : emap) (t : Z) : emap * list N :=
  em_set_min_loop (S (length (em_bh e))) e t.

(* Any(items) *)
Definition em_any (e : emap) (ids : list N) : bool := existsb (fun id => mem_id id (em_seen e)) ids.

(* Contains(items, marker, stop): marker is a bit set over positions; returned marker *)
Fixpoint em_contains_loop (e : emap) (ids : list N) (i : nat) (marker : list nat) (stop : bool) : list nat :=
  match ids with
  | [] => marker
  | id :: rest =>
      if existsb (Nat.eqb i) marker then em_contains_loop e rest (S i) marker stop
      else if mem_id id (em_seen e) then
        if stop then marker ++ [i]
        else em_contains_loop e rest (S i) (marker ++ [i]) stop
      else em_contains_loop e rest (S i) marker stop
  end.
Definition em_contains (e : emap) (ids : list N) (marker : list nat) (stop : bool) : list nat :=
  em_contains_loop e ids 0 marker stop.
