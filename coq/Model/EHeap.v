(* Model of internal/eheap/eheap.go: ExpiryHeap[T] = min-heap (internal/heap) of items keyed by
   GetExpiry(), with lookup by GetID().  [A] is the item type T; [gid]/[gexp] are T.GetID/T.GetExpiry. *)
From Coq Require Import List NArith ZArith Bool Arith.
Import ListNotations.
From HV Require Import Model.Heap.

Section EHeapModel.
Variable A : Type.
Variable gid : A -> N.
Variable gexp : A -> Z.

Definition eheap := list (entry A).

Definition eh_new : eheap := [].

(* Add: minHeap.Push(&Entry{ID: item.GetID(), Val: item.GetExpiry(), Item: item, Index: minHeap.Len()}) *)
Definition eh_add (h : eheap) (x : A) : eheap :=
  heap_push true h (mkE (gid x) x (gexp x) (length h)).

(* Remove(id): entry, ok := minHeap.Get(id); if !ok return zero,false; minHeap.Remove(entry.Index);
   return entry.Item, true *)
Definition eh_remove (h : eheap) (id : N) : eheap * option A :=
  match ih_get h id with
  | None => (h, None)
  | Some e => (fst (heap_remove true h (e_idx e)), Some (e_item e))
  end.

(* PeekMin *)
Definition eh_peek (h : eheap) : option A := option_map e_item (heap_first h).

(* PopMin: first := minHeap.First(); if nil -> zero,false; item := first.Item; eh.Remove(item.GetID()) *)
Definition eh_pop (h : eheap) : eheap * option A :=
  match heap_first h with
  | None => (h, None)
  | Some e => (fst (eh_remove h (gid (e_item e))), Some (e_item e))
  end.

(* SetMin(val): for { min, ok := PeekMin(); if !ok break; if min.GetExpiry() < val { PopMin(); append; continue }; break } *)
Fixpoint eh_set_min_loop (fuel : nat) (h : eheap) (t : Z) : eheap * list A :=
  match fuel with
  | O => (h, [])
  | S f =>
      match eh_peek h with
      | None => (h, [])
      | Some x =>
          if (gexp x <? t)%Z then
            let h1 := fst (eh_pop h) in
            let '(h2, r) := eh_set_min_loop f h1 t in
            (h2, x :: r)
          else (h, [])
      end
  end.
Definition eh_set_min (h : eheap) (t : Z) : eheap * list A := eh_set_min_loop (S (length h)) h t.

Definition eh_has (h : eheap) (id : N) : bool := ih_has h id.
Definition eh_len (h : eheap) : nat := length h.

End EHeapModel.

Arguments eh_add {A}.
Arguments eh_remove {A}.
Arguments eh_peek {A}.
Arguments eh_pop {A}.
Arguments eh_set_min_loop {A}.
Arguments eh_set_min {A}.
Arguments eh_has {A}.
Arguments eh_len {A}.
