(* TxStatic.v — the static (state-independent) pre-execution checks of a transaction.

   Go sources modelled (code order preserved; every function returns the error class of the
   first failing clause):
     internal/validitywindow/validitywindow.go : VerifyTimestamp
     chain/base.go                             : Base.Execute
     chain/transaction.go                      : Transaction.PreExecute, up to (not including) Units/Fee/CanDeduct
     chain/pre_executor.go                     : PreExecutor.PreExecute calls Transaction.PreExecute with
                                                 timestamp = time.Now().UnixMilli() and the rules of that time

   int64 values are mathematical integers [Z] in [-2^63, 2^63); the only arithmetic the code performs,
   [executionTimestamp + validityWindow], wraps ([wrap64]).  Go's [%] truncates towards zero: [Z.rem]. *)
From Coq Require Import List ZArith NArith Bool.
Import ListNotations.
From HV Require Import Lib.Bytes.
Local Open Scope Z_scope.

Definition MinI64 : Z := -9223372036854775808.
Definition MaxI64 : Z := 9223372036854775807.
Definition in_i64 (z : Z) : Prop := MinI64 <= z <= MaxI64.

(* two's-complement wrap of a mathematical integer into int64 *)
Definition wrap64 (z : Z) : Z := (z + 9223372036854775808) mod 18446744073709551616 - 9223372036854775808.

(* error classes (the observable) *)
Definition E_OK : N := 0%N.
Definition E_CHAIN : N := 1%N.        (* chain.ErrInvalidChainID *)
Definition E_MISALIGNED : N := 2%N.   (* validitywindow.ErrMisalignedTime *)
Definition E_EXPIRED : N := 3%N.      (* validitywindow.ErrTimestampExpired *)
Definition E_FUTURE : N := 4%N.       (* validitywindow.ErrFutureTimestamp *)
Definition E_TOO_MANY : N := 5%N.     (* chain.ErrTooManyActions *)
Definition E_ACTION_NA : N := 6%N.    (* chain.ErrActionNotActivated *)
Definition E_AUTH_NA : N := 7%N.      (* chain.ErrAuthNotActivated *)

(* validitywindow.VerifyTimestamp(containerTimestamp e, executionTimestamp t, divisor, validityWindow W) *)
Definition verify_timestamp (e t divisor W : Z) : N :=
  if negb (Z.rem e divisor =? 0) then E_MISALIGNED
  else if e <? t then E_EXPIRED
  else if e >? wrap64 (t + W) then E_FUTURE
  else E_OK.

Definition TimestampDivisor : Z := 1000.   (* validityWindowTimestampDivisor = consts.MillisecondsPerSecond *)

(* the part of chain.Rules read by the static checks *)
Record srules := mkRules {
  r_chain : bytes;         (* GetChainID *)
  r_window : Z;            (* GetValidityWindow *)
  r_max_actions : N        (* GetMaxActionsPerTx (uint8) *)
}.

(* (start, end) as returned by Action.ValidRange / Auth.ValidRange; negative = no bound *)
Record vrange := mkRange { v_start : Z; v_end : Z }.

Record stx := mkTx {
  s_expiry : Z;            (* Base.Timestamp *)
  s_chain : bytes;         (* Base.ChainID *)
  s_actions : list vrange;
  s_auth : vrange
}.

(* Base.Execute *)
Definition base_execute (r : srules) (expiry : Z) (chain : bytes) (t : Z) : N :=
  if negb (bytes_eqb chain (r_chain r)) then E_CHAIN
  else verify_timestamp expiry t TimestampDivisor (r_window r).

(* the two [if]s of PreExecute on one (start, end) pair: true = a not-activated error is returned *)
Definition range_fails (t : Z) (v : vrange) : bool :=
  ((0 <=? v_start v) && (t <? v_start v)) || ((0 <=? v_end v) && (t >? v_end v)).

(* Transaction.PreExecute, static part *)
Definition pre_execute_static (r : srules) (tx : stx) (t : Z) : N :=
  let e := base_execute r (s_expiry tx) (s_chain tx) t in
  if negb (N.eqb e E_OK) then e
  else if (r_max_actions r <? N.of_nat (length (s_actions tx)))%N then E_TOO_MANY
  else if existsb (range_fails t) (s_actions tx) then E_ACTION_NA
  else if range_fails t (s_auth tx) then E_AUTH_NA
  else E_OK.

(* PreExecutor.PreExecute (mempool admission), static part: same function at t = now *)
Definition admit_static (r : srules) (tx : stx) (now : Z) : N := pre_execute_static r tx now.
