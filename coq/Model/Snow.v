(* Snow.v — executable model of the consensus wrapper snow.VM / snow.StatefulBlock
   (snow/block.go, snow/vm.go, snow/chain_index.go, snow/statesync.go, snow/health.go,
   internal/cache/fifo.go, avalanchego cache.LRU) driven by consensus-engine calls.

   Blocks are numbered 0,1,2,... in the order in which the engine first shows them to the VM
   (block 0 = the block the chain returns from Initialize).  Block *objects* (Go: *StatefulBlock)
   are numbered by allocation order ("handles"); an object read back from the on-disk index
   (snow/vm.go GetBlock, last branch: NewInputBlock) is never stored anywhere by the VM and is
   represented as an ephemeral reference [BE id].

   The async accepter goroutine is the op [OProcess] (it handles the head of acceptedQueue).
   Every lock-delimited region of the Go code is one step of the model.  No proofs here. *)
From Coq Require Import List NArith Bool.
Import ListNotations.
Local Open Scope N_scope.

(* ------------------------------------------------------------------ small list maps (N keys) *)
Section Maps.
Context {V : Type}.

Fixpoint lookup (k : N) (m : list (N * V)) : option V :=
  match m with
  | [] => None
  | (k', v) :: r => if k =? k' then Some v else lookup k r
  end.

Definition remove_key (k : N) (m : list (N * V)) : list (N * V) :=
  filter (fun e => negb (fst e =? k)) m.

(* Go map assignment m[k] = v *)
Definition mput (k : N) (v : V) (m : list (N * V)) : list (N * V) := (k, v) :: remove_key k m.

(* replace the value of an existing key, keeping its position *)
Fixpoint update (k : N) (v : V) (m : list (N * V)) : list (N * V) :=
  match m with
  | [] => []
  | (k', v') :: r => if k =? k' then (k', v) :: r else (k', v') :: update k v r
  end.
End Maps.

Definition lenN {A} (l : list A) : N := N.of_nat (length l).
Definition nthN {A} (l : list A) (n : N) : option A := nth_error l (N.to_nat n).

Fixpoint set_nth {A} (n : nat) (x : A) (l : list A) : list A :=
  match l, n with
  | [], _ => []
  | _ :: r, O => x :: r
  | y :: r, S n' => y :: set_nth n' x r
  end.
Definition setN {A} (n : N) (x : A) (l : list A) : list A := set_nth (N.to_nat n) x l.

(* internal/cache/fifo.go: FIFO.Put over buffer.BoundedQueue of size W (oldest first).
   An existing key keeps its place and gets the new value; a new key evicts the oldest when full. *)
Definition fifo_put {V} (W : N) (k : N) (v : V) (m : list (N * V)) : list (N * V) :=
  match lookup k m with
  | Some _ => update k v m
  | None => (if W <=? lenN m then tl m else m) ++ [(k, v)]
  end.

(* avalanchego cache.LRU of size P (oldest first): put evicts the oldest whenever the cache is
   full (even if the key is present), then moves/appends the key to the MRU end; a hit in get
   moves the key to the MRU end. *)
Definition lru_put {V} (P : N) (k : N) (v : V) (m : list (N * V)) : list (N * V) :=
  let m1 := if lenN m =? P then tl m else m in
  remove_key k m1 ++ [(k, v)].
Definition lru_get {V} (k : N) (m : list (N * V)) : option V * list (N * V) :=
  match lookup k m with
  | Some v => (Some v, remove_key k m ++ [(k, v)])
  | None => (None, m)
  end.

(* ------------------------------------------------------------------ data *)
Record binfo := mkB { b_parent : N; b_height : N; b_invalid : bool }.
Definition binfo0 := mkB 0 0 false.

(* StatefulBlock: verified <-> Output populated, accepted <-> Accepted populated *)
Record obj := mkO { o_id : N; o_verified : bool; o_accepted : bool }.
Definition obj0 := mkO 0 false false.

Record cfg := mkCfg { c_W : N;      (* AcceptedBlockWindowCache *)
                      c_P : N;      (* ParsedBlockCacheSize *)
                      c_ready : bool (* stateReady returned by Chain.Initialize *) }.

Inductive bref := BH (h : N) | BE (b : N).

Inductive event :=
| EParse (b : N)                         (* Chain.ParseBlock *)
| EBuild (p : N) (b : N)                 (* Chain.BuildBlock on parent output p, produced b *)
| EBuildNil                              (* Chain.BuildBlock called with a nil parent output *)
| EVerify (p : N) (b : N) (ok : bool)    (* Chain.VerifyBlock(parent output p, input b) *)
| EAccept (pa : option N) (b : N)        (* Chain.AcceptBlock(parent accepted (nil = None), output b) *)
| EIndex (b : N)                         (* ChainIndex.UpdateLastAccepted *)
| NVerified (b : N) | NAccepted (b : N) | NRejected (b : N)
| NPreAccepted (b : N) | NPreRejected (b : N).

Inductive op :=
| OParseNew (parent : N) (invalid : bool)
| OParse (b : N)
| OBuild
| OVerify (h : N) | OAccept (h : N) | OReject (h : N)
| OSetPref (b : N)
| OProcess
| OGetBlock (b : N) | OGetIDAtHeight (k : N) | OGetByHeight (k : N) | OLastAccepted
| OGetLastProcessed | OGetPreferred | OHealth
| OStartSync (b : N) | OFinishSync (b : N).

Inductive res :=
| RUnit
| RErr (code : N)
| RBlk (r : bref) (id : N) (verified accepted : bool)
| RId (b : N)
| RHealth (ready : bool) (unresolved : option N) (healthy : bool).

(* error classes *)
Definition eNotFound := 1.        (* database.ErrNotFound from the index *)
Definition eParentFailed := 2.    (* errParentFailedVerification *)
Definition eInvalidBlock := 3.    (* the chain's VerifyBlock error *)
Definition eFinishReady := 4.     (* FinishStateSync in normal operation *)
Definition eNotPopulated := 5.    (* GetLastAccepted / GetPreferredBlock on an unpopulated block *)
Definition eBuildNil := 6.        (* the harness chain refuses a nil parent *)
Definition eInvalidInit := 7.     (* "invalid initial accepted state" *)
Definition eDupHealth := 8.       (* duplicate health checker *)
Definition eBadHandle := 9.       (* not a call the driver can make *)

Record state := mkS {
  s_ready : bool;
  s_blocks : list binfo;
  s_objs : list obj;
  s_verified : list (N * N);   (* verifiedBlocks: id -> handle *)
  s_acc_id : list (N * N);     (* acceptedBlocksByID: id -> handle (FIFO, oldest first) *)
  s_acc_h : list (N * N);      (* acceptedBlocksByHeight: height -> id *)
  s_parsed : list (N * N);     (* parsedBlocks LRU: id -> handle *)
  s_dih : list (N * N);        (* index: id -> height *)
  s_dhi : list (N * N);        (* index: height -> id (block stored at that height) *)
  s_queue : list N;            (* acceptedQueue (handles) *)
  s_last : N;                  (* lastAcceptedBlock (handle) *)
  s_lastproc : option N;       (* lastProcessedBlock *)
  s_pref : N;
  s_unres : option (list N)    (* unresolved-blocks health check, once registered *)
}.

Definition set_ready v st := mkS v (s_blocks st) (s_objs st) (s_verified st) (s_acc_id st) (s_acc_h st) (s_parsed st) (s_dih st) (s_dhi st) (s_queue st) (s_last st) (s_lastproc st) (s_pref st) (s_unres st).
Definition set_blocks v st := mkS (s_ready st) v (s_objs st) (s_verified st) (s_acc_id st) (s_acc_h st) (s_parsed st) (s_dih st) (s_dhi st) (s_queue st) (s_last st) (s_lastproc st) (s_pref st) (s_unres st).
Definition set_objs v st := mkS (s_ready st) (s_blocks st) v (s_verified st) (s_acc_id st) (s_acc_h st) (s_parsed st) (s_dih st) (s_dhi st) (s_queue st) (s_last st) (s_lastproc st) (s_pref st) (s_unres st).
Definition set_verified v st := mkS (s_ready st) (s_blocks st) (s_objs st) v (s_acc_id st) (s_acc_h st) (s_parsed st) (s_dih st) (s_dhi st) (s_queue st) (s_last st) (s_lastproc st) (s_pref st) (s_unres st).
Definition set_parsed v st := mkS (s_ready st) (s_blocks st) (s_objs st) (s_verified st) (s_acc_id st) (s_acc_h st) v (s_dih st) (s_dhi st) (s_queue st) (s_last st) (s_lastproc st) (s_pref st) (s_unres st).
Definition set_queue v st := mkS (s_ready st) (s_blocks st) (s_objs st) (s_verified st) (s_acc_id st) (s_acc_h st) (s_parsed st) (s_dih st) (s_dhi st) v (s_last st) (s_lastproc st) (s_pref st) (s_unres st).
Definition set_lastproc v st := mkS (s_ready st) (s_blocks st) (s_objs st) (s_verified st) (s_acc_id st) (s_acc_h st) (s_parsed st) (s_dih st) (s_dhi st) (s_queue st) (s_last st) v (s_pref st) (s_unres st).
Definition set_pref v st := mkS (s_ready st) (s_blocks st) (s_objs st) (s_verified st) (s_acc_id st) (s_acc_h st) (s_parsed st) (s_dih st) (s_dhi st) (s_queue st) (s_last st) (s_lastproc st) v (s_unres st).
Definition set_unres v st := mkS (s_ready st) (s_blocks st) (s_objs st) (s_verified st) (s_acc_id st) (s_acc_h st) (s_parsed st) (s_dih st) (s_dhi st) (s_queue st) (s_last st) (s_lastproc st) (s_pref st) v.

Definition binfo_of (st : state) (b : N) : binfo := match nthN (s_blocks st) b with Some i => i | None => binfo0 end.
Definition height (st : state) (b : N) : N := b_height (binfo_of st b).
Definition parent (st : state) (b : N) : N := b_parent (binfo_of st b).
Definition invalid (st : state) (b : N) : bool := b_invalid (binfo_of st b).
Definition obj_of (st : state) (h : N) : obj := match nthN (s_objs st) h with Some o => o | None => obj0 end.

(* a block first seen as bytes: child of the known block [p]; when [p] is not a known block the
   parent is some id the node never sees — represented by a self-loop (and height 0) *)
Definition new_binfo (blocks : list binfo) (p : N) (inv : bool) : binfo :=
  match nthN blocks p with
  | Some i => mkB p (b_height i + 1) inv
  | None => mkB (lenN blocks) 0 inv
  end.

(* ChainIndex.UpdateLastAccepted (writeBlock): id -> height, height -> id/bytes *)
Definition index_write (b : N) (st : state) : state :=
  mkS (s_ready st) (s_blocks st) (s_objs st) (s_verified st) (s_acc_id st) (s_acc_h st) (s_parsed st)
      (mput b (height st b) (s_dih st)) (mput (height st b) b (s_dhi st))
      (s_queue st) (s_last st) (s_lastproc st) (s_pref st) (s_unres st).

(* ChainIndex.GetBlock: id -> height -> block stored at that height *)
Definition disk_get (st : state) (b : N) : option N :=
  match lookup b (s_dih st) with
  | Some k => lookup k (s_dhi st)
  | None => None
  end.

(* VM.GetBlock *)
Definition get_block (st : state) (b : N) : option bref :=
  match lookup b (s_verified st) with
  | Some h => Some (BH h)
  | None =>
    match lookup b (s_acc_id st) with
    | Some h => Some (BH h)
    | None => match disk_get st b with Some b' => Some (BE b') | None => None end
    end
  end.

Definition ref_obj (st : state) (r : bref) : obj :=
  match r with BH h => obj_of st h | BE b => mkO b false false end.

Definition res_of_ref (st : state) (r : bref) : res :=
  let o := ref_obj st r in RBlk r (o_id o) (o_verified o) (o_accepted o).

(* VM.setLastAccepted *)
Definition set_last_accepted (c : cfg) (h : N) (st : state) : state :=
  let b := o_id (obj_of st h) in
  mkS (s_ready st) (s_blocks st) (s_objs st) (s_verified st)
      (fifo_put (c_W c) b h (s_acc_id st)) (fifo_put (c_W c) (height st b) b (s_acc_h st))
      (s_parsed st) (s_dih st) (s_dhi st) (s_queue st) h (s_lastproc st) (s_pref st) (s_unres st).

Definition alloc (o : obj) (st : state) : N * state := (lenN (s_objs st), set_objs (s_objs st ++ [o]) st).

Definition mark_verified (h : N) (st : state) : state :=
  let o := obj_of st h in set_objs (setN h (mkO (o_id o) true (o_accepted o)) (s_objs st)) st.
Definition mark_accepted (h : N) (st : state) : state :=
  let o := obj_of st h in set_objs (setN h (mkO (o_id o) (o_verified o) true) (s_objs st)) st.
Definition mark_set_accepted (h : N) (st : state) : state :=
  let o := obj_of st h in set_objs (setN h (mkO (o_id o) true true) (s_objs st)) st.

(* VM.ParseBlock on the bytes of block b *)
Definition do_parse (c : cfg) (st : state) (b : N) : state * res * list event :=
  match get_block st b with
  | Some r => (st, res_of_ref st r, [])
  | None =>
    match lru_get b (s_parsed st) with
    | (Some h, m') => let st' := set_parsed m' st in (st', res_of_ref st' (BH h), [])
    | (None, _) =>
      let '(h, st1) := alloc (mkO b false false) st in
      let st2 := set_parsed (lru_put (c_P c) b h (s_parsed st1)) st1 in
      (st2, RBlk (BH h) b false false, [EParse b])
    end
  end.

(* VM.GetBlockIDAtHeight *)
Definition id_at_height (st : state) (k : N) : option N :=
  let lb := o_id (obj_of st (s_last st)) in
  if k =? height st lb then Some lb
  else match lookup k (s_acc_h st) with
       | Some b => Some b
       | None => lookup k (s_dhi st)
       end.

(* VM.GetBlockByHeight *)
Definition block_by_height (st : state) (k : N) : option bref :=
  let lb := o_id (obj_of st (s_last st)) in
  if height st lb =? k then Some (BH (s_last st))
  else
    let ob := match lookup k (s_acc_h st) with Some b => Some b | None => lookup k (s_dhi st) end in
    match ob with
    | None => None
    | Some b => match lookup b (s_acc_id st) with
                | Some h => Some (BH h)
                | None => get_block st b
                end
    end.

(* reprocessFromOutputToInput: [cur] is the block whose output/accepted state is in hand, [tgt]
   the height to reach; returns the final block, or an error code, plus the callbacks made. *)
Fixpoint reprocess (fuel : nat) (st : state) (cur : N) (tgt : N) : (N + N) * list event :=
  match fuel with
  | O => (inl cur, [])
  | S f =>
    if height st cur <? tgt then
      match lookup (height st cur + 1) (s_dhi st) with
      | None => (inr eNotFound, [])
      | Some nb =>
        if invalid st nb then (inr eInvalidBlock, [EVerify cur nb false])
        else
          let '(r, evs) := reprocess f st nb tgt in
          (r, [EVerify cur nb true; NVerified nb; EAccept (Some cur) nb; NAccepted nb] ++ evs)
      end
    else (inl cur, [])
  end.

(* processing blocks sorted by (height, id) — Go sorts by height only; blocks of equal height
   are independent of each other and the driver canonicalises their callback order by id *)
Definition proc_le (st : state) (x y : N * N) : bool :=
  (height st (fst x) <? height st (fst y)) || ((height st (fst x) =? height st (fst y)) && (fst x <=? fst y)).
Fixpoint insert_sorted (st : state) (x : N * N) (l : list (N * N)) : list (N * N) :=
  match l with
  | [] => [x]
  | y :: r => if proc_le st x y then x :: l else y :: insert_sorted st x r
  end.
Definition sort_processing (st : state) (l : list (N * N)) : list (N * N) :=
  fold_right (insert_sorted st) [] l.

(* verifyProcessingBlocks loop: returns state, invalid ids (in processing order), events.
   A parent that cannot be fetched (it was rejected) makes the block unresolved; the result is
   never None any more (the option is kept for the shape of [step]). *)
Fixpoint verify_processing (st : state) (l : list (N * N)) (inv : list N) (evs : list event)
  : option (state * list N * list event) :=
  match l with
  | [] => Some (st, inv, evs)
  | (b, h) :: r =>
    match get_block st (parent st b) with
    | None => verify_processing st r (inv ++ [b]) evs   (* parent gone (rejected): unresolved, not fatal *)
    | Some pr =>
      let po := ref_obj st pr in
      if negb (o_verified po) then verify_processing st r (inv ++ [b]) evs
      else if invalid st b then verify_processing st r (inv ++ [b]) (evs ++ [EVerify (o_id po) b false])
      else verify_processing (mark_verified h st) r inv (evs ++ [EVerify (o_id po) b true; NVerified b])
    end
  end.

Definition step (c : cfg) (st : state) (o : op) : state * res * list event :=
  match o with
  | OParseNew p inv =>
    let b := lenN (s_blocks st) in
    do_parse c (set_blocks (s_blocks st ++ [new_binfo (s_blocks st) p inv]) st) b
  | OParse b => do_parse c st b
  | OBuild =>
    match get_block st (s_pref st) with
    | None => (st, RErr eNotFound, [])
    | Some r =>
      let po := ref_obj st r in
      if o_verified po then
        let b := lenN (s_blocks st) in
        let st0 := set_blocks (s_blocks st ++ [mkB (o_id po) (height st (o_id po) + 1) false]) st in
        let '(h, st1) := alloc (mkO b true false) st0 in
        let st2 := set_parsed (lru_put (c_P c) b h (s_parsed st1)) st1 in
        (st2, RBlk (BH h) b true false, [EBuild (o_id po) b])
      else (st, RErr eBuildNil, [EBuildNil])
    end
  | OVerify h =>
    match nthN (s_objs st) h with
    | None => (st, RErr eBadHandle, [])
    | Some ob =>
      let b := o_id ob in
      if negb (s_ready st) then (set_verified (mput b h (s_verified st)) st, RUnit, [])
      else if o_verified ob then (set_verified (mput b h (s_verified st)) st, RUnit, [])
      else
        match get_block st (parent st b) with
        | None => (st, RErr eNotFound, [])
        | Some pr =>
          let po := ref_obj st pr in
          if negb (o_verified po) then (st, RErr eParentFailed, [])
          else if invalid st b then (st, RErr eInvalidBlock, [EVerify (o_id po) b false])
          else
            let st1 := mark_verified h st in
            (set_verified (mput b h (s_verified st1)) st1, RUnit, [EVerify (o_id po) b true; NVerified b])
        end
    end
  | OAccept h =>
    match nthN (s_objs st) h with
    | None => (st, RErr eBadHandle, [])
    | Some ob =>
      let b := o_id ob in
      if s_ready st && negb (o_verified ob) then (st, RErr eParentFailed, [])
      else
        let st1 := index_write b st in
        let st2 := if s_ready st then set_queue (s_queue st1 ++ [h]) st1 else st1 in
        let st3 := set_verified (remove_key b (s_verified st2)) st2 in
        (set_last_accepted c h st3, RUnit,
         EIndex b :: (if s_ready st then [] else [NPreAccepted b]))
    end
  | OProcess =>
    match s_queue st with
    | [] => (st, RErr eBadHandle, [])
    | h :: q =>
      let b := o_id (obj_of st h) in
      match get_block st (parent st b) with
      | None => (st, RErr eNotFound, [])
      | Some pr =>
        let po := ref_obj st pr in
        let st1 := mark_accepted h st in
        (set_lastproc (Some h) (set_queue q st1), RUnit,
         [EAccept (if o_accepted po then Some (o_id po) else None) b; NAccepted b])
      end
    end
  | OReject h =>
    match nthN (s_objs st) h with
    | None => (st, RErr eBadHandle, [])
    | Some ob =>
      let b := o_id ob in
      let st1 := set_verified (remove_key b (s_verified st)) st in
      if o_verified ob then (st1, RUnit, [NRejected b])
      else
        let st2 := match s_unres st1 with
                   | Some u => set_unres (Some (filter (fun x => negb (x =? b)) u)) st1
                   | None => st1
                   end in
        (st2, RUnit, [NPreRejected b])
    end
  | OSetPref b => (set_pref b st, RUnit, [])
  | OGetBlock b =>
    match get_block st b with
    | Some r => (st, res_of_ref st r, [])
    | None => (st, RErr eNotFound, [])
    end
  | OGetIDAtHeight k =>
    match id_at_height st k with
    | Some b => (st, RId b, [])
    | None => (st, RErr eNotFound, [])
    end
  | OGetByHeight k =>
    match block_by_height st k with
    | Some r => (st, res_of_ref st r, [])
    | None => (st, RErr eNotFound, [])
    end
  | OLastAccepted => (st, RId (o_id (obj_of st (s_last st))), [])
  | OGetLastProcessed =>
    match s_lastproc st with
    | Some h => if o_accepted (obj_of st h) then (st, RId (o_id (obj_of st h)), []) else (st, RErr eNotPopulated, [])
    | None => (st, RErr eNotPopulated, [])
    end
  | OGetPreferred =>
    match get_block st (s_pref st) with
    | None => (st, RErr eNotFound, [])
    | Some r => let po := ref_obj st r in
                if o_verified po then (st, RId (o_id po), []) else (st, RErr eNotPopulated, [])
    end
  | OHealth =>
    (st, RHealth (s_ready st) (match s_unres st with Some u => Some (lenN u) | None => None end)
                 (s_ready st && match s_unres st with Some (_ :: _) => false | _ => true end), [])
  | OStartSync b =>
    let st1 := index_write b st in
    let st2 := set_ready false st1 in
    let '(h, st3) := alloc (mkO b false false) st2 in
    (set_last_accepted c h st3, RUnit, [EIndex b])
  | OFinishSync b =>
    if s_ready st then (st, RErr eFinishReady, [])
    else
      let lb := o_id (obj_of st (s_last st)) in
      let r1 : (state * list event) + (N * list event) :=
        if b =? lb then inl (mark_set_accepted (s_last st) st, [])
        else if height st lb <? height st b then inr (eInvalidInit, [])
        else
          match reprocess (N.to_nat (height st lb - height st b)) st b (height st lb) with
          | (inr e, evs) => inr (e, evs)   (* FinishStateSync returns the error; only callbacks happened *)
          | (inl _, evs) =>
            let '(h, st1) := alloc (mkO lb true true) st in
            inl (set_last_accepted c h st1, evs)
          end in
      match r1 with
      | inr (e, evs) => (st, RErr e, evs)
      | inl (st1, evs1) =>
        let st2 := set_lastproc (Some (s_last st1)) st1 in
        match verify_processing st2 (sort_processing st2 (s_verified st2)) [] [] with
        | None => (st2, RErr eNotFound, evs1)
        | Some (st3, inv, evs2) =>
          match s_unres st3 with
          | Some _ => (st3, RErr eDupHealth, evs1 ++ evs2)
          | None => (set_ready true (set_unres (Some inv) st3), RUnit, evs1 ++ evs2)
          end
        end
      end
  end.

(* VM.Initialize with a chain whose index holds block 0 only *)
Definition init_blocks : list binfo := [mkB 0 0 false].
Definition init_state (c : cfg) : state :=
  let o := if c_ready c then mkO 0 true true else mkO 0 false false in
  mkS (c_ready c) init_blocks [o] [] [(0, 0)] [(0, 0)] [] [(0, 0)] [(0, 0)] []
      0 (if c_ready c then Some 0 else None) 0 None.
Definition init_events (c : cfg) : list event :=
  if c_ready c then [NAccepted 0] else [NPreAccepted 0].

Fixpoint run (c : cfg) (st : state) (ops : list op) : state * list res * list event :=
  match ops with
  | [] => (st, [], [])
  | o :: r =>
    let '(st1, rs, evs) := step c st o in
    let '(st2, rss, evss) := run c st1 r in
    (st2, rs :: rss, evs ++ evss)
  end.

(* per-op observation list used by the correspondence check *)
Fixpoint run_obs (c : cfg) (st : state) (ops : list op) : list (res * list event) :=
  match ops with
  | [] => []
  | o :: r => let '(st1, rs, evs) := step c st o in (rs, evs) :: run_obs c st1 r
  end.

(* ================================================================== the snowman engine contract
   The engine is modelled only through the calls it makes.  Its own bookkeeping [estate] is
   computed from the ops and from what the VM answered (handles and ids of returned blocks, the
   error/no-error outcome); [eguard] is the call-sequence contract of avalanchego's snowman
   engine (Verify only an undecided, not yet processing child of a processing or last accepted
   block; Accept only the processing child of the last accepted block, on the object it verified;
   Reject only a processing block that can no longer be accepted; preference among processing /
   last accepted; BuildBlock only in normal operation), plus the scheduling bound [Q] on the
   number of accepted blocks the async accepter may lag behind. *)
Definition memN (k : N) (l : list N) : bool := existsb (N.eqb k) l.
Definition hasK {V} (k : N) (m : list (N * V)) : bool := match lookup k m with Some _ => true | None => false end.

Record estate := mkE {
  e_blocks : list binfo;         (* block tree as seen by the engine *)
  e_hid : list (N * N);          (* handle -> id, as told by ParseBlock/BuildBlock results *)
  e_built : list N;              (* handles returned by BuildBlock *)
  e_proc : list (N * N);         (* processing blocks: id -> handle (the object it verified) *)
  e_last : N;                    (* last accepted id *)
  e_chain : list N;              (* every accepted id, most recent first (incl. block 0) *)
  e_acc : list N;                (* ids accepted in normal operation, oldest first *)
  e_rej : list N;                (* rejected ids, oldest first *)
  e_ver : list (N * bool);       (* successful Verify calls in normal operation: (id, built?) *)
  e_pending : N;                 (* accepted in normal operation, not yet handled by the accepter *)
  e_ready : bool;
  e_started : bool;              (* StartStateSync was called *)
  e_sync : list N;               (* ids accepted since (and including) the sync target, oldest first *)
  e_pref : N                     (* the preference last given to the VM *)
}.

Definition e_binfo (es : estate) (b : N) : binfo := match nthN (e_blocks es) b with Some i => i | None => binfo0 end.
Definition e_parent es b := b_parent (e_binfo es b).
Definition e_height es b := b_height (e_binfo es b).
Definition e_invalid es b := b_invalid (e_binfo es b).

Definition init_estate (c : cfg) : estate :=
  mkE init_blocks [(0, 0)] [] [] 0 [0] [] [] [] 0 (c_ready c) false [] 0.

Definition eguard (Q : N) (es : estate) (o : op) : bool :=
  match o with
  | OParseNew _ _ => true
  | OParse b => b <? lenN (e_blocks es)
  | OBuild => e_ready es && (hasK (e_pref es) (e_proc es) || (e_pref es =? e_last es))
  | OVerify h =>
    match lookup h (e_hid es) with
    | None => false
    | Some b =>
      negb (hasK b (e_proc es)) && negb (memN b (e_chain es)) && negb (memN b (e_rej es))
      && (b <? lenN (e_blocks es))
      && (hasK (e_parent es b) (e_proc es) || (e_parent es b =? e_last es))
    end
  | OAccept h =>
    match lookup h (e_hid es) with
    | None => false
    | Some b =>
      match lookup b (e_proc es) with
      | Some h' => (h' =? h) && (e_parent es b =? e_last es) && (e_pending es <? Q)
                   && (e_ready es || negb (e_invalid es b))
      | None => false
      end
    end
  | OReject h =>
    match lookup h (e_hid es) with
    | None => false
    | Some b =>
      match lookup b (e_proc es) with
      | Some h' => (h' =? h) && negb (hasK (e_parent es b) (e_proc es)) && negb (e_parent es b =? e_last es)
      | None => false
      end
    end
  | OSetPref b => hasK b (e_proc es) || (b =? e_last es)
  | OProcess => 0 <? e_pending es
  | OStartSync b =>
    negb (e_started es) && (match e_proc es with [] => true | _ => false end) && (e_pending es =? 0)
    && (b <? lenN (e_blocks es))
    && ((b =? e_last es) || (negb (memN b (e_chain es)) && negb (memN b (e_rej es)) && (e_height es (e_last es) <? e_height es b)))
  | OFinishSync b => e_started es && negb (e_ready es) && memN b (e_sync es)
  | _ => true
  end.

Definition learn (r : res) (es : estate) : estate :=
  match r with
  | RBlk (BH h) b _ _ =>
    mkE (e_blocks es) (mput h b (e_hid es)) (e_built es) (e_proc es) (e_last es) (e_chain es) (e_acc es)
        (e_rej es) (e_ver es) (e_pending es) (e_ready es) (e_started es) (e_sync es) (e_pref es)
  | _ => es
  end.

Definition eupd (es : estate) (o : op) (r : res) (evs : list event) : estate :=
  match o with
  | OParseNew p inv =>
    learn r (mkE (e_blocks es ++ [new_binfo (e_blocks es) p inv]) (e_hid es) (e_built es) (e_proc es) (e_last es) (e_chain es)
                 (e_acc es) (e_rej es) (e_ver es) (e_pending es) (e_ready es) (e_started es) (e_sync es) (e_pref es))
  | OParse _ => learn r es
  | OBuild =>
    match r, evs with
    | RBlk (BH h) b _ _, [EBuild p _] =>
      learn r (mkE (e_blocks es ++ [mkB p (e_height es p + 1) false]) (e_hid es) (h :: e_built es) (e_proc es)
                   (e_last es) (e_chain es) (e_acc es) (e_rej es) (e_ver es) (e_pending es) (e_ready es)
                   (e_started es) (e_sync es) (e_pref es))
    | _, _ => es
    end
  | OVerify h =>
    match r, lookup h (e_hid es) with
    | RUnit, Some b =>
      mkE (e_blocks es) (e_hid es) (e_built es) (mput b h (e_proc es)) (e_last es) (e_chain es) (e_acc es)
          (e_rej es) (if e_ready es then e_ver es ++ [(b, memN h (e_built es))] else e_ver es)
          (e_pending es) (e_ready es) (e_started es) (e_sync es) (e_pref es)
    | _, _ => es
    end
  | OAccept h =>
    match r, lookup h (e_hid es) with
    | RUnit, Some b =>
      mkE (e_blocks es) (e_hid es) (e_built es) (remove_key b (e_proc es)) b (b :: e_chain es)
          (if e_ready es then e_acc es ++ [b] else e_acc es) (e_rej es) (e_ver es)
          (if e_ready es then e_pending es + 1 else e_pending es) (e_ready es) (e_started es)
          (if e_ready es then e_sync es else e_sync es ++ [b]) (e_pref es)
    | _, _ => es
    end
  | OReject h =>
    match r, lookup h (e_hid es) with
    | RUnit, Some b =>
      mkE (e_blocks es) (e_hid es) (e_built es) (remove_key b (e_proc es)) (e_last es) (e_chain es) (e_acc es)
          (e_rej es ++ [b]) (e_ver es) (e_pending es) (e_ready es) (e_started es) (e_sync es) (e_pref es)
    | _, _ => es
    end
  | OProcess =>
    match r with
    | RUnit => mkE (e_blocks es) (e_hid es) (e_built es) (e_proc es) (e_last es) (e_chain es) (e_acc es)
                   (e_rej es) (e_ver es) (e_pending es - 1) (e_ready es) (e_started es) (e_sync es) (e_pref es)
    | _ => es
    end
  | OStartSync b =>
    match r with
    | RUnit => mkE (e_blocks es) (e_hid es) (e_built es) (e_proc es) b (b :: e_chain es) (e_acc es)
                   (e_rej es) (e_ver es) (e_pending es) false true [b] (e_pref es)
    | _ => es
    end
  | OFinishSync _ =>
    match r with
    | RUnit => mkE (e_blocks es) (e_hid es) (e_built es) (e_proc es) (e_last es) (e_chain es) (e_acc es)
                   (e_rej es) (e_ver es) (e_pending es) true (e_started es) (e_sync es) (e_pref es)
    | _ => es
    end
  | OSetPref b =>
    mkE (e_blocks es) (e_hid es) (e_built es) (e_proc es) (e_last es) (e_chain es) (e_acc es)
        (e_rej es) (e_ver es) (e_pending es) (e_ready es) (e_started es) (e_sync es) b
  | _ => es
  end.

(* the model VM driven by the engine: None as soon as a call breaks the contract *)
Fixpoint erun (c : cfg) (Q : N) (st : state) (es : estate) (ops : list op)
  : option (state * estate * list event) :=
  match ops with
  | [] => Some (st, es, [])
  | o :: r =>
    if eguard Q es o then
      let '(st1, rs, evs) := step c st o in
      match erun c Q st1 (eupd es o rs evs) r with
      | Some (st2, es2, evss) => Some (st2, es2, evs ++ evss)
      | None => None
      end
    else None
  end.

Definition engine_ok (c : cfg) (Q : N) (ops : list op) : bool :=
  match erun c Q (init_state c) (init_estate c) ops with Some _ => true | None => false end.

(* the engine bookkeeping alone, over observed answers (used on the implementation's outputs) *)
Fixpoint erun_obs (Q : N) (es : estate) (ops : list op) (obs : list (res * list event)) : option estate :=
  match ops, obs with
  | [], _ => Some es
  | o :: r, (rs, evs) :: obs' => if eguard Q es o then erun_obs Q (eupd es o rs evs) r obs' else None
  | _ :: _, [] => None
  end.

(* ------------------------------------------------------------------ trace projections *)
Definition accepts (tr : list event) : list N :=
  flat_map (fun e => match e with EAccept _ b => [b] | _ => [] end) tr.
Definition naccepted (tr : list event) : list N :=
  flat_map (fun e => match e with NAccepted b => [b] | _ => [] end) tr.
Definition nrejected (tr : list event) : list N :=
  flat_map (fun e => match e with NRejected b => [b] | _ => [] end) tr.
Definition nverified (tr : list event) : list N :=
  flat_map (fun e => match e with NVerified b => [b] | _ => [] end) tr.
Definition nprerejected (tr : list event) : list N :=
  flat_map (fun e => match e with NPreRejected b => [b] | _ => [] end) tr.
Definition npreaccepted (tr : list event) : list N :=
  flat_map (fun e => match e with NPreAccepted b => [b] | _ => [] end) tr.

Fixpoint eqb_listN (a b : list N) : bool :=
  match a, b with
  | [], [] => true
  | x :: a', y :: b' => (x =? y) && eqb_listN a' b'
  | _, _ => false
  end.

(* ================================================================== C20 as executable predicates
   (used verbatim by Props/C20.v on the model's runs and by Check/C20_check.v on the implementation's) *)
(* lookups answered from the accepted chain / the processing set, checked against the engine's
   own bookkeeping at the time of the call *)
Definition chain_at_height (es : estate) (k : N) : option N :=
  find (fun b => e_height es b =? k) (e_chain es).

Definition lookup_ok (es : estate) (o : op) (r : res) : bool :=
  match o with
  | OGetBlock b =>
    if memN b (e_chain es) then match r with RBlk _ b' _ _ => b' =? b | _ => false end
    else match lookup b (e_proc es) with
         | Some h => match r with RBlk (BH h') b' _ _ => (h' =? h) && (b' =? b) | _ => false end
         | None => true
         end
  | OGetIDAtHeight k =>
    match chain_at_height es k with
    | Some b => match r with RId b' => b' =? b | _ => false end
    | None => true
    end
  | OGetByHeight k =>
    match chain_at_height es k with
    | Some b => match r with RBlk _ b' _ _ => b' =? b | _ => false end
    | None => true
    end
  | OLastAccepted => match r with RId b => b =? e_last es | _ => false end
  | _ => true
  end.

Fixpoint lookups_ok (Q : N) (es : estate) (ops : list op) (obs : list (res * list event)) : bool :=
  match ops, obs with
  | o :: r, (rs, evs) :: obs' => lookup_ok es o rs && lookups_ok Q (eupd es o rs evs) r obs'
  | _, _ => true
  end.

(* chain VerifyBlock / BuildBlock only on the output of a block the chain verified, built or
   was initialised with; the verified block is a child of that parent *)
Fixpoint verify_parents_ok (es : estate) (outs : list N) (tr : list event) : bool :=
  match tr with
  | [] => true
  | EVerify p b ok :: r =>
    memN p outs && (e_parent es b =? p) && Bool.eqb ok (negb (e_invalid es b))
    && verify_parents_ok es (if ok then b :: outs else outs) r
  | EBuild p b :: r => memN p outs && (e_parent es b =? p) && verify_parents_ok es (b :: outs) r
  | EBuildNil :: _ => false
  | _ :: r => verify_parents_ok es outs r
  end.

(* the accepted sequence is a chain: each block is the child of the previous one *)
Fixpoint chain_from (es : estate) (prev : N) (l : list N) : bool :=
  match l with
  | [] => true
  | b :: r => (e_parent es b =? prev) && (e_height es b =? e_height es prev + 1) && chain_from es b r
  end.

Fixpoint nodupb (l : list N) : bool :=
  match l with [] => true | x :: r => negb (memN x r) && nodupb r end.

Definition verified_parsed (es : estate) : list N :=
  map fst (filter (fun x => negb (snd x)) (e_ver es)).

(* C20 lifecycle, evaluated on a trace and the engine's decisions (normal operation only) *)
Definition lifecycle_b (tr : list event) (es : estate) : bool :=
  verify_parents_ok es [0] tr
  (* AcceptBlock: the engine's accepted blocks, in order, once each, (all of them once the queue is drained) *)
  && eqb_listN (accepts tr) (firstn (length (accepts tr)) (e_acc es))
  && (N.of_nat (length (accepts tr)) + e_pending es =? N.of_nat (length (e_acc es)))
  && chain_from es 0 (e_acc es) && nodupb (e_acc es)
  && forallb (fun b => negb (memN b (e_rej es))) (e_acc es)
  (* notifications one-to-one with decisions *)
  && eqb_listN (naccepted tr) (0 :: accepts tr)
  && eqb_listN (nrejected tr) (e_rej es)
  && eqb_listN (nverified tr) (verified_parsed es)
  && eqb_listN (npreaccepted tr) [] && eqb_listN (nprerejected tr) [].

(* the clause refuted by F-21: every successful Verify, built blocks included, is notified *)
Definition built_clause_b (tr : list event) (es : estate) : bool :=
  eqb_listN (nverified tr) (map fst (e_ver es)).

Definition no_sync (ops : list op) : bool :=
  forallb (fun o => match o with OStartSync _ | OFinishSync _ => false | _ => true end) ops.


(* ================================================================== C21 vocabulary *)
(* executing the accepted chain from the sync target [t] to the tip *)
Fixpoint after (t : N) (l : list N) : list N :=
  match l with
  | [] => []
  | x :: r => if x =? t then r else after t r
  end.
Fixpoint exec_chain (prev : N) (l : list N) : list event :=
  match l with
  | [] => []
  | b :: r => [EVerify prev b true; NVerified b; EAccept (Some prev) b; NAccepted b] ++ exec_chain b r
  end.

(* ================================================================== C20: verification with a P-Chain block context
   (snow/block.go VerifyWithContext / verifyWithContext / verifyPChainCtx, snow/vm.go BuildBlockWithContext).
   Add-only layer on top of [step]: blocks may carry an inner P-Chain context (a P-Chain height), kept in a
   side table [tbl : block number -> height]; the engine may call VerifyWithContext(ctx) instead of Verify()
   (Verify() = VerifyWithContext(nil)) and BuildBlockWithContext(ctx) instead of BuildBlock(). *)
Definition eCtxMismatch := 10.    (* errMismatchedPChainContext *)

Inductive cop :=
| COp (o : op)                                       (* any call above; new blocks carry no context, OVerify = Verify() *)
| CParseNew (parent : N) (invalid : bool) (ictx : option N)   (* bytes of a new block whose inner context is ictx *)
| CBuild (bctx : option N)                           (* BuildBlockWithContext(bctx): the built block embeds bctx *)
| CVerify (h : N) (vctx : option N).                 (* VerifyWithContext(vctx)  (None = nil pointer) *)

(* the call of the context-free model a call corresponds to *)
Definition base (co : cop) : op :=
  match co with
  | COp o => o
  | CParseNew p inv _ => OParseNew p inv
  | CBuild _ => OBuild
  | CVerify h _ => OVerify h
  end.

(* inner context of the block the call creates (if it creates one) *)
Definition new_ctx (co : cop) : option N :=
  match co with
  | CParseNew _ _ x => x
  | CBuild x => x
  | _ => None
  end.

(* handle and provided context of a verify call *)
Definition vcall (co : cop) : option (N * option N) :=
  match co with
  | COp (OVerify h) => Some (h, None)
  | CVerify h v => Some (h, v)
  | _ => None
  end.

(* verifyPChainCtx(provided, inner) == nil *)
Definition ctx_eqb (provided inner : option N) : bool :=
  match provided, inner with
  | None, None => true
  | Some x, Some y => x =? y
  | _, _ => false
  end.

(* StatefulBlock.verifyWithContext, line by line: the [OVerify] case of [step] plus the two context checks *)
Definition verify_ctx (st : state) (tbl : list (N * N)) (h : N) (v : option N) : state * res * list event :=
  match nthN (s_objs st) h with
  | None => (st, RErr eBadHandle, [])
  | Some ob =>
    let b := o_id ob in
    if negb (s_ready st) then (set_verified (mput b h (s_verified st)) st, RUnit, [])   (* case !ready: no context check *)
    else if o_verified ob then                                                           (* case b.verified *)
      if negb (ctx_eqb v (lookup b tbl)) then (st, RErr eCtxMismatch, [])
      else (set_verified (mput b h (s_verified st)) st, RUnit, [])
    else
      match get_block st (parent st b) with
      | None => (st, RErr eNotFound, [])
      | Some pr =>
        let po := ref_obj st pr in
        if negb (o_verified po) then (st, RErr eParentFailed, [])
        else if negb (ctx_eqb v (lookup b tbl)) then (st, RErr eCtxMismatch, [])
        else if invalid st b then (st, RErr eInvalidBlock, [EVerify (o_id po) b false])
        else
          let st1 := mark_verified h st in
          (set_verified (mput b h (s_verified st1)) st1, RUnit, [EVerify (o_id po) b true; NVerified b])
      end
  end.

Definition cstate : Type := state * list (N * N).

Definition cstep (c : cfg) (cs : cstate) (co : cop) : cstate * res * list event :=
  let '(st, tbl) := cs in
  match vcall co with
  | Some (h, v) => let '(st', r, evs) := verify_ctx st tbl h v in ((st', tbl), r, evs)
  | None =>
    let '(st', r, evs) := step c st (base co) in
    let tbl' := match new_ctx co with
                | Some x => if lenN (s_blocks st) <? lenN (s_blocks st') then (lenN (s_blocks st), x) :: tbl else tbl
                | None => tbl
                end in
    ((st', tbl'), r, evs)
  end.

Definition init_cstate (c : cfg) : cstate := (init_state c, []).

Fixpoint crun_obs (c : cfg) (cs : cstate) (cops : list cop) : list (res * list event) :=
  match cops with
  | [] => []
  | co :: r => let '(cs1, rs, evs) := cstep c cs co in (rs, evs) :: crun_obs c cs1 r
  end.

(* the engine contract is that of the context-free calls: the engine may pass any context to a
   block it may verify; its bookkeeping only depends on the answers *)
Fixpoint cerun (c : cfg) (Q : N) (cs : cstate) (es : estate) (cops : list cop)
  : option (cstate * estate * list event) :=
  match cops with
  | [] => Some (cs, es, [])
  | co :: r =>
    if eguard Q es (base co) then
      let '(cs1, rs, evs) := cstep c cs co in
      match cerun c Q cs1 (eupd es (base co) rs evs) r with
      | Some (cs2, es2, evss) => Some (cs2, es2, evs ++ evss)
      | None => None
      end
    else None
  end.

Definition cengine_ok (c : cfg) (Q : N) (cops : list cop) : bool :=
  match cerun c Q (init_cstate c) (init_estate c) cops with Some _ => true | None => false end.

(* a verify call that failed on the context check *)
Definition is_mismatch (co : cop) (r : res) : bool :=
  match vcall co, r with
  | Some _, RErr e => e =? eCtxMismatch
  | _, _ => false
  end.

(* the context-free run a context-aware run projects to: verify calls that failed on the context
   check are erased (they are stutter steps), every other call is mapped to its [base] *)
Fixpoint project (c : cfg) (cs : cstate) (cops : list cop) : list op :=
  match cops with
  | [] => []
  | co :: r =>
    let '(cs1, rs, _) := cstep c cs co in
    (if is_mismatch co rs then [] else [base co]) ++ project c cs1 r
  end.

(* per-call form of "verified / rejected notifications match the engine's decisions one to one":
   the notifications made during a call are exactly the decisions the engine records for that call
   (one verified notification for a successful Verify of a block it did not build, one rejected
   notification for a Reject, none otherwise - in particular none for a call that returned an error) *)
Definition notif_ok (es : estate) (o : op) (r : res) (evs : list event) : bool :=
  let es' := eupd es o r evs in
  eqb_listN (verified_parsed es ++ nverified evs) (verified_parsed es')
  && eqb_listN (e_rej es ++ nrejected evs) (e_rej es').

Fixpoint notifs_ok (es : estate) (ops : list op) (obs : list (res * list event)) : bool :=
  match ops, obs with
  | o :: r, (rs, evs) :: obs' => notif_ok es o rs evs && notifs_ok (eupd es o rs evs) r obs'
  | _, _ => true
  end.

(* the context check as the engine sees it: [etbl] is the engine's own record of the inner contexts
   of the blocks it handed to / got from the VM.  In normal operation a verify call whose context
   differs from the block's inner context is refused: an error, and no chain callback or
   notification at all during the call. *)
Definition ctx_call_ok (es : estate) (etbl : list (N * N)) (co : cop) (r : res) (evs : list event) : bool :=
  match vcall co with
  | Some (h, v) =>
    match lookup h (e_hid es) with
    | Some b =>
      if e_ready es && negb (ctx_eqb v (lookup b etbl))
      then match r, evs with RErr _, [] => true | _, _ => false end
      else match r with RErr e => negb (e =? eCtxMismatch) | _ => true end
    | None => true
    end
  | None => true
  end.

Definition etbl_upd (es es' : estate) (etbl : list (N * N)) (co : cop) : list (N * N) :=
  match new_ctx co with
  | Some x => if lenN (e_blocks es) <? lenN (e_blocks es') then (lenN (e_blocks es), x) :: etbl else etbl
  | None => etbl
  end.

Fixpoint ctxs_ok (es : estate) (etbl : list (N * N)) (cops : list cop) (obs : list (res * list event)) : bool :=
  match cops, obs with
  | co :: r, (rs, evs) :: obs' =>
    let es' := eupd es (base co) rs evs in
    ctx_call_ok es etbl co rs evs && ctxs_ok es' (etbl_upd es es' etbl co) r obs'
  | _, _ => true
  end.
