(* AcceptPipeline.v — executable model of the block accept pipeline and of start-up recovery (property C18).

   Modelled code (as it exists in /repo now):
     snow/block.go   StatefulBlock.Accept   : consensus thread, VM ready:
                                              L1 inputChainIndex.UpdateLastAccepted(b)   (persistent)   -> LIndex
                                              L2 queueAccept: acceptedQueue <- b          (volatile)     -> LEnqueue
     snow/vm.go      startAsyncAccepter     : for b := range acceptedQueue { b.processAccept }         -> LTake
     snow/block.go   processAccept/accept   : chain.AcceptBlock(b); NotifyAll(acceptedSubs); setLastProcessed
     vm/vm.go        AcceptBlock            : L3 executionResultsDB.Put(lastResultKey, results||height) -> LWrite
     chain/accepter.go AcceptBlock          : L4 View.CommitToDB (state height key := height)           -> LCommit
                                              L5 one notification per accepted subscriber, in order      -> LNotify
                                              setLastProcessed (volatile)                                -> LFinish
     vm/vm.go        initLastAccepted / extractLatestOutputBlock                                         -> extract
     snow/chain_index.go makeConsensusIndex / reprocessFromOutputToInput, snow/vm.go Initialize
                     (start-up notifyAccepted of the last accepted block)                                -> reprocess / recover

   Blocks are identified by their height (consensus accepts a chain: the block accepted next is always at height
   index_last + 1); execution is deterministic, so "state root / execution results after executing heights 1..h"
   is represented by h.  The block store holds every height <= p_index.  pebble's own crash atomicity of one write
   batch is an oracle (each of LIndex, LWrite, LCommit is one atomic persistent step). *)
From Coq Require Import List NArith Bool.
Import ListNotations.
Local Open Scope N_scope.

(* capacity of snow.VM.acceptedQueue *)
Definition queue_cap : N := 16.

(* persistent progress markers *)
Record pstate := mkP {
  p_index : N;    (* chain index: last accepted height *)
  p_state : N;    (* height key of the committed state *)
  p_results : N   (* height suffix of the stored last execution results (0: nothing stored) *)
}.

(* where the accepter goroutine is inside processAccept for the block it has taken from the queue *)
Inductive stage :=
| SGot                (* taken from the queue, nothing written *)
| SWrote              (* execution results written *)
| SCommitted (j : N)  (* state committed, the first j accepted subscribers notified *).

(* (subscriber, height): one delivery of an accepted block to one accepted subscriber *)
Definition event := (N * N)%type.

Record state := mkS {
  st_p : pstate;
  st_pend : option N;           (* consensus thread: index updated for this block, not yet queued *)
  st_queue : list N;            (* buffered channel acceptedQueue *)
  st_cur : option (N * stage);  (* block in flight in the accepter *)
  st_log : list event           (* what the subscribers have received so far (observer's record) *)
}.

Inductive label := LIndex | LEnqueue | LTake | LWrite | LCommit | LNotify | LFinish.

Fixpoint upto (a : N) (len : nat) : list N :=
  match len with
  | O => []
  | S l => a :: upto (N.succ a) l
  end.

(* event.NotifyAll over the ns accepted subscribers, in registration order *)
Definition notify_all (ns h : N) : list event := map (fun j => (j, h)) (upto 0 (N.to_nat ns)).

Definition set_cur (s : state) (p : pstate) (c : option (N * stage)) (lg : list event) : state :=
  mkS p (st_pend s) (st_queue s) c lg.

(* one atomic step; None = the label is not enabled *)
Definition step (ns : N) (s : state) (l : label) : option state :=
  let p := st_p s in
  match l with
  | LIndex =>
      match st_pend s with
      | Some _ => None
      | None =>
          let h := N.succ (p_index p) in
          Some (mkS (mkP h (p_state p) (p_results p)) (Some h) (st_queue s) (st_cur s) (st_log s))
      end
  | LEnqueue =>
      match st_pend s with
      | Some h =>
          if N.of_nat (length (st_queue s)) <? queue_cap
          then Some (mkS p None (st_queue s ++ [h]) (st_cur s) (st_log s))
          else None
      | None => None
      end
  | LTake =>
      match st_cur s, st_queue s with
      | None, h :: q => Some (mkS p (st_pend s) q (Some (h, SGot)) (st_log s))
      | _, _ => None
      end
  | LWrite =>
      match st_cur s with
      | Some (h, SGot) => Some (set_cur s (mkP (p_index p) (p_state p) h) (Some (h, SWrote)) (st_log s))
      | _ => None
      end
  | LCommit =>
      match st_cur s with
      | Some (h, SWrote) => Some (set_cur s (mkP (p_index p) h (p_results p)) (Some (h, SCommitted 0)) (st_log s))
      | _ => None
      end
  | LNotify =>
      match st_cur s with
      | Some (h, SCommitted j) =>
          if j <? ns then Some (set_cur s p (Some (h, SCommitted (N.succ j))) (st_log s ++ [(j, h)])) else None
      | _ => None
      end
  | LFinish =>
      match st_cur s with
      | Some (h, SCommitted j) => if j =? ns then Some (set_cur s p None (st_log s)) else None
      | _ => None
      end
  end.

Fixpoint run (ns : N) (s : state) (tr : list label) : option state :=
  match tr with
  | [] => Some s
  | l :: tr' => match step ns s l with Some s' => run ns s' tr' | None => None end
  end.

(* a freshly initialised node: genesis committed and indexed, start-up notification of the genesis block *)
Definition init (ns : N) : state := mkS (mkP 0 0 0) None [] None (notify_all ns 0).

(* Crash: everything volatile is lost; the persistent markers are what the next Initialize sees. *)
Definition crash (s : state) : pstate := st_p s.

(* ---- recovery ------------------------------------------------------------------------------------------ *)

(* error classes of Initialize *)
Definition E_INVALID_STATE : N := 1.   (* "cannot extract latest output block from invalid state ..." *)
Definition E_RESULTS : N := 2.         (* stored execution results missing / at another height *)
Definition E_REPROCESS : N := 4.       (* "invalid initial accepted state" *)

Inductive eresult :=
| EOut (h : N) (p : pstate)   (* output block at height h; markers after the call *)
| EErr (code : N)
| EPanic.

(* vm.initLastAccepted + extractLatestOutputBlock.  In the index = state + 1 branch the code calls
   vm.chain.Execute, but vm.chain is assigned only later in vm.Initialize: nil pointer dereference. *)
Definition extract (p : pstate) : eresult :=
  let i := p_index p in
  let s := p_state p in
  if i =? 0 then EOut 0 p
  else if negb (i =? s) && negb (i =? N.succ s) then EErr E_INVALID_STATE
  else if i =? s then (if p_results p =? s then EOut s p else EErr E_RESULTS)
  else EPanic.

Inductive rresult :=
| ROk (last : N) (p : pstate) (log : list event)   (* last accepted height, markers, start-up notifications *)
| RErr (code : N)
| RPanic.

(* snow reprocessFromOutputToInput: for each height above the output block up to the indexed block:
   VerifyBlock, AcceptBlock (results write + commit), notify the accepted subscribers *)
Fixpoint reprocess_loop (ns : N) (hs : list N) (p : pstate) (lg : list event) : pstate * list event :=
  match hs with
  | [] => (p, lg)
  | h :: hs' => reprocess_loop ns hs' (mkP (p_index p) h h) (lg ++ notify_all ns h)
  end.

Definition recover (ns : N) (p0 : pstate) : rresult :=
  match extract p0 with
  | EErr c => RErr c
  | EPanic => RPanic
  | EOut out p =>
      let target := p_index p in
      if target <? out then RErr E_REPROCESS
      else
        let '(p', lg) := reprocess_loop ns (upto (N.succ out) (N.to_nat (target - out))) p [] in
        (* Initialize: lastAcceptedBlock.notifyAccepted *)
        ROk target p' (lg ++ notify_all ns target)
  end.

(* the node after a successful recovery *)
Definition resume (p : pstate) (lg : list event) : state := mkS p None [] None lg.

(* ---- observation helpers shared by the statements and the executable oracle ----------------------------------- *)

(* heights delivered to subscriber j, in delivery order *)
Definition proj (j : N) (lg : list event) : list N :=
  map snd (filter (fun e => fst e =? j) lg).

Fixpoint nondecb (l : list N) : bool :=
  match l with
  | [] => true
  | x :: r => match r with [] => true | y :: _ => (x <=? y) end && nondecb r
  end.

(* the labels of processing one block start to end on an idle node *)
Definition block_trace (ns : N) : list label :=
  [LIndex; LEnqueue; LTake; LWrite; LCommit] ++ repeat LNotify (N.to_nat ns) ++ [LFinish].

(* the crash-free reference run of a chain of len blocks *)
Fixpoint seq_trace (ns : N) (len : nat) : list label :=
  match len with
  | O => []
  | S l => block_trace ns ++ seq_trace ns l
  end.
