(* Workers.v — labelled transition system for internal/workers/parallel_workers.go, and the functional
   model of serial_workers.go (model only, no proofs).

   Threads: the clients (NewJob / Go / Done / Stop callers), the queue goroutine started by
   processQueue ("dispatcher"), [c_nw] worker goroutines, and the caller of Stop.  Labels are the channel
   operations and lock regions of the code:

     LNewJob            NewJob: the shouldShutdown check and `w.queue <- j` (see assumption A1)
     LGo j              ParallelJob.Go: `j.tasks <- f` (the new task gets the next task id)
     LDone j            ParallelJob.Done: `close(j.tasks)`
     LDRecv             dispatcher: `for j := range w.queue` receives the next job / sees the closed queue
     LDCheck            dispatcher: the shouldShutdown region; on shutdown `j.result <- ErrShutdown`
     LDTake             dispatcher: `for t := range j.tasks` receives a task and `w.sg.Add(1)`, or sees the
                        closed and drained channel and moves to `w.sg.Wait()`
     LHandoff w         `w.tasks <- t` / `case j := <-w.tasks` rendezvous with idle worker w (unbuffered)
     LWCheck w          worker: the RLock region reading w.err; skip (`sg.Done(); continue`) or start f
     LWEnd w ok         f returns
     LWFinish w         worker: the Lock region `if w.err == nil { w.err = err }` (when f failed) and `sg.Done()`
     LDComplete         dispatcher: sg.Wait() returned; the Lock region close(completed), result <- err, err = nil
     LDFin              dispatcher: the final Lock region closing ackShutdown
     LStopBegin         Stop: the Lock region setting shouldShutdown
     LStopClose         Stop: close(w.queue)
     LStopAck           Stop: `<-w.ackShutdown` and close(w.stopWorkers)
     LWStop w           worker w: `case <-w.stopWorkers: w.stoppedWorkers <- struct{}{}` rendezvous with Stop's loop
     LStopRet           Stop: the receive loop got [count] values; Stop returns

   Assumptions on the clients (documented contracts of the API, stated in props/C26.json):
     A1  NewJob does not race with the first two regions of Stop (otherwise the Go code can send on a
         closed channel); NewJob is one atomic label and is not enabled between LStopBegin and LStopClose
         unless it is refused.  The queue has room (maxJobs) — otherwise NewJob waits.
     A2  Go is called before Done, Done once; taskBacklog is large enough that Go does not block.
     A3  Stop is called at most once.

   [c_fixed = false] models the code before commit 0eb992d (a worker that sees the job error returns). *)
From Coq Require Import List NArith Bool Arith.
Import ListNotations.

Definition jid := nat.
Definition tkid := nat.

Inductive res := RNil | RErr (t : tkid) | RShutdown.

Inductive tphase := TNew | TQueued | THeld | TGot | TRun | TRan (ok : bool) | TDone | TSkipped.

Inductive wstate := WIdle | WGot (t : tkid) | WRun (t : tkid) | WRan (t : tkid) (ok : bool) | WExited.

Inductive dstate := DIdle | DGot (j : jid) | DLoop (j : jid) | DSend (j : jid) (t : tkid) | DWait (j : jid)
                  | DFinal | DDone.

Inductive spc := SNone | SSet | SClosed | SRecv (k : nat) | SRet.

Inductive event :=
| EvNewJob (j : jid) | EvRefused | EvGo (j : jid) (t : tkid)
| EvBegin (t : tkid) | EvEnd (t : tkid) (ok : bool) | EvResult (j : jid) (r : res) | EvStop | EvStopRet.

Record jrec := mkJ { jtasks : list tkid; jclosed : bool; jresult : option res }.

Record state := mkS {
  jobs : jid -> jrec;
  njobs : nat;
  queue : list jid;                (* w.queue *)
  qclosed : bool;
  owner : tkid -> jid;             (* ghost: the job a task was submitted to *)
  tph : tkid -> tphase;            (* ghost: where a task is *)
  ntasks : nat;
  disp : dstate;
  wst : nat -> wstate;             (* worker goroutines 0 .. c_nw-1 *)
  sg : nat;                        (* w.sg *)
  err : option tkid;               (* w.err: the error of task t *)
  shutdown : bool;                 (* shouldShutdown *)
  triggered : bool;                (* triggeredShutdown / ackShutdown closed *)
  stopclosed : bool;               (* stopWorkers closed *)
  stop : spc;
  log : list event                 (* ghost, newest first *)
}.

Record cfg := mkC { c_nw : nat; c_maxjobs : nat; c_fail : tkid -> bool; c_fixed : bool }.

Definition upd {A} (f : nat -> A) (x : nat) (v : A) : nat -> A := fun y => if Nat.eqb x y then v else f y.

Definition nojob : jrec := mkJ [] false None.

Definition init : state :=
  mkS (fun _ => nojob) 0 [] false (fun _ => 0) (fun _ => TNew) 0 DIdle (fun _ => WIdle) 0 None
      false false false SNone [].

Inductive label :=
| LNewJob | LGo (j : jid) | LDone (j : jid)
| LDRecv | LDCheck | LDTake | LHandoff (w : nat) | LWCheck (w : nat) | LWEnd (w : nat) (ok : bool)
| LWFinish (w : nat) | LDComplete | LDFin
| LStopBegin | LStopClose | LStopAck | LWStop (w : nat) | LStopRet.

(* record update helpers: one per group of fields that a label changes *)
Definition set_jobs (s : state) (J : jid -> jrec) (l : list event) : state :=
  mkS J (njobs s) (queue s) (qclosed s) (owner s) (tph s) (ntasks s) (disp s) (wst s) (sg s) (err s)
      (shutdown s) (triggered s) (stopclosed s) (stop s) l.
Definition set_disp (s : state) (J : jid -> jrec) (q : list jid) (T : tkid -> tphase) (d : dstate) (g : nat)
           (e : option tkid) (l : list event) : state :=
  mkS J (njobs s) q (qclosed s) (owner s) T (ntasks s) d (wst s) g e
      (shutdown s) (triggered s) (stopclosed s) (stop s) l.
Definition set_worker (s : state) (T : tkid -> tphase) (d : dstate) (W : nat -> wstate) (g : nat)
           (e : option tkid) (l : list event) : state :=
  mkS (jobs s) (njobs s) (queue s) (qclosed s) (owner s) T (ntasks s) d W g e
      (shutdown s) (triggered s) (stopclosed s) (stop s) l.
Definition set_stop (s : state) (qc sh tr sc : bool) (W : nat -> wstate) (d : dstate) (p : spc) (l : list event) : state :=
  mkS (jobs s) (njobs s) (queue s) qc (owner s) (tph s) (ntasks s) d W (sg s) (err s) sh tr sc p l.

Definition is_sset (p : spc) : bool := match p with SSet => true | _ => false end.

Definition step (c : cfg) (s : state) (l : label) : option state :=
  match l with
  | LNewJob =>
      if shutdown s then Some (set_jobs s (jobs s) (EvRefused :: log s))
      else if qclosed s then None
      else if Nat.ltb (length (queue s)) (c_maxjobs c) then
        Some (mkS (upd (jobs s) (njobs s) nojob) (S (njobs s)) (queue s ++ [njobs s]) (qclosed s) (owner s)
                  (tph s) (ntasks s) (disp s) (wst s) (sg s) (err s) (shutdown s) (triggered s)
                  (stopclosed s) (stop s) (EvNewJob (njobs s) :: log s))
      else None
  | LGo j =>
      if Nat.ltb j (njobs s) && negb (jclosed (jobs s j)) then
        let t := ntasks s in
        let r := jobs s j in
        Some (mkS (upd (jobs s) j (mkJ (jtasks r ++ [t]) (jclosed r) (jresult r))) (njobs s) (queue s)
                  (qclosed s) (upd (owner s) t j) (upd (tph s) t TQueued) (S t) (disp s) (wst s) (sg s)
                  (err s) (shutdown s) (triggered s) (stopclosed s) (stop s) (EvGo j t :: log s))
      else None
  | LDone j =>
      if Nat.ltb j (njobs s) && negb (jclosed (jobs s j)) then
        let r := jobs s j in
        Some (set_jobs s (upd (jobs s) j (mkJ (jtasks r) true (jresult r))) (log s))
      else None
  | LDRecv =>
      match disp s with
      | DIdle =>
          match queue s with
          | j :: q => Some (set_disp s (jobs s) q (tph s) (DGot j) (sg s) (err s) (log s))
          | [] => if qclosed s then Some (set_disp s (jobs s) [] (tph s) DFinal (sg s) (err s) (log s)) else None
          end
      | _ => None
      end
  | LDCheck =>
      match disp s with
      | DGot j =>
          if shutdown s then
            let r := jobs s j in
            Some (set_disp s (upd (jobs s) j (mkJ (jtasks r) (jclosed r) (Some RShutdown))) (queue s) (tph s)
                           DIdle (sg s) (err s) (EvResult j RShutdown :: log s))
          else Some (set_disp s (jobs s) (queue s) (tph s) (DLoop j) (sg s) (err s) (log s))
      | _ => None
      end
  | LDTake =>
      match disp s with
      | DLoop j =>
          let r := jobs s j in
          match jtasks r with
          | t :: rest =>
              Some (set_disp s (upd (jobs s) j (mkJ rest (jclosed r) (jresult r))) (queue s)
                             (upd (tph s) t THeld) (DSend j t) (S (sg s)) (err s) (log s))
          | [] =>
              if jclosed r then Some (set_disp s (jobs s) (queue s) (tph s) (DWait j) (sg s) (err s) (log s))
              else None
          end
      | _ => None
      end
  | LHandoff w =>
      match disp s, wst s w with
      | DSend j t, WIdle =>
          if Nat.ltb w (c_nw c) then
            Some (set_worker s (upd (tph s) t TGot) (DLoop j) (upd (wst s) w (WGot t)) (sg s) (err s) (log s))
          else None
      | _, _ => None
      end
  | LWCheck w =>
      match wst s w with
      | WGot t =>
          match err s with
          | Some _ =>
              Some (set_worker s (upd (tph s) t TSkipped) (disp s)
                               (upd (wst s) w (if c_fixed c then WIdle else WExited)) (pred (sg s)) (err s) (log s))
          | None =>
              Some (set_worker s (upd (tph s) t TRun) (disp s) (upd (wst s) w (WRun t)) (sg s) (err s)
                               (EvBegin t :: log s))
          end
      | _ => None
      end
  | LWEnd w ok =>
      match wst s w with
      | WRun t =>
          if Bool.eqb ok (negb (c_fail c t)) then
            Some (set_worker s (upd (tph s) t (TRan ok)) (disp s) (upd (wst s) w (WRan t ok)) (sg s) (err s)
                             (EvEnd t ok :: log s))
          else None
      | _ => None
      end
  | LWFinish w =>
      match wst s w with
      | WRan t ok =>
          let e := if ok then err s else match err s with None => Some t | Some _ => err s end in
          Some (set_worker s (upd (tph s) t TDone) (disp s) (upd (wst s) w WIdle) (pred (sg s)) e (log s))
      | _ => None
      end
  | LDComplete =>
      match disp s with
      | DWait j =>
          if Nat.eqb (sg s) 0 then
            let r := jobs s j in
            let v := match err s with None => RNil | Some t => RErr t end in
            Some (set_disp s (upd (jobs s) j (mkJ (jtasks r) (jclosed r) (Some v))) (queue s) (tph s) DIdle
                           (sg s) None (EvResult j v :: log s))
          else None
      | _ => None
      end
  | LDFin =>
      match disp s with
      | DFinal =>
          Some (set_stop s (qclosed s) (shutdown s) (triggered s || shutdown s) (stopclosed s) (wst s) DDone
                         (stop s) (log s))
      | _ => None
      end
  | LStopBegin =>
      match stop s with
      | SNone => Some (set_stop s (qclosed s) true (triggered s) (stopclosed s) (wst s) (disp s) SSet
                                (EvStop :: log s))
      | _ => None
      end
  | LStopClose =>
      match stop s with
      | SSet => Some (set_stop s true (shutdown s) (triggered s) (stopclosed s) (wst s) (disp s) SClosed (log s))
      | _ => None
      end
  | LStopAck =>
      match stop s with
      | SClosed =>
          if triggered s then
            Some (set_stop s (qclosed s) (shutdown s) (triggered s) true (wst s) (disp s) (SRecv 0) (log s))
          else None
      | _ => None
      end
  | LWStop w =>
      match stop s, wst s w with
      | SRecv k, WIdle =>
          if Nat.ltb w (c_nw c) && stopclosed s && Nat.ltb k (c_nw c) then
            Some (set_stop s (qclosed s) (shutdown s) (triggered s) (stopclosed s) (upd (wst s) w WExited)
                           (disp s) (SRecv (S k)) (log s))
          else None
      | _, _ => None
      end
  | LStopRet =>
      match stop s with
      | SRecv k =>
          if Nat.eqb k (c_nw c) then
            Some (set_stop s (qclosed s) (shutdown s) (triggered s) (stopclosed s) (wst s) (disp s) SRet
                           (EvStopRet :: log s))
          else None
      | _ => None
      end
  end.

(* NewJob racing with Stop (A1): not enabled between the two first regions of Stop *)
Definition client_ok (s : state) (l : label) : bool :=
  match l with LNewJob => negb (is_sset (stop s)) | _ => true end.

Inductive steps (c : cfg) : state -> list label -> state -> Prop :=
| steps_nil : forall s, steps c s [] s
| steps_snoc : forall s tr s1 l s2,
    steps c s tr s1 -> client_ok s1 l = true -> step c s1 l = Some s2 -> steps c s (tr ++ [l]) s2.

Definition reachable (c : cfg) (s : state) : Prop := exists tr, steps c init tr s.

Fixpoint run_labels (c : cfg) (s : state) (ls : list label) : option state :=
  match ls with
  | [] => Some s
  | l :: ls' =>
      if client_ok s l then match step c s l with Some s' => run_labels c s' ls' | None => None end else None
  end.

(* labels of the pool itself (everything but the client's calls NewJob / Go / Done / Stop) *)
Definition internal (l : label) : bool :=
  match l with LNewJob | LGo _ | LDone _ | LStopBegin => false | _ => true end.

(* ---- serial_workers.go: Go runs f at once unless an earlier f of the job failed --------------------- *)
Fixpoint serial_job (fails : list bool) (failed : option nat) (i : nat) : list nat * option nat :=
  match fails with
  | [] => ([], failed)
  | f :: rest =>
      match failed with
      | Some _ => serial_job rest failed (S i)
      | None => let '(ran, r) := serial_job rest (if f then Some i else None) (S i) in (i :: ran, r)
      end
  end.
