(* Model of internal/validitywindow/validitywindow.go (TimeValidityWindow) together with the
   part of internal/emap/emap.go it relies on.  Executable Gallina only, no proofs.

   - an item (transaction / chunk certificate) is a pair (id, expiry);
   - the emap is a finite map id -> expiry (association list, first insertion wins, expiry 0 is
     never inserted, SetMin drops every entry whose expiry is below the new minimum).  The heap /
     bucket structure of the real emap is the subject of C25;
   - the chain index is a partial function id -> block;
   - the window state is {seen; lastAcceptedBlockHeight}.                                        *)
From Coq Require Import List NArith ZArith Bool.
Import ListNotations.
Local Open Scope Z_scope.

Definition item := (N * Z)%type.           (* container id, expiry *)
Record block := mkB { b_id : N; b_parent : N; b_height : N; b_ts : Z; b_items : list item }.
Definition index := N -> option block.     (* ChainIndex.GetExecutionBlock *)

Definition ids (its : list item) : list N := map fst its.

(* ------------------------------------------------------------------ emap (as a finite map) *)
Definition emap := list item.
Definition em_has (s : emap) (x : N) : bool := existsb (fun p => N.eqb (fst p) x) s.
(* emap.add: "if t == 0 return; if seen.Contains(id) return; ..." *)
Definition em_add1 (s : emap) (it : item) : emap :=
  if Z.eqb (snd it) 0 then s else if em_has s (fst it) then s else it :: s.
Definition em_add (s : emap) (its : list item) : emap := fold_left em_add1 its s.
(* emap.SetMin(t): remove all buckets with timestamp < t *)
Definition em_set_min (s : emap) (t : Z) : emap := filter (fun p => t <=? snd p) s.

(* ------------------------------------------------------------------ window state *)
Record win := mkW { seen : emap; last_h : N }.
Definition win0 : win := mkW [] 0%N.

(* Accept: seen.SetMin(blk.ts); seen.Add(containers); lastAcceptedBlockHeight = height *)
Definition accept (w : win) (b : block) : win :=
  mkW (em_add (em_set_min (seen w) (b_ts b)) (b_items b)) (b_height b).
(* AcceptHistorical: seen.Add(containers) only *)
Definition accept_historical (w : win) (b : block) : win :=
  mkW (em_add (seen w) (b_items b)) (last_h w).

(* ExecutionBlock.Contains *)
Definition block_has (b : block) (x : N) : bool := existsb (fun p => N.eqb (fst p) x) (b_items b).

(* calculateOldestAllowed: max(0, ts - W) *)
Definition oldest_allowed (W ts : Z) : Z := Z.max 0 (ts - W).

(* the marker loop shared by isRepeat's ancestor scan and emap.Contains:
     for i, c := range containers { if marker.Contains(i) {continue}
       if has(c.id) { marker.Add(i); if stop { return marker } } }
   second component: a mark was added by this call *)
Fixpoint mark (has : N -> bool) (items : list item) (m : list bool) (stop : bool) : list bool * bool :=
  match items, m with
  | it :: items', mi :: m' =>
      if mi then let r := mark has items' m' stop in (true :: fst r, snd r)
      else if has (fst it) then
             if stop then (true :: m', true)
             else let r := mark has items' m' stop in (true :: fst r, true)
           else let r := mark has items' m' stop in (false :: fst r, snd r)
  | _, _ => (m, false)
  end.

(* isRepeat's for-loop.  Result: (marker, error).  fuel bounds the number of iterations; it is
   chosen as height+1 of the first ancestor, which suffices when heights decrease along parent
   links; fuel exhaustion is reported as an error. *)
Fixpoint walk (idx : index) (w : win) (oldest : Z) (items : list item) (stop : bool)
              (fuel : nat) (anc : block) (m : list bool) : list bool * bool :=
  match fuel with
  | O => (m, true)
  | S f =>
      if b_ts anc <? oldest then (m, false)
      else if (b_height anc <=? last_h w)%N || (b_height anc =? 0)%N
      then (fst (mark (em_has (seen w)) items m stop), false)
      else let r := mark (block_has anc) items m stop in
           if stop && snd r then (fst r, false)
           else match idx (b_parent anc) with
                | None => (fst r, true)
                | Some p => walk idx w oldest items stop f p (fst r)
                end
  end.

(* height+1 iterations suffice when heights decrease by one along parent links; the slack lets the
   model follow the (unbounded) Go loop on the malformed heights some harness scenarios use *)
Definition fuel_of (b : block) : nat := S (N.to_nat (b_height b) + 64).
Definition no_marks (n : nat) : list bool := repeat false n.

(* IsRepeat(parent, now, containers): (bitset, error) *)
Definition is_repeat (idx : index) (w : win) (W : Z) (parent : block) (now : Z) (items : list item)
  : list bool * bool :=
  walk idx w (oldest_allowed W now) items false (fuel_of parent) parent (no_marks (length items)).

(* in-block duplicate scan of VerifyExpiryReplayProtection *)
Fixpoint has_dup (seen_ids : list N) (l : list N) : bool :=
  match l with
  | [] => false
  | x :: l' => if existsb (N.eqb x) seen_ids then true else has_dup (x :: seen_ids) l'
  end.

(* VerifyExpiryReplayProtection: 0 = nil, 1 = ErrDuplicateContainer, 2 = other error *)
Definition verify_replay (idx : index) (w : win) (W : Z) (b : block) : N :=
  if (b_height b <=? last_h w)%N then 0%N
  else if has_dup [] (ids (b_items b)) then 1%N
  else match idx (b_parent b) with
       | None => 2%N
       | Some p =>
           let r := walk idx w (oldest_allowed W (b_ts b)) (b_items b) true (fuel_of p) p
                         (no_marks (length (b_items b))) in
           if snd r then 2%N else if existsb (fun x => x) (fst r) then 1%N else 0%N
       end.

(* populate: collect head and its ancestors (chronological order) until genesis, a block below
   the window, or a missing block; then Accept each.  Result: (blocks, fullValidityWindow). *)
Fixpoint pop_walk (idx : index) (oldest : Z) (fuel : nat) (parent : block) (acc : list block)
  : list block * bool :=
  match fuel with
  | O => (acc, false)
  | S f =>
      if (b_height parent =? 0)%N then (acc, true)
      else match idx (b_parent parent) with
           | None => (acc, false)
           | Some p => if b_ts p <? oldest then (p :: acc, true)
                       else pop_walk idx oldest f p (p :: acc)
           end
  end.

Definition populate (idx : index) (w : win) (W : Z) (head : block) : win * list block * bool :=
  let r := pop_walk idx (oldest_allowed W (b_ts head)) (fuel_of head) head [head] in
  (fold_left accept (fst r) w, fst r, snd r).

(* NewTimeValidityWindow *)
Definition new_window (idx : index) (W : Z) (head : block) : win * bool :=
  let r := populate idx win0 W head in (fst (fst r), snd r).

(* VerifyTimestamp(containerTimestamp, executionTimestamp, divisor, validityWindow) with Go's
   truncated %: 0 nil, 1 ErrMisalignedTime, 2 ErrTimestampExpired, 3 ErrFutureTimestamp *)
Definition verify_timestamp (ct et divisor W : Z) : N :=
  if negb (Z.rem ct divisor =? 0) then 1%N
  else if ct <? et then 2%N
  else if ct >? et + W then 3%N
  else 0%N.

(* ------------------------------------------------------------------ system: window + chain index
   driven by consensus-engine calls *)
Definition tree_of (bs : list block) : index := fun i => find (fun b => N.eqb (b_id b) i) bs.

(* the chain index of the node: all blocks of the tree at or above the pruning floor *)
Definition idx_of (tree : index) (floor : N) : index :=
  fun i => match tree i with
           | Some b => if (floor <=? b_height b)%N then Some b else None
           | None => None
           end.

Inductive op :=
| OVerify (b : N)
| OAccept (b : N)
| OReject (b : N)
| ORestart (head : N) (floor : N)           (* prune below floor, rebuild the window from head *)
| OIsRepeat (parent : N) (now : Z) (items : list item).

Inductive out :=
| OutV (code : N)
| OutUnit
| OutR (complete : bool)
| OutI (bits : list bool) (err : bool)
| OutBad.                                   (* op names a block that does not exist *)

Record sys := mkS { s_win : win; s_floor : N }.

(* the block verification function of the component under study, as a parameter: C09 uses
   VerifyExpiryReplayProtection alone ([vf_replay]); DSMR's Node.Verify wraps it in header and
   expiry checks (Model/DsmrVerify.v).  Arguments: tree (to find the parent block handed to
   Verify by the engine), chain index, window, W, block. *)
Definition vfun := index -> index -> win -> Z -> block -> N.
Definition vf_replay : vfun := fun _ idx w W b => verify_replay idx w W b.

Definition step (vf : vfun) (tree : index) (W : Z) (s : sys) (o : op) : sys * out :=
  match o with
  | OVerify b =>
      match tree b with
      | Some blk => (s, OutV (vf tree (idx_of tree (s_floor s)) (s_win s) W blk))
      | None => (s, OutBad)
      end
  | OAccept b =>
      match tree b with
      | Some blk => (mkS (accept (s_win s) blk) (s_floor s), OutUnit)
      | None => (s, OutBad)
      end
  | OReject _ => (s, OutUnit)
  | ORestart h fl =>
      match tree h with
      | Some blk =>
          let fl' := N.max fl (s_floor s) in
          let r := new_window (idx_of tree fl') W blk in
          (mkS (fst r) fl', OutR (snd r))
      | None => (s, OutBad)
      end
  | OIsRepeat p now items =>
      match tree p with
      | Some blk => let r := is_repeat (idx_of tree (s_floor s)) (s_win s) W blk now items in
                    (s, OutI (fst r) (snd r))
      | None => (s, OutBad)
      end
  end.

Fixpoint run (vf : vfun) (tree : index) (W : Z) (s : sys) (ops : list op) : list out :=
  match ops with
  | [] => []
  | o :: ops' => let r := step vf tree W s o in snd r :: run vf tree W (fst r) ops'
  end.

(* initial system: window built at genesis *)
Definition sys0 (tree : index) (W : Z) (genesis : block) : sys :=
  mkS (fst (new_window (idx_of tree 0%N) W genesis)) 0%N.

(* ------------------------------------------------------------------ consensus-engine contract,
   evaluated against a list of outputs (the model's in the theorems, the implementation's in the
   check).  Tracks: verified = blocks whose Verify returned nil and that were not rejected;
   last = last block accepted into the window; ever = every block that ever verified. *)
Fixpoint is_anc (tree : index) (fuel : nat) (a : N) (b : N) : bool :=   (* a is b or an ancestor of b *)
  if N.eqb a b then true else
  match fuel with
  | O => false
  | S f => match tree b with
           | Some blk => if (b_height blk =? 0)%N then false else is_anc tree f a (b_parent blk)
           | None => false
           end
  end.

Definition anc_fuel (tree : index) (b : N) : nat :=
  match tree b with Some blk => fuel_of blk | None => O end.

Definition mem (x : N) (l : list N) : bool := existsb (N.eqb x) l.

Record eng := mkE { e_verified : list N; e_last : N; e_ever : list N }.

Definition eng_step (tree : index) (e : eng) (o : op) (r : out) : option eng :=
  match o, r with
  | OVerify b, OutV code =>
      match tree b with
      | Some blk =>
          if negb (b_height blk =? 0)%N
             && (mem (b_parent blk) (e_verified e) || N.eqb (b_parent blk) (e_last e))
             && is_anc tree (anc_fuel tree (b_parent blk)) (e_last e) (b_parent blk)
          then Some (if N.eqb code 0
                     then mkE (b :: e_verified e) (e_last e) (b :: e_ever e)
                     else e)
          else None
      | None => None
      end
  | OAccept b, OutUnit =>
      match tree b with
      | Some blk => if mem b (e_verified e) && N.eqb (b_parent blk) (e_last e)
                    then Some (mkE (e_verified e) b (e_ever e)) else None
      | None => None
      end
  | OReject b, OutUnit =>
      if mem b (e_verified e)
      then Some (mkE (filter (fun v => negb (N.eqb v b)) (e_verified e)) (e_last e) (e_ever e))
      else None
  | ORestart h _, OutR complete =>
      if complete && (mem h (e_verified e) || N.eqb h (e_last e))
         && is_anc tree (anc_fuel tree h) (e_last e) h
      then Some (mkE [] h (e_ever e)) else None
  | OIsRepeat _ _ _, OutI _ _ => Some e
  | _, _ => None
  end.

Fixpoint eng_run (tree : index) (e : eng) (ops : list op) (outs : list out) : option eng :=
  match ops, outs with
  | [], [] => Some e
  | o :: ops', r :: outs' =>
      match eng_step tree e o r with
      | Some e' => eng_run tree e' ops' outs'
      | None => None
      end
  | _, _ => None
  end.

Definition eng0 (genesis : N) : eng := mkE [] genesis [genesis].

(* ------------------------------------------------------------------ the property, executable:
   ids along the path from a block to genesis, and "no id twice on that path" *)
Fixpoint chain_ids (tree : index) (fuel : nat) (b : block) : list N :=
  ids (b_items b) ++
  match fuel with
  | O => []
  | S f => if (b_height b =? 0)%N then []
           else match tree (b_parent b) with
                | Some p => chain_ids tree f p
                | None => []
                end
  end.

Definition cleanb (tree : index) (b : N) : bool :=
  match tree b with
  | Some blk => negb (has_dup [] (chain_ids tree (fuel_of blk) blk))
  | None => false
  end.
