(* Model of pubsub/message_buffer.go (MessageBuffer: Send, timer callback, Close, clearPending, the
   bounded Queue channel and its consumer) and pubsub/messages.go + messages.canoto.go
   (CreateBatchMessage = MarshalCanoto, ParseBatchMessage = UnmarshalCanoto of
   `Messages [][]byte  canoto:"repeated bytes,1"`).

   Operations are atomic (every Go method holds the buffer's mutex): Send m, the timer callback,
   Close, and one receive from Queue by the consumer (pubsub/connection.go writePump). *)
From Coq Require Import List NArith Bool.
Import ListNotations.
From HV Require Import Lib.Bytes Lib.Varint.
Local Open Scope N_scope.

(* ---- batch encoding ----------------------------------------------------------------------- *)

Definition batch_tag : N := 10.      (* canoto.Tag(1, canoto.Len) = "\x0a" *)

Definition blen (b : bytes) : N := N.of_nat (length b).

(* MarshalCanotoInto: for each message: tag, AppendBytes (uvarint length, payload) *)
Fixpoint encode_batch (msgs : list bytes) : bytes :=
  match msgs with
  | [] => []
  | m :: r => batch_tag :: uvarint_enc (blen m) ++ m ++ encode_batch r
  end.

(* len(tag) + canoto.SizeBytes(m) *)
Definition entry_size (m : bytes) : N := 1 + (uvarint_len (blen m) + blen m).

(* CalculateCanotoCache: size of the encoding *)
Fixpoint batch_size (msgs : list bytes) : N :=
  match msgs with
  | [] => 0
  | m :: r => entry_size m + batch_size r
  end.

(* ---- batch decoding ----------------------------------------------------------------------- *)

(* canoto.ReadBytes: uvarint length, then that many bytes *)
Definition read_bytes (r : bytes) : option (bytes * bytes) :=
  match read_uint 64 r with
  | UvOk len rest =>
      if blen rest <? len then None
      else Some (firstn (N.to_nat len) rest, skipn (N.to_nat len) rest)
  | _ => None
  end.

(* canoto.CountBytes(r, tag): number of consecutive tag-prefixed length-delimited fields *)
Fixpoint count_bytes_fuel (fuel : nat) (r : bytes) : option N :=
  match fuel with
  | O => Some 0
  | S f =>
      match r with
      | t :: r1 =>
          if t =? batch_tag then
            match read_uint 64 r1 with
            | UvOk len r2 =>
                if blen r2 <? len then None
                else match count_bytes_fuel f (skipn (N.to_nat len) r2) with
                     | Some c => Some (c + 1)
                     | None => None
                     end
            | _ => None
            end
          else Some 0
      | [] => Some 0
      end
  end.

Definition count_bytes (r : bytes) : option N := count_bytes_fuel (S (length r)) r.

(* for i := range countMinus1 { r.B = r.B[len(tag):]; ReadBytes(&r, &c.Messages[1+i]) } *)
Fixpoint read_entries (cnt : nat) (r : bytes) : option (list bytes * bytes) :=
  match cnt with
  | O => Some ([], r)
  | S c =>
      match read_bytes (skipn 1 r) with
      | None => None
      | Some (m, r1) =>
          match read_entries c r1 with
          | None => None
          | Some (ms, r2) => Some (m :: ms, r2)
          end
      end
  end.

(* UnmarshalCanoto; every error is None *)
Definition parse_batch (b : bytes) : option (list bytes) :=
  match b with
  | [] => Some []                                   (* !HasNext: no fields *)
  | _ =>
      match read_uint 32 b with                     (* ReadTag *)
      | UvOk val r =>
          let wt := val mod 8 in
          if negb ((wt =? 0) || (wt =? 1) || (wt =? 2) || (wt =? 5)) then None   (* ErrInvalidWireType *)
          else if negb (val / 8 =? 1) then None     (* field 0 or >= 2: ErrUnknownField *)
          else if negb (wt =? 2) then None          (* ErrUnexpectedWireType *)
          else
            match read_bytes r with                 (* first entry (also the Unsafe pre-read) *)
            | None => None
            | Some (m0, r1) =>
                match count_bytes r1 with
                | None => None
                | Some cnt =>
                    match read_entries (N.to_nat cnt) r1 with
                    | None => None
                    | Some (ms, r2) =>
                        (* next iteration: minField = 2; any further tag is a read error, a field
                           below minField (ErrInvalidFieldOrder) or an unknown field *)
                        match r2 with
                        | [] => Some (m0 :: ms)
                        | _ => None
                        end
                    end
                end
            end
      | _ => None
      end
  end.

(* ---- MessageBuffer ------------------------------------------------------------------------ *)

Record st := mkst {
  pending : list bytes;       (* m.pending *)
  psize : N;                  (* m.pendingSize *)
  queue : list bytes;         (* contents of the Queue channel, head = next to be received *)
  closed : bool               (* m.closed (and Queue closed) *)
}.

Definition init : st := mkst [] 0 [] false.

Inductive op := OSend (m : bytes) | OTimer | OClose | ORecv.

(* result codes *)
Definition c_ok : N := 0.
Definition c_closed : N := 1.       (* ErrClosed; for ORecv: channel closed and drained *)
Definition c_too_large : N := 2.    (* ErrMessageTooLarge *)
Definition c_empty : N := 3.        (* ORecv on an empty open queue (the consumer would block) *)

Record out := mkout {
  o_code : N;
  o_flush : option (list bytes * bool);   (* clearPending ran: the batch, and whether it was enqueued *)
  o_recv : option bytes                   (* ORecv: the received item *)
}.

(* clearPending: non-blocking send of the encoded batch, then reset *)
Definition clear_pending (cap : N) (s : st) : st * (list bytes * bool) :=
  let enq := N.of_nat (length (queue s)) <? cap in
  let q := if enq then queue s ++ [encode_batch (pending s)] else queue s in
  (mkst [] 0 q (closed s), (pending s, enq)).

Definition step (cap max : N) (s : st) (o : op) : st * out :=
  match o with
  | OSend m =>
      if closed s then (s, mkout c_closed None None)
      else
        let l := entry_size m in
        if max <? l then (s, mkout c_too_large None None)
        else if max <? psize s + l then
          let '(s1, fl) := clear_pending cap s in
          (mkst (pending s1 ++ [m]) (psize s1 + l) (queue s1) (closed s1), mkout c_ok (Some fl) None)
        else (mkst (pending s ++ [m]) (psize s + l) (queue s) (closed s), mkout c_ok None None)
  | OTimer =>
      if closed s then (s, mkout c_ok None None)          (* callback returns: ErrClosed only logged *)
      else match pending s with
           | [] => (s, mkout c_ok None None)
           | _ => let '(s1, fl) := clear_pending cap s in (s1, mkout c_ok (Some fl) None)
           end
  | OClose =>
      if closed s then (s, mkout c_closed None None)
      else let '(s1, fl) := clear_pending cap s in
           (mkst (pending s1) (psize s1) (queue s1) true, mkout c_ok (Some fl) None)
  | ORecv =>
      match queue s with
      | x :: q => (mkst (pending s) (psize s) q (closed s), mkout c_ok None (Some x))
      | [] => (s, mkout (if closed s then c_closed else c_empty) None None)
      end
  end.

(* run: the list of (state before, op, output) and the final state *)
Fixpoint run (cap max : N) (s : st) (ops : list op) : list (st * op * out) * st :=
  match ops with
  | [] => ([], s)
  | o :: r =>
      let '(s1, ou) := step cap max s o in
      let '(tr, sf) := run cap max s1 r in
      ((s, o, ou) :: tr, sf)
  end.

(* ---- trace projections used by the property ------------------------------------------------ *)

Definition accepted_of (e : st * op * out) : list bytes :=
  match e with
  | (_, OSend m, ou) => if o_code ou =? c_ok then [m] else []
  | _ => []
  end.

Definition flush_of (e : st * op * out) : list (list bytes * bool) :=
  match o_flush (snd e) with Some f => [f] | None => [] end.

Definition recv_of (e : st * op * out) : list bytes :=
  match o_recv (snd e) with Some x => [x] | None => [] end.

Definition accepted (tr : list (st * op * out)) : list bytes := flat_map accepted_of tr.
Definition flushes (tr : list (st * op * out)) : list (list bytes * bool) := flat_map flush_of tr.
Definition received (tr : list (st * op * out)) : list bytes := flat_map recv_of tr.

(* batches that were enqueued (not dropped), in order *)
Definition enqueued (fl : list (list bytes * bool)) : list (list bytes) :=
  map fst (filter snd fl).

(* ---- lock-level model of Close racing with the timer callback -------------------------------
   The operations above are atomic because every method holds the mutex m.l. One interleaving is
   not covered by that abstraction: Close() keeps m.l while pendingTimer.Stop() waits for the
   dispatcher goroutine (timer.Stop -> wg.Wait), and the dispatcher may at that moment be inside
   the timer callback waiting for m.l.

   closer:     Close():   m.l.Lock(); clearPending(); pendingTimer.Stop() {finished = true; wg.Wait()};
                          closed = true; close(Queue); m.l.Unlock()
   dispatcher: avalanchego timer.Dispatch: wait for timer / reset; on fire (if not finished) call the
               handler = { m.l.Lock(); ...; m.l.Unlock() }; exit (wg.Done) once finished is seen. *)

Inductive cstate := CIdle | CLocked | CStopping | CDone.
Inductive dstate := DWait | DFired | DInHandler | DAfter | DExit.

Record lk := mklk {
  l_owner : N;            (* m.l: 0 free, 1 held by Close, 2 held by the timer callback *)
  l_closer : cstate;
  l_disp : dstate;
  l_finished : bool       (* timer.finished *)
}.

Definition linit : lk := mklk 0 CIdle DWait false.   (* a message is pending: the timer is armed *)

Inductive lact :=
| ACloseLock      (* Close: m.l.Lock() *)
| ACloseStop      (* Close: pendingTimer.Stop(): finished = true, then wg.Wait() *)
| ACloseReturn    (* Close: wg.Wait() returned; m.l.Unlock() *)
| ATimerFire      (* dispatcher: timer fired, finished not set: about to run the handler *)
| AHandlerLock    (* handler: m.l.Lock() *)
| AHandlerUnlock  (* handler: m.l.Unlock(), back in the dispatch loop *)
| ADispExit.      (* dispatcher: sees finished, returns (wg.Done) *)

Definition all_lacts : list lact :=
  [ACloseLock; ACloseStop; ACloseReturn; ATimerFire; AHandlerLock; AHandlerUnlock; ADispExit].

Definition lstep (s : lk) (a : lact) : option lk :=
  match a, l_closer s, l_disp s with
  | ACloseLock, CIdle, _ =>
      if l_owner s =? 0 then Some (mklk 1 CLocked (l_disp s) (l_finished s)) else None
  | ACloseStop, CLocked, _ => Some (mklk (l_owner s) CStopping (l_disp s) true)
  | ACloseReturn, CStopping, DExit => Some (mklk 0 CDone DExit (l_finished s))
  | ATimerFire, _, DWait =>
      if l_finished s then None else Some (mklk (l_owner s) (l_closer s) DFired (l_finished s))
  | AHandlerLock, _, DFired =>
      if l_owner s =? 0 then Some (mklk 2 (l_closer s) DInHandler (l_finished s)) else None
  | AHandlerUnlock, _, DInHandler => Some (mklk 0 (l_closer s) DAfter (l_finished s))
  | ADispExit, _, DWait | ADispExit, _, DAfter =>
      if l_finished s then Some (mklk (l_owner s) (l_closer s) DExit (l_finished s)) else None
  | _, _, _ => None
  end.

Fixpoint lrun (s : lk) (acts : list lact) : option lk :=
  match acts with
  | [] => Some s
  | a :: r => match lstep s a with Some s1 => lrun s1 r | None => None end
  end.

Definition lstuck (s : lk) : bool :=
  forallb (fun a => match lstep s a with None => true | Some _ => false end) all_lacts.

Definition closer_done (s : lk) : bool := match l_closer s with CDone => true | _ => false end.

(* the schedule the driver forces: the timer fires while Close is between Lock and Stop.
   Result code of Close: 0 = returned, 7 = never returns *)
Definition race_schedule : list lact := [ACloseLock; ATimerFire; ACloseStop].
Definition race_outcome : N :=
  match lrun linit race_schedule with
  | Some s => if lstuck s && negb (closer_done s) then 7 else 0
  | None => 0
  end.
