(* Token supply of a state of the reference VM (new definitions only; used by Props/C06.v).

   The data part of a state ([p_data], everything except the three metadata keys) is a finite map from
   keys to values.  In the reference token VM (examples/morpheusvm) every data key is a balance key and
   every value the 8-byte big-endian encoding of a uint64 ([wf_state]); [supply] is the sum of all of them
   (for such a value [parse_u64 v = Some (be_dec v)], the number GetBalance returns).

   [overlay d m]   the map m with the diff d applied ([post_data p o] = [overlay (o_diff o) (p_data p)]);
   [vmap s]        the visible map of a state view as a finite map ([vmap s !! k = vis s k], Supply_proofs);
   [transfer_tx]   transactions all of whose actions are Transfer actions (the reference VM's only action);
                   the scripted get/put/delete operations of the harness can write arbitrary bytes under
                   arbitrary keys and are excluded. *)
From stdpp Require Import gmap.
From Coq Require Import NArith ZArith.
From HV Require Import Lib.Bytes Lib.U64 Model.Keys Model.Tstate Model.Fees Model.Chain Model.ChainHistory.
Local Open Scope N_scope.

Definition overlay (d : gmap key (option val)) (m : gmap key val) : gmap key val :=
  omap id d ∪ filter (fun kv => d !! kv.1 = None) m.

Definition supply (m : gmap key val) : N := map_fold (fun _ v acc => be_dec v + acc) 0 m.

Definition wf_state (m : gmap key val) : Prop :=
  forall k v, m !! k = Some v -> length v = 8%nat /\ be_dec v <= MaxU64.

Definition vmap (s : view) : gmap key val :=
  overlay (pending s) (overlay (ts_changed (v_ts s)) (v_base s)).

Definition is_transfer (o : sop) : Prop :=
  match o with OTransfer _ _ _ _ => True | _ => False end.

Definition transfer_action (a : action) : Prop := Forall is_transfer (a_ops a).
Definition transfer_tx (t : tx) : Prop := Forall transfer_action (t_actions t).
Definition transfer_block (b : block) : Prop := Forall transfer_tx (b_txs b).

(* fees charged by a list of results *)
Definition fees (rs : list result) : N := fold_right N.add 0 (map res_fee rs).
Definition chain_fees (os : list out_ok) : N := fold_right N.add 0 (map (fun o => fees (o_results o)) os).
