(* Model of utils/utils.go: balanceUnit, FormatBalance, ParseBalance (integer arithmetic version),
   with the parts of strconv/fmt/strings they use (ParseUint base 10 / 64 bits, %d, %0*d, strings.Cut).

   Text is a list of character codes; '0' = 48, '.' = 46. consts.Decimals = 9. *)
From Coq Require Import List NArith Bool.
Import ListNotations.
Local Open Scope N_scope.

Definition text := list N.

Definition decimals : nat := 9.
Definition unit_ : N := 1000000000.          (* balanceUnit() = 10^Decimals *)
Definition max_u64 : N := 18446744073709551615.
Definition two64 : N := 18446744073709551616.

(* ---- fmt %d ------------------------------------------------------------------------------- *)

(* decimal digits of n, most significant first, accumulated in front of acc *)
Fixpoint digits_fuel (fuel : nat) (n : N) (acc : text) : text :=
  match fuel with
  | O => acc
  | S f => if n <? 10 then (48 + n) :: acc
           else digits_fuel f (n / 10) ((48 + n mod 10) :: acc)
  end.

(* one step consumes more than 3 bits: log2 n + 1 steps are enough *)
Definition digits (n : N) : text := digits_fuel (S (N.to_nat (N.log2 n))) n [].

(* %0*d with width w: left-pad with '0' *)
Definition pad_zeros (w : nat) (s : text) : text := repeat 48 (w - length s) ++ s.

(* FormatBalance: fmt.Sprintf("%d.%0*d", bal/unit, Decimals, bal%unit) *)
Definition format_balance (bal : N) : text :=
  digits (bal / unit_) ++ [46] ++ pad_zeros decimals (digits (bal mod unit_)).

(* ---- strconv.ParseUint(s, 10, 64) --------------------------------------------------------- *)

Inductive pres := POk (v : N) | PSyntax | PRange.

Definition cutoff : N := 1844674407370955162.   (* maxUint64/10 + 1 *)

(* the digit loop, left to right, n = value so far *)
Fixpoint parse_uint_loop (s : text) (n : N) : pres :=
  match s with
  | [] => POk n
  | c :: r =>
      if (48 <=? c) && (c <=? 57) then
        let d := c - 48 in
        if cutoff <=? n then PRange                 (* n*base overflows *)
        else
          let n1 := n * 10 + d in
          if two64 <=? n1 then PRange               (* n+d overflows *)
          else parse_uint_loop r n1
      else PSyntax
  end.

Definition parse_uint (s : text) : pres :=
  match s with
  | [] => PSyntax
  | _ => parse_uint_loop s 0
  end.

(* ---- strings.Cut(s, ".") ------------------------------------------------------------------ *)

Fixpoint cut_dot (s : text) : text * text :=
  match s with
  | [] => ([], [])
  | c :: r => if c =? 46 then ([], r)
              else let '(a, b) := cut_dot r in (c :: a, b)
  end.

(* for i := len(frac); i < Decimals; i++ { fracUnits *= 10 } *)
Fixpoint mul10 (k : nat) (v : N) : N :=
  match k with O => v | S k' => mul10 k' (v * 10) end.

(* ---- ParseBalance ------------------------------------------------------------------------- *)

Definition parse_balance (s : text) : pres :=
  let '(whole0, frac) := cut_dot s in
  let whole := match whole0, frac with
               | [], _ :: _ => [48]
               | _, _ => whole0
               end in
  match parse_uint whole with
  | PSyntax => PSyntax
  | PRange => PRange
  | POk whole_units =>
      if Nat.ltb decimals (length frac) then PSyntax
      else
        let frac_res :=
          match frac with
          | [] => POk 0
          | _ => match parse_uint frac with
                 | POk f => POk (mul10 (decimals - length frac) f)
                 | e => e
                 end
          end in
        match frac_res with
        | PSyntax => PSyntax
        | PRange => PRange
        | POk frac_units =>
            if (max_u64 - frac_units) / unit_ <? whole_units then PRange
            else POk (whole_units * unit_ + frac_units)
        end
  end.
