(* AuthBatch.v — executable model of block signature verification (C16).

   Go code modelled (as it exists in /repo now):
     auth/ed25519.go              ED25519AuthEngine.GetBatchVerifier, ED25519Batch.Add / Done
     crypto/ed25519/ed25519.go    Batch.Verify (ed25519consensus.BatchVerifier.Verify: an EMPTY batch is false)
     chain/auth_batch.go          NewAuthBatch / Add / Done: per-auth-type routing, one batch worker per
                                  batched type, every other auth is one job of its own
     chain/processor.go           NewExecutionBlock.authCounts, verifySignatures
     internal/workers/serial_workers.go   SerialJob.Go / Wait

   A block signature is an abstract item of type [T] (one (unsigned tx bytes, auth) pair);
   [verify : T -> bool] is "auth.Verify(ctx, digest) == nil" and is a Section variable.
   Model only, no proofs. *)
From Coq Require Import List NArith Bool.
Import ListNotations.
Local Open Scope N_scope.

(* crypto/ed25519: MinBatchSize = 4 *)
Definition min_batch_size : N := 4.

Section AuthBatch.
Context {T : Type}.
Variable verify : T -> bool.

(* ed25519.Batch.Verify = ed25519consensus BatchVerifier.Verify:
     "Calling Verify on an empty batch returns false", otherwise (ZIP-215 batch contract, oracle)
     true iff every entry verifies. *)
Definition batch_verify (b : list T) : bool :=
  match b with
  | [] => false
  | _ :: _ => forallb verify b
  end.

(* A task handed to workers.Job.Go *)
Inductive job : Type :=
| JSingle (x : T)          (* func() error { return auth.Verify(ctx, digest) }   (auth_batch.go Add) *)
| JBatch (b : list T).     (* batch.VerifyAsync()                                (ed25519.go Add/Done) *)

(* true = the task returns nil *)
Definition run_job (j : job) : bool :=
  match j with
  | JSingle x => verify x
  | JBatch b => batch_verify b
  end.

Definition job_items (j : job) : list T :=
  match j with
  | JSingle x => [x]
  | JBatch b => b
  end.

(* ---- auth/ed25519.go: ED25519Batch ------------------------------------------------------------ *)

(* type ED25519Batch struct { batchSize, total, counter, totalCounter int; batch *ed25519.Batch }
   [e_batch = None] is the nil pointer; [Some b] is a batch holding the items [b] in insertion order. *)
Record ed_state : Type := mk_ed {
  e_bs : N;
  e_total : N;
  e_counter : N;
  e_tc : N;
  e_batch : option (list T)
}.

(* GetBatchVerifier(cores, count): batchSize := max(count/cores, ed25519.MinBatchSize); total: count.
   (Go panics on cores = 0; a job always has >= 1 worker. N division by 0 is 0 here.) *)
Definition ed_batch_size (cores count : N) : N := N.max (count / cores) min_batch_size.

Definition ed_new (cores count : N) : ed_state :=
  mk_ed (ed_batch_size cores count) count 0 0 None.

(* func (b *ED25519Batch) Add(msg, auth) func() error
     if b.batch == nil { b.batch = NewBatch(b.batchSize) }
     b.batch.Add(..); b.counter++; b.totalCounter++
     if b.counter == b.batchSize {
        last := b.batch; b.counter = 0
        if b.totalCounter < b.total { b.batch = NewBatch(b.batchSize) }   // else b.batch stays = last
        return last.VerifyAsync() }
     return nil
   The returned job is the batch as it is when emitted. *)
Definition ed_add (st : ed_state) (x : T) : ed_state * option (list T) :=
  let b := match e_batch st with None => [] | Some b => b end in
  let b' := b ++ [x] in
  let c := e_counter st + 1 in
  let tc := e_tc st + 1 in
  if c =? e_bs st then
    (mk_ed (e_bs st) (e_total st) 0 tc (if tc <? e_total st then Some [] else Some b'), Some b')
  else
    (mk_ed (e_bs st) (e_total st) c tc (Some b'), None).

(* func (b *ED25519Batch) Done() []func() error
     if b.batch == nil { return nil }; return []func() error{b.batch.VerifyAsync()} *)
Definition ed_done (st : ed_state) : list (list T) :=
  match e_batch st with
  | None => []
  | Some b => [b]
  end.

(* the authBatchWorker goroutine: Add every item of its channel in order; [ed_adds] returns the final
   state and, per Add, what it returned (None = nil). *)
Fixpoint ed_adds (st : ed_state) (xs : list T) : ed_state * list (option (list T)) :=
  match xs with
  | [] => (st, [])
  | x :: r =>
      let '(st1, o) := ed_add st x in
      let '(st2, os) := ed_adds st1 r in
      (st2, o :: os)
  end.

Fixpoint somes {A : Type} (l : list (option A)) : list A :=
  match l with
  | [] => []
  | Some a :: r => a :: somes r
  | None :: r => somes r
  end.

(* all batches emitted for one auth type: those returned by Add, then those returned by Done *)
Definition ed_run (st : ed_state) (xs : list T) : list (list T) :=
  let '(st', os) := ed_adds st xs in somes os ++ ed_done st'.

(* ---- chain/processor.go + chain/auth_batch.go ------------------------------------------------- *)

(* a transaction of the block: (auth type id, signature item) *)
Definition btx : Type := (N * T)%type.

Definition of_type (t : N) (x : btx) : bool := fst x =? t.

(* NewExecutionBlock: authCounts[tx.Auth.GetTypeID()]++ *)
Definition count_type (t : N) (blk : list btx) : N := N.of_nat (length (filter (of_type t) blk)).

(* the items AuthBatch.Add sends to the channel of type [t]'s worker, in block order *)
Definition items_of_type (t : N) (blk : list btx) : list T := map snd (filter (of_type t) blk).

(* keys of the authCounts map (Go iterates them in arbitrary order; only the set matters) *)
Definition block_types (blk : list btx) : list N := nodup N.eq_dec (map fst blk).

(* [batched t] = engines.GetAuthBatchVerifier(t, ..) returns ok (auth.DefaultEngines: only ED25519ID).
   Every batch verifier in the code base is an ED25519Batch. *)
Variable batched : N -> bool.

(* jobs of one batched type: worker created by NewAuthBatch with GetBatchVerifier(t, job.Workers(), count) *)
Definition type_jobs (cores : N) (blk : list btx) (t : N) : list job :=
  if batched t then map JBatch (ed_run (ed_new cores (count_type t blk)) (items_of_type t blk)) else [].

Definition batch_jobs (cores : N) (blk : list btx) : list job :=
  flat_map (type_jobs cores blk) (block_types blk).

(* AuthBatch.Add for a type without batch verifier: a.job.Go(func() error { return auth.Verify(..) }) *)
Definition single_jobs (blk : list btx) : list job :=
  map (fun x => JSingle (snd x)) (filter (fun x => negb (batched (fst x))) blk).

(* every task handed to job.Go for one block (verifySignatures + AuthBatch.Done).  The relative order of
   tasks of different types depends on goroutine scheduling; the theorems are order-independent. *)
Definition auth_batch_jobs (cores : N) (blk : list btx) : list job :=
  single_jobs blk ++ batch_jobs cores blk.

(* ---- internal/workers/serial_workers.go ------------------------------------------------------- *)

(* SerialJob.Go: if j.err != nil { return }; if err := f(); err != nil { j.err = err }.
   [serial_go err js] = "j.err != nil" after the tasks [js]. *)
Fixpoint serial_go (err : bool) (js : list job) : bool :=
  match js with
  | [] => err
  | j :: r => if err then serial_go true r else serial_go (negb (run_job j)) r
  end.

(* SerialJob.Wait() != nil *)
Definition serial_wait (js : list job) : bool := serial_go false js.

End AuthBatch.

Arguments JSingle {T} x.
Arguments JBatch {T} b.
Arguments mk_ed {T} _ _ _ _ _.
