(* Model of codec/address.go (encodeWithChecksum, fromChecksum, UnmarshalText / StringToAddress,
   String / MarshalText) and codec/hex.go (ToHex, LoadHex), plus the parts of encoding/hex they use.

   Text is a list of character codes (N), bytes are [list N] with every element < 256.
   The checksum (avalanchego hashing.Checksum(b, 4) = last 4 bytes of sha256(b)) is a parameter of the
   model functions: the theorems hold for every function with 4-byte output. *)
From Coq Require Import List NArith Bool.
Import ListNotations.
From HV Require Import Lib.Bytes.
Local Open Scope N_scope.

Definition text := list N.

Definition address_len : nat := 33.
Definition checksum_len : nat := 4.

(* ---- encoding/hex ------------------------------------------------------------------------- *)

(* hextable = "0123456789abcdef" *)
Definition hex_digit (n : N) : N := if n <? 10 then 48 + n else 87 + n.

(* hex.EncodeToString *)
Fixpoint hex_enc (b : bytes) : text :=
  match b with
  | [] => []
  | x :: r => hex_digit (x / 16) :: hex_digit (x mod 16) :: hex_enc r
  end.

(* hex.fromHexChar: '0'..'9', 'a'..'f', 'A'..'F' *)
Definition from_hex_char (c : N) : option N :=
  if (48 <=? c) && (c <=? 57) then Some (c - 48)
  else if (97 <=? c) && (c <=? 102) then Some (c - 87)
  else if (65 <=? c) && (c <=? 70) then Some (c - 55)
  else None.

(* hex.DecodeString: any invalid character or an odd length is an error *)
Fixpoint hex_dec (s : text) : option bytes :=
  match s with
  | [] => Some []
  | [_] => None
  | a :: b :: r =>
      match from_hex_char a, from_hex_char b with
      | Some x, Some y =>
          match hex_dec r with
          | Some t => Some (x * 16 + y :: t)
          | None => None
          end
      | _, _ => None
      end
  end.

(* if len(s) >= 2 && s[0] == '0' && s[1] == 'x' { s = s[2:] } *)
Definition strip0x (s : text) : text :=
  match s with
  | a :: b :: r => if (a =? 48) && (b =? 120) then r else s
  | _ => s
  end.

(* ASCII lower-casing of 'A'..'Z' (used to state case-insensitivity; not used by the code) *)
Definition lower (c : N) : N := if (65 <=? c) && (c <=? 90) then c + 32 else c.

(* ---- codec/address.go --------------------------------------------------------------------- *)

Section WithChecksum.
  Variable checksum : bytes -> bytes.

  (* encodeWithChecksum(a[:]) for a 33-byte address: "0x" + hex(a ++ checksum a) *)
  Definition format_address (a : bytes) : text :=
    [48; 120] ++ hex_enc (a ++ checksum a).

  (* fromChecksum *)
  Definition from_checksum (s : text) : option bytes :=
    match hex_dec (strip0x s) with
    | None => None
    | Some decoded =>
        if Nat.ltb (length decoded) checksum_len then None
        else
          let n := (length decoded - checksum_len)%nat in
          let original := firstn n decoded in
          let ck := skipn n decoded in
          if bytes_eqb ck (checksum original) then Some original else None
    end.

  (* Address.UnmarshalText / StringToAddress *)
  Definition parse_address (s : text) : option bytes :=
    match from_checksum s with
    | None => None
    | Some decoded => if Nat.eqb (length decoded) address_len then Some decoded else None
    end.
End WithChecksum.

(* ---- codec/hex.go ------------------------------------------------------------------------- *)

Definition to_hex (b : bytes) : text := hex_enc b.

(* LoadHex(s, expectedSize); expected = None models -1 *)
Definition load_hex (s : text) (expected : option N) : option bytes :=
  match hex_dec (strip0x s) with
  | None => None
  | Some b =>
      match expected with
      | None => Some b
      | Some n => if N.of_nat (length b) =? n then Some b else None
      end
  end.
