(* Model of fees/set.go:LargestSet (current tree, i.e. after fix bd3eac2) and the Dimensions helpers it uses
   (fees/dimension.go: CanAdd, Add — modelled in Model/Fees.v).

   weights  : for each item i, size_i = sum_k  (65536 * int64(d_i[k])^2) / int64(limit[k])^2   for limit[k] > 0
              (big.Int arithmetic; note the int64(...) conversions of uint64 values: values >= 2^63 become
              negative, their squares are what is used);
   order    : sort.SliceStable of the indices by weight (ascending) — a stable sort has exactly one result,
              modelled by a stable insertion sort;
   greedy   : walk the order with an accumulator; an item that cannot be added (overflow or above the limit)
              gets its slot overwritten with the sentinel len(dimensions); otherwise accumulator += item
              (checked add; on error return ([], zero));
   compact  : keep the slots that are not the sentinel, in order.
   Indices are nat in the model (N in the observation). *)
From Coq Require Import List NArith ZArith Bool.
Import ListNotations.
From HV Require Import Lib.U64 Model.Fees.
Local Open Scope N_scope.

Definition shiftZ : Z := 65536%Z.

(* one term of the weight *)
Definition weight_term (d l : N) : Z :=
  if 0 <? l then
    let dz := to_int64 d in
    let lz := to_int64 l in
    ((dz * dz * shiftZ) / (lz * lz))%Z
  else 0%Z.

Definition weight (d limit : dims) : Z :=
  fold_left (fun size k => (size + weight_term (dget d k) (dget limit k))%Z) idx5 0%Z.

(* stable insertion: the new index goes after every index whose weight is <= its own *)
Fixpoint insert_stable (wt : nat -> Z) (i : nat) (l : list nat) : list nat :=
  match l with
  | [] => [i]
  | j :: l' => if (wt i <? wt j)%Z then i :: j :: l' else j :: insert_stable wt i l'
  end.
(* sort 0..n-1: insert the indices in increasing order, each after its equals *)
Definition sorted_indices (wt : nat -> Z) (n : nat) : list nat :=
  fold_left (fun acc i => insert_stable wt i acc) (seq 0 n) [].

(* greedy pass: returns None if Add fails (unreachable, proved), else the slots (with sentinels) and the accumulator *)
Fixpoint greedy (items : list dims) (limit : dims) (n : nat) (order : list nat) (acc : dims)
  : option (list nat * dims) :=
  match order with
  | [] => Some ([], acc)
  | i :: rest =>
      let dim := nth i items [] in
      if can_add acc dim limit then
        match dims_add acc dim with
        | None => None
        | Some acc' =>
            match greedy items limit n rest acc' with
            | None => None
            | Some (slots, total) => Some (i :: slots, total)
            end
        end
      else
        match greedy items limit n rest acc with
        | None => None
        | Some (slots, total) => Some (n :: slots, total)
        end
  end.

Definition compact (n : nat) (slots : list nat) : list nat := filter (fun idx => negb (Nat.eqb idx n)) slots.

Definition largest_set (items : list dims) (limit : dims) : list nat * dims :=
  let n := length items in
  let order := sorted_indices (fun i => weight (nth i items []) limit) n in
  match greedy items limit n order dzero with
  | None => ([], dzero)
  | Some (slots, total) => (compact n slots, total)
  end.
