(* TxCodec.v — message grammars of the chain package over the canoto wire format (Lib/Canoto.v).

   Go sources modelled:
     chain/base.go + base.canoto.go                        : Base                      [decode_base / encode_base]
     chain/transaction_codec.go + .canoto.go               : SerializeTx               [decode_stx / encode_stx]
     chain/transaction.go                                  : Transaction.UnmarshalCanotoFrom (actions and auth
                                                             parsed with the Parser, unsigned bytes sliced off the
                                                             tail, cached bytes), NewTransaction / NewTxData
                                                                                       [decode_tx / encode_tx / unsigned_of]
     chain/transaction_marshaller.go + .canoto.go          : BatchedTransactions, BatchedTransactionSerializer
                                                                                       [decode_batch / encode_batch]
     chain/stateless_block.go + .canoto.go, avalanchego
       snow/engine/snowman/block (Context)                 : Block, StatelessBlock.UnmarshalCanotoFrom
                                                                                       [decode_block / encode_block]
     chain/result.go + .canoto.go                          : Result, ExecutionResults  [decode_result(s) / encode_result(s)]
     chain/executed_block.go + .canoto.go                  : ExecutedBlock             [decode_executed / encode_executed]
     codec/type_parser.go                                  : TypeParser.Unmarshal      [type_parser]
     examples/morpheusvm/actions/transfer.go               : UnmarshalTransfer / Transfer.Bytes (avalanchego linearcodec:
                                                             fixed arrays raw, uint64 big endian, []byte with a
                                                             big-endian uint32 length, no trailing bytes)
     auth/ed25519.go, secp256r1.go, bls.go                 : Unmarshal* (exact length, type id) / Bytes

   Every decoder returns [Err class] with the class of the first error the Go code would return. *)
From Coq Require Import List ZArith NArith Bool.
Import ListNotations.
From HV Require Import Lib.Bytes Lib.U64 Lib.Varint Lib.Canoto.
Local Open Scope N_scope.

Definition is_nil {A} (l : list A) : bool := match l with [] => true | _ => false end.

(* ---- field readers with the generated zero-value checks ----------------------------------- *)

Definition read_int64_nz (bs : bytes) : res (Z * bytes) :=
  '(z, r) <- read_int64 bs ;; if (z =? 0)%Z then Err E_ZERO else Ok (z, r).
Definition read_uint64_nz (bs : bytes) : res (N * bytes) :=
  '(v, r) <- read_uvar 64 bs ;; if v =? 0 then Err E_ZERO else Ok (v, r).
Definition read_fint64_nz (bs : bytes) : res (N * bytes) :=
  '(v, r) <- read_fint64 bs ;; if v =? 0 then Err E_ZERO else Ok (v, r).
Definition read_bytes_nz (bs : bytes) : res (bytes * bytes) :=
  '(b, r) <- read_bytes bs ;; if is_nil b then Err E_ZERO else Ok (b, r).
Definition read_bool_nz (bs : bytes) : res (bool * bytes) :=
  '(b, r) <- read_bool bs ;; if b then Ok (b, r) else Err E_ZERO.
(* an embedded message (`value` / `pointer` / `field`): length-delimited, must be non-empty *)
Definition read_msg {A} (dec : bytes -> res A) (bs : bytes) : res (A * bytes) :=
  '(m, r) <- read_bytes bs ;;
  if is_nil m then Err E_ZERO else a <- dec m ;; Ok (a, r).

(* ---- Base ---------------------------------------------------------------------------------- *)

Record base := mkBase { b_ts : Z; b_chain : bytes; b_fee : N }.
Definition base_zero : base := mkBase 0%Z (zeros 32) 0.

Definition base_known (f : N) : option N :=
  match f with 1 => Some WT_VARINT | 2 => Some WT_LEN | 3 => Some WT_I64 | _ => None end.

Definition decode_base (bs : bytes) : res base :=
  '(ts, m1, r1) <- opt_field (tag 1 WT_VARINT) 1 read_int64_nz 0%Z 0 bs ;;
  '(ch, m2, r2) <- opt_field (tag 2 WT_LEN) 2 (read_fixed_bytes 32) (zeros 32) m1 r1 ;;
  '(fee, m3, r3) <- opt_field (tag 3 WT_I64) 3 read_fint64_nz 0 m2 r2 ;;
  _ <- leftover base_known m3 r3 ;;
  Ok (mkBase ts ch fee).

Definition encode_base (b : base) : bytes :=
  (if (b_ts b =? 0)%Z then [] else tag 1 WT_VARINT ++ enc_int64 (b_ts b)) ++
  (if all_zero (b_chain b) then [] else tag 2 WT_LEN ++ enc_bytes (b_chain b)) ++
  (if b_fee b =? 0 then [] else tag 3 WT_I64 ++ enc_fint64 (b_fee b)).

(* ---- SerializeTx --------------------------------------------------------------------------- *)

Record stx := mkStx { s_base : base; s_actions : list bytes; s_auth : bytes }.

Definition len_known3 (f : N) : option N :=
  match f with 1 => Some WT_LEN | 2 => Some WT_LEN | 3 => Some WT_LEN | _ => None end.

Definition decode_stx (bs : bytes) : res stx :=
  '(b, m1, r1) <- opt_field (tag 1 WT_LEN) 1 (read_msg decode_base) base_zero 0 bs ;;
  '(acts, m2, r2) <- opt_field (tag 2 WT_LEN) 2 (read_repeated (tag 2 WT_LEN)) [] m1 r1 ;;
  '(auth, m3, r3) <- opt_field (tag 3 WT_LEN) 3 read_bytes_nz [] m2 r2 ;;
  _ <- leftover len_known3 m3 r3 ;;
  Ok (mkStx b acts auth).

(* a nested message is written only if its encoding is non-empty *)
Definition enc_msg_field (tg : bytes) (body : bytes) : bytes :=
  if is_nil body then [] else tg ++ enc_bytes body.

Definition encode_stx (s : stx) : bytes :=
  enc_msg_field (tag 1 WT_LEN) (encode_base (s_base s)) ++
  enc_repeated (tag 2 WT_LEN) (s_actions s) ++
  enc_msg_field (tag 3 WT_LEN) (s_auth s).

(* ---- Transaction --------------------------------------------------------------------------- *)

Section Tx.
  (* chain.Parser: actions and auth are opaque to the chain package *)
  Variables (A U : Type).
  Variable parse_action : bytes -> option A.
  Variable action_bytes : A -> bytes.
  Variable parse_auth : bytes -> option U.
  Variable auth_bytes : U -> bytes.

  Record tx := mkTxm {
    x_base : base; x_actions : list A; x_auth : U;
    x_unsigned : bytes;       (* TransactionData.unsignedBytes *)
    x_bytes : bytes           (* Transaction.bytes; the id is the hash of these bytes *)
  }.

  Fixpoint parse_actions (l : list bytes) : res (list A) :=
    match l with
    | [] => Ok []
    | b :: l' =>
        match parse_action b with
        | None => Err E_ACTION
        | Some a => as' <- parse_actions l' ;; Ok (a :: as')
        end
    end.

  (* Transaction.UnmarshalCanotoFrom *)
  Definition decode_tx (bs : bytes) : res tx :=
    s <- decode_stx bs ;;
    acts <- parse_actions (s_actions s) ;;
    match parse_auth (s_auth s) with
    | None => Err E_AUTH
    | Some au =>
        if is_nil (s_auth s) then Ok (mkTxm (s_base s) acts au bs bs)
        else
          (* authSuffixSize = len(tag) + SizeBytes(auth); the defensive bounds check *)
          let suffix := blen (tag 3 WT_LEN) + (uvarint_len (blen (s_auth s)) + blen (s_auth s)) in
          if blen bs <? suffix then Err E_INTERNAL
          else Ok (mkTxm (s_base s) acts au (take (blen bs - suffix) bs) bs)
    end.

  (* NewTransaction(base, actions, auth).Bytes() *)
  Definition encode_tx (b : base) (acts : list A) (au : U) : bytes :=
    encode_stx (mkStx b (map action_bytes acts) (auth_bytes au)).
  (* NewTxData(base, actions).UnsignedBytes(): the message that is signed *)
  Definition unsigned_of (b : base) (acts : list A) : bytes :=
    encode_stx (mkStx b (map action_bytes acts) []).

  (* ---- BatchedTransactions (gossip) ------------------------------------------------------- *)

  (* entries of a `repeated pointer` field: an empty entry is a nil pointer *)
  Fixpoint decode_entries (es : list bytes) : res (list (option tx)) :=
    match es with
    | [] => Ok []
    | e :: es' =>
        o <- (if is_nil e then Ok None else t <- decode_tx e ;; Ok (Some t)) ;;
        os <- decode_entries es' ;;
        Ok (o :: os)
    end.

  Fixpoint no_nil (os : list (option tx)) : res (list tx) :=
    match os with
    | [] => Ok []
    | None :: _ => Err E_NIL_TX
    | Some t :: os' => ts <- no_nil os' ;; Ok (t :: ts)
    end.

  Definition batch_known (f : N) : option N := match f with 1 => Some WT_LEN | _ => None end.

  (* BatchedTransactionSerializer.Unmarshal *)
  Definition decode_batch (bs : bytes) : res (list tx) :=
    '(es, m1, r1) <- opt_field (tag 1 WT_LEN) 1 (read_repeated (tag 1 WT_LEN)) [] 0 bs ;;
    os <- decode_entries es ;;
    _ <- leftover batch_known m1 r1 ;;
    no_nil os.

  (* BatchedTransactionSerializer.Marshal: every transaction contributes its cached bytes *)
  Definition encode_batch (ts : list tx) : bytes := enc_repeated (tag 1 WT_LEN) (map x_bytes ts).

  (* ---- Block / StatelessBlock -------------------------------------------------------------- *)

  Record block := mkBlock {
    k_parent : bytes; k_ts : N (* int64 bit pattern *); k_height : N;
    k_ctx : option N (* BlockContext.PChainHeight *);
    k_txs : list tx; k_root : bytes;
    k_bytes : bytes
  }.

  Definition ctx_known (f : N) : option N := match f with 1 => Some WT_VARINT | _ => None end.
  Definition decode_ctx (bs : bytes) : res (option N) :=
    '(h, m1, r1) <- opt_field (tag 1 WT_VARINT) 1 read_uint64_nz 0 0 bs ;;
    _ <- leftover ctx_known m1 r1 ;;
    Ok (Some h).
  Definition encode_ctx (c : option N) : bytes :=
    match c with
    | None => []
    | Some h => if h =? 0 then [] else tag 1 WT_VARINT ++ enc_uint h
    end.

  Definition block_known (f : N) : option N :=
    match f with
    | 1 => Some WT_LEN | 2 => Some WT_I64 | 3 => Some WT_I64
    | 4 => Some WT_LEN | 5 => Some WT_LEN | 6 => Some WT_LEN
    | _ => None
    end.

  (* Block.UnmarshalCanotoFrom; then StatelessBlock's nil-transaction check *)
  Definition decode_block (bs : bytes) : res block :=
    '(prnt, m1, r1) <- opt_field (tag 1 WT_LEN) 1 (read_fixed_bytes 32) (zeros 32) 0 bs ;;
    '(ts, m2, r2) <- opt_field (tag 2 WT_I64) 2 read_fint64_nz 0 m1 r1 ;;
    '(h, m3, r3) <- opt_field (tag 3 WT_I64) 3 read_fint64_nz 0 m2 r2 ;;
    '(ctx, m4, r4) <- opt_field (tag 4 WT_LEN) 4 (read_msg decode_ctx) None m3 r3 ;;
    '(es, m5, r5) <- opt_field (tag 5 WT_LEN) 5 (read_repeated (tag 5 WT_LEN)) [] m4 r4 ;;
    os <- decode_entries es ;;
    '(root, m6, r6) <- opt_field (tag 6 WT_LEN) 6 (read_fixed_bytes 32) (zeros 32) m5 r5 ;;
    _ <- leftover block_known m6 r6 ;;
    ts' <- no_nil os ;;
    Ok (mkBlock prnt ts h ctx ts' root bs).

  Definition enc_fixed_field (tg : bytes) (v : bytes) : bytes :=
    if all_zero v then [] else tg ++ enc_bytes v.
  Definition enc_fint_field (tg : bytes) (v : N) : bytes :=
    if v =? 0 then [] else tg ++ enc_fint64 v.

  (* NewStatelessBlock(...).GetBytes() *)
  Definition encode_block (prnt : bytes) (ts h : N) (ctx : option N) (txs : list tx) (root : bytes) : bytes :=
    enc_fixed_field (tag 1 WT_LEN) prnt ++
    enc_fint_field (tag 2 WT_I64) ts ++
    enc_fint_field (tag 3 WT_I64) h ++
    enc_msg_field (tag 4 WT_LEN) (encode_ctx ctx) ++
    enc_repeated (tag 5 WT_LEN) (map x_bytes txs) ++
    enc_fixed_field (tag 6 WT_LEN) root.
End Tx.

Arguments mkTxm {A U}.
Arguments x_base {A U}. Arguments x_actions {A U}. Arguments x_auth {A U}.
Arguments x_unsigned {A U}. Arguments x_bytes {A U}.
Arguments mkBlock {A U}.
Arguments k_parent {A U}. Arguments k_ts {A U}. Arguments k_height {A U}. Arguments k_ctx {A U}.
Arguments k_txs {A U}. Arguments k_root {A U}. Arguments k_bytes {A U}.

(* ---- Result / ExecutionResults ------------------------------------------------------------- *)

Record result := mkResult {
  rs_success : bool; rs_error : bytes; rs_outputs : list bytes;
  rs_units : list N (* fees.Dimensions: 5 values *); rs_fee : N }.

Definition dims_zero : list N := [0; 0; 0; 0; 0].
Definition dims_is_zero (d : list N) : bool := forallb (fun v => v =? 0) d.

(* `fixed repeated fint64` of 5 entries, packed *)
Fixpoint read_fints (n : nat) (bs : bytes) : res (list N * bytes) :=
  match n with
  | O => Ok ([], bs)
  | S n' => '(v, r) <- read_fint64 bs ;; '(vs, r') <- read_fints n' r ;; Ok (v :: vs, r')
  end.
Definition read_dims (bs : bytes) : res (list N * bytes) :=
  '(m, r) <- read_bytes bs ;;
  '(vs, rest) <- read_fints 5 m ;;
  if negb (is_nil rest) then Err E_LENGTH
  else if dims_is_zero vs then Err E_ZERO else Ok (vs, r).
Definition enc_dims_field (tg : bytes) (d : list N) : bytes :=
  if dims_is_zero d then [] else tg ++ enc_bytes (flat_map enc_fint64 d).

Definition result_known (f : N) : option N :=
  match f with
  | 1 => Some WT_VARINT | 2 => Some WT_LEN | 3 => Some WT_LEN | 4 => Some WT_LEN | 5 => Some WT_I64
  | _ => None
  end.

Definition decode_result (bs : bytes) : res result :=
  '(ok, m1, r1) <- opt_field (tag 1 WT_VARINT) 1 read_bool_nz false 0 bs ;;
  '(er, m2, r2) <- opt_field (tag 2 WT_LEN) 2 read_bytes_nz [] m1 r1 ;;
  '(outs, m3, r3) <- opt_field (tag 3 WT_LEN) 3 (read_repeated (tag 3 WT_LEN)) [] m2 r2 ;;
  '(units, m4, r4) <- opt_field (tag 4 WT_LEN) 4 read_dims dims_zero m3 r3 ;;
  '(fee, m5, r5) <- opt_field (tag 5 WT_I64) 5 read_fint64_nz 0 m4 r4 ;;
  _ <- leftover result_known m5 r5 ;;
  Ok (mkResult ok er outs units fee).

Definition encode_result (r : result) : bytes :=
  (if rs_success r then tag 1 WT_VARINT ++ [1] else []) ++
  enc_msg_field (tag 2 WT_LEN) (rs_error r) ++
  enc_repeated (tag 3 WT_LEN) (rs_outputs r) ++
  enc_dims_field (tag 4 WT_LEN) (rs_units r) ++
  (if rs_fee r =? 0 then [] else tag 5 WT_I64 ++ enc_fint64 (rs_fee r)).

Record exec_results := mkER { er_results : list (option result); er_prices : list N; er_consumed : list N }.

(* `repeated field` of pointers: an empty entry stays nil *)
Fixpoint decode_result_entries (es : list bytes) : res (list (option result)) :=
  match es with
  | [] => Ok []
  | e :: es' =>
      o <- (if is_nil e then Ok None else r <- decode_result e ;; Ok (Some r)) ;;
      os <- decode_result_entries es' ;;
      Ok (o :: os)
  end.

Definition decode_results (bs : bytes) : res exec_results :=
  '(es, m1, r1) <- opt_field (tag 1 WT_LEN) 1 (read_repeated (tag 1 WT_LEN)) [] 0 bs ;;
  os <- decode_result_entries es ;;
  '(pr, m2, r2) <- opt_field (tag 2 WT_LEN) 2 read_dims dims_zero m1 r1 ;;
  '(co, m3, r3) <- opt_field (tag 3 WT_LEN) 3 read_dims dims_zero m2 r2 ;;
  _ <- leftover len_known3 m3 r3 ;;
  Ok (mkER os pr co).

Definition encode_results (e : exec_results) : bytes :=
  enc_repeated (tag 1 WT_LEN)
    (map (fun o => match o with None => [] | Some r => encode_result r end) (er_results e)) ++
  enc_dims_field (tag 2 WT_LEN) (er_prices e) ++
  enc_dims_field (tag 3 WT_LEN) (er_consumed e).

(* ---- codec.TypeParser ---------------------------------------------------------------------- *)

(* Unmarshal: the first byte selects the registered decoder, which receives the whole slice *)
Fixpoint lookup {T} (id : N) (reg : list (N * (bytes -> option T))) : option (bytes -> option T) :=
  match reg with
  | [] => None
  | (i, f) :: reg' => if i =? id then Some f else lookup id reg'
  end.
Definition type_parser {T} (reg : list (N * (bytes -> option T))) (bs : bytes) : option T :=
  match bs with
  | [] => None
  | id :: _ => match lookup id reg with Some f => f bs | None => None end
  end.

(* ---- MorpheusVM Transfer (linearcodec) ------------------------------------------------------ *)

Record transfer := mkTransfer { tr_to : bytes; tr_value : N; tr_memo : bytes }.

Definition TransferID : N := 0.
Definition AddressLen : N := 33.
Definition MaxMemoSize : N := 256.
Definition MaxInt32 : N := 2147483647.

(* UnmarshalTransfer *)
Definition parse_transfer (bs : bytes) : option transfer :=
  match bs with
  | [] => None
  | id :: p =>
      if negb (id =? TransferID) then None
      else if blen p <? AddressLen then None                    (* UnpackFixedBytes(33) *)
      else let to := take AddressLen p in let p1 := drop AddressLen p in
      if blen p1 <? 8 then None                                  (* UnpackLong *)
      else let v := be_dec (take 8 p1) in let p2 := drop 8 p1 in
      if blen p2 <? 4 then None                                  (* UnpackInt: slice length *)
      else let n := be_dec (take 4 p2) in let p3 := drop 4 p2 in
      if MaxInt32 <? n then None
      else if blen p3 <? n then None                             (* UnpackFixedBytes(n) *)
      else if negb (blen p3 =? n) then None                      (* fix 0b60f6b: no trailing bytes *)
      else if MaxMemoSize <? n then None
      else Some (mkTransfer to v p3)
  end.

(* Transfer.Bytes *)
Definition transfer_bytes (t : transfer) : bytes :=
  [TransferID] ++ tr_to t ++ be_enc 8 (tr_value t) ++ be_enc 4 (blen (tr_memo t)) ++ tr_memo t.

Definition morpheus_action_parser : bytes -> option transfer := type_parser [(TransferID, parse_transfer)].

(* ---- auth formats: type id | public key | signature, exact length --------------------------- *)

Definition ED25519Size : N := 97.     (* 1 + 32 + 64 *)
Definition SECP256R1Size : N := 98.   (* 1 + 33 + 64 *)
Definition BLSSize : N := 145.        (* 1 + 48 + 96 *)

(* an auth is represented by its byte string; [extra] is the acceptance of the key material by the
   crypto library (always true for ed25519 / secp256r1, point decompression for BLS: an oracle) *)
Definition parse_fixed_auth (id size : N) (extra : bytes -> bool) (bs : bytes) : option bytes :=
  if negb (blen bs =? size) then None
  else match bs with
       | [] => None
       | i :: _ => if negb (i =? id) then None else if extra bs then Some bs else None
       end.

Definition morpheus_auth_parser (bls_ok : bytes -> bool) : bytes -> option bytes :=
  type_parser [(0, parse_fixed_auth 0 ED25519Size (fun _ => true));
               (1, parse_fixed_auth 1 SECP256R1Size (fun _ => true));
               (2, parse_fixed_auth 2 BLSSize bls_ok)].
