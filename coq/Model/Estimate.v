(* Estimate.v — fee-unit estimate vs. actual units of a transaction (C14).

   Go sources modelled:
     chain/transaction.go : EstimateUnits (the CURRENT code, after fix b2302ba; [estimate_units]),
                            the formula it replaced ([estimate_bandwidth_pinned]),
                            Transaction.Units ([tx_units]), Transaction.StateKeys (union of the key maps)
     chain/base.go        : MaxBaseSize
     chain/*.canoto.go    : CalculateCanotoCache of Base and SerializeTx = the exact encoded size
                            ([base_size], [tx_size]; proved equal to the length of the encoding in
                            Proofs/TxCodec_proofs.v)
     fees/dimension.go    : MulSum
     internal/math        : Uint64Operator (Lib/U64.v: op_add / op_muladd / op_value)

   A state key is a byte string whose last two bytes are its big-endian max-chunks suffix
   (keys.MaxChunks / keys.DecodeChunks).  Go map iteration order is irrelevant: every result is a
   checked sum of non-negative terms (see Proofs/Estimate_proofs.v, [storage_dim_spec]). *)
From Coq Require Import List ZArith NArith Bool.
Import ListNotations.
From HV Require Import Lib.Bytes Lib.U64 Lib.Varint.
Local Open Scope N_scope.

(* ---- canoto sizes ------------------------------------------------------------------------ *)

(* zigzag image of an int64 (canoto.AppendInt / SizeInt) *)
Definition zigzag (z : Z) : N :=
  if (0 <=? z)%Z then Z.to_N (2 * z) else Z.to_N (-2 * z - 1).

Definition size_int (z : Z) : N := uvarint_len (zigzag z).        (* canoto.SizeInt *)
Definition size_bytes (len : N) : N := uvarint_len len + len.      (* canoto.SizeBytes *)

(* Base.CalculateCanotoCache: zero-valued fields are omitted *)
Definition base_size (timestamp : Z) (chain_nonzero : bool) (max_fee : N) : N :=
  (if (timestamp =? 0)%Z then 0 else 1 + size_int timestamp) +
  (if chain_nonzero then 1 + size_bytes 32 else 0) +
  (if max_fee =? 0 then 0 else 1 + 8).

(* SerializeTx.CalculateCanotoCache *)
Definition tx_size (bsize : N) (action_lens : list N) (auth_len : N) : N :=
  (if bsize =? 0 then 0 else 1 + uvarint_len bsize + bsize) +
  fold_right (fun l acc => 1 + size_bytes l + acc) 0 action_lens +
  (if auth_len =? 0 then 0 else 1 + size_bytes auth_len).

(* consts.MaxVarintLen + consts.Uint64Len + ids.IDLen + consts.MaxVarintLen + 3*consts.MaxVarintLen *)
Definition MaxBaseSize : N := 10 + 8 + 32 + 10 + 3 * 10.

(* ---- rules and keys ---------------------------------------------------------------------- *)

Record erules := mkER {
  er_base_cu : N;
  er_key_read : N; er_val_read : N;
  er_key_alloc : N; er_val_alloc : N;
  er_key_write : N; er_val_write : N;
  er_sponsor_chunks : list N          (* GetSponsorStateKeysMaxChunks *)
}.

(* keys.MaxChunks: big-endian uint16 in the last two bytes; None if the key is shorter *)
Fixpoint key_chunks (k : bytes) : option N :=
  match k with
  | [] => None
  | [_] => None
  | [a; b] => Some (a * 256 + b)
  | _ :: k' => key_chunks k'
  end.

Fixpoint all_chunks (ks : list bytes) : option (list N) :=
  match ks with
  | [] => Some []
  | k :: ks' =>
      match key_chunks k, all_chunks ks' with
      | Some c, Some cs => Some (c :: cs)
      | _, _ => None
      end
  end.

Definition bytes_eq_dec : forall a b : bytes, {a = b} + {a <> b} := list_eq_dec N.eq_dec.

(* ---- checked sums ------------------------------------------------------------------------ *)

(* one loop body: op.Add(keyUnits); op.MulAdd(chunks, valueUnits) *)
Definition dim_step (kc vc : N) (o : u64op) (chunks : N) : u64op := op_muladd (op_add o kc) chunks vc.
Definition storage_dim (kc vc : N) (chunks : list N) : option N :=
  op_value (fold_left (dim_step kc vc) chunks (op_new 0)).

Definition compute_dim (base : N) (cus : list N) : option N :=
  op_value (fold_left op_add cus (op_new base)).

Definition dims5 (b : N) (c r a w : option N) : option (list N) :=
  match c, r, a, w with
  | Some c', Some r', Some a', Some w' => Some [b; c'; r'; a'; w']
  | _, _, _, _ => None
  end.

(* ---- EstimateUnits ----------------------------------------------------------------------- *)

(* what EstimateUnits reads of one action: len(action.Bytes()), ComputeUnits, and the keys of
   StateKeys(authFactory.Address(), CreateActionID(ids.Empty, i)) *)
Record est_action := mkEA { ea_len : N; ea_cu : N; ea_keys : list bytes }.

Definition estimate_bandwidth (actions : list est_action) (auth_bw : N) : N :=
  MaxBaseSize + 1 +
  fold_right (fun a acc => 1 + size_bytes (ea_len a) + acc) 0 actions +
  (1 + uvarint_len auth_bw + auth_bw).

(* the formula before fix b2302ba: no tag / length prefix per action and for the auth *)
Definition estimate_bandwidth_pinned (actions : list est_action) (auth_bw : N) : N :=
  MaxBaseSize + 1 + fold_right (fun a acc => ea_len a + acc) 0 actions + auth_bw.

(* stateKeysMaxChunks: every action's chunk sizes, then the rule's sponsor chunks; None = ErrInvalidKeyValue *)
Fixpoint estimate_chunks (actions : list est_action) (sponsor : list N) : option (list N) :=
  match actions with
  | [] => Some sponsor
  | a :: rest =>
      match all_chunks (ea_keys a), estimate_chunks rest sponsor with
      | Some cs, Some more => Some (cs ++ more)
      | _, _ => None
      end
  end.

Definition estimate_units (r : erules) (actions : list est_action) (auth_bw auth_cu : N) : option (list N) :=
  match estimate_chunks actions (er_sponsor_chunks r) with
  | None => None
  | Some chunks =>
      dims5 (estimate_bandwidth actions auth_bw)
            (compute_dim (er_base_cu r) (map ea_cu actions ++ [auth_cu]))
            (storage_dim (er_key_read r) (er_val_read r) chunks)
            (storage_dim (er_key_alloc r) (er_val_alloc r) chunks)
            (storage_dim (er_key_write r) (er_val_write r) chunks)
  end.

(* ---- Transaction.Units ------------------------------------------------------------------- *)

(* what Units reads of one action of the signed tx: ComputeUnits and the keys of
   StateKeys(auth.Actor(), CreateActionID(txID, i)) *)
Record tx_action := mkTA { ta_len : N; ta_cu : N; ta_keys : list bytes }.

(* Transaction.StateKeys: the distinct keys of all actions and of SponsorStateKeys; Keys.Add fails
   on a key shorter than two bytes *)
Definition tx_state_keys (actions : list tx_action) (sponsor_keys : list bytes) : option (list bytes) :=
  let all := flat_map ta_keys actions ++ sponsor_keys in
  match all_chunks all with
  | None => None
  | Some _ => Some (nodup bytes_eq_dec all)
  end.

Definition tx_units (r : erules) (size : N) (actions : list tx_action) (auth_cu : N)
                    (sponsor_keys : list bytes) : option (list N) :=
  match compute_dim (er_base_cu r) (map ta_cu actions ++ [auth_cu]) with
  | None => None
  | Some cu =>
      match tx_state_keys actions sponsor_keys with
      | None => None
      | Some ks =>
          match all_chunks ks with
          | None => None
          | Some chunks =>
              dims5 size (Some cu)
                    (storage_dim (er_key_read r) (er_val_read r) chunks)
                    (storage_dim (er_key_alloc r) (er_val_alloc r) chunks)
                    (storage_dim (er_key_write r) (er_val_write r) chunks)
          end
      end
  end.

(* size of the signed transaction built by GenerateTransaction *)
Definition signed_tx_size (timestamp : Z) (chain_nonzero : bool) (max_fee : N)
                          (actions : list tx_action) (auth_len : N) : N :=
  tx_size (base_size timestamp chain_nonzero max_fee) (map ta_len actions) auth_len.

(* ---- fees.MulSum ------------------------------------------------------------------------- *)
Fixpoint mul_sum_from (acc : N) (a b : list N) : option N :=
  match a, b with
  | x :: a', y :: b' =>
      match mul_chk x y with
      | None => None
      | Some v => match add_chk acc v with None => None | Some acc' => mul_sum_from acc' a' b' end
      end
  | _, _ => Some acc
  end.
Definition mul_sum (a b : list N) : option N := mul_sum_from 0 a b.
