(* Model of chain/genesis.go:NewGenesisCommit with genesis/genesis.go:DefaultGenesis.InitializeState:
   a checked running supply, AddBalance of every allocation through a state view with complete
   permissions over the (empty) base, then the three metadata keys. *)
From stdpp Require Import gmap.
From Coq Require Import NArith ZArith.
From HV Require Import Lib.Bytes Lib.U64 Model.Keys Model.Tstate Model.Fees Model.Chain.
Local Open Scope N_scope.

(* balanceHandler.AddBalance (both handlers): absent = 0, checked add, Insert *)
Definition genesis_add (s : view) (k : key) (amount : N) : option view :=
  match add_balance s k amount with
  | (s', inl _) => Some s'
  | (_, inr _) => None
  end.

Fixpoint init_state (s : view) (supply : N) (allocs : list (key * N)) : option view :=
  match allocs with
  | [] => Some s
  | (k, b) :: rest =>
      match add_chk supply b with
      | None => None
      | Some supply' =>
          match genesis_add s k b with
          | None => None
          | Some s' => init_state s' supply' rest
          end
      end
  end.

Definition genesis_manager (min_price : dims) : manager :=
  fold_left (fun m k => set_unit_price m k (dget min_price k)) idx5 zero_mgr.

(* the TState diff committed by NewGenesisCommit; None = error *)
Definition genesis_state (mk : meta_keys) (min_price : dims) (allocs : list (key * N)) : option (gmap key (option val)) :=
  match init_state (new_view ts_new ScopeAll ∅) 0 allocs with
  | None => None
  | Some s1 =>
      match insert s1 (mk_height mk) (be64 0) with
      | (s2, None) =>
          match insert s2 (mk_ts mk) (be64 0) with
          | (s3, None) =>
              match insert s3 (mk_fee mk) (encode (genesis_manager min_price)) with
              | (s4, None) => Some (ts_changed (commit s4))
              | _ => None
              end
          | _ => None
          end
      | _ => None
      end
  end.
