(* Model of x/dsmr/node.go: Node.Accept — for every certificate of the block, in order: local lookup
   (ChunkStorage.GetChunkBytes: pendingChunkMap first, then the accepted prefix of the db), on not-found
   a fetch loop over peer responses (typed client of x/dsmr/p2p.go + ChunkStorage.VerifyRemoteChunk), on
   any other storage error failure; finally ChunkStorage.SetMin(block.Timestamp, chunk ids of the
   certificates), whose save loop requires every id to be pending and discards it (x/dsmr/storage.go).

   Chunks are numbers (chunk id = hash of the bytes; a certificate is identified with the id it references
   and carries the chunk's expiry).  [stat c] is the local status of chunk c before Accept. *)
From Coq Require Import List NArith Bool.
Import ListNotations.
Local Open Scope N_scope.

Inductive lstat :=
| LPendCert      (* pending, with certificate (built locally)                        *)
| LPendNoCert    (* pending, without certificate (stored by a chunk signature request) *)
| LAccepted      (* only under the accepted prefix of the db                          *)
| LMissing       (* not stored                                                        *)
| LStoreErr.     (* not pending, and the db read of the accepted key fails (error other than not-found) *)

(* one peer response to a GetChunkRequest *)
Inductive resp :=
| RFail (k : N)   (* no usable chunk: 0 AppError, 1 unparsable bytes, 2 truncated chunk, 3 bad signature,
                     4 producer not a validator, 5 expiry outside the validity window: retry            *)
| RValid          (* the requested chunk, valid                                                       *)
| RWrong (w : N). (* a valid chunk w (the response's id is not compared with the request)              *)

Definition memN (x : N) (l : list N) : bool := existsb (N.eqb x) l.
Definition addN (x : N) (l : list N) : list N := if memN x l then l else x :: l.
Definition delN (x : N) (l : list N) : list N := filter (fun y => negb (y =? x)) l.

Definition is_pending_stat (s : lstat) : bool :=
  match s with LPendCert | LPendNoCert => true | _ => false end.

(* the fetch loop for the missing chunk c.  The script is the sequence of responses of the peers, consumed
   across all fetches of one Accept; once it is exhausted every peer serves the requested chunk validly
   (a peer that fails forever makes Accept loop forever: not a value of a total function).
   Result: remaining script, pending set, chunk appended to the result, number of requests made. *)
Fixpoint fetch (c : N) (script : list resp) (pend : list N) (nreq : N) : list resp * list N * N * N :=
  match script with
  | [] => ([], addN c pend, c, nreq + 1)
  | RFail _ :: r => fetch c r pend (nreq + 1)
  | RValid :: r => (r, addN c pend, c, nreq + 1)
  | RWrong w :: r => (r, addN w pend, w, nreq + 1)   (* VerifyRemoteChunk stores w (or finds it pending) *)
  end.

Record lres := mkL { l_err : bool; l_pend : list N; l_chunks : list N; l_reqs : list N; l_script : list resp }.

(* [valerr]: chainState.GetCanonicalValidatorSet fails.  l_reqs: the chunk requested by every request *)
Fixpoint accept_loop (stat : N -> lstat) (valerr : bool) (certs : list N)
  (pend chunks reqs : list N) (script : list resp) : lres :=
  match certs with
  | [] => mkL false pend chunks reqs script
  | c :: r =>
      if memN c pend || match stat c with LAccepted => true | _ => false end then
        accept_loop stat valerr r pend (chunks ++ [c]) reqs script
      else match stat c with
      | LStoreErr => mkL true pend chunks reqs script
      | _ =>
          if valerr then mkL true pend chunks reqs script else
          let '(script', pend', got, n) := fetch c script pend 0 in
          accept_loop stat valerr r pend' (chunks ++ [got]) (reqs ++ repeat c (N.to_nat n)) script'
      end
  end.

(* the save loop of SetMin: every id must be pending and is discarded *)
Fixpoint save_all (ids pend : list N) : bool :=
  match ids with
  | [] => true
  | c :: r => if memN c pend then save_all r (delN c pend) else false
  end.

Definition init_pend (stat : N -> lstat) (universe : list N) : list N :=
  filter (fun c => is_pending_stat (stat c)) universe.

(* Accept: Some chunks = success with ExecutedBlock.Chunks, None = error; plus the requests made *)
Definition accept (stat : N -> lstat) (universe : list N) (valerr : bool) (certs : list N) (script : list resp)
  : option (list N) * list N :=
  let r := accept_loop stat valerr certs (init_pend stat universe) [] [] script in
  if l_err r then (None, l_reqs r)
  else if save_all certs (l_pend r) then (Some (l_chunks r), l_reqs r) else (None, l_reqs r).
