(* Executor.v — labelled transition system for internal/executor/executor.go (model only, no proofs).

   The labels are the lock-delimited atomic regions of the Go code:

     LRunBegin      Run: outstanding.Add(1), id := e.tasks++, new task, dependencies.Add(maxDependencies)
     LRunKey k      Run: one iteration of `for k, v := range keys` (the region under lt.l, including the
                    nested rt.l regions; map iteration order is arbitrary, so the label names the key)
     LRunEnd        Run: dependencies.Add(-difference) and the possible `e.executable <- t`
     LTake          work: `t := <-e.executable` by an idle worker (FIFO head)
     LCheck t       runTask: `if e.err.Load() != nil { return }`, otherwise f starts (event EvBegin)
     LFEnd t ok     f returns (event EvEnd)
     LSetErr t      runTask: `e.err.CompareAndSwap(nil, err)` when f failed (no-op when ok)
     LUnread t r    deferred: one iteration `rt.l.Lock(); delete(rt.readers, t.id); rt.l.Unlock()`
     LNotify t      deferred: the region under t.l (decrement blocked tasks, enqueue, executed = true)
     LStop          Stop: `e.err.CompareAndSwap(nil, ErrStopped)`
     LRot           no code: the head of the modelled channel moves to its back.  The deferred function sends the
                    ready tasks of `t.blocked` in Go MAP ITERATION order, which is arbitrary, whereas [notify]
                    below appends them in insertion order; with fewer idle workers than ready tasks the real
                    executor therefore starts them in orders the FIFO model alone cannot produce (found by the
                    trace-inclusion check of Model/ExecutorAccept.v on the unchanged code).  LRot over-approximates:
                    the channel is treated as a bag (LTake after some LRot receives any queued task).

   Per-task program counters of the worker that executes a task are kept in [ph].  A task pointer that
   is enqueued while it is not waiting (a double enqueue, which would make a task run twice) and a write
   to the [blocked] map of an executed task (nil map: a Go panic) set the flag [broken]; the model is
   exact up to the first such step and the theorems prove that [broken] is never set.

   The channel [executable] is modelled as an unbounded FIFO; [Proofs] shows its length never exceeds the
   number of tasks, so with capacity [items >= #tasks] (the constructor's contract) a send never blocks. *)
From Coq Require Import List NArith ZArith Bool Arith.
Import ListNotations.

Definition tid := nat.
Definition key := N.
Definition perm := N.                       (* state.Permissions: None 0, Read 1, Allocate 3, Write 5, All 7 *)
Definition is_read (p : perm) : bool := N.eqb p 1.     (* `v == state.Read` *)
Definition task := list (key * perm).       (* state.Keys is a Go map: keys are pairwise distinct *)

Inductive phase := PNone | PReg | PQueued | PTaken | PRun | PEnded (ok : bool) | PAfter | PDone.
Inductive esrc := ETask (t : tid) | EStop.
Inductive event := EvBegin (t : tid) | EvEnd (t : tid) (ok : bool) | EvErr (e : esrc).

Record trec := mkT {
  deps : Z;                 (* task.dependencies *)
  blocked : list tid;       (* task.blocked (keys of the map) *)
  readers : list tid;       (* task.readers *)
  reading : list tid;       (* task.reading *)
  executed : bool;          (* task.executed *)
  ph : phase;               (* ghost: where the task is in its life cycle *)
  dset : list tid           (* Run's local `dependencies` set, kept after Run as a ghost *)
}.

Record state := mkS {
  tasks : tid -> trec;
  nodes : key -> option tid;                 (* e.nodes *)
  cursor : option (tid * list (key * perm)); (* Run in progress: task id and keys not yet iterated *)
  next : nat;                                (* e.tasks *)
  queue : list tid;                          (* e.executable *)
  busy : nat;                                (* workers currently inside runTask *)
  err : option esrc;                         (* e.err *)
  broken : bool;
  log : list event                           (* ghost: observable events, newest first *)
}.

Record cfg := mkC { c_ts : list task; c_maxd : Z; c_nw : nat }.

Definition mem (x : nat) (l : list nat) : bool := existsb (Nat.eqb x) l.
Definition addset (x : nat) (l : list nat) : list nat := if mem x l then l else l ++ [x].
Definition delset (x : nat) (l : list nat) : list nat := filter (fun y => negb (Nat.eqb x y)) l.
Definition unionset (l a : list nat) : list nat := fold_left (fun acc x => addset x acc) a l.

Definition upd {A} (f : nat -> A) (x : nat) (v : A) : nat -> A := fun y => if Nat.eqb x y then v else f y.
Definition updk {A} (f : N -> A) (x : N) (v : A) : N -> A := fun y => if N.eqb x y then v else f y.

Definition fresh (maxd : Z) : trec := mkT maxd [] [] [] false PReg [].
Definition blank : trec := mkT 0 [] [] [] false PNone [].

Definition init : state := mkS (fun _ => blank) (fun _ => None) None 0 [] 0 None false [].

Definition set_ph (r : trec) (p : phase) : trec :=
  mkT (deps r) (blocked r) (readers r) (reading r) (executed r) p (dset r).
Definition set_blocked (r : trec) (b : list tid) : trec :=
  mkT (deps r) b (readers r) (reading r) (executed r) (ph r) (dset r).
Definition set_readers (r : trec) (b : list tid) : trec :=
  mkT (deps r) (blocked r) b (reading r) (executed r) (ph r) (dset r).
Definition set_reading (r : trec) (b : list tid) : trec :=
  mkT (deps r) (blocked r) (readers r) b (executed r) (ph r) (dset r).
Definition set_dset (r : trec) (b : list tid) : trec :=
  mkT (deps r) (blocked r) (readers r) (reading r) (executed r) (ph r) b.
Definition set_deps (r : trec) (d : Z) : trec :=
  mkT d (blocked r) (readers r) (reading r) (executed r) (ph r) (dset r).

Definition is_reg (p : phase) : bool := match p with PReg => true | _ => false end.
Definition is_queued (p : phase) : bool := match p with PQueued => true | _ => false end.

Definition find_key (k : key) (rem : list (key * perm)) : option perm :=
  match find (fun kp => N.eqb (fst kp) k) rem with Some kp => Some (snd kp) | None => None end.
Definition del_key (k : key) (rem : list (key * perm)) : list (key * perm) :=
  filter (fun kp => negb (N.eqb (fst kp) k)) rem.

(* one iteration of the key loop of Run for task j, key k with permission p *)
Definition run_key (s : state) (j : tid) (k : key) (p : perm) (rem' : list (key * perm)) : state :=
  match nodes s k with
  | None =>
      mkS (tasks s) (updk (nodes s) k (Some j)) (Some (j, rem')) (next s) (queue s) (busy s) (err s)
          (broken s) (log s)
  | Some o =>
      (* under lt.l, lt = task o *)
      let T0 := tasks s in
      let '(T1, nodes1, brk1) :=
        if is_read p then
          let Ta := upd T0 j (set_reading (T0 j) (addset o (reading (T0 j)))) in
          let Tb := upd Ta o (set_readers (Ta o) (addset j (readers (Ta o)))) in
          (Tb, nodes s, false)
        else
          let rs := delset j (readers (T0 o)) in
          (* rt.blocked[id] = t for every reader rt other than ourselves; dependencies.Add(rt.id) *)
          let Ta := fun x => if mem x rs then set_blocked (T0 x) (addset j (blocked (T0 x))) else T0 x in
          let Tb := upd Ta j (set_dset (Ta j) (unionset (dset (Ta j)) rs)) in
          (Tb, updk (nodes s) k (Some j), existsb (fun x => executed (T0 x)) rs)
      in
      let '(T2, brk2) :=
        if negb (executed (T1 o)) then
          let Ta := upd T1 o (set_blocked (T1 o) (addset j (blocked (T1 o)))) in
          (upd Ta j (set_dset (Ta j) (addset o (dset (Ta j)))), false)
        else (T1, false)
      in
      mkS T2 nodes1 (Some (j, rem')) (next s) (queue s) (busy s) (err s)
          (broken s || brk1 || brk2) (log s)
  end.

(* the region under t.l of the deferred function of runTask *)
Definition notify (s : state) (t : tid) : state :=
  let T0 := tasks s in
  let bl := blocked (T0 t) in
  let ready := fun x => Z.leb (deps (T0 x) - 1) 0 in
  let Ta := fun x =>
    let r0 := T0 x in          (* one lookup: the trace acceptor evaluates long chains of these closures *)
    if mem x bl then
      let r := set_deps r0 (deps r0 - 1) in
      if Z.leb (deps r0 - 1) 0 then set_ph r PQueued else r
    else r0 in
  let rt := Ta t in
  let Tb := upd Ta t (mkT (deps rt) [] (readers rt) [] true PDone (dset rt)) in
  mkS Tb (nodes s) (cursor s) (next s) (queue s ++ filter ready bl) (pred (busy s)) (err s)
      (broken s || existsb (fun x => ready x && negb (is_reg (ph (T0 x)))) bl) (log s).

Definition cas_err (e : option esrc) (x : esrc) : option esrc :=
  match e with None => Some x | Some _ => e end.

Inductive label :=
| LRunBegin | LRunKey (k : key) | LRunEnd
| LTake | LCheck (t : tid) | LFEnd (t : tid) (ok : bool) | LSetErr (t : tid)
| LUnread (t r : tid) | LNotify (t : tid) | LStop | LRot.

Definition with_task (s : state) (t : tid) (r : trec) (e : option esrc) (l : list event) : state :=
  mkS (upd (tasks s) t r) (nodes s) (cursor s) (next s) (queue s) (busy s) e (broken s) l.

Definition step (c : cfg) (s : state) (l : label) : option state :=
  match l with
  | LRunBegin =>
      match cursor s with
      | Some _ => None
      | None =>
          match nth_error (c_ts c) (next s) with
          | None => None
          | Some keys =>
              Some (mkS (upd (tasks s) (next s) (fresh (c_maxd c))) (nodes s) (Some (next s, keys))
                        (S (next s)) (queue s) (busy s) (err s) (broken s) (log s))
          end
      end
  | LRunKey k =>
      match cursor s with
      | None => None
      | Some (j, rem) =>
          match find_key k rem with
          | None => None
          | Some p => Some (run_key s j k p (del_key k rem))
          end
      end
  | LRunEnd =>
      match cursor s with
      | Some (j, []) =>
          let r := tasks s j in
          let d' := (deps r - (c_maxd c - Z.of_nat (length (dset r))))%Z in
          if Z.ltb 0 d' then
            Some (mkS (upd (tasks s) j (set_deps r d')) (nodes s) None (next s) (queue s) (busy s) (err s)
                      (broken s) (log s))
          else
            Some (mkS (upd (tasks s) j (set_ph (set_deps r d') PQueued)) (nodes s) None (next s)
                      (queue s ++ [j]) (busy s) (err s) (broken s || negb (is_reg (ph r))) (log s))
      | _ => None
      end
  | LTake =>
      match queue s with
      | [] => None
      | t :: q =>
          if Nat.ltb (busy s) (c_nw c) then
            Some (mkS (upd (tasks s) t (set_ph (tasks s t) PTaken)) (nodes s) (cursor s) (next s) q
                      (S (busy s)) (err s) (broken s || negb (is_queued (ph (tasks s t)))) (log s))
          else None
      end
  | LCheck t =>
      match ph (tasks s t) with
      | PTaken =>
          match err s with
          | None => Some (with_task s t (set_ph (tasks s t) PRun) (err s) (EvBegin t :: log s))
          | Some _ => Some (with_task s t (set_ph (tasks s t) PAfter) (err s) (log s))
          end
      | _ => None
      end
  | LFEnd t ok =>
      match ph (tasks s t) with
      | PRun => Some (with_task s t (set_ph (tasks s t) (PEnded ok)) (err s) (EvEnd t ok :: log s))
      | _ => None
      end
  | LSetErr t =>
      match ph (tasks s t) with
      | PEnded true => Some (with_task s t (set_ph (tasks s t) PAfter) (err s) (log s))
      | PEnded false =>
          Some (with_task s t (set_ph (tasks s t) PAfter) (cas_err (err s) (ETask t))
                          (EvErr (ETask t) :: log s))
      | _ => None
      end
  | LUnread t r =>
      match ph (tasks s t) with
      | PAfter =>
          if mem r (reading (tasks s t)) then
            let Ta := upd (tasks s) r (set_readers (tasks s r) (delset t (readers (tasks s r)))) in
            let Tb := upd Ta t (set_reading (Ta t) (delset r (reading (Ta t)))) in
            Some (mkS Tb (nodes s) (cursor s) (next s) (queue s) (busy s) (err s) (broken s) (log s))
          else None
      | _ => None
      end
  | LNotify t =>
      match ph (tasks s t), reading (tasks s t) with
      | PAfter, [] => Some (notify s t)
      | _, _ => None
      end
  | LStop =>
      Some (mkS (tasks s) (nodes s) (cursor s) (next s) (queue s) (busy s) (cas_err (err s) EStop)
                (broken s) (EvErr EStop :: log s))
  | LRot =>
      match queue s with
      | [] => None
      | t :: q =>
          Some (mkS (tasks s) (nodes s) (cursor s) (next s) (q ++ [t]) (busy s) (err s) (broken s) (log s))
      end
  end.

(* all traces: every finite sequence of enabled labels from [init] *)
Inductive steps (c : cfg) : state -> list label -> state -> Prop :=
| steps_nil : forall s, steps c s [] s
| steps_snoc : forall s tr s1 l s2, steps c s tr s1 -> step c s1 l = Some s2 -> steps c s (tr ++ [l]) s2.

Definition reachable (c : cfg) (s : state) : Prop := exists tr, steps c init tr s.

(* executable replay of a label list *)
Fixpoint run_labels (c : cfg) (s : state) (ls : list label) : option state :=
  match ls with
  | [] => Some s
  | l :: ls' => match step c s l with Some s' => run_labels c s' ls' | None => None end
  end.

(* What Wait returns once every queued task went through its deferred function. *)
Definition all_done (c : cfg) (s : state) : Prop :=
  cursor s = None /\ next s = length (c_ts c) /\ forall j, j < length (c_ts c) -> ph (tasks s j) = PDone.

(* ---- static dependency sets ---------------------------------------------------------------------
   Registering every task while no worker makes progress gives each task its largest dependency set:
   the owner of each of its keys plus, for non-read keys, every reader of that owner.  [sdeps] is what
   the trace validator uses: in every run of the model a task's f begins only after all of them
   finished. *)
Definition reg_labels (t : task) : list label := LRunBegin :: map (fun kp => LRunKey (fst kp)) t ++ [LRunEnd].

Definition reg_all (c : cfg) : option state :=
  run_labels (mkC (c_ts c) (c_maxd c) 0) init (flat_map reg_labels (c_ts c)).

Definition sdeps_of (r : option state) (j : tid) : list tid :=
  match r with Some s => dset (tasks s j) | None => [] end.
Definition sdeps_state (ts : list task) : option state := reg_all (mkC ts (Z.of_nat (S (length ts))) 0).
Definition sdeps (ts : list task) (j : tid) : list tid := sdeps_of (sdeps_state ts) j.

(* the property's notion of conflict *)
Definition more_than_read (p : perm) : bool := negb (N.eqb p 0) && negb (N.eqb p 1).
Definition conflict_with (excl : perm -> bool) (a b : task) : bool :=
  existsb (fun kp => existsb (fun kq => N.eqb (fst kp) (fst kq) && (excl (snd kp) || excl (snd kq))) b) a.
(* the executor treats everything that is not exactly Read as exclusive *)
Definition conflict (a b : task) : bool := conflict_with (fun p => negb (is_read p)) a b.
Definition conflict_spec (a b : task) : bool := conflict_with more_than_read a b.
