(* Model of internal/heap/heap.go + internal/heap/inner_heap.go on top of Go's container/heap.

   innerHeap.items   is a Go slice of *Entry          -> [list (entry A)], position = list index
   innerHeap.lookup  maps ID -> the same *Entry object -> derived: [ih_get] searches [items] by ID
                     (Push and Pop are the only writers of either field and update both together, so
                     lookup[id] is always the entry with that ID inside items; the differential check
                     observes Has/Get after every operation).
   Entry.Index       is an explicit field [e_idx]; it is written by the caller at Push and by Swap,
                     exactly as in the code, and READ by eheap.Remove.  That it always equals the
                     position is a theorem (Proofs/Heap_proofs.v), not an assumption of the model.
   container/heap    up / down / Push / Pop / Remove are transcribed line by line; loops carry a fuel
                     argument (the slice length bounds the number of iterations). *)
From Coq Require Import List NArith ZArith Bool Arith.
Import ListNotations.

Section HeapModel.
Variable A : Type.

Record entry := mkE { e_id : N; e_item : A; e_val : Z; e_idx : nat }.

Definition set_idx (e : entry) (i : nat) : entry := mkE (e_id e) (e_item e) (e_val e) i.

Fixpoint set_nth {X : Type} (l : list X) (i : nat) (x : X) : list X :=
  match l, i with
  | [], _ => []
  | _ :: t, O => x :: t
  | h :: t, S i' => h :: set_nth t i' x
  end.

(* Less(i, j): items[i].Val < items[j].Val for a min-heap, > for a max-heap.  Both are "key i < key j"
   for key = Val resp. -Val. *)
Definition key (mn : bool) (e : entry) : Z := if mn then e_val e else (- e_val e)%Z.

Definition less (mn : bool) (l : list entry) (i j : nat) : bool :=
  match nth_error l i, nth_error l j with
  | Some a, Some b => (key mn a <? key mn b)%Z
  | _, _ => false (* index out of range: Go would panic; never reached *)
  end.

(* Swap(i, j): exchange the pointers, then items[i].Index = i; items[j].Index = j *)
Definition swap (l : list entry) (i j : nat) : list entry :=
  match nth_error l i, nth_error l j with
  | Some a, Some b => set_nth (set_nth l i (set_idx b i)) j (set_idx a j)
  | _, _ => l
  end.

(* container/heap.up:  for { i := (j-1)/2; if i == j || !h.Less(j, i) { break }; h.Swap(i, j); j = i } *)
Fixpoint up (fuel : nat) (mn : bool) (l : list entry) (j : nat) : list entry :=
  match fuel with
  | O => l
  | S f =>
      let i := (j - 1) / 2 in
      if (i =? j) || negb (less mn l j i) then l
      else up f mn (swap l i j) i
  end.

(* container/heap.down(h, i0, n): returns the new slice and the final position i (Go returns i > i0) *)
Fixpoint down (fuel : nat) (mn : bool) (l : list entry) (i n : nat) : list entry * nat :=
  match fuel with
  | O => (l, i)
  | S f =>
      let j1 := 2 * i + 1 in
      if n <=? j1 then (l, i)
      else
        let j2 := j1 + 1 in
        let j := if (j2 <? n) && less mn l j2 j1 then j2 else j1 in
        if negb (less mn l j i) then (l, i)
        else down f mn (swap l i j) j n
  end.

(* innerHeap.Get / Has via the lookup map *)
Definition ih_get (l : list entry) (id : N) : option entry :=
  find (fun e => N.eqb (e_id e) id) l.
Definition ih_has (l : list entry) (id : N) : bool :=
  match ih_get l id with Some _ => true | None => false end.

(* innerHeap.Push: ignored if the ID is already present *)
Definition ih_push (l : list entry) (e : entry) : list entry :=
  if ih_has l (e_id e) then l else l ++ [e].

(* innerHeap.Pop: drop and return the last slot (and delete its ID from lookup) *)
Definition ih_pop (l : list entry) : list entry * option entry :=
  (removelast l, nth_error l (length l - 1)).

(* Heap.Push = heap.Push(h.ih, e): h.Push(x); up(h, h.Len()-1) *)
Definition heap_push (mn : bool) (l : list entry) (e : entry) : list entry :=
  let l1 := ih_push l e in
  up (length l1) mn l1 (length l1 - 1).

(* Heap.Pop: nil on empty; else n := Len-1; Swap(0, n); down(0, n); h.Pop() *)
Definition heap_pop (mn : bool) (l : list entry) : list entry * option entry :=
  match l with
  | [] => (l, None)
  | _ =>
      let n := length l - 1 in
      let l1 := swap l 0 n in
      let l2 := fst (down (length l) mn l1 0 n) in
      ih_pop l2
  end.

(* Heap.Remove(index): nil if index >= len; else heap.Remove:
     n := Len-1; if n != i { Swap(i, n); if !down(i, n) { up(i) } }; h.Pop() *)
Definition heap_remove (mn : bool) (l : list entry) (i : nat) : list entry * option entry :=
  if length l <=? i then (l, None)
  else
    let n := length l - 1 in
    let l2 :=
      if n =? i then l
      else
        let l1 := swap l i n in
        let '(ld, i') := down (length l) mn l1 i n in
        if i <? i' then ld else up (length l) mn ld i in
    ih_pop l2.

(* Heap.First *)
Definition heap_first (l : list entry) : option entry := nth_error l 0.

End HeapModel.

Arguments mkE {A}.
Arguments e_id {A}.
Arguments e_item {A}.
Arguments e_val {A}.
Arguments e_idx {A}.
Arguments set_idx {A}.
Arguments key {A}.
Arguments less {A}.
Arguments swap {A}.
Arguments up {A}.
Arguments down {A}.
Arguments ih_get {A}.
Arguments ih_has {A}.
Arguments ih_push {A}.
Arguments ih_pop {A}.
Arguments heap_push {A}.
Arguments heap_pop {A}.
Arguments heap_remove {A}.
Arguments heap_first {A}.
