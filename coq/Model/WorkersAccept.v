(* WorkersAccept.v — trace inclusion for the worker pool: is an OBSERVED event sequence of the Go driver
   (harness/drivers/workers) the visible part of some run of the LTS Model/Workers.v ?

   Three parts (definitions only, the soundness proof is in Proofs/WorkersAccept_proofs.v):

   1. The instrumented LTS [ostep].  Its items are the labels of Model/Workers.v ([IL l], which move the LTS
      state with [step] + [client_ok]) and the observed events ([IO e], which never change the LTS state).
      The bookkeeping part of an instrumented state records how the driver's stamps relate to the labels:

        ONewCall j      stamped before the call NewJob        LNewJob fires between ONewCall j and ONew j ok,
        ONew j ok       stamped after NewJob returned         ok = "the job was accepted" (it then gets the next job id)
        OGo j i         stamped before the call Go            LGo fires after it, before the client's next stamp;
                                                              the task gets the next task id
        ODoneCall j     stamped before the call Done          LDone likewise
        OBeg j i        stamped by the task body              after the worker's LWCheck started the task (phase TRun)
        OEnd j i ok     stamped by the task body before       LWEnd (f returns) fires only after this stamp; ok is
                        it returns                            the outcome the configuration gives to the task
        OCallback j     stamped by the function given to Done after LDComplete of the job (completed is closed)
        OWait j r       stamped after Wait returned           the job has the result coded by r
        OStopCall       stamped before the call Stop          LStopBegin fires after it
        OStopRet        stamped after Stop returned           after LStopRet
        OSeenShut       the shutdown flag was read as true    after LStopBegin

      The client thread is sequential: a client stamp needs the previous client call to be over.

   2. The certificate checker [orun] / [accepts_with]: replay a list of items with [ostep] from the initial
      state and compare its observed events with the given trace.

   3. The planner [plan] that builds the certificate: it interleaves the unobservable labels lazily (a label
      fires when an observed event needs it) and picks the lowest idle worker (workers are symmetric).  The two
      choices that are not determined by the past are resolved by looking ahead in the trace: which failed
      task's finish region records the job error (the task named by the job's OWait), and how far the queue
      goroutine got before Stop set the shutdown flag (up to the last job whose OWait is not ErrShutdown).
      The planner is not trusted: whatever it outputs is checked by [orun]. *)
From Coq Require Import List NArith Bool Arith.
Import ListNotations.
From HV Require Import Model.Workers.

Inductive oev :=
| ONewCall (j : nat) | ONew (j : nat) (ok : bool) | OGo (j i : nat) | ODoneCall (j : nat)
| OBeg (j i : nat) | OEnd (j i : nat) (ok : bool) | OCallback (j : nat) | OWait (j : nat) (r : N)
| OStopCall | OStopRet | OSeenShut.

Inductive item := IL (l : label) | IO (e : oev).

Inductive cphase := CIdle | CNew (j : nat) | CNewDone (j : nat) (ok : bool) | CGo (j i : nat) | CDone (j : nat).

Record ost := mkO {
  o_s : state;                        (* the LTS state *)
  o_cl : cphase;                      (* where the client thread is *)
  o_jm : list (nat * jid);            (* input job -> job id, accepted jobs, newest first *)
  o_tm : list (nat * nat * tkid);     (* (input job, task index) -> task id, newest first *)
  o_beg : list tkid;                  (* tasks whose OBeg was stamped *)
  o_end : list tkid;                  (* tasks whose OEnd was stamped *)
  o_cb : list nat;                    (* jobs whose OCallback was stamped *)
  o_stopcall : bool;
  o_stopret : bool
}.

Definition oinit : ost := mkO init CIdle [] [] [] [] [] false false.

Definition set_s (o : ost) (s : state) : ost :=
  mkO s (o_cl o) (o_jm o) (o_tm o) (o_beg o) (o_end o) (o_cb o) (o_stopcall o) (o_stopret o).
Definition set_cl (o : ost) (p : cphase) : ost :=
  mkO (o_s o) p (o_jm o) (o_tm o) (o_beg o) (o_end o) (o_cb o) (o_stopcall o) (o_stopret o).

Fixpoint jm_find (j : nat) (m : list (nat * jid)) : option jid :=
  match m with [] => None | (a, b) :: m' => if Nat.eqb a j then Some b else jm_find j m' end.
Fixpoint jm_rfind (b : jid) (m : list (nat * jid)) : option nat :=
  match m with [] => None | (a, b') :: m' => if Nat.eqb b' b then Some a else jm_rfind b m' end.
Fixpoint tm_find (j i : nat) (m : list (nat * nat * tkid)) : option tkid :=
  match m with
  | [] => None
  | (a, b, t) :: m' => if Nat.eqb a j && Nat.eqb b i then Some t else tm_find j i m'
  end.
Fixpoint tm_rfind (t : tkid) (m : list (nat * nat * tkid)) : option (nat * nat) :=
  match m with
  | [] => None
  | (a, b, t') :: m' => if Nat.eqb t' t then Some (a, b) else tm_rfind t m'
  end.
Definition mem (x : nat) (l : list nat) : bool := existsb (Nat.eqb x) l.

(* the code the driver gives to the value returned by Wait of input job j *)
Definition res_code (o : ost) (j : nat) (v : res) : option N :=
  match v with
  | RNil => Some 0%N
  | RShutdown => Some 1%N
  | RErr t => match tm_rfind t (o_tm o) with
              | Some (j', i) => if Nat.eqb j' j then Some (N.of_nat (2 + i)) else None
              | None => None
              end
  end.

Definition is_trun (p : tphase) : bool := match p with TRun => true | _ => false end.
Definition is_shutres (v : res) : bool := match v with RShutdown => true | _ => false end.
Definition is_sret (p : spc) : bool := match p with SRet => true | _ => false end.
Definition is_cidle (p : cphase) : bool := match p with CIdle => true | _ => false end.
Definition opt_eqb (a : option N) (b : N) : bool := match a with Some x => N.eqb x b | None => false end.

(* which labels the bookkeeping allows: client labels need the announced call, f returns after its OEnd *)
Definition guard_label (o : ost) (l : label) : bool :=
  match l with
  | LNewJob => match o_cl o with CNew _ => true | _ => false end
  | LGo a => match o_cl o with
             | CGo j _ => match jm_find j (o_jm o) with Some b => Nat.eqb a b | None => false end
             | _ => false end
  | LDone a => match o_cl o with
               | CDone j => match jm_find j (o_jm o) with Some b => Nat.eqb a b | None => false end
               | _ => false end
  | LStopBegin => o_stopcall o
  | LWEnd w _ => match wst (o_s o) w with WRun t => mem t (o_end o) | _ => false end
  | _ => true
  end.

Definition after_label (o : ost) (l : label) (s' : state) : ost :=
  let s := o_s o in
  match l, o_cl o with
  | LNewJob, CNew j =>
      let ok := Nat.ltb (njobs s) (njobs s') in
      mkO s' (CNewDone j ok) (if ok then (j, njobs s) :: o_jm o else o_jm o) (o_tm o) (o_beg o) (o_end o)
          (o_cb o) (o_stopcall o) (o_stopret o)
  | LGo _, CGo j i =>
      mkO s' CIdle (o_jm o) ((j, i, ntasks s) :: o_tm o) (o_beg o) (o_end o) (o_cb o) (o_stopcall o) (o_stopret o)
  | LDone _, CDone _ => set_cl (set_s o s') CIdle
  | _, _ => set_s o s'
  end.

Definition ostamp (c : cfg) (o : ost) (e : oev) : option ost :=
  let s := o_s o in
  match e with
  | ONewCall j =>
      if is_cidle (o_cl o) then Some (set_cl o (CNew j)) else None
  | ONew j ok =>
      match o_cl o with
      | CNewDone j' ok' => if Nat.eqb j j' && Bool.eqb ok ok' then Some (set_cl o CIdle) else None
      | _ => None
      end
  | OGo j i =>
      match jm_find j (o_jm o), tm_find j i (o_tm o) with
      | Some _, None => if is_cidle (o_cl o) then Some (set_cl o (CGo j i)) else None
      | _, _ => None
      end
  | ODoneCall j =>
      match jm_find j (o_jm o) with
      | Some _ => if is_cidle (o_cl o) then Some (set_cl o (CDone j)) else None
      | None => None
      end
  | OBeg j i =>
      match tm_find j i (o_tm o) with
      | Some t =>
          if is_trun (tph s t) && negb (mem t (o_beg o)) then
            Some (mkO s (o_cl o) (o_jm o) (o_tm o) (t :: o_beg o) (o_end o) (o_cb o) (o_stopcall o) (o_stopret o))
          else None
      | None => None
      end
  | OEnd j i ok =>
      match tm_find j i (o_tm o) with
      | Some t =>
          if is_trun (tph s t) && mem t (o_beg o) && negb (mem t (o_end o)) && Bool.eqb ok (negb (c_fail c t)) then
            Some (mkO s (o_cl o) (o_jm o) (o_tm o) (o_beg o) (t :: o_end o) (o_cb o) (o_stopcall o) (o_stopret o))
          else None
      | None => None
      end
  | OCallback j =>
      match jm_find j (o_jm o) with
      | Some a =>
          match jresult (jobs s a) with
          | Some v =>
              if negb (is_shutres v) && negb (mem j (o_cb o)) then
                Some (mkO s (o_cl o) (o_jm o) (o_tm o) (o_beg o) (o_end o) (j :: o_cb o) (o_stopcall o) (o_stopret o))
              else None
          | None => None
          end
      | None => None
      end
  | OWait j r =>
      match jm_find j (o_jm o) with
      | Some a =>
          match jresult (jobs s a) with
          | Some v => if is_cidle (o_cl o) && opt_eqb (res_code o j v) r then Some o else None
          | None => None
          end
      | None => None
      end
  | OStopCall =>
      if o_stopcall o then None
      else Some (mkO s (o_cl o) (o_jm o) (o_tm o) (o_beg o) (o_end o) (o_cb o) true (o_stopret o))
  | OStopRet =>
      if is_sret (stop s) && negb (o_stopret o) then
        Some (mkO s (o_cl o) (o_jm o) (o_tm o) (o_beg o) (o_end o) (o_cb o) (o_stopcall o) true)
      else None
  | OSeenShut => if shutdown s then Some o else None
  end.

Definition ostep (c : cfg) (o : ost) (it : item) : option ost :=
  match it with
  | IL l =>
      if guard_label o l && client_ok (o_s o) l then
        match step c (o_s o) l with Some s' => Some (after_label o l s') | None => None end
      else None
  | IO e => ostamp c o e
  end.

Fixpoint orun (c : cfg) (o : ost) (its : list item) : option ost :=
  match its with
  | [] => Some o
  | it :: its' => match ostep c o it with Some o' => orun c o' its' | None => None end
  end.

Definition labels_of (its : list item) : list label :=
  flat_map (fun it => match it with IL l => [l] | IO _ => [] end) its.
Definition obs_of (its : list item) : list oev :=
  flat_map (fun it => match it with IL _ => [] | IO e => [e] end) its.

Definition oev_eqb (a b : oev) : bool :=
  match a, b with
  | ONewCall j, ONewCall j' => Nat.eqb j j'
  | ONew j ok, ONew j' ok' => Nat.eqb j j' && Bool.eqb ok ok'
  | OGo j i, OGo j' i' => Nat.eqb j j' && Nat.eqb i i'
  | ODoneCall j, ODoneCall j' => Nat.eqb j j'
  | OBeg j i, OBeg j' i' => Nat.eqb j j' && Nat.eqb i i'
  | OEnd j i ok, OEnd j' i' ok' => Nat.eqb j j' && Nat.eqb i i' && Bool.eqb ok ok'
  | OCallback j, OCallback j' => Nat.eqb j j'
  | OWait j r, OWait j' r' => Nat.eqb j j' && N.eqb r r'
  | OStopCall, OStopCall => true
  | OStopRet, OStopRet => true
  | OSeenShut, OSeenShut => true
  | _, _ => false
  end.
Fixpoint oevs_eqb (a b : list oev) : bool :=
  match a, b with
  | [], [] => true
  | x :: a', y :: b' => oev_eqb x y && oevs_eqb a' b'
  | _, _ => false
  end.

(* the trusted part of the acceptor: [its] is a certificate for [evs] *)
Definition accepts_with (c : cfg) (its : list item) (evs : list oev) : bool :=
  match orun c oinit its with Some _ => oevs_eqb (obs_of its) evs | None => false end.

(* ---------------------------------------------------------------------------------------------------- *)
(* the planner                                                                                            *)
(* ---------------------------------------------------------------------------------------------------- *)

Definition pst := (ost * list item)%type.          (* current state, items fired so far (newest first) *)
Definition fire (c : cfg) (it : item) (x : pst) : option pst :=
  match ostep c (fst x) it with Some o' => Some (o', it :: snd x) | None => None end.
Definition fl (c : cfg) (l : label) (x : pst) : option pst := fire c (IL l) x.
Definition andthen (a : option pst) (f : pst -> option pst) : option pst :=
  match a with Some x => f x | None => None end.
Notation "a >>= f" := (andthen a f) (at level 50, left associativity).

Definition st (x : pst) : state := o_s (fst x).

Fixpoint find_w (p : wstate -> bool) (W : nat -> wstate) (w n : nat) : option nat :=
  match n with 0 => None | S n' => if p (W w) then Some w else find_w p W (S w) n' end.
Fixpoint for_w (f : nat -> pst -> option pst) (w n : nat) (x : pst) : option pst :=
  match n with
  | 0 => Some x
  | S n' => match f w x with Some x' => for_w f (S w) n' x' | None => None end
  end.

Definition w_idle (a : wstate) : bool := match a with WIdle => true | _ => false end.
Definition w_got (t : tkid) (a : wstate) : bool := match a with WGot t' => Nat.eqb t t' | _ => false end.
Definition w_run (t : tkid) (a : wstate) : bool := match a with WRun t' => Nat.eqb t t' | _ => false end.
Definition w_ranfail (t : tkid) (a : wstate) : bool :=
  match a with WRan t' false => Nat.eqb t t' | _ => false end.
Definition w_anyfail (a : wstate) : bool := match a with WRan _ false => true | _ => false end.
Definition has_err (s : state) : bool := match err s with Some _ => true | None => false end.

(* finish regions that cannot change the job error: eager *)
Definition finish_safe (c : cfg) (x : pst) : option pst :=
  for_w (fun w x => match wst (st x) w with
                    | WRan _ ok => if ok || has_err (st x) then fl c (LWFinish w) x else Some x
                    | _ => Some x end) 0 (c_nw c) x.
Definition finish_all (c : cfg) (x : pst) : option pst :=
  for_w (fun w x => match wst (st x) w with WRan _ _ => fl c (LWFinish w) x | _ => Some x end) 0 (c_nw c) x.
Definition check_all (c : cfg) (x : pst) : option pst :=
  for_w (fun w x => match wst (st x) w with WGot _ => fl c (LWCheck w) x | _ => Some x end) 0 (c_nw c) x.

(* look ahead: the code of the job's Wait in the whole trace *)
Fixpoint wait_of (evs : list oev) (j : nat) : option N :=
  match evs with
  | [] => None
  | OWait a r :: l => if Nat.eqb a j then Some r else wait_of l j
  | _ :: l => wait_of l j
  end.
Fixpoint tm_find_code (j : nat) (r : N) (m : list (nat * nat * tkid)) : option tkid :=
  match m with
  | [] => None
  | (a, b, t) :: m' => if Nat.eqb a j && N.eqb (N.of_nat (2 + b)) r then Some t else tm_find_code j r m'
  end.
Definition designated (evs : list oev) (o : ost) (a : jid) : option tkid :=
  match jm_rfind a (o_jm o) with
  | Some j => match wait_of evs j with Some r => tm_find_code j r (o_tm o) | None => None end
  | None => None
  end.

(* the queue goroutine is inside a job: finish that job (record the error, skip what is left, complete) *)
Fixpoint disp_finish (c : cfg) (fuel : nat) (x : pst) : option pst :=
  match fuel with
  | 0 => None
  | S f =>
      match disp (st x) with
      | DSend _ _ =>
          match find_w w_idle (wst (st x)) 0 (c_nw c) with
          | Some w => fl c (LHandoff w) x >>= fl c (LWCheck w) >>= disp_finish c f
          | None => None
          end
      | DLoop _ => fl c LDTake x >>= disp_finish c f
      | DWait _ => fl c LDComplete x
      | _ => None
      end
  end.

Definition cur_job (d : dstate) : option jid :=
  match d with DLoop j | DSend j _ | DWait j => Some j | _ => None end.

Definition complete_cur (c : cfg) (evs : list oev) (fuel : nat) (x : pst) : option pst :=
  match cur_job (disp (st x)) with
  | None => None
  | Some a =>
      (match err (st x) with
       | Some _ => Some x
       | None =>
           let w0 := match designated evs (fst x) a with
                     | Some t => find_w (w_ranfail t) (wst (st x)) 0 (c_nw c)
                     | None => None end in
           match (match w0 with Some w => Some w | None => find_w w_anyfail (wst (st x)) 0 (c_nw c) end) with
           | Some w => fl c (LWFinish w) x
           | None => Some x
           end
       end) >>= finish_all c >>= check_all c >>= disp_finish c fuel
  end.

(* move the queue goroutine until it is inside job [a] or [a] has its result *)
Fixpoint advance (c : cfg) (evs : list oev) (fuel0 fuel : nat) (a : jid) (x : pst) : option pst :=
  match fuel with
  | 0 => None
  | S f =>
      match jresult (jobs (st x) a) with
      | Some _ => Some x
      | None =>
          match disp (st x) with
          | DIdle => fl c LDRecv x >>= advance c evs fuel0 f a
          | DGot _ => fl c LDCheck x >>= advance c evs fuel0 f a
          | DLoop j | DSend j _ | DWait j =>
              if Nat.eqb j a then Some x else complete_cur c evs fuel0 x >>= advance c evs fuel0 f a
          | _ => None
          end
      end
  end.

(* the newest accepted job whose Wait does not report shutdown: it passed the shutdown check before Stop *)
Fixpoint last_normal (evs : list oev) (m : list (nat * jid)) : option jid :=
  match m with
  | [] => None
  | (j, a) :: m' =>
      match wait_of evs j with
      | Some r => if N.eqb r 1 then last_normal evs m' else Some a
      | None => last_normal evs m'
      end
  end.

Definition ensure_shutdown (c : cfg) (evs : list oev) (fuel : nat) (x : pst) : option pst :=
  if shutdown (st x) then Some x
  else (match last_normal evs (o_jm (fst x)) with
        | Some a => advance c evs fuel fuel a x
        | None => Some x end) >>= fl c LStopBegin.

Definition ensure_closed (c : cfg) (evs : list oev) (fuel : nat) (x : pst) : option pst :=
  ensure_shutdown c evs fuel x >>= (fun x => if is_sset (stop (st x)) then fl c LStopClose x else Some x).

Fixpoint make_room (c : cfg) (evs : list oev) (fuel0 fuel : nat) (x : pst) : option pst :=
  match fuel with
  | 0 => None
  | S f =>
      if Nat.ltb (length (queue (st x))) (c_maxjobs c) then Some x
      else match disp (st x) with
           | DIdle => fl c LDRecv x >>= make_room c evs fuel0 f
           | DGot _ => fl c LDCheck x >>= make_room c evs fuel0 f
           | DLoop _ | DSend _ _ | DWait _ => complete_cur c evs fuel0 x >>= make_room c evs fuel0 f
           | _ => None
           end
  end.

Fixpoint drain (c : cfg) (evs : list oev) (fuel0 fuel : nat) (x : pst) : option pst :=
  match fuel with
  | 0 => None
  | S f =>
      match disp (st x) with
      | DIdle => fl c LDRecv x >>= drain c evs fuel0 f
      | DGot _ => fl c LDCheck x >>= drain c evs fuel0 f
      | DLoop _ | DSend _ _ | DWait _ => complete_cur c evs fuel0 x >>= drain c evs fuel0 f
      | DFinal => fl c LDFin x
      | DDone => Some x
      end
  end.

(* hand out the tasks of the current job until task t has a worker *)
Fixpoint dispatch_to (c : cfg) (fuel : nat) (t : tkid) (x : pst) : option pst :=
  match fuel with
  | 0 => None
  | S f =>
      match tph (st x) t with
      | TQueued | THeld =>
          match disp (st x) with
          | DLoop _ => fl c LDTake x >>= dispatch_to c f t
          | DSend _ _ =>
              match find_w w_idle (wst (st x)) 0 (c_nw c) with
              | Some w => fl c (LHandoff w) x >>= dispatch_to c f t
              | None => None
              end
          | _ => None
          end
      | _ => Some x
      end
  end.

Definition start_task (c : cfg) (t : tkid) (x : pst) : option pst :=
  match find_w (w_got t) (wst (st x)) 0 (c_nw c) with
  | Some w => fl c (LWCheck w) x
  | None => Some x
  end.

Definition get_result (c : cfg) (evs : list oev) (fuel : nat) (j : nat) (shut : bool) (x : pst) : option pst :=
  match jm_find j (o_jm (fst x)) with
  | None => Some x
  | Some a =>
      match jresult (jobs (st x) a) with
      | Some _ => Some x
      | None =>
          (if shut then ensure_shutdown c evs fuel x else Some x) >>= advance c evs fuel fuel a >>=
          (fun x => match jresult (jobs (st x) a) with
                    | Some _ => Some x
                    | None => complete_cur c evs fuel x end)
      end
  end.

Definition plan_ev (c : cfg) (evs : list oev) (fuel : nat) (e : oev) (x : pst) : option pst :=
  match e with
  | ONewCall _ | OStopCall => fire c (IO e) x
  | ONew _ ok =>
      (if ok then make_room c evs fuel fuel x else ensure_closed c evs fuel x) >>= fl c LNewJob >>= fire c (IO e)
  | OGo j _ =>
      fire c (IO e) x >>= (fun x => match jm_find j (o_jm (fst x)) with Some a => fl c (LGo a) x | None => None end)
  | ODoneCall j =>
      fire c (IO e) x >>= (fun x => match jm_find j (o_jm (fst x)) with Some a => fl c (LDone a) x | None => None end)
  | OBeg j i =>
      match jm_find j (o_jm (fst x)), tm_find j i (o_tm (fst x)) with
      | Some a, Some t =>
          advance c evs fuel fuel a x >>= dispatch_to c fuel t >>= start_task c t >>= fire c (IO e)
      | _, _ => None
      end
  | OEnd j i ok =>
      match tm_find j i (o_tm (fst x)) with
      | Some t =>
          fire c (IO e) x >>=
          (fun x => match find_w (w_run t) (wst (st x)) 0 (c_nw c) with
                    | Some w => fl c (LWEnd w ok) x
                    | None => None end) >>= finish_safe c
      | None => None
      end
  | OCallback j => get_result c evs fuel j false x >>= fire c (IO e)
  | OWait j r => get_result c evs fuel j (N.eqb r 1) x >>= fire c (IO e)
  | OSeenShut => ensure_shutdown c evs fuel x >>= fire c (IO e)
  | OStopRet =>
      ensure_closed c evs fuel x >>= drain c evs fuel fuel >>= fl c LStopAck >>=
      for_w (fun w x => fl c (LWStop w) x) 0 (c_nw c) >>= fl c LStopRet >>= fire c (IO e)
  end.

Fixpoint plan_all (c : cfg) (evs : list oev) (fuel : nat) (rest : list oev) (x : pst) : option pst :=
  match rest with
  | [] => Some x
  | e :: rest' => plan_ev c evs fuel e x >>= plan_all c evs fuel rest'
  end.

Definition plan_fuel (c : cfg) (evs : list oev) : nat := 3 * length evs + 3 * c_nw c + 40.

Definition plan (c : cfg) (evs : list oev) : option (list item) :=
  match plan_all c evs (plan_fuel c evs) evs (oinit, []) with
  | Some x => Some (rev (snd x))
  | None => None
  end.

(* the acceptor: build a certificate, then check it *)
Definition accepts (c : cfg) (evs : list oev) : bool :=
  match plan c evs with Some its => accepts_with c its evs | None => false end.
