(* Model of x/dsmr/storage.go: ChunkStorage (NewChunkStorage/init, AddLocalChunkWithCert, VerifyRemoteChunk,
   SetChunkCert, SetMin, GatherChunkCerts, GetChunkBytes, CheckRateLimit).

   A chunk is a number; [ci c] gives its producer, expiry and encoded length (chunk id = hash of the
   bytes, so these are functions of the id).  A certificate is a number (identity of the cert object).
   Database:  pendingByte|expiry|id -> bytes  [d_pend],  acceptedByte|expiry|id -> bytes  [d_acc],
              minSlotKey -> min  [d_min].
   Memory:    minimumExpiry [m_min], pendingChunkMap id -> (chunk, cert) [m_pend], pendingChunksSizes
              [m_size], chunkEMap (ids seen, grouped by expiry; expiry 0 is never tracked) [m_emap].
   All sets are lists without duplicates; order carries no meaning (Go maps / db key order). *)
From Coq Require Import List NArith ZArith Bool.
Import ListNotations.
Local Open Scope N_scope.

Record chunkinfo := mkCI { c_prod : N; c_exp : Z; c_len : N }.
Definition ctable := N -> chunkinfo.

Record st := mkS {
  d_pend : list N; d_acc : list N; d_min : option Z;
  m_min : Z; m_pend : list (N * option N); m_size : N -> N; m_emap : list N }.

Definition memN (x : N) (l : list N) : bool := existsb (N.eqb x) l.
Definition addN (x : N) (l : list N) : list N := if memN x l then l else x :: l.
Definition delN (x : N) (l : list N) : list N := filter (fun y => negb (y =? x)) l.

Fixpoint plookup (c : N) (l : list (N * option N)) : option (option N) :=
  match l with
  | [] => None
  | (k, v) :: r => if k =? c then Some v else plookup c r
  end.
Definition pmem (c : N) (l : list (N * option N)) : bool :=
  match plookup c l with Some _ => true | None => false end.
Fixpoint pset (c : N) (v : option N) (l : list (N * option N)) : list (N * option N) :=
  match l with
  | [] => []
  | (k, w) :: r => if k =? c then (k, v) :: r else (k, w) :: pset c v r
  end.
Definition pdel (c : N) (l : list (N * option N)) : list (N * option N) :=
  filter (fun kv => negb (fst kv =? c)) l.

Definition updN (f : N -> N) (a v : N) : N -> N := fun x => if x =? a then v else f x.

Definition s_init : st := mkS [] [] None 0%Z [] (fun _ => 0) [].

(* emap.add: expiry 0 and ids already seen are ignored *)
Definition emap_add (ci : ctable) (c : N) (e : list N) : list N :=
  if (c_exp (ci c) =? 0)%Z then e else addN c e.

(* putVerifiedChunk *)
Definition put_verified (ci : ctable) (s : st) (c : N) (cert : option N) : st :=
  let dp := addN c (d_pend s) in
  let em := emap_add ci c (m_emap s) in
  match plookup c (m_pend s) with
  | Some _ =>
      let mp := match cert with Some _ => pset c cert (m_pend s) | None => m_pend s end in
      mkS dp (d_acc s) (d_min s) (m_min s) mp (m_size s) em
  | None =>
      mkS dp (d_acc s) (d_min s) (m_min s) ((c, cert) :: m_pend s)
          (updN (m_size s) (c_prod (ci c)) (m_size s (c_prod (ci c)) + c_len (ci c))) em
  end.

(* discardPendingChunk (memory only).  The subtraction cannot underflow: the producer's size is the
   sum of the lengths of its chunks in m_pend (proved as part of the coherence invariant). *)
Definition discard (ci : ctable) (s : st) (c : N) : st :=
  if pmem c (m_pend s) then
    mkS (d_pend s) (d_acc s) (d_min s) (m_min s) (pdel c (m_pend s))
        (updN (m_size s) (c_prod (ci c)) (m_size s (c_prod (ci c)) - c_len (ci c))) (m_emap s)
  else s.

(* result codes: 0 = nil error, 1 = error *)

(* VerifyRemoteChunk; [vok] = the verifier accepts the chunk *)
Definition verify_remote (ci : ctable) (s : st) (c : N) (vok : bool) : st * N :=
  if pmem c (m_pend s) then (s, 0)
  else if vok then (put_verified ci s c None, 0) else (s, 1).

(* SetChunkCert; [vok] = the verifier accepts the certificate *)
Definition set_cert (s : st) (c cert : N) (vok : bool) : st * N :=
  if pmem c (m_pend s) then
    if vok then (mkS (d_pend s) (d_acc s) (d_min s) (m_min s) (pset c (Some cert) (m_pend s)) (m_size s) (m_emap s), 0)
    else (s, 1)
  else (s, 1).

(* the save loop of SetMin: memory is updated on the way, the batch (accepted puts / pending deletes)
   is only collected; an unknown id aborts with the memory changes kept and the batch dropped *)
Fixpoint save_loop (ci : ctable) (s : st) (saves : list N) (acc del : list N) : st * list N * list N * bool :=
  match saves with
  | [] => (s, acc, del, false)
  | c :: r =>
      if pmem c (m_pend s) then save_loop ci (discard ci s c) r (acc ++ [c]) (del ++ [c])
      else (s, acc, del, true)
  end.

Definition is_expired (ci : ctable) (t : Z) (c : N) : bool := (c_exp (ci c) <? t)%Z.

(* the expired loop: every evicted id that is still pending is discarded and its pending key deleted *)
Fixpoint expire_loop (ci : ctable) (s : st) (evicted : list N) (del : list N) : st * list N :=
  match evicted with
  | [] => (s, del)
  | c :: r =>
      if pmem c (m_pend s) then expire_loop ci (discard ci s c) r (del ++ [c])
      else expire_loop ci s r del
  end.

Definition set_min (ci : ctable) (s : st) (t : Z) (saves : list N) : st * N :=
  let s0 := mkS (d_pend s) (d_acc s) (d_min s) t (m_pend s) (m_size s) (m_emap s) in
  let '(s1, acc, del, err) := save_loop ci s0 saves [] [] in
  if err then (s1, 1) else
  let evicted := filter (is_expired ci t) (m_emap s1) in
  let em := filter (fun c => negb (is_expired ci t c)) (m_emap s1) in
  let s2 := mkS (d_pend s1) (d_acc s1) (d_min s1) (m_min s1) (m_pend s1) (m_size s1) em in
  let '(s3, del') := expire_loop ci s2 evicted del in
  (* batch.Write *)
  (mkS (fold_left (fun l c => delN c l) del' (d_pend s3))
       (fold_left (fun l c => addN c l) acc (d_acc s3))
       (Some t) (m_min s3) (m_pend s3) (m_size s3) (m_emap s3), 0).

(* NewChunkStorage on the same database: memory is rebuilt from the min slot and the pending prefix *)
Definition reopen (ci : ctable) (s : st) : st :=
  fold_left
    (fun s' c => mkS (d_pend s') (d_acc s') (d_min s') (m_min s') ((c, None) :: m_pend s')
                     (updN (m_size s') (c_prod (ci c)) (m_size s' (c_prod (ci c)) + c_len (ci c)))
                     (emap_add ci c (m_emap s')))
    (d_pend s)
    (mkS (d_pend s) (d_acc s) (d_min s) (match d_min s with Some t => t | None => 0%Z end) [] (fun _ => 0) []).

Inductive op :=
| OAddLocal (c : N) (cert : option N)
| OAddRemote (c : N) (vok : bool)
| OSetCert (c cert : N) (vok : bool)
| OSetMin (t : Z) (saves : list N)
| OReopen.

Definition step (ci : ctable) (s : st) (o : op) : st * N :=
  match o with
  | OAddLocal c cert => (put_verified ci s c cert, 0)
  | OAddRemote c vok => verify_remote ci s c vok
  | OSetCert c cert vok => set_cert s c cert vok
  | OSetMin t saves => set_min ci s t saves
  | OReopen => (reopen ci s, 0)
  end.

Definition run (ci : ctable) (s : st) (ops : list op) : st :=
  fold_left (fun s o => fst (step ci s o)) ops s.

(* ---- observations through the public API ------------------------------------------------- *)

(* GetChunkBytes(expiry', id) with a wrong expiry succeeds iff the chunk is in pendingChunkMap *)
Definition obs_pending (s : st) (c : N) : bool := pmem c (m_pend s).
(* GetChunkBytes(expiry, id) succeeds iff pending in memory or accepted in the db *)
Definition obs_get (s : st) (c : N) : bool := pmem c (m_pend s) || memN c (d_acc s).
(* CheckRateLimit probes pendingChunksSizes[producer] *)
Definition obs_weight (s : st) (p : N) : N := m_size s p.
(* GatherChunkCerts: the cert stored for c, if any *)
Definition obs_cert (s : st) (c : N) : option N :=
  match plookup c (m_pend s) with Some v => v | None => None end.
