(* Model of chain/builder.go: Builder.BuildBlock (the decision loop and the metadata it writes).
   Executable definitions only; proofs are in Proofs/Builder_proofs.v, theorems in Props/C02.v.

   The model REUSES the definitions of Model/Chain.v that the verifier model (execute_block) is made of:
   state_keys, units, pre_execute, execute_tx, fetch, consume, compute_next, so that C02 is a statement
   about two programs over the same transaction semantics, exactly as in the Go code where
   Builder.BuildBlock and Processor.executeTxs call the same Transaction.{StateKeys,Units,PreExecute,Execute}
   and the same fees.Manager.

   What BuildBlock does (chain/builder.go), and how it is modelled
   ------------------------------------------------------------------
   * nextTime := time.Now()                         -> input [now]
   * refuse if nextTime < parent.Tmstmp + MinBlockGap          (HEADER timestamp of the parent block)
   * feeManager := NewManager(parentView[feeKey]).ComputeNext(nextTime, r)      (STATE value)
   * ts := tstate.New; loop: stream a batch (<= 256 txs) from the mempool, IsRepeat on the batch, then for
     every tx of the batch in stream order:
         size cap: cumulative Size() of the batch > TargetTxsSize => this tx and the rest of the batch are
                   handed back to the mempool, the batch ends                      -> [size_cut]
         repeat  => dropped                                                         -> VRepeat
         StateKeys error => dropped                                                 -> VBadKeys
         executor task (runs after every earlier conflicting task):
            view over ts with the parent values of the declared keys
            PreExecute fails  => dropped (the view is never committed)              -> VPre
            Execute returns an error => the whole BuildBlock call fails             -> SError
            under blockLock: feeManager.Consume(result.Units, MaxBlockUnits)
               fails on dimension d => restorable (view not committed);
                    if LastConsumed(d) >= WindowTargetUnits[d]: stop = true, errBlockFull   -> SHalt
                    else keep going                                                 -> VUnits
               succeeds => tsv.Commit(); block txs/results extended                 -> VIncluded
     The loop ends when the mempool is empty, TargetBuildDuration has elapsed (checked between batches),
     or stop is set.
   * refuse (ErrNoTxs) if no tx was included and nextTime < parent.Tmstmp + MinEmptyBlockGap
   * metadata view: keys {height, timestamp, fee} with Write permission over the storage
       {height: parent.Hght, timestamp: parent.Tmstmp, fee: parent fee bytes}   (HEADER values!)
     Insert height = parent.Hght+1, timestamp = nextTime, fee = feeManager.Bytes(); Commit.
   * block = (parent id, nextTime, parent.Hght+1, txs, root of the parent view)

   Schedules.  The executor runs non-conflicting tasks concurrently, Consume/Commit/append happen under one
   lock, conflicting tasks run in stream order.  The model is SEQUENTIAL: [cands] is the list of attempted
   candidates in the order in which their tasks take their decision (a linearisation consistent with the
   conflict order, by the serialisability of the executor, C01/C08).  Everything that only influences WHICH
   candidates are attempted and in WHICH order -- wall clock, TargetBuildDuration, batching, the size cap,
   the prefetch, the number of cores, tasks still in flight when stop is set -- is covered by quantifying
   the theorems over ALL candidate lists: a run in which tasks in flight commit after errBlockFull was
   raised by x is the sequential run of the list in which x comes after them (Consume is monotone in the
   consumption so far, and a failed Consume leaves the manager unchanged: Proofs/Fees_proofs.consume_atomic);
   stopping early is the run on a prefix.

   Abstractions shared with Model/Chain.v: the metadata keys are kept apart from the data diff (o_diff) and
   reported as (o_height, o_ts, o_fee); the fetch of a parent value never fails and parent values are
   well-formed for their keys (keys.NumChunks). *)
From stdpp Require Import gmap.
From Coq Require Import NArith ZArith.
From HV Require Import Lib.Bytes Lib.U64 Model.Keys Model.Tstate Model.Fees Model.TxStatic Model.Chain.
Local Open Scope N_scope.

(* a mempool transaction as the builder sees it: the tx and the validity window's verdict (IsRepeat) *)
Record cand := mkCand { c_tx : tx; c_repeat : bool }.

Inductive verdict :=
  | VIncluded
  | VRepeat
  | VBadKeys
  | VPre (e : N)          (* PreExecute failed with this error sub-class: dropped *)
  | VUnits (d : nat)      (* Consume failed on dimension d, below target: restorable, keep packing *)
  | VStop (d : nat).      (* Consume failed on dimension d at/above target: restorable, errBlockFull *)

Inductive step_out :=
  | SNext (v : verdict) (st : tstate) (fm : manager) (inc : option (tx * result))
  | SHalt (d : nat) (fm : manager)
  | SError.

(* one candidate, on the running block diff [st] and fee manager [fm] *)
Definition build_step (r : rules) (parent : gmap key val) (ts : Z) (fm : manager) (st : tstate) (c : cand) : step_out :=
  if c_repeat c then SNext VRepeat st fm None else
  let t := c_tx c in
  match state_keys t with
  | None => SNext VBadKeys st fm None
  | Some sk =>
      match units r t sk with
      | None =>
          (* PreExecute: the static checks come first, then t.Units fails *)
          let e := pre_execute_static (static_rules r) (static_tx t) ts in
          SNext (VPre (if negb (e =? 0) then sub_of_static e else subOverflow)) st fm None
      | Some u =>
          let s := new_view st (ScopeKeys sk) (fetch parent sk) in
          match pre_execute r fm t u s ts with
          | (0, f) =>
              match execute_tx t u f s with
              | None => SError
              | Some (s', res) =>
                  match consume fm (res_units res) (r_max_units r) with
                  | (true, _, fm') => SNext VIncluded (commit s') fm' (Some (t, res))
                  | (false, d, fm') =>
                      if dget (r_target r) d <=? last_consumed fm' d then SHalt d fm'
                      else SNext (VUnits d) st fm' None
                  end
              end
          | (e, _) => SNext (VPre e) st fm None
          end
      end
  end.

Record loop_out := mkLoop {
  l_st : tstate; l_fm : manager;
  l_txs : list tx; l_results : list result;     (* blockTransactions, results *)
  l_verdicts : list verdict }.                  (* one per candidate processed, in order *)

(* None = BuildBlock returns the execution error *)
Fixpoint build_loop (r : rules) (parent : gmap key val) (ts : Z) (fm : manager) (st : tstate) (cands : list cand)
  : option loop_out :=
  match cands with
  | [] => Some (mkLoop st fm [] [] [])
  | c :: rest =>
      match build_step r parent ts fm st c with
      | SError => None
      | SHalt d fm' => Some (mkLoop st fm' [] [] [VStop d])
      | SNext v st' fm' inc =>
          match build_loop r parent ts fm' st' rest with
          | None => None
          | Some o =>
              match inc with
              | Some (t, res) => Some (mkLoop (l_st o) (l_fm o) (t :: l_txs o) (res :: l_results o) (v :: l_verdicts o))
              | None => Some (mkLoop (l_st o) (l_fm o) (l_txs o) (l_results o) (v :: l_verdicts o))
              end
          end
      end
  end.

(* the size cap of one stream batch: the prefix whose cumulative size stays <= TargetTxsSize
   (repeats count: the size is added before the duplicate test) *)
Fixpoint size_cut (target : N) (acc : N) (stream : list cand) : list cand :=
  match stream with
  | [] => []
  | c :: rest =>
      let acc' := acc + t_size (c_tx c) in
      if target <? acc' then [] else c :: size_cut target acc' rest
  end.

(* the timestamp found in the state after the builder's metadata view is committed: the view's storage
   holds the parent HEADER timestamp, so inserting an equal value is "unchanged" and leaves the parent
   STATE value in place (only possible when MinBlockGap <= 0; the two differ only for a genesis parent) *)
Definition ts_word (t : Z) : N := Z.to_N (t mod Z.of_N W64)%Z.
Definition built_post_ts (p : parent_state) (hdr_ts now : Z) : N :=
  if ts_word now =? ts_word hdr_ts then p_ts p else ts_word now.

Inductive build_res :=
  | BRefusedEarly            (* ErrTimestampTooEarly *)
  | BRefusedEmpty            (* ErrNoTxs *)
  | BError                   (* an Execute error aborted the build *)
  | BBuilt (b : block) (o : out_ok) (vs : list verdict).

(* [hdr_h], [hdr_ts]: height and timestamp in the parent block's header; [p]: the parent state.
   The built block carries the root of the parent view it was built on (b_root_ok), no injected fault;
   b_too_late = false: the verifier's clock is not behind the builder's by more than FutureBound;
   b_vw_dup = false: the verifier's replay check consults the validity window that already answered
   IsRepeat = false for every included transaction, and the mempool streams a transaction at most once. *)
Definition build_block (r : rules) (p : parent_state) (hdr_h : N) (hdr_ts : Z) (now : Z) (cands : list cand) : build_res :=
  if (now <? hdr_ts + r_min_gap r)%Z then BRefusedEarly else
  let fm0 := compute_next (p_fee p) now (r_target r) (r_denom r) (r_min_price r) in
  match build_loop r (p_data p) now fm0 ts_new cands with
  | None => BError
  | Some o =>
      if (match l_txs o with [] => true | _ => false end) && (now <? hdr_ts + r_min_empty_gap r)%Z then BRefusedEmpty else
      BBuilt (mkBlock now (hdr_h + 1) true false false None (l_txs o))
             (mkOut (l_results o) (ts_changed (l_st o)) (hdr_h + 1) (built_post_ts p hdr_ts now) (l_fm o)
                    (unit_prices (l_fm o)) (units_consumed (l_fm o)))
             (l_verdicts o)
  end.

(* the sequential builder over one stream batch in stream order (cores = 1 and no task overtakes) *)
Definition build_block_stream (r : rules) (p : parent_state) (hdr_h : N) (hdr_ts : Z) (now : Z) (target_size : N)
                              (stream : list cand) : build_res :=
  build_block r p hdr_h hdr_ts now (size_cut target_size 0 stream).
