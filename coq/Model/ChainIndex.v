(* ChainIndex.v — executable model of chainindex/chain_index.go (ChainIndex[T]).

   The database is modelled by its three key prefixes plus the last-accepted key:
     d_blk : 0x0 ++ height -> block bytes      d_idh : 0x1 ++ id -> height
     d_hid : 0x2 ++ height -> id               d_last: 0x3 -> height
   (keys of different prefixes never collide: first byte differs).  A block is the triple the
   index uses: GetHeight, GetID, GetBytes (bytes abstracted to a number; ParseBlock (GetBytes b) = b
   is the driver's trivial parser).  Heights, ids < 2^64 resp. 32 bytes; uint64 underflow of
   [height - window] is modelled by the comparison [height <= window] (see [prunes]).
   Model only; proofs are in Proofs/ChainIndex_proofs.v. *)
From Coq Require Import List NArith Bool.
Import ListNotations.
From HV Require Import Lib.AssocN.
Local Open Scope N_scope.

Record block := mkB { bh : N; bid : N; bdata : N }.

Definition block_eqb (a b : block) : bool :=
  (bh a =? bh b) && (bid a =? bid b) && (bdata a =? bdata b).

Record db := mkDb {
  d_blk : amap block;   (* blockPrefix          height -> block *)
  d_idh : amap N;       (* blockIDHeightPrefix  id -> height *)
  d_hid : amap N;       (* blockHeightIDPrefix  height -> id *)
  d_last : option N     (* lastAcceptedKey *)
}.

Definition empty_db : db := mkDb [] [] [] None.

(* config.AcceptedBlockWindow + the database *)
Record st := mkSt { s_W : N; s_db : db }.

(* error classes of the observable API *)
Definition E_ok : N := 0.
Definition E_notfound : N := 1.
Definition E_other : N := 2.

(* writeBlock: three puts into the batch *)
Definition write_block (b : block) (d : db) : db :=
  mkDb (aput (bh b) b (d_blk d)) (aput (bid b) (bh b) (d_idh d)) (aput (bh b) (bid b) (d_hid d)) (d_last d).

Definition set_last (h : N) (d : db) : db := mkDb (d_blk d) (d_idh d) (d_hid d) (Some h).

(* the three deletes for one pruned height *)
Definition delete_height (h did : N) (d : db) : db :=
  mkDb (adel h (d_blk d)) (adel did (d_idh d)) (adel h (d_hid d)) (d_last d).

(* [W == 0 || expiry == 0 || expiry >= height] with expiry = height - W (mod 2^64), for
   height, W < 2^64: false exactly when W = 0 or height <= W *)
Definition prunes (W h : N) : bool := negb ((W =? 0) || (h <=? W)).

(* UpdateLastAccepted.  The prune target's id is read from the database (not from the batch);
   batch = puts first, then the deletes; one atomic Write. *)
Definition accept (s : st) (b : block) : st * N :=
  let d := s_db s in
  let W := s_W s in
  let d1 := write_block b (set_last (bh b) d) in
  if prunes W (bh b) then
    let e := bh b - W in
    match aget e (d_hid d) with
    | None => (mkSt W d1, E_ok)               (* never stored: nothing to delete *)
    | Some did => (mkSt W (delete_height e did d1), E_ok)
    end
  else (mkSt W d1, E_ok).

(* SaveHistorical *)
Definition save_historical (s : st) (b : block) : st * N :=
  (mkSt (s_W s) (write_block b (s_db s)), E_ok).

(* cleanupOnStartup with window W: iterate the height->id prefix in ascending order, stop at the
   first height >= threshold, skip genesis; all deletes go to one batch (ids are read from the
   unchanged database during the loop). *)
Definition victims (thr : N) (d : db) : list (N * N) :=
  filter (fun e => (fst e <? thr) && negb (fst e =? 0)) (d_hid d).

Definition cleanup (W : N) (d : db) : db :=
  let last := match d_last d with Some l => l | None => 0 end in
  if (W =? 0) || (last <=? W) then d
  else
    let vs := victims (last - W) d in
    mkDb (adel_many (map fst vs) (d_blk d)) (adel_many (map snd vs) (d_idh d))
         (adel_many (map fst vs) (d_hid d)) (d_last d).

(* New(config) on the same database: frequency 0 is rejected before anything is touched (the
   caller keeps the old instance in that case). *)
Definition restart (s : st) (W F : N) : st * N :=
  if F =? 0 then (s, E_other) else (mkSt W (cleanup W (s_db s)), E_ok).

Definition init (W0 : N) : st := mkSt W0 empty_db.

(* getters; None = database.ErrNotFound *)
Definition get_last (s : st) : option N := d_last (s_db s).
Definition get_block_by_height (s : st) (h : N) : option block := aget h (d_blk (s_db s)).
Definition get_id_at_height (s : st) (h : N) : option N := aget h (d_hid (s_db s)).
Definition get_id_height (s : st) (i : N) : option N := aget i (d_idh (s_db s)).
Definition get_block (s : st) (i : N) : option block :=
  match get_id_height s i with
  | None => None
  | Some h => get_block_by_height s h
  end.

(* number of retained non-genesis blocks (entries of the height->id prefix other than height 0) *)
Definition retained (s : st) : nat :=
  length (filter (fun h => negb (h =? 0)) (akeys (d_hid (s_db s)))).

(* histories *)
Inductive op :=
| OAccept (b : block)
| OSave (b : block)
| ORestart (W F : N).

Definition step (s : st) (o : op) : st * N :=
  match o with
  | OAccept b => accept s b
  | OSave b => save_historical s b
  | ORestart W F => restart s W F
  end.

Definition run (s : st) (ops : list op) : st := fold_left (fun s o => fst (step s o)) ops s.

(* blocks written by a history *)
Fixpoint blocks_of (ops : list op) : list block :=
  match ops with
  | [] => []
  | OAccept b :: r => b :: blocks_of r
  | OSave b :: r => b :: blocks_of r
  | ORestart _ _ :: r => blocks_of r
  end.
