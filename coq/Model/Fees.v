(* Model of the fee market of hypersdk (code as of the current /repo tree, i.e. after fix b324913):
     fees/dimension.go            Dimensions, Add, CanAdd
     internal/window/window.go    Roll, Sum, Update, Last            (window = 10 big-endian uint64 slots)
     internal/fees/manager.go     computeNextPriceWindow, mulDiv, Manager {ComputeNext, Consume, Fee,
                                  SetUnitPrice, SetLastConsumed, getters, Bytes layout}
   Executable definitions only; proofs are in Proofs/Fees_proofs.v.

   Representation choices
   * uint64 values are [N]; every operation that can overflow goes through Lib.U64 (checked / saturating /
     wrapping), so no definition relies on its inputs being < 2^64.
   * [Dimensions] is a Go array [5]uint64 indexed by 0..4.  It is modelled as a list accessed with
     [dget d k] (default 0) and rebuilt with [map f idx5]; loops "for i := 0; i < FeeDimensions; i++" are
     recursions over [idx5].
   * A Window is [80]byte = 10 big-endian uint64; the model keeps the 10 slot values (the byte layout is
     modelled once, in [encode]/[decode] of the manager state).
   * Manager.raw is modelled structurally ([manager]) together with [encode]/[decode] for the byte layout
     [timestamp(8)] ++ 5 x ([price(8)] ++ [window(80)] ++ [lastConsumed(8)]) = 488 bytes. *)
From Coq Require Import List NArith ZArith Bool.
Import ListNotations.
From HV Require Import Lib.U64.
Local Open Scope N_scope.

(* ------------------------------------------------------------------ fees/dimension.go *)
Definition dims := list N.
Definition FeeDimensions : nat := 5.
Definition idx5 : list nat := [0; 1; 2; 3; 4]%nat.
Definition dget (d : dims) (k : nat) : N := nth k d 0.
Definition dzero : dims := [0; 0; 0; 0; 0].

Fixpoint opt_traverse {A B : Type} (f : A -> option B) (l : list A) : option (list B) :=
  match l with
  | [] => Some []
  | x :: l' =>
      match f x with
      | None => None
      | Some y => match opt_traverse f l' with None => None | Some ys => Some (y :: ys) end
      end
  end.

(* func Add(a, b Dimensions) (Dimensions, error) *)
Definition dims_add (a b : dims) : option dims :=
  opt_traverse (fun k => add_chk (dget a k) (dget b k)) idx5.

(* func (d Dimensions) CanAdd(a, l Dimensions) bool *)
Definition can_add (d a l : dims) : bool :=
  forallb (fun k => match add_chk (dget d k) (dget a k) with
                    | None => false
                    | Some consumed => negb (dget l k <? consumed)
                    end) idx5.

(* ------------------------------------------------------------------ internal/window/window.go *)
Definition window := list N.
Definition WindowSize : N := 10.
Definition zero_window : window := repeat 0 10.

(* Roll: res zeroed; if roll > WindowSize return res; copy(res, w[roll*8:]) *)
Definition roll (w : window) (r : N) : window :=
  if WindowSize <? r then zero_window
  else firstn 10 (skipn (N.to_nat r) w ++ zero_window).

(* Sum: checked adds over the 10 slots, MaxUint64 as soon as one overflows *)
Fixpoint wsum_from (l : list N) (acc : N) : N :=
  match l with
  | [] => acc
  | x :: l' => match add_chk acc x with None => MaxU64 | Some s => wsum_from l' s end
  end.
Definition wsum (w : window) : N := wsum_from w 0.

(* Update(&w, start = slot*8, v): slot := saturating add *)
Fixpoint wupdate (w : window) (slot : nat) (v : N) : window :=
  match w, slot with
  | [], _ => []
  | x :: w', O => sat_add x v :: w'
  | x :: w', S s => x :: wupdate w' s v
  end.

Definition wlast (w : window) : N := nth 9 w 0.

(* ------------------------------------------------------------------ internal/fees/manager.go *)

(* mulDiv: hi, lo := bits.Mul64(a, b); if hi >= c { return MaxUint64 }; q, _ := bits.Div64(hi, lo, c) *)
Definition mul_div (a b c : N) : N :=
  let p := a * b in
  let hi := p / W64 in
  let lo := p mod W64 in
  if c <=? hi then MaxU64 else (hi * W64 + lo) / c.

(* the window part of computeNextPriceWindow *)
Definition new_window (previous : window) (previousConsumed since : N) : window :=
  let w := roll previous since in
  if since <? WindowSize then wupdate w (9 - N.to_nat since) previousConsumed else w.

(* the price part, given total = Sum(newRollupWindow).
   [sat_add a b] is "n, over := math.Add(a, b); if over != nil { n = MaxUint64 }", [sat_mul] likewise,
   [sat_sub a b] is "n, under := math.Sub(a, b); if under != nil { n = 0 }". *)
Definition next_price (total previousPrice target changeDenom minPrice since : N) : N :=
  let nextPrice :=
    if target <? total then
      let delta := total - target in
      let y := mul_div previousPrice delta target in
      let baseDelta := y / changeDenom in
      let baseDelta := if baseDelta <? 1 then 1 else baseDelta in
      sat_add previousPrice baseDelta
    else if total <? target then
      let delta := target - total in
      let y := mul_div previousPrice delta target in
      let baseDelta := y / changeDenom in
      let baseDelta := if baseDelta <? 1 then 1 else baseDelta in
      let baseDelta :=
        if WindowSize <? since then
          sat_mul baseDelta (since / WindowSize)
        else baseDelta in
      sat_sub previousPrice baseDelta
    else previousPrice in
  if nextPrice <? minPrice then minPrice else nextPrice.

Definition compute_next_price_window
    (previous : window) (previousConsumed previousPrice target changeDenom minPrice since : N)
    : N * window :=
  let w := new_window previous previousConsumed since in
  (next_price (wsum w) previousPrice target changeDenom minPrice since, w).

(* The arithmetic of the pinned tree (before fix b324913): x := previousPrice * delta (wraps);
   y := x / target; baseDelta *= since / WindowSize (wraps).  Kept for C13_pinned_refuted. *)
Definition next_price_pinned (total previousPrice target changeDenom minPrice since : N) : N :=
  let nextPrice :=
    if target <? total then
      let delta := total - target in
      let y := wmul previousPrice delta / target in
      let baseDelta := y / changeDenom in
      let baseDelta := if baseDelta <? 1 then 1 else baseDelta in
      sat_add previousPrice baseDelta
    else if total <? target then
      let delta := target - total in
      let y := wmul previousPrice delta / target in
      let baseDelta := y / changeDenom in
      let baseDelta := if baseDelta <? 1 then 1 else baseDelta in
      let baseDelta := if WindowSize <? since then wmul baseDelta (since / WindowSize) else baseDelta in
      sat_sub previousPrice baseDelta
    else previousPrice in
  if nextPrice <? minPrice then minPrice else nextPrice.

Definition compute_next_price_window_pinned
    (previous : window) (previousConsumed previousPrice target changeDenom minPrice since : N)
    : N * window :=
  let w := new_window previous previousConsumed since in
  (next_price_pinned (wsum w) previousPrice target changeDenom minPrice since, w).

(* ---- manager state ---- *)
Record dim_state := mkDS { ds_price : N; ds_window : window; ds_last : N }.
Record manager := mkMgr { m_ts : N; m_dims : list dim_state }.

Definition zero_ds : dim_state := mkDS 0 zero_window 0.
Definition zero_mgr : manager := mkMgr 0 (repeat zero_ds 5).

Definition m_dim (m : manager) (k : nat) : dim_state := nth k (m_dims m) zero_ds.
Definition unit_price (m : manager) (k : nat) : N := ds_price (m_dim m k).
Definition m_window (m : manager) (k : nat) : window := ds_window (m_dim m k).
Definition last_consumed (m : manager) (k : nat) : N := ds_last (m_dim m k).
Definition unit_prices (m : manager) : dims := map (unit_price m) idx5.
Definition units_consumed (m : manager) : dims := map (last_consumed m) idx5.

Fixpoint list_set {A : Type} (l : list A) (k : nat) (x : A) : list A :=
  match l, k with
  | [], _ => []
  | _ :: l', O => x :: l'
  | y :: l', S k' => y :: list_set l' k' x
  end.

Definition set_unit_price (m : manager) (k : nat) (p : N) : manager :=
  let d := m_dim m k in mkMgr (m_ts m) (list_set (m_dims m) k (mkDS p (ds_window d) (ds_last d))).
Definition set_last_consumed (m : manager) (k : nat) (c : N) : manager :=
  let d := m_dim m k in mkMgr (m_ts m) (list_set (m_dims m) k (mkDS (ds_price d) (ds_window d) c)).

(* ---- byte layout ---- *)
Definition ds_words (d : dim_state) : list N := ds_price d :: ds_window d ++ [ds_last d].
Definition mgr_words (m : manager) : list N := m_ts m :: flat_map ds_words (m_dims m).
Definition encode (m : manager) : list N := flat_map be64 (mgr_words m).

Fixpoint dec_words (n : nat) (l : list N) : list N :=
  match n with
  | O => []
  | S n' => be_dec (firstn 8 l) :: dec_words n' (skipn 8 l)
  end.
Fixpoint dims_of_words (n : nat) (ws : list N) : list dim_state :=
  match n with
  | O => []
  | S n' => mkDS (nth 0 ws 0) (firstn 10 (skipn 1 ws)) (nth 11 ws 0) :: dims_of_words n' (skipn 12 ws)
  end.
Definition mgr_of_words (ws : list N) : manager := mkMgr (nth 0 ws 0) (dims_of_words 5 (skipn 1 ws)).
Definition StateLen : nat := 488.   (* 8 + 5 * (8 + 80 + 8) *)

(* NewManager(raw): empty raw -> zeroed 488 bytes; other lengths are not used by the code base *)
Definition decode (raw : list N) : option manager :=
  match raw with
  | [] => Some zero_mgr
  | _ => if Nat.eqb (length raw) StateLen then Some (mgr_of_words (dec_words 61 raw)) else None
  end.

(* ---- ComputeNext(currTime int64 (ms), rules) ----
   lastTimeSeconds := int64(ts); currTimeSeconds := currTime / 1000 (Go division truncates toward zero);
   since := uint64(currTimeSeconds - lastTimeSeconds)  (int64 subtraction wraps, then reinterpretation)
   new timestamp := uint64(currTimeSeconds); lastConsumed := 0 *)
Definition since_of (ts : N) (currTime : Z) : N :=
  Z.to_N ((Z.quot currTime 1000 - Z.of_N ts) mod Z.of_N W64).
Definition compute_next (m : manager) (currTime : Z) (targets denoms mins : dims) : manager :=
  let since := since_of (m_ts m) currTime in
  mkMgr (Z.to_N (Z.quot currTime 1000 mod Z.of_N W64))
        (map (fun k =>
                let '(p, w) := compute_next_price_window (m_window m k) (last_consumed m k) (unit_price m k)
                                 (dget targets k) (dget denoms k) (dget mins k) since in
                mkDS p w 0) idx5).

(* ---- Consume(d, l) (bool, Dimension) ----
   first loop: find the first dimension that would overflow or exceed the limit, without writing;
   second loop: write lastConsumed[i] += d[i] (re-checked add, early return on error). *)
Fixpoint consume_check (ks : list nat) (m : manager) (d l : dims) : option nat :=
  match ks with
  | [] => None
  | k :: ks' =>
      match add_chk (last_consumed m k) (dget d k) with
      | None => Some k
      | Some consumed => if dget l k <? consumed then Some k else consume_check ks' m d l
      end
  end.
Fixpoint consume_commit (ks : list nat) (m : manager) (d : dims) : option nat * manager :=
  match ks with
  | [] => (None, m)
  | k :: ks' =>
      match add_chk (last_consumed m k) (dget d k) with
      | None => (Some k, m)
      | Some consumed => consume_commit ks' (set_last_consumed m k consumed) d
      end
  end.
(* result: (ok, dimension, new state) *)
Definition consume (m : manager) (d l : dims) : bool * nat * manager :=
  match consume_check idx5 m d l with
  | Some k => (false, k, m)
  | None =>
      match consume_commit idx5 m d with
      | (Some k, m') => (false, k, m')
      | (None, m') => (true, O, m')
      end
  end.

(* ---- Fee(d) (uint64, error) ---- *)
Fixpoint fee_loop (ks : list nat) (m : manager) (d : dims) (fee : N) : option N :=
  match ks with
  | [] => Some fee
  | k :: ks' =>
      match mul_chk (unit_price m k) (dget d k) with
      | None => None
      | Some contribution =>
          match add_chk contribution fee with
          | None => None
          | Some newFee => fee_loop ks' m d newFee
          end
      end
  end.
Definition fee (m : manager) (d : dims) : option N := fee_loop idx5 m d 0.

(* ---- a block as a sequence of Consume calls against one limit (chain/builder.go: a tx whose units do
   not fit is skipped and the manager is left as it was; chain/processor.go: the block is rejected).
   Returns the final state and, per call, whether it was included. *)
Fixpoint consume_all (m : manager) (l : dims) (us : list dims) : manager * list bool :=
  match us with
  | [] => (m, [])
  | u :: us' =>
      let '(ok, _, m') := consume m u l in
      let '(m'', flags) := consume_all m' l us' in
      (m'', ok :: flags)
  end.
