(* Gen/Prelude.v — hand-written semantics of the Go constructs and library functions that the
   translator harness/go2coq refers to.  TRUSTED: together with the translator's syntax-directed
   rules (notes/GO2COQ.md) this file is the meaning given to the Go source of the leaf functions.

   Conventions
   * every Go integer type is [Z]; a value of type uintN is in [0, 2^N), of type intN in
     [-2^(N-1), 2^(N-1)); [int] and [uint] are 64 bits wide (amd64 / arm64).
     After +, -, *, <<, unary - and ^, and for every conversion T(x), the translator applies the
     wrap function of the result type, which is what the Go specification prescribes
     ("integer overflow": unsigned arithmetic is modulo 2^n, signed arithmetic wraps in two's
     complement; conversions between integer types truncate / sign-extend).
   * [/] and [%] are [Z.quot] and [Z.rem] (truncation toward zero); a zero divisor panics
     (the translator emits the check, see [Panic] below).
   * []byte, string, [n]T and []T are [list]s; slices are treated as VALUES, which is exact for
     the supported subset because the translator rejects element assignment through a slice.
   * [error] is [option go_error] ([None] = nil); [go_error] is the inductive of sentinel errors
     generated in Gen/Leaf.v.
   * run-time panics (index / slice out of range, division by zero, bits.Div64 overflow) are
     explicit: a function whose body contains a construct that can panic is translated to a
     function returning [option T] and [None] is the panic; each such construct is guarded by the
     boolean condition defined here ([go_in_range], [go_slice_ok], ...).                        *)
From Coq Require Import List ZArith Bool.
Import ListNotations.
Local Open Scope Z_scope.

(* ------------------------------------------------------------------ integer types *)
Definition wrap_u (n x : Z) : Z := x mod 2 ^ n.
Definition wrap_i (n x : Z) : Z := (x + 2 ^ (n - 1)) mod 2 ^ n - 2 ^ (n - 1).

Definition wrap_u8 : Z -> Z := wrap_u 8.
Definition wrap_u16 : Z -> Z := wrap_u 16.
Definition wrap_u32 : Z -> Z := wrap_u 32.
Definition wrap_u64 : Z -> Z := wrap_u 64.
Definition wrap_i8 : Z -> Z := wrap_i 8.
Definition wrap_i16 : Z -> Z := wrap_i 16.
Definition wrap_i32 : Z -> Z := wrap_i 32.
Definition wrap_i64 : Z -> Z := wrap_i 64.

(* ------------------------------------------------------------------ slices, arrays, strings *)
Definition go_len {A : Type} (l : list A) : Z := Z.of_nat (length l).

(* x[i]; [d] is the zero value of the element type (only reached when the guard is false) *)
Definition go_index {A : Type} (d : A) (l : list A) (i : Z) : A := nth (Z.to_nat i) l d.
Definition go_in_range {A : Type} (l : list A) (i : Z) : bool := (0 <=? i) && (i <? go_len l).

(* x[lo:hi]; [go_slice_ok lo hi bound] is Go's run-time check 0 <= lo <= hi <= bound, where bound is
   len(x) for strings, arrays and for an omitted hi *)
Definition go_slice {A : Type} (l : list A) (lo hi : Z) : list A :=
  firstn (Z.to_nat (hi - lo)) (skipn (Z.to_nat lo) l).
Definition go_slice_ok (lo hi bound : Z) : bool := (0 <=? lo) && (lo <=? hi) && (hi <=? bound).

(* a[i] = v on an array value *)
Fixpoint list_set {A : Type} (l : list A) (i : nat) (v : A) : list A :=
  match l, i with
  | [], _ => []
  | _ :: l', O => v :: l'
  | x :: l', S i' => x :: list_set l' i' v
  end.
Definition go_set {A : Type} (l : list A) (i : Z) (v : A) : list A := list_set l (Z.to_nat i) v.

(* copy(x[lo:], src) on an array value x: min(len(x)-lo, len(src)) elements are overwritten *)
Definition go_copy_at {A : Type} (l : list A) (lo : Z) (src : list A) : list A :=
  let k := Z.to_nat lo in
  let n := Nat.min (length l - k) (length src) in
  firstn k l ++ firstn n src ++ skipn (k + n) l.

(* T{} for an array type [n]T with integer elements *)
Definition go_zeros (n : Z) : list Z := repeat 0 (Z.to_nat n).

(* ------------------------------------------------------------------ loops *)
(* lo, lo+1, ..., hi-1  (for i := lo; i < hi; i++) *)
Definition go_range (lo hi : Z) : list Z :=
  map (fun k => lo + Z.of_nat k) (seq 0 (Z.to_nat (hi - lo))).
(* for i, x := range l *)
Definition go_enum {A : Type} (l : list A) : list (Z * A) := combine (go_range 0 (go_len l)) l.

(* outcome of one execution of a loop body: fall through to the next iteration with the new values of
   the variables assigned in the body, or leave the enclosing function ([Return]) *)
Inductive ctl (S R : Type) : Type :=
| Next (s : S)
| Return (r : R).
Arguments Next {S R} s.
Arguments Return {S R} r.

Fixpoint go_for {X S R : Type} (xs : list X) (body : X -> S -> ctl S R) (s : S) : ctl S R :=
  match xs with
  | [] => Next s
  | x :: xs' =>
      match body x s with
      | Next s' => go_for xs' body s'
      | Return r => Return r
      end
  end.

(* ------------------------------------------------------------------ errors *)
Definition is_nil {A : Type} (o : option A) : bool :=
  match o with None => true | Some _ => false end.

(* ------------------------------------------------------------------ encoding/binary.BigEndian *)
(* Uint16(b): panics unless len(b) >= 2 (guard emitted by the translator) *)
Definition be_uint16 (b : list Z) : Z := go_index 0 b 0 * 256 + go_index 0 b 1.
Fixpoint be_uint_from (n : nat) (b : list Z) (acc : Z) : Z :=
  match n with
  | O => acc
  | S n' => match b with
            | [] => be_uint_from n' [] (acc * 256)
            | x :: b' => be_uint_from n' b' (acc * 256 + x)
            end
  end.
Definition be_uint32 (b : list Z) : Z := be_uint_from 4 b 0.
Definition be_uint64 (b : list Z) : Z := be_uint_from 8 b 0.
(* AppendUint16(b, v) = append(b, byte(v>>8), byte(v)) *)
Definition be_append_uint16 (b : list Z) (v : Z) : list Z :=
  b ++ [wrap_u8 (Z.shiftr v 8); wrap_u8 v].

(* PutUintN(x[lo:], v) on an array value x (N = 8n): b[0] = byte(v >> (N-8)), ..., b[n-1] = byte(v);
   panics unless len(x[lo:]) >= n (guard emitted by the translator) *)
Fixpoint be_bytes (n : nat) (v : Z) : list Z :=
  match n with
  | O => []
  | S n' => be_bytes n' (Z.shiftr v 8) ++ [wrap_u8 v]
  end.
Definition be_put_uint (n : Z) (l : list Z) (lo v : Z) : list Z :=
  let k := Z.to_nat lo in
  firstn k l ++ be_bytes (Z.to_nat n) v ++ skipn (k + Z.to_nat n) l.

(* ------------------------------------------------------------------ bytes *)
(* bytes.HasPrefix(s, prefix) = len(s) >= len(prefix) && bytes.Equal(s[:len(prefix)], prefix) *)
Fixpoint bytes_has_prefix (s p : list Z) {struct p} : bool :=
  match p, s with
  | [], _ => true
  | y :: p', x :: s' => (x =? y) && bytes_has_prefix s' p'
  | _ :: _, [] => false
  end.

(* ------------------------------------------------------------------ avalanchego utils/math
   (generic over unsigned T; [n] is the width of T, [e] the sentinel error value)
     func Add(a, b T) (T, error) { if a > MaxUint[T]()-b { return 0, ErrOverflow }; return a + b, nil }
     func Sub(a, b T) (T, error) { if a < b { return 0, ErrUnderflow }; return a - b, nil }
     func Mul(a, b T) (T, error) { if b != 0 && a > MaxUint[T]()/b { return 0, ErrOverflow }; return a * b, nil } *)
Definition safemath_add {E : Type} (e : E) (n a b : Z) : Z * option E :=
  if a >? wrap_u n (2 ^ n - 1 - b) then (0, Some e) else (wrap_u n (a + b), None).
Definition safemath_sub {E : Type} (e : E) (n a b : Z) : Z * option E :=
  if a <? b then (0, Some e) else (wrap_u n (a - b), None).
Definition safemath_mul {E : Type} (e : E) (n a b : Z) : Z * option E :=
  if negb (b =? 0) && (a >? Z.quot (2 ^ n - 1) b) then (0, Some e) else (wrap_u n (a * b), None).

(* ------------------------------------------------------------------ math/bits *)
(* Mul64(x, y) (hi, lo): the 128-bit product *)
Definition bits_mul64 (x y : Z) : Z * Z := (Z.quot (x * y) (2 ^ 64), Z.rem (x * y) (2 ^ 64)).
(* Div64(hi, lo, y) (quo, rem): panics for y == 0 and for y <= hi *)
Definition bits_div64_ok (hi lo y : Z) : bool := negb (y =? 0) && (hi <? y).
Definition bits_div64 (hi lo y : Z) : Z * Z :=
  (Z.quot (hi * 2 ^ 64 + lo) y, Z.rem (hi * 2 ^ 64 + lo) y).
(* Add64(x, y, carry) (sum, carryOut): sum = x + y + carry;
   carryOut = ((x & y) | ((x | y) &^ sum)) >> 63   (the library's own formula, exact for every carry) *)
Definition bits_add64 (x y carry : Z) : Z * Z :=
  let sum := wrap_u64 (x + y + carry) in
  (sum, Z.shiftr (Z.lor (Z.land x y) (Z.ldiff (Z.lor x y) sum)) 63).
