(* Proofs about Model/Builder.v: every block the model builder produces is accepted by the verifier model
   (Model/Chain.v execute_block) with exactly the builder's outputs (C02). *)
From stdpp Require Import gmap.
From Coq Require Import NArith ZArith Lia ZifyN ZifyNat ZifyBool.
From HV Require Import Lib.Bytes Lib.U64 Model.Keys Model.Tstate Model.Fees Model.TxStatic Model.Chain Model.Builder.
From HV Require Import Proofs.Fees_proofs.
Local Open Scope N_scope.

(* ------------------------------------------------------------------ the fee market part of the manager *)

Lemma same_market_sym m m' : same_market m m' -> same_market m' m.
Proof.
  intros [H1 [H2 H3]]. split; [congruence|]. split; [congruence|].
  intros j. destruct (H3 j). split; congruence.
Qed.

(* Fee only reads the unit prices: consumption so far does not matter *)
Lemma fee_loop_same_market ks m m' d acc :
  same_market m m' -> fee_loop ks m d acc = fee_loop ks m' d acc.
Proof.
  intros Hsm. revert acc. induction ks as [|k ks IH]; intros acc; cbn [fee_loop]; [reflexivity|].
  destruct Hsm as [_ [_ Hj]]. destruct (Hj k) as [Hp _]. rewrite Hp.
  destruct (mul_chk (unit_price m k) (dget d k)) as [c|]; [|reflexivity].
  destruct (add_chk c acc) as [f|]; [|reflexivity]. apply IH.
Qed.

Lemma fee_same_market m m' d : same_market m m' -> fee m d = fee m' d.
Proof. intros H. unfold fee. apply fee_loop_same_market, H. Qed.

Lemma pre_execute_same_market r m m' t u s ts :
  same_market m m' -> pre_execute r m t u s ts = pre_execute r m' t u s ts.
Proof. intros H. unfold pre_execute. rewrite (fee_same_market m m' u H). reflexivity. Qed.

(* one verification task gives the same verdict, result and diff whatever has been consumed so far *)
Lemma run_tx_same_market r m m' parent ts st t sk u :
  same_market m m' -> run_tx r m parent ts st t sk u = run_tx r m' parent ts st t sk u.
Proof. intros H. unfold run_tx. rewrite (pre_execute_same_market r m m' t u _ ts H). reflexivity. Qed.

Lemma unit_prices_same_market m m' : same_market m m' -> unit_prices m' = unit_prices m.
Proof.
  intros [_ [_ Hj]]. unfold unit_prices. apply map_ext. intros k. apply (Hj k).
Qed.

(* ------------------------------------------------------------------ Consume *)

Lemma consume_true m d l k m' :
  length (m_dims m) = 5%nat -> consume m d l = (true, k, m') ->
  same_market m m' /\ length (m_dims m') = 5%nat.
Proof.
  intros Hlen Hc.
  destruct (consume_atomic m d l Hlen) as [[_ [mx [Hcx [Hsm _]]]] | [kx [Hcx _]]]; rewrite Hcx in Hc.
  - inversion Hc; subst. split; [exact Hsm|]. destruct Hsm as [_ [Hl _]]. congruence.
  - discriminate Hc.
Qed.

(* a failed Consume leaves the manager as it was *)
Lemma consume_false m d l k m' :
  length (m_dims m) = 5%nat -> consume m d l = (false, k, m') -> m' = m.
Proof.
  intros Hlen Hc.
  destruct (consume_atomic m d l Hlen) as [[_ [mx [Hcx _]]] | [kx [Hcx _]]]; rewrite Hcx in Hc.
  - discriminate Hc.
  - inversion Hc; subst. reflexivity.
Qed.

Lemma compute_next_length m t targets denoms mins : length (m_dims (compute_next m t targets denoms mins)) = 5%nat.
Proof. unfold compute_next. cbn [m_dims]. rewrite map_length. reflexivity. Qed.

(* ------------------------------------------------------------------ one candidate *)

Lemma execute_tx_units t u f s s' res : execute_tx t u f s = Some (s', res) -> res_units res = u.
Proof.
  unfold execute_tx. intros H.
  match type of H with (match ?d with _ => _ end) = _ => destruct d as [s1|]; [|discriminate H] end.
  destruct (run_actions s1 (op_index s1) (t_actions t) []) as [[[s2 ok] ec] outs].
  inversion H; subst. reflexivity.
Qed.

(* what a step that goes on can be: a skip that changes nothing, or an inclusion that is one successful
   verification task (run_tx) followed by a successful Consume of the transaction's units *)
Inductive step_spec (r : rules) (parent : gmap key val) (ts : Z) (fm : manager) (st : tstate) (c : cand)
                    (v : verdict) (st' : tstate) (fm' : manager) : option (tx * result) -> Prop :=
  | step_skip : v <> VIncluded -> st' = st -> fm' = fm -> step_spec r parent ts fm st c v st' fm' None
  | step_incl sk u k res :
      v = VIncluded -> c_repeat c = false ->
      state_keys (c_tx c) = Some sk -> units r (c_tx c) sk = Some u ->
      consume fm u (r_max_units r) = (true, k, fm') ->
      run_tx r fm parent ts st (c_tx c) sk u = (st', inl res) ->
      step_spec r parent ts fm st c v st' fm' (Some (c_tx c, res)).

Lemma build_step_next r parent ts fm st c v st' fm' inc :
  length (m_dims fm) = 5%nat ->
  build_step r parent ts fm st c = SNext v st' fm' inc ->
  step_spec r parent ts fm st c v st' fm' inc.
Proof.
  intros Hlen H. unfold build_step in H.
  destruct (c_repeat c) eqn:Erep.
  { inversion H; subst. apply step_skip; [discriminate|reflexivity|reflexivity]. }
  destruct (state_keys (c_tx c)) as [sk|] eqn:Esk.
  2:{ inversion H; subst. apply step_skip; [discriminate|reflexivity|reflexivity]. }
  destruct (units r (c_tx c) sk) as [u|] eqn:Eu.
  2:{ inversion H; subst. apply step_skip; [discriminate|reflexivity|reflexivity]. }
  destruct (pre_execute r fm (c_tx c) u (new_view st (ScopeKeys sk) (fetch parent sk)) ts) as [e f] eqn:Epre.
  destruct e as [|pe].
  2:{ inversion H; subst. apply step_skip; [discriminate|reflexivity|reflexivity]. }
  destruct (execute_tx (c_tx c) u f (new_view st (ScopeKeys sk) (fetch parent sk))) as [[s' res]|] eqn:Eex; [|discriminate H].
  pose proof (execute_tx_units _ _ _ _ _ _ Eex) as Hu. rewrite Hu in H.
  destruct (consume fm u (r_max_units r)) as [[ok d] fm1] eqn:Ec.
  destruct ok.
  - inversion H; subst. eapply step_incl; try eassumption; try reflexivity.
    unfold run_tx. rewrite Epre, Eex. reflexivity.
  - pose proof (consume_false _ _ _ _ _ Hlen Ec) as ->.
    destruct (dget (r_target r) d <=? last_consumed fm d); [discriminate H|].
    inversion H; subst. apply step_skip; [discriminate|reflexivity|reflexivity].
Qed.

Lemma build_step_halt r parent ts fm st c d fm' :
  length (m_dims fm) = 5%nat ->
  build_step r parent ts fm st c = SHalt d fm' -> fm' = fm.
Proof.
  intros Hlen H. unfold build_step in H.
  destruct (c_repeat c); [discriminate H|].
  destruct (state_keys (c_tx c)) as [sk|]; [|discriminate H].
  destruct (units r (c_tx c) sk) as [u|]; [|discriminate H].
  destruct (pre_execute r fm (c_tx c) u (new_view st (ScopeKeys sk) (fetch parent sk)) ts) as [e f].
  destruct e as [|pe]; [|discriminate H].
  destruct (execute_tx (c_tx c) u f (new_view st (ScopeKeys sk) (fetch parent sk))) as [[s' res]|]; [|discriminate H].
  destruct (consume fm (res_units res) (r_max_units r)) as [[ok d'] fm1] eqn:Ec.
  destruct ok; [discriminate H|].
  pose proof (consume_false _ _ _ _ _ Hlen Ec) as ->.
  destruct (dget (r_target r) d' <=? last_consumed fm d'); [|discriminate H].
  inversion H; subst. reflexivity.
Qed.

(* ------------------------------------------------------------------ the loop against prepare / run_txs *)

(* The builder's loop, started from (fm, st), against the verifier's two passes over the INCLUDED
   transactions started from the same (fm, st): the synchronous pass (prepare: keys, units, Consume in block
   order) succeeds and ends in the builder's manager; the tasks (run_txs), executed with ANY manager of the
   same market -- in particular the fully consumed one the verifier uses -- all succeed and produce the
   builder's diff and results. *)
Lemma build_loop_verifies r parent ts cands : forall fm st o,
  length (m_dims fm) = 5%nat ->
  build_loop r parent ts fm st cands = Some o ->
  same_market fm (l_fm o) /\
  exists ptxs, prepare r fm (l_txs o) = inl (ptxs, l_fm o) /\
    forall fmx, same_market fm fmx -> run_txs r fmx parent ts st ptxs = (l_st o, l_results o, []).
Proof.
  induction cands as [|c rest IH]; intros fm st o Hlen H; cbn [build_loop] in H.
  - inversion H; subst. cbn [l_fm l_txs l_st l_results]. split; [apply same_market_refl|].
    exists []. split; [reflexivity|]. intros fmx _. reflexivity.
  - destruct (build_step r parent ts fm st c) as [v st1 fm1 inc | d fm1 |] eqn:Es; [| |discriminate H].
    + pose proof (build_step_next _ _ _ _ _ _ _ _ _ _ Hlen Es) as Hs.
      destruct (build_loop r parent ts fm1 st1 rest) as [o1|] eqn:El; [|discriminate H].
      destruct Hs as [Hv Hst Hfm | sk u k res Hv Hrep Hsk Hu Hc Hrun].
      * subst st1 fm1. inversion H; subst. cbn [l_fm l_txs l_st l_results].
        apply (IH fm st o1 Hlen El).
      * destruct (consume_true _ _ _ _ _ Hlen Hc) as [Hsm1 Hlen1].
        destruct (IH fm1 st1 o1 Hlen1 El) as [Hsm2 [ptxs [Hprep Hrt]]].
        inversion H; subst. cbn [l_fm l_txs l_st l_results].
        split; [eapply same_market_trans; eassumption|].
        exists ((c_tx c, sk, u) :: ptxs). split.
        -- cbn [prepare]. rewrite Hsk, Hu, Hc, Hprep. reflexivity.
        -- intros fmx Hx. cbn [run_txs].
           rewrite <- (run_tx_same_market r fm fmx parent ts st (c_tx c) sk u Hx), Hrun.
           rewrite (Hrt fmx); [reflexivity|].
           eapply same_market_trans; [apply same_market_sym, Hsm1 | exact Hx].
    + pose proof (build_step_halt _ _ _ _ _ _ _ _ Hlen Es) as ->.
      inversion H; subst. cbn [l_fm l_txs l_st l_results]. split; [apply same_market_refl|].
      exists []. split; [reflexivity|]. intros fmx _. reflexivity.
Qed.

(* the included transactions are candidates, in candidate order *)
Lemma build_loop_txs_sub r parent ts cands : forall fm st o,
  build_loop r parent ts fm st cands = Some o ->
  forall t, In t (l_txs o) -> exists c, In c cands /\ c_tx c = t /\ c_repeat c = false.
Proof.
  induction cands as [|c rest IH]; intros fm st o H t Hin; cbn [build_loop] in H.
  - inversion H; subst. destruct Hin.
  - destruct (build_step r parent ts fm st c) as [v st1 fm1 inc | d fm1 |] eqn:Es; [| |discriminate H].
    + destruct (build_loop r parent ts fm1 st1 rest) as [o1|] eqn:El; [|discriminate H].
      destruct inc as [[t0 res0]|].
      * inversion H; subst. cbn [l_txs] in Hin. destruct Hin as [<- | Hin].
        -- exists c. split; [left; reflexivity|].
           unfold build_step in Es. destruct (c_repeat c) eqn:Erep; [inversion Es|].
           split; [|reflexivity].
           destruct (state_keys (c_tx c)) as [sk|]; [|inversion Es].
           destruct (units r (c_tx c) sk) as [u|]; [|inversion Es].
           destruct (pre_execute r fm (c_tx c) u (new_view st (ScopeKeys sk) (fetch parent sk)) ts) as [e f].
           destruct e as [|pe]; [|inversion Es].
           destruct (execute_tx (c_tx c) u f (new_view st (ScopeKeys sk) (fetch parent sk))) as [[s' res]|]; [|discriminate Es].
           destruct (consume fm (res_units res) (r_max_units r)) as [[ok d'] fm2].
           destruct ok.
           ++ inversion Es; subst. reflexivity.
           ++ destruct (dget (r_target r) d' <=? last_consumed fm2 d'); inversion Es.
        -- destruct (IH _ _ _ El t Hin) as [c' [Hc' Ht]]. exists c'. split; [right; exact Hc'|exact Ht].
      * inversion H; subst. cbn [l_txs] in Hin.
        destruct (IH _ _ _ El t Hin) as [c' [Hc' Ht]]. exists c'. split; [right; exact Hc'|exact Ht].
    + inversion H; subst. destruct Hin.
Qed.

(* ------------------------------------------------------------------ the block *)

Lemma built_inv r p hdr_h hdr_ts now cands b o vs :
  build_block r p hdr_h hdr_ts now cands = BBuilt b o vs ->
  exists lo,
    (now <? hdr_ts + r_min_gap r)%Z = false /\
    build_loop r (p_data p) now (compute_next (p_fee p) now (r_target r) (r_denom r) (r_min_price r)) ts_new cands = Some lo /\
    ((match l_txs lo with [] => true | _ => false end) && (now <? hdr_ts + r_min_empty_gap r)%Z) = false /\
    b = mkBlock now (hdr_h + 1) true false false None (l_txs lo) /\
    o = mkOut (l_results lo) (ts_changed (l_st lo)) (hdr_h + 1) (built_post_ts p hdr_ts now) (l_fm lo)
              (unit_prices (l_fm lo)) (units_consumed (l_fm lo)) /\
    vs = l_verdicts lo.
Proof.
  unfold build_block. intros H.
  destruct (now <? hdr_ts + r_min_gap r)%Z eqn:Eg; [discriminate H|].
  destruct (build_loop r (p_data p) now _ ts_new cands) as [lo|] eqn:El; [|discriminate H].
  destruct ((match l_txs lo with [] => true | _ => false end) && (now <? hdr_ts + r_min_empty_gap r)%Z) eqn:Ee; [discriminate H|].
  inversion H; subst. exists lo.
  split; [reflexivity|]. split; [reflexivity|]. split; [exact Ee|]. split; [reflexivity|]. split; reflexivity.
Qed.

(* the guard under which the timestamp found in the post-state is the block's: the new timestamp differs
   from the parent HEADER's (as uint64), or the parent STATE timestamp is the header's.  The first holds
   whenever MinBlockGap > 0 (timestamps are int64), the second for every parent but genesis. *)
Definition ts_guard (p : parent_state) (hdr_ts now : Z) : Prop :=
  ts_word now <> ts_word hdr_ts \/ p_ts p = ts_word hdr_ts.

Lemma built_post_ts_guard p hdr_ts now : ts_guard p hdr_ts now -> built_post_ts p hdr_ts now = ts_word now.
Proof.
  unfold built_post_ts. intros [Hne | Heq]; destruct (N.eqb_spec (ts_word now) (ts_word hdr_ts)) as [E|E]; congruence.
Qed.

Lemma ts_guard_positive_gap r p hdr_ts now :
  (0 < r_min_gap r)%Z -> (now <? hdr_ts + r_min_gap r)%Z = false ->
  (- 2 ^ 63 <= hdr_ts < 2 ^ 63)%Z -> (- 2 ^ 63 <= now < 2 ^ 63)%Z ->
  ts_guard p hdr_ts now.
Proof.
  intros Hg Hlt Hh Hn. left. unfold ts_word. intros E.
  assert (Hw : Z.of_N W64 = (2 ^ 64)%Z) by reflexivity. rewrite Hw in E.
  apply Z.ltb_ge in Hlt.
  assert (E' : (now mod 2 ^ 64 = hdr_ts mod 2 ^ 64)%Z).
  { apply Z2N.inj in E; [exact E | apply Z.mod_pos_bound; lia | apply Z.mod_pos_bound; lia]. }
  assert (Hd : ((now - hdr_ts) mod 2 ^ 64 = 0)%Z).
  { rewrite Zminus_mod, E', Z.sub_diag. reflexivity. }
  apply Z.mod_divide in Hd; [|lia]. destruct Hd as [q Hq].
  assert (0 < now - hdr_ts < 2 ^ 64)%Z by lia. nia.
Qed.

Section Built.
  Variables (r : rules) (mk : meta_keys) (p : parent_state) (hdr_h : N) (hdr_ts now : Z) (cands : list cand).
  Variables (b : block) (o : out_ok) (vs : list verdict).
  Hypothesis Hbuilt : build_block r p hdr_h hdr_ts now cands = BBuilt b o vs.

  Let fm0 := compute_next (p_fee p) now (r_target r) (r_denom r) (r_min_price r).

  (* the per-transaction stage of the verifier on the built block *)
  Lemma built_tx_stage :
    exists lo ptxs,
      b = mkBlock now (hdr_h + 1) true false false None (l_txs lo) /\
      o = mkOut (l_results lo) (ts_changed (l_st lo)) (hdr_h + 1) (built_post_ts p hdr_ts now) (l_fm lo)
                (unit_prices (l_fm lo)) (units_consumed (l_fm lo)) /\
      (now <? hdr_ts + r_min_gap r)%Z = false /\
      ((match l_txs lo with [] => true | _ => false end) && (now <? hdr_ts + r_min_empty_gap r)%Z) = false /\
      prepare r fm0 (l_txs lo) = inl (ptxs, l_fm lo) /\
      run_txs r (l_fm lo) (p_data p) now ts_new ptxs = (l_st lo, l_results lo, []) /\
      (forall t, In t (l_txs lo) -> exists c, In c cands /\ c_tx c = t /\ c_repeat c = false).
  Proof.
    destruct (built_inv _ _ _ _ _ _ _ _ _ Hbuilt) as [lo [Hg [Hl [He [Hb [Ho _]]]]]].
    fold fm0 in Hl.
    destruct (build_loop_verifies r (p_data p) now cands fm0 ts_new lo (compute_next_length _ _ _ _ _) Hl)
      as [Hsm [ptxs [Hprep Hrun]]].
    exists lo, ptxs. repeat split; try assumption.
    - apply Hrun, Hsm.
    - intros t Ht. eapply build_loop_txs_sub; eassumption.
  Qed.

  Lemma prepared_prefix_of_prepare fm txs ptxs fm' :
    prepare r fm txs = inl (ptxs, fm') -> prepared_prefix r fm txs = ptxs.
  Proof.
    revert fm ptxs fm'. induction txs as [|t rest IH]; intros fm ptxs fm' H; cbn [prepare prepared_prefix] in *.
    - inversion H; reflexivity.
    - destruct (state_keys t) as [sk|]; [|discriminate H].
      destruct (units r t sk) as [u|]; [|discriminate H].
      destruct (consume fm u (r_max_units r)) as [[ok d] fm1]. destruct ok; [|discriminate H].
      destruct (prepare r fm1 rest) as [[l fm2]|e] eqn:Ep; [|discriminate H].
      inversion H; subst. f_equal. eapply IH; eassumption.
  Qed.

  (* C02, second part: whatever the parent header says, the verifier never rejects a built block in its
     per-transaction stage (state keys, units, block unit limits, PreExecute, Execute) *)
  Theorem never_builds_failing e : execute_block r mk p b <> inr (clsExecuteTxs, e).
  Proof.
    destruct built_tx_stage as [lo [ptxs [Hb [_ [_ [_ [Hprep [Hrun _]]]]]]]].
    subst b. unfold execute_block. cbn [b_too_late b_height b_ts b_txs b_vw_dup b_root_ok b_fail_key].
    unfold is_fail, fail_hits. cbn [b_fail_key].
    destruct (p_height p) as [ph|]; [|discriminate].
    destruct (negb (hdr_h + 1 =? ph + 1)); [discriminate|].
    destruct (now <? Z.of_N (p_ts p) + r_min_gap r)%Z; [discriminate|].
    destruct ((match l_txs lo with [] => true | _ => false end) && (now <? Z.of_N (p_ts p) + r_min_empty_gap r)%Z); [discriminate|].
    fold fm0. rewrite Hprep, Hrun. cbn [negb].
    destruct (negb (forallb t_auth_ok (l_txs lo))); discriminate.
  Qed.

  Hypothesis Hheight : p_height p = Some hdr_h.
  Hypothesis Hts : (Z.of_N (p_ts p) <= hdr_ts)%Z.
  Hypothesis Hauth : Forall (fun c => t_auth_ok (c_tx c) = true) cands.

  (* everything but the timestamp word found in the post-state *)
  Lemma built_block_verifies_upto_ts :
    execute_block r mk p b =
      inl (mkOut (o_results o) (o_diff o) (o_height o) (ts_word now) (o_fee o) (o_prices o) (o_consumed o)).
  Proof.
    destruct built_tx_stage as [lo [ptxs [Hb [Ho [Hg [He [Hprep [Hrun Hsub]]]]]]]].
    subst b o. unfold execute_block. cbn [b_too_late b_height b_ts b_txs b_vw_dup b_root_ok b_fail_key].
    unfold is_fail, fail_hits. cbn [b_fail_key].
    rewrite Hheight, N.eqb_refl. cbn [negb].
    apply Z.ltb_ge in Hg.
    assert (Hg' : (now <? Z.of_N (p_ts p) + r_min_gap r)%Z = false) by (apply Z.ltb_ge; lia).
    rewrite Hg'.
    assert (He' : ((match l_txs lo with [] => true | _ => false end) && (now <? Z.of_N (p_ts p) + r_min_empty_gap r)%Z) = false).
    { destruct (l_txs lo); [|reflexivity]. cbn [andb] in *. apply Z.ltb_ge in He. apply Z.ltb_ge. lia. }
    rewrite He'. fold fm0. rewrite Hprep, Hrun. cbn [negb].
    assert (Ha : forallb t_auth_ok (l_txs lo) = true).
    { apply forallb_forall. intros t Ht. destruct (Hsub t Ht) as [c [Hc [<- _]]].
      rewrite Forall_forall in Hauth. apply Hauth, elem_of_list_In, Hc. }
    rewrite Ha. cbn [negb o_results o_diff o_height o_fee o_prices o_consumed]. reflexivity.
  Qed.

  (* C02, first part: the verifier accepts the built block and reproduces the builder's outputs *)
  Theorem built_block_verifies : ts_guard p hdr_ts now -> execute_block r mk p b = inl o.
  Proof.
    intros Hguard. rewrite built_block_verifies_upto_ts.
    destruct built_tx_stage as [lo [_ [_ [Ho _]]]]. subst o.
    cbn [o_results o_diff o_height o_fee o_prices o_consumed].
    rewrite (built_post_ts_guard _ _ _ Hguard). reflexivity.
  Qed.
End Built.

(* a candidate that is not included leaves the block diff and the fee manager untouched *)
Theorem skipped_no_effect r parent ts fm st c v st' fm' inc :
  length (m_dims fm) = 5%nat ->
  build_step r parent ts fm st c = SNext v st' fm' inc ->
  v <> VIncluded -> st' = st /\ fm' = fm /\ inc = None.
Proof.
  intros Hlen H Hv. destruct (build_step_next _ _ _ _ _ _ _ _ _ _ Hlen H) as [_ Hst Hfm | sk u k res Hv' _ _ _ _ _].
  - subst. repeat split.
  - contradiction.
Qed.

(* the size cap keeps a prefix of the stream *)
Lemma size_cut_prefix target stream : forall acc, exists rest, stream = size_cut target acc stream ++ rest.
Proof.
  induction stream as [|c stream IH]; intros acc; cbn [size_cut].
  - exists []. reflexivity.
  - destruct (target <? acc + t_size (c_tx c)).
    + exists (c :: stream). reflexivity.
    + destruct (IH (acc + t_size (c_tx c))) as [rest Hr]. exists rest. cbn [app]. f_equal. exact Hr.
Qed.

Lemma size_cut_Forall (P : cand -> Prop) target acc stream :
  Forall P stream -> Forall P (size_cut target acc stream).
Proof.
  intros H. destruct (size_cut_prefix target stream acc) as [rest Hr]. rewrite Hr in H.
  apply Forall_app in H. apply H.
Qed.
