(* Proofs about Model/Address.v: hex round trips, exact characterisation of parse_address. *)
From Coq Require Import List Arith NArith Bool Lia ZifyN ZifyNat ZifyBool.
Import ListNotations.
From HV Require Import Lib.Bytes Model.Address.
Local Open Scope N_scope.

Definition wf_bytes (b : bytes) : Prop := Forall (fun x => x < 256) b.
Definition is_hex_char (c : N) : Prop := from_hex_char c <> None.

Ltac cmp_cases :=
  repeat match goal with
         | |- context [?a <=? ?b] => destruct (N.leb_spec a b)
         | |- context [?a <? ?b] => destruct (N.ltb_spec a b)
         | H : context [?a <=? ?b] |- _ => destruct (N.leb_spec a b)
         | H : context [?a <? ?b] |- _ => destruct (N.ltb_spec a b)
         end; cbn [andb orb negb] in *.

(* ---- characters --------------------------------------------------------------------------- *)

Lemma from_hex_digit n : n < 16 -> from_hex_char (hex_digit n) = Some n.
Proof.
  intros Hn. unfold from_hex_char, hex_digit. cmp_cases; try lia; f_equal; lia.
Qed.

Lemma lower_hex_digit n : lower (hex_digit n) = hex_digit n.
Proof. unfold lower, hex_digit. cmp_cases; lia. Qed.

Lemma from_hex_char_spec c x :
  from_hex_char c = Some x -> x < 16 /\ lower c = hex_digit x.
Proof.
  unfold from_hex_char, lower, hex_digit. intros H.
  cmp_cases; try discriminate H; injection H as <-; split; lia.
Qed.

Lemma from_hex_char_lower c : from_hex_char (lower c) = from_hex_char c.
Proof.
  unfold from_hex_char, lower. cmp_cases; try lia; try reflexivity; f_equal; lia.
Qed.

(* ---- two-at-a-time induction -------------------------------------------------------------- *)

Lemma pair_ind (P : list N -> Prop) :
  P [] -> (forall a, P [a]) -> (forall a b r, P r -> P (a :: b :: r)) -> forall l, P l.
Proof.
  intros H0 H1 H2 l.
  assert (H : P l /\ forall a, P (a :: l)).
  { induction l as [|x l [IHa IHb]].
    - split; [exact H0 | exact H1].
    - split; [apply IHb | intros a; apply H2; exact IHa]. }
  exact (proj1 H).
Qed.

(* ---- hex ---------------------------------------------------------------------------------- *)

Lemma hex_enc_app a b : hex_enc (a ++ b) = hex_enc a ++ hex_enc b.
Proof. induction a as [|x a IH]; cbn [hex_enc app]; [reflexivity | rewrite IH; reflexivity]. Qed.

Lemma hex_enc_length b : length (hex_enc b) = (2 * length b)%nat.
Proof. induction b as [|x b IH]; cbn [hex_enc length]; lia. Qed.

Lemma hex_enc_lower b : map lower (hex_enc b) = hex_enc b.
Proof.
  induction b as [|x b IH]; cbn [hex_enc map]; [reflexivity|].
  rewrite !lower_hex_digit, IH. reflexivity.
Qed.

Lemma hex_dec_enc b : wf_bytes b -> hex_dec (hex_enc b) = Some b.
Proof.
  induction b as [|x b IH]; intros Hwf; [reflexivity|].
  inversion Hwf as [|x' b' Hx Hb]; subst.
  cbn [hex_enc hex_dec].
  assert (Hq : x / 16 < 16) by (apply N.div_lt_upper_bound; lia).
  assert (Hr : x mod 16 < 16) by (apply N.mod_lt; lia).
  rewrite (from_hex_digit _ Hq), (from_hex_digit _ Hr), (IH Hb).
  rewrite (N.mul_comm (x / 16) 16), <- (N.div_mod x 16) by lia. reflexivity.
Qed.

Lemma hex_dec_exact t : forall b, hex_dec t = Some b -> map lower t = hex_enc b /\ wf_bytes b.
Proof.
  induction t as [|a|a c r IH] using pair_ind; intros b H.
  - injection H as <-. split; [reflexivity | constructor].
  - discriminate H.
  - cbn [hex_dec] in H.
    destruct (from_hex_char a) as [x|] eqn:Ea; [|discriminate H].
    destruct (from_hex_char c) as [y|] eqn:Ec; [|discriminate H].
    destruct (hex_dec r) as [t'|] eqn:Er; [|discriminate H].
    injection H as <-.
    destruct (from_hex_char_spec _ _ Ea) as [Hx La].
    destruct (from_hex_char_spec _ _ Ec) as [Hy Lc].
    destruct (IH t' eq_refl) as [IH1 IH2].
    assert (Hd : (x * 16 + y) / 16 = x).
    { rewrite N.div_add_l by lia. rewrite (N.div_small y 16) by lia. lia. }
    assert (Hm : (x * 16 + y) mod 16 = y).
    { rewrite N.add_comm, N.mod_add by lia. apply N.mod_small; lia. }
    split.
    + cbn [map hex_enc]. rewrite Hd, Hm, La, Lc, IH1. reflexivity.
    + constructor; [lia | exact IH2].
Qed.

Lemma hex_dec_lower t : hex_dec (map lower t) = hex_dec t.
Proof.
  induction t as [|a|a c r IH] using pair_ind; [reflexivity | reflexivity |].
  cbn [map hex_dec]. rewrite !from_hex_char_lower, IH. reflexivity.
Qed.

(* decoding succeeds exactly on the (case-insensitive) encodings of byte strings *)
Lemma hex_dec_iff t b : hex_dec t = Some b <-> map lower t = hex_enc b /\ wf_bytes b.
Proof.
  split; [apply hex_dec_exact|].
  intros [H Hwf]. rewrite <- hex_dec_lower, H. apply hex_dec_enc; exact Hwf.
Qed.

(* decoding fails exactly on odd length or a non-hex character *)
Lemma hex_dec_some_iff t :
  (exists b, hex_dec t = Some b) <-> Nat.even (length t) = true /\ Forall is_hex_char t.
Proof.
  induction t as [|a|a c r IH] using pair_ind.
  - split; [intros _; split; [reflexivity | constructor] | intros _; exists []; reflexivity].
  - split; [intros [b H]; discriminate H | intros [H _]; discriminate H].
  - cbn [hex_dec]. change (Nat.even (length (a :: c :: r))) with (Nat.even (length r)).
    split.
    + intros [b H].
      destruct (from_hex_char a) as [x|] eqn:Ea; [|discriminate H].
      destruct (from_hex_char c) as [y|] eqn:Ec; [|discriminate H].
      destruct (hex_dec r) as [t'|] eqn:Er; [|discriminate H].
      destruct (proj1 IH (ex_intro _ t' eq_refl)) as [He Hf].
      split; [exact He|].
      constructor; [unfold is_hex_char; congruence|].
      constructor; [unfold is_hex_char; congruence | exact Hf].
    + intros [He Hf]. inversion Hf as [|a' l' Ha Hf1]; subst.
      inversion Hf1 as [|c' l'' Hc Hf2]; subst.
      destruct (proj2 IH (conj He Hf2)) as [t' Ht'].
      unfold is_hex_char in Ha, Hc.
      destruct (from_hex_char a) as [x|]; [|congruence].
      destruct (from_hex_char c) as [y|]; [|congruence].
      rewrite Ht'. eexists; reflexivity.
Qed.

Lemma hex_enc_inj a b : wf_bytes a -> wf_bytes b -> hex_enc a = hex_enc b -> a = b.
Proof.
  intros Ha Hb H. apply hex_dec_enc in Ha. apply hex_dec_enc in Hb. congruence.
Qed.

(* ---- lists -------------------------------------------------------------------------------- *)

Lemma app_eq_len {A} (x x' y y' : list A) :
  length y = length y' -> x ++ y = x' ++ y' -> x = x' /\ y = y'.
Proof.
  revert x'. induction x as [|h x IH]; intros [|h' x'] Hl H; cbn [app] in H.
  - split; [reflexivity | exact H].
  - apply (f_equal (@length A)) in H. cbn [length] in H. rewrite app_length in H. lia.
  - apply (f_equal (@length A)) in H. cbn [length] in H. rewrite app_length in H. lia.
  - injection H as -> H. destruct (IH x' Hl H) as [-> ->]. split; reflexivity.
Qed.

Lemma strip0x_prefixed t : strip0x (48 :: 120 :: t) = t.
Proof. reflexivity. Qed.

(* ---- address ------------------------------------------------------------------------------ *)

Section WithChecksum.
  Variable checksum : bytes -> bytes.
  Hypothesis ck_len : forall b, length (checksum b) = 4%nat.
  Hypothesis ck_wf : forall b, wf_bytes (checksum b).

  Lemma from_checksum_some s a :
    from_checksum checksum s = Some a ->
    hex_dec (strip0x s) = Some (a ++ checksum a).
  Proof.
    unfold from_checksum. destruct (hex_dec (strip0x s)) as [d|]; [|discriminate].
    destruct (Nat.ltb (length d) checksum_len); [discriminate|].
    destruct (bytes_eqb _ _) eqn:E; [|discriminate].
    intros H. injection H as <-. apply bytes_eqb_eq in E. rewrite <- E, firstn_skipn. reflexivity.
  Qed.

  Lemma from_checksum_intro s a :
    hex_dec (strip0x s) = Some (a ++ checksum a) -> from_checksum checksum s = Some a.
  Proof.
    intros H. unfold from_checksum. rewrite H.
    assert (Hl : length (a ++ checksum a) = (length a + 4)%nat) by (rewrite app_length, ck_len; reflexivity).
    unfold checksum_len. destruct (Nat.ltb_spec (length (a ++ checksum a)) 4) as [|_]; [lia|].
    replace (length (a ++ checksum a) - 4)%nat with (length a + 0)%nat by lia.
    rewrite firstn_app_2, skipn_app, Nat.add_0_r. cbn [firstn].
    rewrite app_nil_r, skipn_all. replace (length a - length a)%nat with 0%nat by lia.
    cbn [skipn app].
    assert (E : bytes_eqb (checksum a) (checksum a) = true) by (apply bytes_eqb_eq; reflexivity).
    rewrite E. reflexivity.
  Qed.

  Lemma parse_address_exact s a :
    parse_address checksum s = Some a <->
    length a = 33%nat /\ wf_bytes a /\ map lower (strip0x s) = hex_enc (a ++ checksum a).
  Proof.
    unfold parse_address. split.
    - destruct (from_checksum checksum s) as [d|] eqn:E; [|discriminate].
      unfold address_len. destruct (Nat.eqb_spec (length d) 33) as [Hl|]; [|discriminate].
      intros H. injection H as <-.
      apply from_checksum_some in E. apply hex_dec_exact in E. destruct E as [E Hwf].
      split; [exact Hl|]. split; [|exact E].
      apply Forall_app in Hwf. exact (proj1 Hwf).
    - intros (Hl & Hwf & E).
      assert (Hd : hex_dec (strip0x s) = Some (a ++ checksum a)).
      { apply hex_dec_iff. split; [exact E|]. apply Forall_app. split; [exact Hwf | apply ck_wf]. }
      rewrite (from_checksum_intro _ _ Hd). unfold address_len.
      destruct (Nat.eqb_spec (length a) 33) as [_|]; [reflexivity | lia].
  Qed.

  Lemma parse_format a :
    length a = 33%nat -> wf_bytes a -> parse_address checksum (format_address checksum a) = Some a.
  Proof.
    intros Hl Hwf. apply parse_address_exact. split; [exact Hl|]. split; [exact Hwf|].
    unfold format_address. cbn [app]. rewrite strip0x_prefixed. apply hex_enc_lower.
  Qed.

  (* a parsed string has exactly one reading *)
  Lemma parse_address_payload s a p c :
    parse_address checksum s = Some a ->
    map lower (strip0x s) = hex_enc (p ++ c) -> wf_bytes (p ++ c) -> length c = 4%nat ->
    p = a /\ c = checksum a.
  Proof.
    intros H E Hwf Hc. apply parse_address_exact in H. destruct H as (Hl & Hwfa & Ea).
    rewrite Ea in E. apply hex_enc_inj in E; [| |exact Hwf].
    - symmetry in E. apply app_eq_len in E; [tauto|]. rewrite ck_len. exact Hc.
    - apply Forall_app. split; [exact Hwfa | apply ck_wf].
  Qed.

  Lemma rejects_wrong_length s p :
    wf_bytes p -> length p <> 33%nat ->
    map lower (strip0x s) = hex_enc (p ++ checksum p) ->
    parse_address checksum s = None.
  Proof.
    intros Hwf Hl E. destruct (parse_address checksum s) as [a|] eqn:H; [|reflexivity].
    exfalso. pose proof H as H'. apply parse_address_exact in H'. destruct H' as (Hla & _ & _).
    destruct (parse_address_payload s a p (checksum p) H E) as [-> _].
    - apply Forall_app. split; [exact Hwf | apply ck_wf].
    - apply ck_len.
    - lia.
  Qed.

  Lemma rejects_bad_checksum s p c :
    wf_bytes (p ++ c) -> length c = 4%nat -> c <> checksum p ->
    map lower (strip0x s) = hex_enc (p ++ c) ->
    parse_address checksum s = None.
  Proof.
    intros Hwf Hc Hne E. destruct (parse_address checksum s) as [a|] eqn:H; [|reflexivity].
    exfalso. destruct (parse_address_payload s a p c H E Hwf Hc) as [-> ->]. apply Hne. reflexivity.
  Qed.

  Lemma rejects_malformed_hex s :
    Nat.even (length (strip0x s)) = false \/ Exists (fun ch => from_hex_char ch = None) (strip0x s) ->
    parse_address checksum s = None.
  Proof.
    intros H. unfold parse_address, from_checksum.
    destruct (hex_dec (strip0x s)) as [d|] eqn:E; [|reflexivity].
    exfalso. destruct (proj1 (hex_dec_some_iff (strip0x s)) (ex_intro _ d E)) as [He Hf].
    destruct H as [H|H]; [congruence|].
    apply Exists_exists in H. destruct H as (ch & Hin & Hch).
    rewrite Forall_forall in Hf. apply (Hf ch Hin). exact Hch.
  Qed.
End WithChecksum.

(* ---- codec/hex.go ------------------------------------------------------------------------- *)

Lemma strip0x_hex_enc b : strip0x (hex_enc b) = hex_enc b.
Proof.
  destruct b as [|x b]; [reflexivity|]. cbn [hex_enc strip0x].
  destruct (N.eqb_spec (hex_digit (x mod 16)) 120) as [E|_]; [|rewrite andb_false_r; reflexivity].
  exfalso. unfold hex_digit in E. pose proof (N.mod_lt x 16 ltac:(lia)).
  destruct (N.ltb_spec (x mod 16) 10); lia.
Qed.

Lemma load_hex_to_hex b : wf_bytes b -> load_hex (to_hex b) None = Some b.
Proof.
  intros Hwf. unfold load_hex, to_hex. rewrite strip0x_hex_enc, (hex_dec_enc b Hwf). reflexivity.
Qed.

Lemma load_hex_exact s e b :
  load_hex s e = Some b <->
  map lower (strip0x s) = hex_enc b /\ wf_bytes b /\
  match e with Some n => N.of_nat (length b) = n | None => True end.
Proof.
  unfold load_hex. split.
  - destruct (hex_dec (strip0x s)) as [d|] eqn:E; [|discriminate].
    apply hex_dec_exact in E. destruct E as [E Hwf].
    destruct e as [n|].
    + destruct (N.eqb_spec (N.of_nat (length d)) n) as [Hn|]; [|discriminate].
      intros H. injection H as <-. tauto.
    + intros H. injection H as <-. tauto.
  - intros (E & Hwf & He).
    rewrite (proj2 (hex_dec_iff _ _) (conj E Hwf)).
    destruct e as [n|]; [|reflexivity].
    destruct (N.eqb_spec (N.of_nat (length b)) n) as [_|]; [reflexivity | contradiction].
Qed.
