(* Theory behind property C01: every conflict-respecting schedule of a block's tasks produces the
   same block diff and per-position results as sequential execution.
   1. effect of one task ([tx_effect]): run_tx st = (bump st P n, o) where (P, n, o) depends on [st]
      only through the values under the task's read-declared keys, and dom P is write-declared;
   2. two tasks whose key maps do not interfere commute;
   3. insertion sort: every conflict-respecting schedule is equivalent to its sorted version;
      a sorted permutation of seq 0 n is seq 0 n; par_exec (seq 0 n) is run_txs. *)
From stdpp Require Import gmap sorting.
From Coq Require Import NArith ZArith Lia.
From HV Require Import Lib.Bytes Lib.U64 Model.Keys Model.Tstate Model.Fees Model.TxStatic Model.Chain Model.ParExec
                       Proofs.Keys_proofs Proofs.Tstate_proofs Proofs.ChainBridge_proofs.
Local Open Scope N_scope.

(* ------------------------------------------------------------------ 0. shape of execute_tx *)

Definition same_env (s s' : view) : Prop :=
  v_ts s' = v_ts s /\ v_base s' = v_base s /\ v_scope s' = v_scope s.

Lemma same_env_refl s : same_env s s.
Proof. repeat split. Qed.

Lemma same_env_trans a b c : same_env a b -> same_env b c -> same_env a c.
Proof. unfold same_env. intros (A1 & A2 & A3) (B1 & B2 & B3). rewrite B1, B2, B3. auto. Qed.

Lemma reach_same_env s s' : reach s s' -> same_env s s'.
Proof. apply reach_env. Qed.

Lemma rollback_same_env s n : same_env s (rollback s n).
Proof. destruct (rollback_spec s n) as (A & B & C & _). repeat split; assumption. Qed.

Lemma run_actions_ok acts s start outs s' ok ec outs' :
  run_actions s start acts outs = (s', ok, ec, outs') -> view_ok s -> same_env s s' /\ view_ok s'.
Proof.
  intros H Hok. destruct (run_actions_shape _ _ _ _ _ _ _ _ H) as [[_ Hr] | [_ [s'' [Hr ->]]]].
  - split; [apply reach_same_env, Hr | eapply reach_view_ok; eassumption].
  - split.
    + eapply same_env_trans; [apply reach_same_env, Hr | apply rollback_same_env].
    + apply rollback_view_ok. eapply reach_view_ok; eassumption.
Qed.

Lemma execute_tx_ok t u f s s' res : execute_tx t u f s = Some (s', res) -> view_ok s ->
  same_env s s' /\ view_ok s'.
Proof.
  unfold execute_tx. intros H Hok.
  assert (Hd : forall s1,
     (if t_morpheus t then
        match sub_balance s (t_sponsor_key t) f with (x, inl _) => Some x | (_, inr _) => None end
      else match get s (t_sponsor_key t) with
           | inl v => match parse_u64 v with
                      | None => None
                      | Some b => if b <? f then None else
                          match insert s (t_sponsor_key t) (be64 (b - f)) with (x, None) => Some x | (_, Some _) => None end
                      end
           | inr _ => None
           end) = Some s1 -> reach s s1).
  { intros s1. destruct (t_morpheus t).
    - pose proof (reach_sub_balance s (t_sponsor_key t) f) as Hr.
      destruct (sub_balance s (t_sponsor_key t) f) as [x [n|e]]; cbn [fst] in Hr; [|discriminate].
      intros E; inversion E; subst. exact Hr.
    - destruct (get s (t_sponsor_key t)) as [v|e]; [|discriminate].
      destruct (parse_u64 v) as [b|]; [|discriminate]. destruct (b <? f); [discriminate|].
      pose proof (reach_insert s (t_sponsor_key t) (be64 (b - f))) as Hr.
      destruct (insert s (t_sponsor_key t) (be64 (b - f))) as [x [e|]]; cbn [fst] in Hr; [discriminate|].
      intros E; inversion E; subst. exact Hr. }
  destruct (if t_morpheus t then _ else _) as [s1|]; [|discriminate H].
  specialize (Hd s1 eq_refl).
  destruct (run_actions s1 (op_index s1) (t_actions t) []) as [[[s2 ok] ec] outs] eqn:E.
  inversion H; subst.
  destruct (run_actions_ok _ _ _ _ _ _ _ _ E (reach_view_ok _ _ Hd Hok)) as [He Hok2].
  split; [eapply same_env_trans; [apply reach_same_env, Hd | exact He] | exact Hok2].
Qed.

(* ------------------------------------------------------------------ 1. effect of one task *)

Definition bump (st : tstate) (P : gmap key (option val)) (n : N) : tstate :=
  mkTS (P ∪ ts_changed st) (ts_ops st + n).

(* what a task publishes: the pending map and op count of its view at Commit, and its outcome *)
Definition tx_effect (r : rules) (fm : manager) (parent : gmap key val) (ts : Z) (st : tstate) (t : tx)
                     (sk : gmap key perm) (u : dims) : gmap key (option val) * N * outcome :=
  let s := new_view st (ScopeKeys sk) (fetch parent sk) in
  match pre_execute r fm t u s ts with
  | (0, f) =>
      match execute_tx t u f s with
      | Some (s', res) => (pending s', op_index s', inl res)
      | None => (∅, 0, inr (if t_morpheus t then subInvalidBalance else subInsufficient))
      end
  | (e, _) => (∅, 0, inr e)
  end.

Lemma bump_nothing st : bump st ∅ 0 = st.
Proof. unfold bump. rewrite (left_id_L ∅ (∪)), N.add_0_r. destruct st; reflexivity. Qed.

Lemma run_tx_effect r fm parent ts st t sk u :
  run_tx r fm parent ts st t sk u =
  let '(P, n, o) := tx_effect r fm parent ts st t sk u in (bump st P n, o).
Proof.
  unfold run_tx, tx_effect.
  destruct (pre_execute r fm t u (new_view st (ScopeKeys sk) (fetch parent sk)) ts) as [e f].
  destruct e as [|e]; [|rewrite bump_nothing; reflexivity].
  destruct (execute_tx t u f (new_view st (ScopeKeys sk) (fetch parent sk))) as [[s' res]|] eqn:E;
    [|rewrite bump_nothing; reflexivity].
  destruct (execute_tx_ok _ _ _ _ _ _ E (view_ok_new _ _ _)) as [(E1 & _ & _) _].
  unfold commit, bump. rewrite E1. reflexivity.
Qed.

(* the block diffs [st1] and [st2] show the same value under every key the task may read *)
Definition same_under (sk : gmap key perm) (base : gmap key val) (st1 st2 : tstate) : Prop :=
  forall k, keys_has sk k pRead = true -> under_of st1 base k = under_of st2 base k.

(* read footprint: the effect depends on the block diff only through the read-declared keys *)
Lemma tx_effect_footprint r fm parent ts st1 st2 t sk u :
  same_under sk (fetch parent sk) st1 st2 ->
  tx_effect r fm parent ts st1 t sk u = tx_effect r fm parent ts st2 t sk u.
Proof.
  intros Hsame. unfold tx_effect.
  assert (Hag : agree (new_view st1 (ScopeKeys sk) (fetch parent sk)) (new_view st2 (ScopeKeys sk) (fetch parent sk))).
  { apply agree_new. intros k Hk. apply Hsame. exact Hk. }
  rewrite (agree_pre_execute r fm t u _ _ ts Hag).
  destruct (pre_execute r fm t u (new_view st2 (ScopeKeys sk) (fetch parent sk)) ts) as [e f].
  destruct e as [|e]; [|reflexivity].
  pose proof (agree_execute_tx t u f _ _ Hag) as H.
  destruct (execute_tx t u f (new_view st1 (ScopeKeys sk) (fetch parent sk))) as [[a ra]|];
  destruct (execute_tx t u f (new_view st2 (ScopeKeys sk) (fetch parent sk))) as [[b rb]|]; try tauto.
  destruct H as [-> Ha]. rewrite (agree_op_index _ _ Ha). destruct Ha as (_ & -> & _). reflexivity.
Qed.

(* write footprint: a task publishes changes only for keys it declared with Write permission *)
Lemma tx_effect_writes r fm parent ts st t sk u P n o k :
  tx_effect r fm parent ts st t sk u = (P, n, o) -> is_Some (P !! k) -> keys_has sk k pWrite = true.
Proof.
  unfold tx_effect. intros H Hk.
  destruct (pre_execute r fm t u (new_view st (ScopeKeys sk) (fetch parent sk)) ts) as [e f].
  assert (Hempty : (∅ : gmap key (option val)) !! k = None) by apply lookup_empty.
  destruct e as [|e]; [|inversion H; subst; rewrite Hempty in Hk; destruct Hk; discriminate].
  destruct (execute_tx t u f (new_view st (ScopeKeys sk) (fetch parent sk))) as [[s' res]|] eqn:E;
    [|inversion H; subst; rewrite Hempty in Hk; destruct Hk; discriminate].
  inversion H; subst.
  destruct (execute_tx_ok _ _ _ _ _ _ E (view_ok_new _ _ _)) as [(_ & _ & E3) Hok].
  destruct (keys_has sk k pWrite) eqn:W; [reflexivity|]. exfalso.
  assert (Hw : scope_has (v_scope s') k pWrite = false) by (rewrite E3; exact W).
  rewrite (not_write_not_pending _ _ Hok Hw) in Hk. destruct Hk; discriminate.
Qed.

(* ------------------------------------------------------------------ 2. non-interference and commutation *)

(* neither task may write a key the other may read *)
Definition nonint (a b : gmap key perm) : Prop :=
  (forall k, keys_has a k pWrite = true -> keys_has b k pRead = false) /\
  (forall k, keys_has b k pWrite = true -> keys_has a k pRead = false).

Lemma nonint_sym a b : nonint a b -> nonint b a.
Proof. intros [H1 H2]. split; assumption. Qed.

Lemma conflict_spec a b : conflict a b = true <->
  exists k p q, a !! k = Some p /\ b !! k = Some q /\ (more_than_read p = true \/ more_than_read q = true).
Proof.
  unfold conflict. rewrite existsb_exists. split.
  - intros [[k p] [Hin H]]. cbn [fst snd] in H.
    apply elem_of_list_In, elem_of_map_to_list in Hin.
    destruct (b !! k) as [q|] eqn:E; [|discriminate H].
    exists k, p, q. split; [exact Hin|]. split; [exact E|]. apply orb_prop in H. exact H.
  - intros (k & p & q & Ha & Hb & H). exists (k, p). split.
    + apply elem_of_list_In, elem_of_map_to_list. exact Ha.
    + cbn [fst snd]. rewrite Hb. destruct H as [-> | ->]; [reflexivity | apply orb_true_r].
Qed.

Lemma exec_conflict_spec a b : exec_conflict a b = true <->
  exists k p q, a !! k = Some p /\ b !! k = Some q /\ (not_read p = true \/ not_read q = true).
Proof.
  unfold exec_conflict. rewrite existsb_exists. split.
  - intros [[k p] [Hin H]]. cbn [fst snd] in H.
    apply elem_of_list_In, elem_of_map_to_list in Hin.
    destruct (b !! k) as [q|] eqn:E; [|discriminate H].
    exists k, p, q. split; [exact Hin|]. split; [exact E|]. apply orb_prop in H. exact H.
  - intros (k & p & q & Ha & Hb & H). exists (k, p). split.
    + apply elem_of_list_In, elem_of_map_to_list. exact Ha.
    + cbn [fst snd]. rewrite Hb. destruct H as [-> | ->]; [reflexivity | apply orb_true_r].
Qed.

Lemma more_than_read_not_read p : more_than_read p = true -> not_read p = true.
Proof. unfold more_than_read, not_read. intros H. apply andb_prop in H. tauto. Qed.

Lemma conflict_exec_conflict a b : conflict a b = true -> exec_conflict a b = true.
Proof.
  rewrite conflict_spec, exec_conflict_spec. intros (k & p & q & Ha & Hb & H).
  exists k, p, q. split; [exact Ha|]. split; [exact Hb|].
  destruct H as [H|H]; [left | right]; apply more_than_read_not_read, H.
Qed.

Lemma keys_has_some m k req : keys_has m k req = true -> req <> 0 ->
  exists p, m !! k = Some p /\ perm_has p req = true.
Proof.
  unfold keys_has. intros H Hreq. destruct (m !! k) as [p|]; cbn [default] in H.
  - exists p. auto.
  - apply perm_has_zero in H. contradiction.
Qed.

Lemma write_more_than_read p : perm_has p pWrite = true -> more_than_read p = true.
Proof.
  intros H. unfold more_than_read.
  destruct (N.eqb_spec p 0) as [->|_]; [vm_compute in H; discriminate H|].
  destruct (N.eqb_spec p pRead) as [->|_]; [vm_compute in H; discriminate H | reflexivity].
Qed.

Lemma conflict_free_nonint a b : conflict a b = false -> nonint a b.
Proof.
  intros Hc. split; intros k Hw; destruct (keys_has _ k pRead) eqn:Hr; try reflexivity; exfalso.
  - destruct (keys_has_some _ _ _ Hw ltac:(discriminate)) as (p & Hp & Hpw).
    destruct (keys_has_some _ _ _ Hr ltac:(discriminate)) as (q & Hq & _).
    assert (H : conflict a b = true).
    { apply conflict_spec. exists k, p, q. split; [exact Hp|]. split; [exact Hq|]. left. apply write_more_than_read, Hpw. }
    congruence.
  - destruct (keys_has_some _ _ _ Hw ltac:(discriminate)) as (q & Hq & Hqw).
    destruct (keys_has_some _ _ _ Hr ltac:(discriminate)) as (p & Hp & _).
    assert (H : conflict a b = true).
    { apply conflict_spec. exists k, p, q. split; [exact Hp|]. split; [exact Hq|]. right. apply write_more_than_read, Hqw. }
    congruence.
Qed.

Lemma keys_has_write_read m k : keys_has m k pWrite = true -> keys_has m k pRead = true.
Proof. unfold keys_has. apply write_has_read. Qed.

(* publishing changes on keys a task cannot read does not change what the task sees *)
Lemma bump_same_under sk base st P n :
  (forall k, is_Some (P !! k) -> keys_has sk k pRead = false) -> same_under sk base st (bump st P n).
Proof.
  intros H k Hk. unfold under_of, bump. cbn [ts_changed].
  destruct (P !! k) as [ov|] eqn:E.
  - rewrite (H k (ex_intro _ ov E)) in Hk. discriminate Hk.
  - rewrite (lookup_union_r _ _ _ E). reflexivity.
Qed.

Lemma bump_commute st PA nA PB nB : PA ##ₘ PB ->
  bump (bump st PA nA) PB nB = bump (bump st PB nB) PA nA.
Proof.
  intros Hd. unfold bump. cbn [ts_changed ts_ops]. f_equal.
  - rewrite !(assoc_L (∪)). f_equal. symmetry. apply map_union_comm. exact Hd.
  - lia.
Qed.

(* (b) two adjacent tasks whose key maps do not interfere commute: same final block-level TState
   (the whole changedKeys map and the op counter), same outcome for each of the two *)
Lemma run_tx_commute r fm parent ts st tA skA uA tB skB uB : nonint skA skB ->
  forall stA oA stAB oB stB oB' stBA oA',
  run_tx r fm parent ts st tA skA uA = (stA, oA) -> run_tx r fm parent ts stA tB skB uB = (stAB, oB) ->
  run_tx r fm parent ts st tB skB uB = (stB, oB') -> run_tx r fm parent ts stB tA skA uA = (stBA, oA') ->
  stAB = stBA /\ oA = oA' /\ oB = oB'.
Proof.
  intros [HAB HBA] stA oA stAB oB stB oB' stBA oA' H1 H2 H3 H4.
  rewrite run_tx_effect in H1. rewrite run_tx_effect in H2. rewrite run_tx_effect in H3. rewrite run_tx_effect in H4.
  destruct (tx_effect r fm parent ts st tA skA uA) as [[PA nA] a] eqn:EA.
  destruct (tx_effect r fm parent ts st tB skB uB) as [[PB nB] b] eqn:EB.
  inversion H1; subst stA oA; clear H1. inversion H3; subst stB oB'; clear H3.
  assert (SA : same_under skB (fetch parent skB) st (bump st PA nA)).
  { apply bump_same_under. intros k Hk. apply HAB. eapply tx_effect_writes; eassumption. }
  assert (SB : same_under skA (fetch parent skA) st (bump st PB nB)).
  { apply bump_same_under. intros k Hk. apply HBA. eapply tx_effect_writes; eassumption. }
  rewrite <- (tx_effect_footprint _ _ _ _ _ _ _ _ _ SA), EB in H2.
  rewrite <- (tx_effect_footprint _ _ _ _ _ _ _ _ _ SB), EA in H4.
  inversion H2; subst; clear H2. inversion H4; subst; clear H4.
  split; [|auto]. apply bump_commute. apply map_disjoint_spec. intros k x y Hx Hy.
  pose proof (tx_effect_writes _ _ _ _ _ _ _ _ _ _ _ k EA (ex_intro _ x Hx)) as WA.
  pose proof (tx_effect_writes _ _ _ _ _ _ _ _ _ _ _ k EB (ex_intro _ y Hy)) as WB.
  apply keys_has_write_read in WB. rewrite (HAB k WA) in WB. discriminate WB.
Qed.

(* ------------------------------------------------------------------ 3. schedules *)

Section Sched.
  Context (r : rules) (fm : manager) (parent : gmap key val) (ts : Z) (ptxs : list ptx).

  Notation pe := (par_exec r fm parent ts).

  (* two schedules are equivalent: from every block-level TState, same final TState and the same
     (position, outcome) pairs up to order *)
  Definition sched_eq (l1 l2 : list nat) : Prop :=
    forall st, fst (pe st ptxs l1) = fst (pe st ptxs l2) /\ snd (pe st ptxs l1) ≡ₚ snd (pe st ptxs l2).

  Lemma sched_eq_refl l : sched_eq l l.
  Proof. intros st. split; reflexivity. Qed.

  Lemma sched_eq_trans l1 l2 l3 : sched_eq l1 l2 -> sched_eq l2 l3 -> sched_eq l1 l3.
  Proof.
    intros H1 H2 st. destruct (H1 st) as [A1 B1], (H2 st) as [A2 B2].
    split; [congruence | etrans; eassumption].
  Qed.

  Lemma sched_eq_cons i l1 l2 : sched_eq l1 l2 -> sched_eq (i :: l1) (i :: l2).
  Proof.
    intros H st. cbn [par_exec]. destruct (ptxs !! i) as [[[t sk] u]|]; [|apply H].
    destruct (run_tx r fm parent ts st t sk u) as [st' o].
    destruct (H st') as [A B].
    destruct (pe st' ptxs l1) as [s1 os1], (pe st' ptxs l2) as [s2 os2]. cbn [fst snd] in *.
    split; [exact A | constructor; exact B].
  Qed.

  Definition nonint_at (i j : nat) : Prop :=
    match ptxs !! i, ptxs !! j with
    | Some a, Some b => nonint (ptx_keys a) (ptx_keys b)
    | _, _ => True
    end.

  Lemma sched_eq_swap i j l : nonint_at i j -> sched_eq (i :: j :: l) (j :: i :: l).
  Proof.
    unfold nonint_at. intros H st. cbn [par_exec].
    destruct (ptxs !! i) as [[[tA skA] uA]|] eqn:Ei; destruct (ptxs !! j) as [[[tB skB] uB]|] eqn:Ej;
      try (split; reflexivity).
    cbn [ptx_keys fst snd] in H.
    destruct (run_tx r fm parent ts st tA skA uA) as [stA oA] eqn:H1.
    destruct (run_tx r fm parent ts stA tB skB uB) as [stAB oB] eqn:H2.
    destruct (run_tx r fm parent ts st tB skB uB) as [stB oB'] eqn:H3.
    destruct (run_tx r fm parent ts stB tA skA uA) as [stBA oA'] eqn:H4.
    destruct (run_tx_commute _ _ _ _ _ _ _ _ _ _ _ H _ _ _ _ _ _ _ _ H1 H2 H3 H4) as (-> & -> & ->).
    destruct (pe stBA ptxs l) as [s os]. cbn [fst snd]. split; [reflexivity | apply perm_swap].
  Qed.

  (* insertion of a position into a schedule sorted by position *)
  Fixpoint ins (i : nat) (l : list nat) : list nat :=
    match l with
    | [] => [i]
    | j :: l' => if Nat.ltb j i then j :: ins i l' else i :: l
    end.
  Definition isort (l : list nat) : list nat := foldr ins [] l.

  Lemma sched_eq_ins i l : (forall j, j ∈ l -> (j < i)%nat -> nonint_at i j) -> sched_eq (i :: l) (ins i l).
  Proof.
    induction l as [|j l IH]; intros H; cbn [ins]; [apply sched_eq_refl|].
    destruct (Nat.ltb_spec j i) as [Hlt|Hge]; [|apply sched_eq_refl].
    eapply sched_eq_trans.
    - apply sched_eq_swap. apply H; [left | exact Hlt].
    - apply sched_eq_cons, IH. intros j' Hj'. apply H. right. exact Hj'.
  Qed.

  Lemma ins_perm i l : ins i l ≡ₚ i :: l.
  Proof.
    induction l as [|j l IH]; cbn [ins]; [reflexivity|].
    destruct (Nat.ltb j i); [|reflexivity]. rewrite IH. apply perm_swap.
  Qed.

  Lemma isort_perm l : isort l ≡ₚ l.
  Proof.
    induction l as [|i l IH]; cbn [isort foldr]; [reflexivity|].
    fold (isort l). rewrite ins_perm, IH. reflexivity.
  Qed.

  Lemma ins_sorted i l : StronglySorted le l -> StronglySorted le (ins i l).
  Proof.
    induction l as [|j l IH]; intros Hs; cbn [ins].
    - repeat constructor.
    - inversion Hs as [|? ? Hs' Hall]; subst.
      destruct (Nat.ltb_spec j i) as [Hlt|Hge].
      + constructor; [apply IH, Hs'|].
        rewrite (ins_perm i l). constructor; [lia | exact Hall].
      + constructor; [exact Hs|]. constructor; [exact Hge|].
        eapply Forall_impl; [exact Hall|]. cbn. intros x Hx. lia.
  Qed.

  Lemma isort_sorted l : StronglySorted le (isort l).
  Proof.
    induction l as [|i l IH]; cbn [isort foldr]; [constructor|]. apply ins_sorted, IH.
  Qed.

  Lemma seq_sorted k n : StronglySorted le (seq k n).
  Proof.
    revert k. induction n as [|n IH]; intros k; cbn [seq]; [constructor|].
    constructor; [apply IH|]. apply Forall_forall. intros x Hx.
    apply elem_of_list_In, in_seq in Hx. lia.
  Qed.

  Lemma isort_seq l n : l ≡ₚ seq 0 n -> isort l = seq 0 n.
  Proof.
    intros Hp. apply (StronglySorted_unique le); [apply isort_sorted | apply seq_sorted|].
    rewrite isort_perm. exact Hp.
  Qed.

  (* recursive form of [respects] w.r.t. non-interference *)
  Fixpoint ni_respects (l : list nat) : Prop :=
    match l with
    | [] => True
    | i :: rest => (forall j, j ∈ rest -> (j < i)%nat -> nonint_at i j) /\ ni_respects rest
    end.

  (* (c) every conflict-respecting schedule is equivalent to the schedule sorted by position *)
  Lemma sched_eq_isort l : ni_respects l -> sched_eq l (isort l).
  Proof.
    induction l as [|i l IH]; intros H; cbn [isort foldr]; [apply sched_eq_refl|].
    fold (isort l). destruct H as [Hi Hl].
    eapply sched_eq_trans; [apply sched_eq_cons, IH, Hl|].
    apply sched_eq_ins. intros j Hj Hlt. apply Hi; [|exact Hlt].
    rewrite <- (isort_perm l). exact Hj.
  Qed.

  Lemma conflict_at_nonint i j : conflict_at conflict ptxs i j = false -> nonint_at i j.
  Proof.
    unfold conflict_at, nonint_at. destruct (ptxs !! i), (ptxs !! j); auto. apply conflict_free_nonint.
  Qed.

  Lemma conflict_at_sym i j : conflict_at conflict ptxs i j = conflict_at conflict ptxs j i.
  Proof.
    unfold conflict_at. destruct (ptxs !! i) as [a|], (ptxs !! j) as [b|]; try reflexivity.
    destruct (conflict (ptx_keys a) (ptx_keys b)) eqn:E1, (conflict (ptx_keys b) (ptx_keys a)) eqn:E2; try reflexivity.
    - apply conflict_spec in E1. destruct E1 as (k & p & q & ? & ? & ?).
      assert (conflict (ptx_keys b) (ptx_keys a) = true) by (apply conflict_spec; exists k, q, p; tauto). congruence.
    - apply conflict_spec in E2. destruct E2 as (k & p & q & ? & ? & ?).
      assert (conflict (ptx_keys a) (ptx_keys b) = true) by (apply conflict_spec; exists k, q, p; tauto). congruence.
  Qed.

  Lemma respects_ni l : respects ptxs l -> ni_respects l.
  Proof.
    induction l as [|i l IH]; intros H; cbn [ni_respects]; [exact I|]. split.
    - intros j Hj Hlt. apply conflict_at_nonint.
      destruct (conflict_at conflict ptxs i j) eqn:E; [|reflexivity]. exfalso.
      apply elem_of_list_lookup in Hj. destruct Hj as [b Hb].
      pose proof (H 0%nat (S b) i j ltac:(lia) eq_refl Hb E). lia.
    - apply IH. intros a b x y Hab Ha Hb Hc. apply (H (S a) (S b) x y); [lia | exact Ha | exact Hb | exact Hc].
  Qed.
End Sched.

(* ------------------------------------------------------------------ 4. the identity schedule is run_txs *)

Lemma omap_ext_in {A B} (f g : A -> option B) (l : list A) :
  (forall x, x ∈ l -> f x = g x) -> omap f l = omap g l.
Proof.
  induction l as [|x l IH]; intros H; [reflexivity|]. cbn [omap list_omap].
  rewrite (H x ltac:(left)), IH; [reflexivity|]. intros y Hy. apply H. right. exact Hy.
Qed.

Lemma outcomes_of_seq (os : list (nat * outcome)) : forall k m, map fst os = seq k m ->
  omap (fun i => outcome_map os !! i) (seq k m) = map snd os.
Proof.
  induction os as [|[i o] os IH]; intros k m H.
  - destruct m; [reflexivity | discriminate H].
  - destruct m as [|m]; [discriminate H|]. cbn [map fst seq] in H. inversion H as [[Hi Hrest]]. subst i.
    cbn [seq omap list_omap map snd]. unfold outcome_map at 1. cbn [list_to_map foldr]. cbn [uncurry curry fst snd Datatypes.uncurry].
    rewrite lookup_insert. f_equal. rewrite <- (IH _ _ Hrest).
    apply omap_ext_in. intros x Hx. apply elem_of_list_In, in_seq in Hx.
    unfold outcome_map. cbn [list_to_map foldr]. cbn [uncurry curry fst snd Datatypes.uncurry].
    apply lookup_insert_ne. lia.
Qed.

Section Identity.
  Context (r : rules) (fm : manager) (parent : gmap key val) (ts : Z) (ptxs : list ptx).

  Lemma par_exec_seq : forall rest k st, drop k ptxs = rest ->
    let '(st1, os) := par_exec r fm parent ts st ptxs (seq k (length rest)) in
    let '(st2, rs, fs) := run_txs r fm parent ts st rest in
    st1 = st2 /\ map fst os = seq k (length rest) /\ oks (map snd os) = rs /\ errs (map snd os) = fs.
  Proof.
    induction rest as [|[[t sk] u] rest IH]; intros k st Hd; cbn [length seq par_exec run_txs].
    - auto.
    - assert (Hk : ptxs !! k = Some (t, sk, u)).
      { pose proof (lookup_drop ptxs k 0) as X. rewrite Hd, Nat.add_0_r in X. symmetry. exact X. }
      assert (Hd' : drop (S k) ptxs = rest).
      { pose proof (eq_trans (eq_sym (drop_S _ _ _ Hk)) Hd) as Y. inversion Y. reflexivity. }
      rewrite Hk. destruct (run_tx r fm parent ts st t sk u) as [st' o].
      specialize (IH (S k) st' Hd').
      destruct (par_exec r fm parent ts st' ptxs (seq (S k) (length rest))) as [st1 os].
      destruct o as [res|e]; destruct (run_txs r fm parent ts st' rest) as [[st2 rs] fs];
        destruct IH as (-> & Hf & <- & <-); cbn [map fst snd]; rewrite Hf; auto.
  Qed.

  (* [run_txs] is the special case sigma = identity *)
  Lemma par_block_identity st :
    par_block r fm parent ts st ptxs (seq 0 (length ptxs)) = run_txs r fm parent ts st ptxs.
  Proof.
    unfold par_block. pose proof (par_exec_seq ptxs 0%nat st eq_refl) as H.
    destruct (par_exec r fm parent ts st ptxs (seq 0 (length ptxs))) as [st1 os].
    destruct (run_txs r fm parent ts st ptxs) as [[st2 rs] fs].
    destruct H as (-> & Hf & <- & <-). unfold outcomes_in_order. rewrite (outcomes_of_seq _ _ _ Hf). reflexivity.
  Qed.

  (* C01, on the task loop: a conflict-respecting permutation of the block's positions produces the
     same block-level TState, the same results in block order and the same task errors as run_txs *)
  Lemma par_block_respects st sigma :
    sigma ≡ₚ seq 0 (length ptxs) -> respects ptxs sigma ->
    par_block r fm parent ts st ptxs sigma = run_txs r fm parent ts st ptxs.
  Proof.
    intros Hp Hr. rewrite <- par_block_identity. unfold par_block.
    pose proof (sched_eq_isort r fm parent ts ptxs sigma (respects_ni _ _ Hr) st) as [H1 H2].
    rewrite (isort_seq _ _ Hp) in H1, H2.
    pose proof (par_exec_seq ptxs 0%nat st eq_refl) as Hid.
    destruct (par_exec r fm parent ts st ptxs sigma) as [st1 os1].
    destruct (par_exec r fm parent ts st ptxs (seq 0 (length ptxs))) as [st2 os2].
    cbn [fst snd] in H1, H2. subst st2.
    destruct (run_txs r fm parent ts st ptxs) as [[st3 rs] fs]. destruct Hid as (_ & Hf & _).
    assert (Hm : outcome_map os1 = outcome_map os2).
    { unfold outcome_map. symmetry. apply list_to_map_proper; [|symmetry; exact H2].
      change (NoDup (map fst os2)). rewrite Hf. apply NoDup_seq. }
    unfold outcomes_in_order. rewrite Hm. reflexivity.
  Qed.
End Identity.

(* a schedule that keeps the executor's (coarser) conflicts in block order keeps ours *)
Lemma respects_exec ptxs sigma : respects_with exec_conflict ptxs sigma -> respects ptxs sigma.
Proof.
  intros H a b i j Hab Ha Hb Hc. apply (H a b i j Hab Ha Hb).
  unfold conflict_at in *. destruct (ptxs !! i), (ptxs !! j); try discriminate Hc.
  apply conflict_exec_conflict, Hc.
Qed.

Lemma respects_b_spec cf ptxs sigma : respects_b cf ptxs sigma = true -> respects_with cf ptxs sigma.
Proof.
  induction sigma as [|x sigma IH]; intros H a b i j Hab Ha Hb Hc.
  - rewrite lookup_nil in Ha. discriminate Ha.
  - cbn [respects_b] in H. apply andb_prop in H. destruct H as [H1 H2].
    destruct a as [|a].
    + cbn in Ha. inversion Ha; subst x. destruct b as [|b]; [lia|]. cbn in Hb.
      rewrite forallb_forall in H1. specialize (H1 j). rewrite Hc in H1. cbn [negb orb] in H1.
      apply Nat.ltb_lt, H1. apply elem_of_list_In. eapply elem_of_list_lookup_2, Hb.
    + destruct b as [|b]; [lia|]. cbn in Ha, Hb. apply (IH H2 a b i j); [lia | exact Ha | exact Hb | exact Hc].
Qed.

(* ------------------------------------------------------------------ 5. whole blocks *)

Lemma prepare_lookup r : forall txs fm ptxs fm', prepare r fm txs = inl (ptxs, fm') ->
  length ptxs = length txs /\
  forall i t sk u, ptxs !! i = Some (t, sk, u) -> txs !! i = Some t /\ state_keys t = Some sk.
Proof.
  induction txs as [|t0 txs IH]; intros fm ptxs fm' H; cbn [prepare] in H.
  - inversion H; subst. split; [reflexivity|]. intros i t sk u Hl. rewrite lookup_nil in Hl. discriminate Hl.
  - destruct (state_keys t0) as [sk0|] eqn:Esk; [|discriminate H].
    destruct (units r t0 sk0) as [u0|]; [|discriminate H].
    destruct (consume fm u0 (r_max_units r)) as [[[|] c] fm1]; [|discriminate H].
    destruct (prepare r fm1 txs) as [[l fm2]|e] eqn:Ep; [|discriminate H].
    inversion H; subst. destruct (IH _ _ _ Ep) as [Hlen Hl]. split; [cbn [length]; rewrite Hlen; reflexivity|].
    intros [|i] t sk u Hi; cbn in Hi |- *.
    + inversion Hi; subst. auto.
    + apply (Hl _ _ _ _ Hi).
Qed.

Lemma respects_block_prepared r fm txs ptxs fm' sigma :
  prepare r fm txs = inl (ptxs, fm') -> respects_block txs sigma -> respects ptxs sigma.
Proof.
  intros Hp H a b i j Hab Ha Hb Hc. apply (H a b i j Hab Ha Hb).
  destruct (prepare_lookup _ _ _ _ _ Hp) as [_ Hl].
  unfold conflict_at, ptx in Hc. unfold tx_conflict_at, tx_keys_at.
  destruct (ptxs !! i) as [[[ti ski] ui]|] eqn:Ei; [|discriminate Hc].
  destruct (ptxs !! j) as [[[tj skj] uj]|] eqn:Ej; [|discriminate Hc].
  destruct (Hl _ _ _ _ Ei) as [-> ->]. destruct (Hl _ _ _ _ Ej) as [-> ->]. exact Hc.
Qed.

(* C01 for Processor.Execute: under any conflict-respecting permutation the block outcome is that
   of sequential execution *)
Lemma execute_block_sched_eq r mk p b sigma :
  sigma ≡ₚ seq 0 (length (b_txs b)) -> respects_block (b_txs b) sigma ->
  execute_block_sched r mk p b sigma = execute_block r mk p b.
Proof.
  intros Hperm Hresp. unfold execute_block_sched, execute_block.
  destruct (b_too_late b); [reflexivity|].
  destruct (is_fail b (mk_height mk)); [reflexivity|].
  destruct (p_height p) as [ph|]; [|reflexivity].
  destruct (negb (b_height b =? ph + 1)); [reflexivity|].
  destruct (is_fail b (mk_ts mk)); [reflexivity|].
  destruct (b_ts b <? Z.of_N (p_ts p) + r_min_gap r)%Z; [reflexivity|].
  destruct ((match b_txs b with [] => true | _ => false end) && (b_ts b <? Z.of_N (p_ts p) + r_min_empty_gap r)%Z); [reflexivity|].
  destruct (is_fail b (mk_fee mk)); [reflexivity|].
  destruct (b_vw_dup b); [reflexivity|].
  destruct (fail_hits b _); [reflexivity|].
  destruct (prepare r _ (b_txs b)) as [[ptxs fm']|e] eqn:Ep; [|reflexivity].
  destruct (prepare_lookup _ _ _ _ _ Ep) as [Hlen _].
  rewrite <- Hlen in Hperm.
  rewrite par_block_respects; [reflexivity | exact Hperm |].
  eapply respects_block_prepared; eassumption.
Qed.

(* units and prices: written by the synchronous loop alone *)
Lemma execute_block_sched_fees r mk p b sigma o :
  execute_block_sched r mk p b sigma = inl o ->
  exists ptxs,
    prepare r (compute_next (p_fee p) (b_ts b) (r_target r) (r_denom r) (r_min_price r)) (b_txs b) = inl (ptxs, o_fee o)
    /\ o_prices o = unit_prices (o_fee o) /\ o_consumed o = units_consumed (o_fee o).
Proof.
  unfold execute_block_sched. intros H.
  destruct (b_too_late b); [discriminate H|].
  destruct (is_fail b (mk_height mk)); [discriminate H|].
  destruct (p_height p) as [ph|]; [|discriminate H].
  destruct (negb (b_height b =? ph + 1)); [discriminate H|].
  destruct (is_fail b (mk_ts mk)); [discriminate H|].
  destruct (b_ts b <? Z.of_N (p_ts p) + r_min_gap r)%Z; [discriminate H|].
  destruct ((match b_txs b with [] => true | _ => false end) && (b_ts b <? Z.of_N (p_ts p) + r_min_empty_gap r)%Z); [discriminate H|].
  destruct (is_fail b (mk_fee mk)); [discriminate H|].
  destruct (b_vw_dup b); [discriminate H|].
  destruct (fail_hits b _); [discriminate H|].
  destruct (prepare r _ (b_txs b)) as [[ptxs fm']|e] eqn:Ep; [|discriminate H].
  destruct (par_block r fm' (p_data p) (b_ts b) ts_new ptxs sigma) as [[st rs] fs].
  destruct fs as [|e1 [|e2 fs]]; try discriminate H.
  destruct (negb (b_root_ok b)); [discriminate H|].
  destruct (negb (forallb t_auth_ok (b_txs b))); [discriminate H|].
  inversion H; subst o. cbn [o_fee o_prices o_consumed]. exists ptxs. auto.
Qed.

Lemma units_schedule_free r mk p1 p2 b s1 s2 o1 o2 :
  p_fee p1 = p_fee p2 ->
  execute_block_sched r mk p1 b s1 = inl o1 -> execute_block_sched r mk p2 b s2 = inl o2 ->
  o_fee o1 = o_fee o2 /\ o_prices o1 = o_prices o2 /\ o_consumed o1 = o_consumed o2.
Proof.
  intros Hf H1 H2.
  destruct (execute_block_sched_fees _ _ _ _ _ _ H1) as (l1 & P1 & A1 & B1).
  destruct (execute_block_sched_fees _ _ _ _ _ _ H2) as (l2 & P2 & A2 & B2).
  rewrite Hf, P2 in P1. inversion P1 as [[Hl Hfee]]. rewrite A1, A2, B1, B2, Hfee. auto.
Qed.

Lemma respects_block_b_spec cf txs sigma : respects_block_b cf txs sigma = true -> respects_block_with cf txs sigma.
Proof.
  induction sigma as [|x sigma IH]; intros H a b i j Hab Ha Hb Hc.
  - rewrite lookup_nil in Ha. discriminate Ha.
  - cbn [respects_block_b] in H. apply andb_prop in H. destruct H as [H1 H2].
    destruct a as [|a].
    + cbn in Ha. inversion Ha; subst x. destruct b as [|b]; [lia|]. cbn in Hb.
      rewrite forallb_forall in H1. specialize (H1 j). rewrite Hc in H1. cbn [negb orb] in H1.
      apply Nat.ltb_lt, H1. apply elem_of_list_In. eapply elem_of_list_lookup_2, Hb.
    + destruct b as [|b]; [lia|]. cbn in Ha, Hb. apply (IH H2 a b i j); [lia | exact Ha | exact Hb | exact Hc].
Qed.

Lemma respects_block_exec txs sigma : respects_block_with exec_conflict txs sigma -> respects_block txs sigma.
Proof.
  intros H a b i j Hab Ha Hb Hc. apply (H a b i j Hab Ha Hb).
  unfold tx_conflict_at in *. destruct (tx_keys_at txs i), (tx_keys_at txs j); try discriminate Hc.
  apply conflict_exec_conflict, Hc.
Qed.

(* (a) footprint of one task, stated on run_tx: if two block diffs show the same values under the
   task's read-declared keys, the task has the same outcome on both and publishes the same changes
   P (and op count n) on top of each; P only has write-declared keys *)
Lemma run_tx_footprint r fm parent ts t sk u st1 st2 :
  (forall k, keys_has sk k pRead = true -> under_of st1 (fetch parent sk) k = under_of st2 (fetch parent sk) k) ->
  exists P n o,
    run_tx r fm parent ts st1 t sk u = (mkTS (P ∪ ts_changed st1) (ts_ops st1 + n), o) /\
    run_tx r fm parent ts st2 t sk u = (mkTS (P ∪ ts_changed st2) (ts_ops st2 + n), o) /\
    (forall k, is_Some (P !! k) -> keys_has sk k pWrite = true).
Proof.
  intros H. rewrite !run_tx_effect. rewrite <- (tx_effect_footprint r fm parent ts st1 st2 t sk u H).
  destruct (tx_effect r fm parent ts st1 t sk u) as [[P n] o] eqn:E.
  exists P, n, o. split; [reflexivity|]. split; [reflexivity|].
  intros k Hk. eapply tx_effect_writes; eassumption.
Qed.

Lemma run_tx_commute_conflict r fm parent ts st tA skA uA tB skB uB : conflict skA skB = false ->
  forall stA oA stAB oB stB oB' stBA oA',
  run_tx r fm parent ts st tA skA uA = (stA, oA) -> run_tx r fm parent ts stA tB skB uB = (stAB, oB) ->
  run_tx r fm parent ts st tB skB uB = (stB, oB') -> run_tx r fm parent ts stB tA skA uA = (stBA, oA') ->
  stAB = stBA /\ oA = oA' /\ oB = oB'.
Proof. intros H. apply run_tx_commute, conflict_free_nonint, H. Qed.

Lemma execute_block_sched_deterministic r mk p b s1 s2 :
  s1 ≡ₚ seq 0 (length (b_txs b)) -> respects_block (b_txs b) s1 ->
  s2 ≡ₚ seq 0 (length (b_txs b)) -> respects_block (b_txs b) s2 ->
  execute_block_sched r mk p b s1 = execute_block_sched r mk p b s2.
Proof. intros P1 R1 P2 R2. rewrite !execute_block_sched_eq by assumption. reflexivity. Qed.

(* commits of tasks that do not conflict with a task are invisible to it: whatever number of such
   tasks commit (before it starts, or between two of its reads), every key it may read shows the same
   value, and it produces the same outcome and publishes the same changes *)
Lemma nonconflicting_commits_invisible r fm parent ts t sk u base : forall (l : list ptx) st,
  (forall p, p ∈ l -> conflict (ptx_keys p) sk = false) ->
  let st' := fst (fst (run_txs r fm parent ts st l)) in
  (forall k, keys_has sk k pRead = true -> under_of st' base k = under_of st base k) /\
  tx_effect r fm parent ts st' t sk u = tx_effect r fm parent ts st t sk u.
Proof.
  assert (Hmain : forall (l : list ptx) st, (forall p, p ∈ l -> conflict (ptx_keys p) sk = false) ->
            forall b, same_under sk b st (fst (fst (run_txs r fm parent ts st l)))).
  { induction l as [|[[t' sk'] u'] l IH]; intros st H b; cbn [run_txs]; [intros k _; reflexivity|].
    pose proof (run_tx_effect r fm parent ts st t' sk' u') as He.
    destruct (tx_effect r fm parent ts st t' sk' u') as [[P n] o] eqn:E.
    assert (Hs : same_under sk b st (bump st P n)).
    { apply bump_same_under. intros k Hk.
      pose proof (tx_effect_writes _ _ _ _ _ _ _ _ _ _ _ k E Hk) as Hw.
      destruct (conflict_free_nonint _ _ (H (t', sk', u') ltac:(left))) as [H1 _]. apply H1. exact Hw. }
    assert (IH' := IH (bump st P n) ltac:(intros; apply H; right; assumption) b).
    destruct (run_tx r fm parent ts st t' sk' u') as [st1 o1]. inversion He; subst st1 o1.
    destruct o as [res|e]; destruct (run_txs r fm parent ts (bump st P n) l) as [[st2 rs] fs]; cbn [fst] in *;
      intros k Hk; rewrite (Hs k Hk); apply IH', Hk. }
  intros l st H st'. split.
  - intros k Hk. symmetry. apply (Hmain l st H base k Hk).
  - symmetry. apply tx_effect_footprint. apply Hmain, H.
Qed.

Lemma nonconflicting_commits_invisible_run_tx r fm parent ts t sk u (l : list ptx) st :
  (forall p, p ∈ l -> conflict (ptx_keys p) sk = false) ->
  let st' := fst (fst (run_txs r fm parent ts st l)) in
  (forall k, keys_has sk k pRead = true ->
     under_of st' (fetch parent sk) k = under_of st (fetch parent sk) k) /\
  snd (run_tx r fm parent ts st' t sk u) = snd (run_tx r fm parent ts st t sk u).
Proof.
  intros H st'. destruct (nonconflicting_commits_invisible r fm parent ts t sk u (fetch parent sk) l st H) as [H1 H2].
  split; [exact H1|]. subst st'. rewrite !run_tx_effect. rewrite H2.
  destruct (tx_effect r fm parent ts st t sk u) as [[P n] o]. reflexivity.
Qed.

(* ------------------------------------------------------------------ 6. commits between the operations of a task *)

Lemma run_app_full h1 : forall s h2,
  run s (h1 ++ h2) = let '(s1, r1) := run s h1 in let '(s2, r2) := run s1 h2 in (s2, r1 ++ r2).
Proof.
  induction h1 as [|x h1 IH]; intros s h2; cbn [app run].
  - destruct (run s h2) as [s2 r2]. reflexivity.
  - destruct (step s x) as [s0 r0]. rewrite IH.
    destruct (run s0 h1) as [s1 r1]. destruct (run s1 h2) as [s2 r2]. reflexivity.
Qed.

Lemma agree_retarget s1 s2 ts' : agree s1 s2 ->
  (forall k, scope_has (v_scope s2) k pRead = true -> under_of ts' (v_base s1) k = under s2 k) ->
  agree (retarget s1 ts') s2.
Proof.
  intros (Hsc & Hp & Ho & Ha & Hw & Hu) H. unfold agree, retarget, under. cbn [v_scope pending ops allocs writes v_ts v_base].
  repeat split; auto. intros k Hk. apply H. rewrite <- Hsc. exact Hk.
Qed.

(* a history of view operations (reads, writes, deletes, rollbacks) that is interrupted at arbitrary
   points by changes of the shared block diff which leave every read-declared key of the view
   untouched returns the same results, and ends with the same pending changes / op log, as the
   uninterrupted history on the original block diff *)
Lemma run_segments_agree : forall segs s1 s2, agree s1 s2 ->
  (forall ts' hs, (ts', hs) ∈ segs ->
     forall k, scope_has (v_scope s2) k pRead = true -> under_of ts' (v_base s1) k = under s2 k) ->
  snd (run_segments s1 segs) = snd (run s2 (concat (map snd segs))) /\
  agree (fst (run_segments s1 segs)) (fst (run s2 (concat (map snd segs)))).
Proof.
  induction segs as [|[ts' hs] segs IH]; intros s1 s2 Hag H; cbn [run_segments map snd concat].
  - cbn. auto.
  - rewrite run_app_full.
    pose proof (agree_retarget s1 s2 ts' Hag (H ts' hs ltac:(left))) as Hag1.
    destruct (agree_run hs _ _ Hag1) as [Hr Hag2].
    destruct (run_env hs (retarget s1 ts')) as (_ & Eb1 & _).
    destruct (run_env hs s2) as (Et2 & Eb2 & Es2).
    destruct (run (retarget s1 ts') hs) as [a ra]. destruct (run s2 hs) as [b rb]. cbn [fst snd] in *. subst rb.
    assert (H' : forall ts'' hs', (ts'', hs') ∈ segs ->
               forall k, scope_has (v_scope b) k pRead = true -> under_of ts'' (v_base a) k = under b k).
    { intros ts'' hs' Hin k Hk. rewrite Eb1. cbn [retarget v_base]. unfold under. rewrite Et2, Eb2.
      apply (H ts'' hs' ltac:(right; exact Hin)). rewrite <- Es2. exact Hk. }
    destruct (IH a b Hag2 H') as [Hr' Hag'].
    destruct (run_segments a segs) as [a' ra']. destruct (run b (concat (map snd segs))) as [b' rb']. cbn [fst snd] in *.
    subst. auto.
Qed.

Lemma run_segments_snapshot_free s segs :
  (forall ts' hs, (ts', hs) ∈ segs ->
     forall k, scope_has (v_scope s) k pRead = true -> under_of ts' (v_base s) k = under s k) ->
  let '(s1, r1) := run_segments s segs in
  let '(s2, r2) := run s (concat (map snd segs)) in
  r1 = r2 /\ pending s1 = pending s2 /\ op_index s1 = op_index s2.
Proof.
  intros H. destruct (run_segments_agree segs s s (agree_refl s) H) as [Hr Hag].
  destruct (run_segments s segs) as [s1 r1]. destruct (run s (concat (map snd segs))) as [s2 r2]. cbn [fst snd] in *.
  split; [exact Hr|]. split; [apply Hag | apply agree_op_index, Hag].
Qed.
